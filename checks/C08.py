"""C08 — forwarder state is reclaimed: PIT entries expire shortly after the latest lifetime or promptly when satisfied
(also entries of Interests answered from the cache), reported sizes are truthful, the PIT/CS name tree holds only nodes on
a path to a live entry, LRU bookkeeping and dead-nonce records drain.  The FIB/RIB part is provided by checks/C08_tables.py.
Proof: coq/PitCs (Props_C08.v): invariants of the model for every history, drain at quiescence.
Correspondence: as C07 (same harness/runner); oracle = Spec.c08_always after every operation and Spec.c08_quiescent after a
quiescent period on the implementation's white-box dump (fw/table/zz_verif_pitcs.go)."""
import importlib.util, os, sys
sys.path.insert(0, os.path.dirname(os.path.abspath(__file__)))
import pitcs_common as pc
import vlib


def run(R):
    pc.run_family(R, "C08", modes=["fw", "mix", "cs", "dnl", "loop"], n_quick=480, n_thorough=12000)
    tp = os.path.join(vlib.VERIF, "checks", "C08_tables.py")
    if os.path.exists(tp):
        try:
            spec = importlib.util.spec_from_file_location("check_C08_tables", tp)
            mod = importlib.util.module_from_spec(spec)
            spec.loader.exec_module(mod)
            mod.part(R)
            R.notes.append("FIB/RIB part (fib_tree_minimal, fib_ht_minimal, rib_minimal) included from checks/C08_tables.py")
        except Exception as e:
            import traceback
            traceback.print_exc()
            R.proof_problems.append("C08 table part (checks/C08_tables.py) crashed: %r" % (e,))
    else:
        R.notes.append("FIB/RIB part of C08 NOT included in this run: checks/C08_tables.py does not exist yet")
    return R.finish()


def replay(R, path):
    return pc.replay(R, "C08", path)
