"""C08, table part — the FIB name tree, the hash-table FIB's real/virtual/virtual-name tables and the RIB tree hold
nothing beyond what their live entries require.  Called by checks/C08.py as  C08_tables.part(R)  (R is C08's Run).
Proof: coq/Tables/Props_C08_tables.v (fib_tree_minimal, fib_ht_minimal, rib_minimal: exact node/entry sets after every
history).  Correspondence: the white-box dumps of harness/tables (every tree node, every real/virtual/virtual-name
entry, every RIB node, after every operation) are compared exactly with the extracted models' node sets, and the
extracted minimality predicates are evaluated on the implementation's own dumps (oracle)."""
import os, sys
sys.path.insert(0, os.path.dirname(os.path.abspath(__file__)))
import vlib
import tables_common as tc

STRUCT = ("nodes", "pfx", "real", "virt", "vn", "rnodes")

def part(R):
    """adds the table part to R (proof, white-box node-set comparison, minimality oracle); does not call R.finish()."""
    for a in tc.ASSUMPTIONS:
        if a not in R.assumptions:
            R.assumptions.append(a)
    tb = R.coverage.setdefault("trusted_base", [])
    for t in tc.TRUSTED:
        if t not in tb:
            tb.append(t)
    R.prove("Tables", props_pid="C08_tables")
    b = tc.build(R)
    if b is None:
        return False
    exe, h = b
    ms = [1, 2, 3] if R.quick else [1, 2, 3, 4, 5, 6]
    ok = True
    dist = {}
    for kind, n, corpus in (("fib", 150 if R.quick else 6000, "C05"), ("rib", 150 if R.quick else 5000, "C06")):
        trace, out = tc.run_harness(R, h, kind, n, R.seed, ms, tc.corpus_files(corpus) + tc.corpus_files("C08_tables"), tag="-" + kind)
        if trace is None:
            tc.harness_abort(R, out, "tables-harness-crash", "the Go tables harness aborted")
            return False
        rc, rout, text = tc.run_runner(exe, trace)
        rep = tc.Report(rout)
        if rep.done is None:
            R.proof_problems.append("tables runner did not finish: " + rout[-300:])
        for l in rep.bad[:3]:
            R.proof_problems.append("tables runner could not parse: " + l[:200])
        tc.count_cases(R, rep, text)
        dist[kind] = dict(ops=tc.op_histogram(text), observations=rep.done)
        # oracle: the implementation's own dump violates minimality
        for it in tc.first_per_case(rep.minimal)[:3]:
            ok = False
            ops = tc.case_ops(text, it["case"], it["op"])
            ops = tc.shrink(R, exe, h, kind, ops, lambda r, lb=it["label"]: any(x["label"] == lb for x in r.minimal), budget=40)
            what = {"T": "FIB name tree keeps nodes/fibPrefixes slots that no live entry requires",
                    "H": "hash-table FIB keeps real/virtual/virtual-name entries (or a stale md) that no live entry requires"}[it["label"]]
            if "stale-next-hop" in it["text"]:
                what = "the FIB holds a next-hop record that no registered route requires at that prefix"
            elif "rnodes=" in it["text"]:
                what = "RIB tree keeps nodes that no route requires"
            R.oracle_failure("tables-minimal:%s:%s" % (kind, it["label"]), what, dict(ops=ops, detail=it["text"][:1500], harness_kind=kind))
        # white-box divergences without a minimality failure
        if not rep.minimal:
            for it in tc.first_per_case([d for d in rep.diverge if d["kind"] in STRUCT])[:3]:
                ok = False
                ops = tc.case_ops(text, it["case"], it["op"])
                R.divergence("tables: node/entry set of the implementation differs from the model (%s %s)" % (it["label"], it["kind"]),
                             dict(ops=ops, detail=it["text"][:1500], harness_kind=kind))
    R.coverage.setdefault("distribution", {})["tables"] = dist
    rule = ("tables part: one evaluation = one generated FIB or RIB history (see C05/C06) with every tree node, real/virtual/virtual-name entry and "
            "RIB node dumped after every operation and compared exactly with the extracted model; minimality predicates evaluated on the dumps")
    R.coverage["rule"] = (R.coverage.get("rule", "") + " | " + rule).strip(" |")
    return ok

def run(R):
    part(R)
    return R.finish()

def replay(R, path):
    import json
    kind = json.load(open(path)).get("harness_kind", "fib")
    return tc.replay(R, path, kind)
