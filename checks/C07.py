"""C07 — the Content Store answers only with matching, fresh-enough Data, within capacity (LRU eviction, bytes of the
latest insert, exact lookups complete).
Proof: coq/PitCs (Props_C07.v): the model of PitCsTree/CsLRU refines the recency-ordered cache of Spec.v for every history.
Correspondence: harness/pitcs drives the real table.PitCsTree through its API and the real fw.Thread Interest/Data
pipeline inside a synctest bubble; runner/PitCs replays every operation on the extracted model (full state dump compared)
and judges every lookup answer and the cache content after every operation with the extracted spec (c_judge, c_same_content)."""
import os, sys
sys.path.insert(0, os.path.dirname(os.path.abspath(__file__)))
import pitcs_common as pc


def run(R):
    pc.run_family(R, "C07", modes=["cs", "mix", "fw", "loop"], n_quick=600, n_thorough=15000)
    return R.finish()


def replay(R, path):
    return pc.replay(R, "C07", path)
