"""C14 — name order, equality, prefix, hash and URI form are mutually consistent.
Proof: coq/Names (Props_C14.v).  Correspondence: harness/names drives std/encoding on generated names/strings;
runner/Names replays every line on the extracted model.  For these pure functions a disagreement on a concrete input is
itself a failing input (the model provably has the property), so it is reported as an oracle failure with the input."""
import os, hashlib
import vlib

def run_trace(R, n, seed, tag=""):
    exe = os.path.join(R.work, "h.test")
    trace = os.path.join(R.work, "trace" + tag)
    env = vlib.goenv(); env.update(VERIF_SEED=str(seed), VERIF_N=str(n), VERIF_OUT=trace)
    rc, out = vlib.sh([exe, "-test.run", "TestTrace", "-test.count=1"], env=env, timeout=1200)
    if rc != 0:
        R.oracle_failure("harness-crash", "the Go harness aborted (panic outside recover?)", dict(output=out[-2000:]))
        return None
    return trace

def run(R):
    R.assumptions += [
        "Coq 8.16.1 kernel; vm_compute used only in the non-vacuity Example",
        "model coq/Names/Model.v is hand-written from std/encoding/name_component.go and name_pattern.go; tied to the code by this run's differential trace",
        "xxhash is an arbitrary function of the bytes fed to the streaming hasher (hash_coherent quantifies over it)",
        "extraction: ExtrOcamlBasic only (bool/option/list/prod/unit/sumbool natives); N, positive, nat, comparison stay Coq datatypes",
        "Go strings are modelled as byte lists; range-over-string rune decoding only matters for ASCII '=' and '/' (UTF-8 continuation bytes are >= 0x80)",
    ]
    R.coverage["trusted_base"] = ["Coq kernel 8.16.1", "Coq extraction + OCaml 4.13.1", "runner/Names/driver.ml", "harness/names generator", "go1.26 toolchain"]
    R.prove("Names")
    if not R.quick:
        R.coqchk("Names", ["Names.Order", "Names.Uri"])
    ok, exe, log = vlib.extract_build("Names")
    if not ok:
        R.proof_problems.append("extraction/OCaml build of the Names model failed"); R.log(log[-1500:]); return R.finish()
    ok, log = vlib.go_test_build("names", os.path.join(R.work, "h.test"))
    if not ok:
        R.proof_problems.append("Go harness for names no longer builds against the tree: " + log[-400:]); R.log(log[-1500:]); return R.finish()
    n = 400 if R.quick else 20000
    trace = run_trace(R, n, R.seed)
    if trace is None:
        return R.finish()
    lines = open(trace, errors="replace").read().split("\n")
    rc, out = vlib.sh(exe, stdin="\n".join(lines), timeout=1200)
    kinds = {}
    distinct = set()
    for l in lines:
        k = l.split(" ", 1)[0]
        if not k: continue
        kinds[k] = kinds.get(k, 0) + 1
        # non-trivial: at least one component or a non-empty string
        body = l.split(" ", 1)[1] if " " in l else ""
        if len(body) > 6:
            distinct.add(hashlib.sha1(l.encode()).hexdigest())
    R.coverage["distribution"] = kinds
    R.coverage["rule"] = ("one evaluation = one implementation call group on a generated input (PAIR: Compare/Equal/IsPrefix on an adversarially close pair; "
                          "BYTES/FROMBYTES; STR/RT/PARSE: URI printing and parsing incl. grammar-mutated strings; HASH: relational hash checks); "
                          "non-trivial = input with at least one component / non-empty string; distinct by SHA-1 of the trace line")
    samples = [l for l in lines if l.startswith(("PAIR", "RT", "PARSE"))][:4]
    R.add_cases(len([l for l in lines if l]), len(distinct), samples)
    if "DONE" not in out:
        R.proof_problems.append("runner did not finish: " + out[-300:])
    for l in out.split("\n"):
        if l.startswith("DIVERGE"):
            parts = l.split(" ", 3)
            ln = int(parts[1]); kind = parts[2]
            src = lines[ln - 1]
            R.oracle_failure("%s:%s" % (kind, hashlib.sha1(src.encode()).hexdigest()[:10]),
                             "implementation disagrees with the proved model on %s" % kind,
                             dict(trace_line=src[:4000], detail=parts[3][:4000],
                                  replay_hint="feed the trace line's input to the named std/encoding function"))
        elif l.startswith("BADLINE"):
            R.proof_problems.append("runner could not parse: " + l[:200])
    return R.finish()
