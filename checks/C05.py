"""C05 — FIB lookup is longest-prefix match under every update history, in both FIB implementations.
Proof: coq/Tables (Props_C05.v): the name-tree model and the hash-table model (every m >= 1) refine a flat map with
longest-prefix match by definition, for every operation history and lookup name; listings exact; root strategy total.
Correspondence: harness/tables drives table.FibStrategy (nametree and hashtable, m in 1..6) on generated histories, after
every operation looks up a universe of nested/sibling names, lists FIB and strategies and dumps every node/entry
(white box); runner/Tables replays on the extracted models (exact comparison incl. next-hop order and node sets) and
evaluates the extracted specification on the implementation's answers (oracle)."""
import os, sys
sys.path.insert(0, os.path.dirname(os.path.abspath(__file__)))
import vlib
import tables_common as tc

STRUCT = ("nodes", "pfx", "virt", "vn")

def run(R):
    R.assumptions += tc.ASSUMPTIONS
    R.coverage["trusted_base"] = tc.TRUSTED
    R.prove("Tables")
    if not R.quick:
        R.coqchk("Tables", ["Tables.FibTree", "Tables.FibHash"])
    b = tc.build(R)
    if b is None:
        return R.finish()
    exe, h = b
    ms = [1, 2, 3] if R.quick else [1, 2, 3, 4, 5, 6]
    n = 300 if R.quick else 20000
    trace, out = tc.run_harness(R, h, "fib", n, R.seed, ms, tc.corpus_files("C05"))
    if trace is None:
        tc.harness_abort(R, out, "harness-crash", "the Go harness aborted")
        return R.finish()
    rc, rout, text = tc.run_runner(exe, trace)
    rep = tc.Report(rout)
    if rep.done is None:
        R.proof_problems.append("runner did not finish: " + rout[-300:])
    for l in rep.bad[:3]:
        R.proof_problems.append("runner could not parse: " + l[:200])
    tc.count_cases(R, rep, text)
    tc.oracle_selftest(R, exe, text)
    R.coverage["rule"] = ("one evaluation = one generated operation history (10..60 ops of ins/rem/clr/sets/uns over a universe of nested and "
                          "sibling prefixes of depth 0..7 sharing a spine, names shorter and longer than m) run on BOTH FIB implementations; "
                          "after every op every universe name is looked up (next hops, strategy), both listings and all nodes/entries are dumped; "
                          "non-trivial = at least 3 op kinds and some lookup differing from the initial table; distinct by MD5 of (m, op list)")
    R.coverage["distribution"] = dict(ops=tc.op_histogram(text), m_values=ms, observations=rep.done)
    def case_has(kind_pred):
        return lambda r: any(kind_pred(x) for x in r.oracle + r.diverge + r.anomaly)
    # oracle failures: the implementation's answer differs from longest-prefix match over the spec map
    for it in tc.first_per_case(rep.oracle)[:3]:
        ops = tc.case_ops(text, it["case"], it["op"])
        ops = tc.shrink(R, exe, h, "fib", ops, lambda r, k=it["kind"], lb=it["label"]: any(x["kind"] == k and x["label"] == lb for x in r.oracle))
        R.oracle_failure("lpm:%s:%s" % (it["label"], it["kind"]),
                         "FIB %s (%s) differs from longest-prefix match over the registered entries" % (it["kind"], "name tree" if it["label"] == "T" else "hash table"),
                         dict(ops=ops, detail=it["text"][:1500]))
    for it in tc.first_per_case(rep.anomaly)[:3]:
        ops = tc.case_ops(text, it["case"], max(it["op"], 1))
        R.oracle_failure("anomaly:" + " ".join(it["text"].split(" ")[3:8]), "implementation-side anomaly: " + it["text"][:300], dict(ops=ops, detail=it["text"][:1500]))
    # model/implementation divergences without a spec failure.  Differences that are purely structural (node sets, side
    # tables) do not touch C05's observables: they are the business of C08 (checks/C08_tables.py) and only noted here.
    if not rep.oracle:
        obs = [d for d in rep.diverge if d["kind"] not in STRUCT]
        for it in tc.first_per_case(obs)[:3]:
            ops = tc.case_ops(text, it["case"], it["op"])
            ops = tc.shrink(R, exe, h, "fib", ops, lambda r, k=it["kind"], lb=it["label"]: any(x["kind"] == k and x["label"] == lb for x in r.diverge), budget=40)
            R.divergence("model of the %s differs from the implementation on %s" % ("name tree" if it["label"] == "T" else "hash table", it["kind"]),
                         dict(ops=ops, detail=it["text"][:1500]))
        struct = [d for d in rep.diverge if d["kind"] in STRUCT]
        if struct:
            R.notes.append("white-box structure differs from the model in %d observation(s) (first: %s); lookups and listings agree; see C08 (tables part)" % (len(struct), struct[0]["text"][:300]))
    return R.finish()

def replay(R, path):
    return tc.replay(R, path, "fib")
