"""C12 — signed packets verify iff untampered; signer and parser cover the same bytes; parameters digest.
Proof: coq/Packet (Props_C12.v; signer facts translated from std/security into GenSigners.v on every run).
Correspondence + oracle (incl. the exhaustive single-bit tamper sweep against the real validators): checks/packet_common.py."""
import os, sys
sys.path.insert(0, os.path.dirname(os.path.abspath(__file__)))
import packet_common

def run(R):
    return packet_common.run(R, "C12")
