"""C01 — Data is delivered exactly to the faces with a matching pending Interest.
Proof: coq/Fw (C01.v, Props_C01.v).  Correspondence + oracle: harness/fwcore drives real fw.Thread objects; runner/Fw replays on
the extracted model and evaluates c01_data_only_pending / c01_data_complete / c01_cs_reply_ok on the recorded sends against
the pending table computed from the history."""
import os, sys
sys.path.insert(0, os.path.dirname(os.path.abspath(__file__)))
import _fw

def run(R):
    return _fw.run(R, "C01", [
        "pending table (spec): maintained from the events plus, per Interest, whether the forwarder took it as pending and under which upstream token "
        "(read from the implementation's PIT dump); `must` = record inside its own lifetime, `may` = record of a group not yet past the largest lifetime "
        "recorded in it at a PIT update; emissions are checked against `may`, completeness against `must`",
    ])

def replay(R, path):
    return _fw.replay(R, path)
