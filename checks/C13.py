"""C13 — every generated TLV model round-trips exactly and matches its generator.
Proof: coq/Codec (Props_C13.v) over a schema-interpreting codec model; the schemas are re-translated from the source on every
run.  Correspondence: harness/codec drives Encode/Parse of every generated type (discovered from the generated sources) by
reflection on type-directed values; runner/Codec replays every line on the extracted model.  Oracle: the round-trip /
announced-length / unknown-element statements evaluated on the implementation's own results; generator identity by
regenerating every zz_generated.go with the checked-in generator and comparing bytes."""
import os, sys, json, hashlib, re
import vlib
sys.path.insert(0, os.path.join(vlib.VERIF, "translators", "codec"))
import codecgen, codec_common as cc


def nontrivial(line):
    """rule: an E/D line whose input is at least 8 bytes long and whose value/result is not the all-absent struct"""
    f = line.split(" ")
    if f[0] == "E":
        return len(f[4]) >= 16 and any(c in f[3] for c in "nbNTLM")
    if f[0] == "D":
        return len(f[5]) >= 16
    return False


def analyse(R, lines, out, what):
    if "DONE" not in out:
        R.proof_problems.append("runner did not finish on %s: %s" % (what, out[-300:]))
    stats = {}
    for l in out.split("\n"):
        if l.startswith("STAT "):
            _, k, v = l.split(" ")
            stats[k] = int(v)
        elif l.startswith("DIVERGE "):
            parts = l.split(" ", 3)
            ln = int(parts[1]); kind = parts[2]
            src = lines[ln - 1]
            f = src.split(" ")
            # a disagreement between the proved model and the implementation on a concrete input: for encode lines and for
            # decode lines it is reported as a correspondence divergence unless an oracle line for the same input exists
            R.divergence("%s on %s (model %s/%s): %s" % (kind, what, f[1], f[2], parts[3][:300]),
                         dict(trace_line=src[:6000], detail=parts[3][:3000]))
        elif l.startswith("ORACLE "):
            parts = l.split(" ", 3)
            ln = int(parts[1]); kind = parts[2]
            src = lines[ln - 1]
            f = src.split(" ")
            pk = R.pkgs[int(f[1])]
            mname = pk["models"][int(f[2])]["name"]
            tag = f[9].split("@")[0] if f[0] == "D" and len(f) > 9 else "enc"
            sig = "%s:%s:%s.%s:%s" % (kind, tag, pk["dir"], mname, f[4] if f[0] == "D" else "")
            R.oracle_failure(sig, "%s: %s of %s.%s: %s" % (kind, tag, pk["dir"], mname, parts[3][:300]),
                             dict(trace_line=src[:6000], detail=parts[3][:3000], package=pk["dir"], model=mname,
                                  replay_hint="bin/check C13 --replay <this file> re-runs the trace line's input on the current tree"))
        elif l.startswith("BADLINE"):
            m = re.match(r"BADLINE (\d+) ", l)
            if m and 0 < int(m.group(1)) <= len(lines) and lines[int(m.group(1)) - 1].startswith("X "):
                continue        # implementation-side failure lines are not for the runner (handled below)
            R.proof_problems.append("runner could not parse: " + l[:200])
    # implementation-side failures (the generated code panicked in Encode, plan inconsistent, ...): concrete inputs
    for l in lines:
        if l.startswith("X "):
            f = l.split(" ")
            rl = l[:6000]
            if len(f) > 4 and f[3] == "encode-panic":
                rl = "E %s %s %s" % (f[1], f[2], f[4])      # replayable: encode this value (wire fields with their buffers) again
            R.oracle_failure("X:%s:%s/%s" % (f[3] if len(f) > 3 else "?", f[1], f[2]), "implementation-side check failed: " + l[:300],
                             dict(trace_line=rl, observed=l[:6000]))
    return stats


def run(R):
    R.assumptions += cc.ASSUMPTIONS
    R.coverage["trusted_base"] = cc.TRUSTED
    pkgs = cc.translate(R)
    if pkgs is None:
        return R.finish()
    R.pkgs = pkgs
    # registry = definitions: every model of the definitions has generated code and vice versa
    for p in pkgs:
        a = [m["name"] for m in p["models"]]
        if a != p["generated_encoders"]:
            R.oracle_failure("REGISTRY:" + p["dir"], "models parsed from the definitions %s differ from the encoders in zz_generated.go %s" % (a, p["generated_encoders"]),
                             dict(package=p["dir"], definitions=a, generated=p["generated_encoders"]))
    cc.prove(R)
    if not R.quick:
        R.coqchk("Codec", ["Codec.SchemasWf", "Codec.Theorems13", "Codec.LengthExact", "Codec.WireThms", "Codec.WirePlan", "Codec.Tmpl", "Codec.Nested"])
    b = cc.build(R, pkgs)
    if b is None:
        return R.finish()
    rexe, hexe = b
    # ---- generator identity (finite direct decision) ----
    gi = codecgen.generator_identity(pkgs, cc.rundir(R))
    cc.drain_notes(R)
    R.coverage["generator_identity"] = {d: (ok, det) for d, ok, det in gi}
    for d, ok, det in gi:
        if not ok:
            R.oracle_failure("GENIDENT:" + d, "checked-in zz_generated.go of %s is not what the checked-in generator produces: %s" % (d, det),
                             dict(package=d, detail=det, replay_hint="cd <repo>/%s && go run ../../cmd/gondn_tlv_gen (or go generate) and git diff" % d))
    R.log("generator identity: %d/%d packages identical" % (sum(1 for _, ok, _ in gi if ok), len(gi)))
    # ---- correspondence + oracle ----
    total = 0; distinct = set(); kinds = {}; samples = []
    runs = []
    corpus = sorted(os.path.join(vlib.VERIF, "corpus", "C13", f) for f in os.listdir(os.path.join(vlib.VERIF, "corpus", "C13"))) \
        if os.path.isdir(os.path.join(vlib.VERIF, "corpus", "C13")) else []
    for i, cf in enumerate(corpus):
        runs.append(("corpus:" + os.path.basename(cf), "TestCorpus", dict(VERIF_OPS=cf)))
    n = 12 if R.quick else 150
    runs.append(("generated", "TestTrace", dict(VERIF_N=str(n), VERIF_ALLPOS="0" if R.quick else "1", VERIF_BIG="1")))
    allstats = {}
    for what, test, env in runs:
        trace = os.path.join(cc.rundir(R), "trace-" + cc.sha(what)[:8])
        rc, o = cc.run_harness(R, hexe, test, trace, env, timeout=3000)
        if rc != 0:
            R.oracle_failure("harness-crash:" + what, "the Go harness aborted on %s (crash outside recover?)" % what, dict(output=o[-3000:]))
            continue
        rc, out, lines = cc.run_runner(R, rexe, trace, timeout=3000)
        st = analyse(R, lines, out, what)
        for k, v in st.items():
            allstats[k] = allstats.get(k, 0) + v
        for l in lines:
            if not l:
                continue
            k = l.split(" ", 1)[0]
            kinds[k] = kinds.get(k, 0) + 1
            if k == "X":
                continue        # reported by analyse()
            total += 1
            if nontrivial(l):
                f = l.split(" ")
                distinct.add(cc.sha(" ".join(f[:6])))
                if len(samples) < 5 and len(l) < 400 and ("ins-" in l or k == "E"):
                    samples.append(l)
        R.log("%s: %d lines, runner stats %s" % (what, len(lines), st))
    R.coverage["distribution"] = dict(lines=kinds, runner=allstats, values_per_model=n)
    R.coverage["rule"] = ("one evaluation = one call group on the real generated code: E = Encoder.Init+Encode of a generated value "
                          "(bytes, announced length, wire plan), D = ParsingContext.Parse of bytes through BufferReader (B) or WireReader on a random "
                          "segmentation (W) with the stated ignoreCritical flag; inputs: zero value + type-directed values (nil/empty/boundary "
                          "252/253/255/256/65535/65536 lengths, nested structs, sequences, maps), round trip of every value, unknown non-critical / critical "
                          "elements inserted at element boundaries; non-trivial = input of >= 8 bytes with at least one present field; distinct by SHA-1 of the input part of the line; "
                          "wire domain (wf_value, extracted from Coq) decides on which values the round-trip statement is demanded")
    R.add_cases(total, len(distinct), samples)
    return R.finish()


def _replay(R, path):
    """re-run the input of a replay file (its trace_line) on the current tree and on the model"""
    body = json.load(open(path))
    line = body.get("trace_line")
    if not line:
        print(json.dumps(body, indent=1)[:3000])
        return 0
    pkgs = cc.translate(R)
    if pkgs is None:
        return R.finish()
    R.pkgs = pkgs
    vlib.coq_make("Codec")
    b = cc.build(R, pkgs)
    if b is None:
        return R.finish()
    rexe, hexe = b
    ops = os.path.join(cc.rundir(R), "replay-ops")
    open(ops, "w").write(line + "\n")
    trace = os.path.join(cc.rundir(R), "replay-trace")
    rc, o = cc.run_harness(R, hexe, "TestCorpus", trace, dict(VERIF_OPS=ops))
    print(o[-2000:])
    if rc != 0:
        R.oracle_failure("harness-crash:replay", "harness aborted", dict(output=o[-3000:]))
        return R.finish()
    rc, out, lines = cc.run_runner(R, rexe, trace)
    print(open(trace).read()[:3000]); print(out[:3000])
    analyse(R, lines, out, "replay")
    R.add_cases(len(lines), 0, [line[:300]])
    return R.finish()


def replay(R, path):
    """replay must not clobber the evidence of the last real run"""
    ev = os.path.join(vlib.EVID, R.pid + ".json")
    old = open(ev, "rb").read() if os.path.exists(ev) else None
    try:
        return _replay(R, path)
    finally:
        if old is not None:
            open(ev, "wb").write(old)
