"""C03 — Interest and Data packets survive encode->decode unchanged for all field values, any segmentation of the bytes
handed to the decoder; standalone name/component encoders agree with the packet encoder.
Proof: coq/Packet (Props_C03.v).  Correspondence + oracle: see checks/packet_common.py."""
import os, sys
sys.path.insert(0, os.path.dirname(os.path.abspath(__file__)))
import packet_common

def run(R):
    return packet_common.run(R, "C03")
