"""C17 — management commands are authorised, act as specified; bad ones are refused safely.

translate : harness/mgmt TestConsts -> coq/Mgmt/GenConsts.v: constants resolved by the Go compiler (exported constants, the fw/face
            hook for link-service overheads, fw.StrategyVersions) and behavioural probes through the real management thread (status
            per module/verb/failure class, modules/verbs/guards, defaults, parameter bounds by bisection); nothing is read from source text
prove     : coq/Mgmt (Model.v executable model, Spec.v decidable property, Proofs.v, Props_C17.v)
correspond: harness/mgmt runs the REAL management thread (Thread.Run on its internal face, commands injected the way a
            forwarding thread does, answers captured from the internal link service) on generated histories;
            runner/Mgmt replays every command on the extracted model and compares response + all tables
oracle    : the extracted Spec predicates are evaluated on the implementation's own observations (tables before/after,
            decoded response, send probe on every face); a failure is shrunk to a minimal history and reported with it.
"""
import hashlib, os, re, shutil
import vlib

FAM = "Mgmt"


_DEF = re.compile(r"^Definition\s+([A-Za-z_][A-Za-z0-9_']*)\s*:", re.M)


def translate(R):
    """Regenerate coq/Mgmt/GenConsts.v from the code under verification: harness/mgmt TestConsts (compiled constants, fw/face hook,
    behavioural probes through the real management thread). Items the run could not produce are kept from GenConsts.reference
    (noted, no alarm: the correspondence run decides)."""
    ref_path = os.path.join(vlib.VERIF, "coq", FAM, "GenConsts.reference")
    ref = open(ref_path).read()
    dst = os.path.join(vlib.COQ, FAM, "GenConsts.v")
    tmp = os.path.join(R.work, "GenConsts.probe.v")
    if os.path.exists(tmp):
        os.remove(tmp)
    exe = os.path.join(R.work, "h.test")
    env = vlib.goenv(); env.update(VERIF_OUT=tmp)
    rc, out = vlib.sh([exe, "-test.run", "TestConsts", "-test.count=1", "-test.timeout", "120s"], env=env, timeout=150)
    if rc != 0 or not os.path.exists(tmp):
        R.notes.append("translator: the constants probe did not complete (%s); reference constants kept; the correspondence run decides" % out.strip()[-200:])
        R.coverage["translation_incomplete"] = ["all (probe run failed)"]
        with vlib.flock("coq-" + FAM):
            vlib.write_if_changed(dst, ref)
        return True
    gen = open(tmp).read()
    have = set(_DEF.findall(gen))
    kept = []
    extra = []
    for line in ref.split("\n"):
        m = _DEF.match(line)
        if m and m.group(1) not in have and m.group(1) != "k_missing_status":
            kept.append(m.group(1))
            extra.append(re.sub(r"\s*\(\*.*\*\)\s*$", "", line) + "   (* kept from GenConsts.reference: not produced by this run *)")
            have.add(m.group(1))
    # identifiers the model uses that neither the probes nor the reference define: placeholders, listed
    model = open(os.path.join(vlib.COQ, FAM, "Model.v")).read()
    missing = sorted(set(t for t in re.findall(r"[A-Za-z_][A-Za-z0-9_']*", model) if "_st_" in t and t not in have))
    for t in missing:
        extra.append("Definition %s : N := 0.   (* MISSING: neither observed nor in the reference *)" % t)
    gen += "\n(* ---- kept from the reference / placeholders ---- *)\n" + "\n".join(extra) + "\n"
    gen += "Definition k_missing_status : list (list N) := [%s].\n" % "; ".join("[" + ";".join(str(ord(ch)) for ch in t) + "]" for t in missing)
    notes = re.findall(r"\(\* NOTE: (.*?) \*\)", gen)
    for nt in notes:
        R.notes.append("translator: " + nt)
    if kept:
        R.notes.append("translator: %d item(s) not located by this run's probes; reference value kept; the correspondence run decides: %s" % (len(kept), ", ".join(kept[:12])))
        R.coverage["translation_incomplete"] = kept
    with vlib.flock("coq-" + FAM):
        changed = vlib.write_if_changed(dst, gen)
    R.log("constants: %s (%d from probes/compiler, %d kept from the reference)" % ("rewritten" if changed else "unchanged", len(_DEF.findall(gen)) - len(kept), len(kept)))
    return True


def run_harness(R, env_extra, out_name, timeout=1500):
    exe = os.path.join(R.work, "h.test")
    trace = os.path.join(R.work, out_name)
    env = vlib.goenv()
    env.update(VERIF_OUT=trace, **{k: str(v) for k, v in env_extra.items()})
    rc, out = vlib.sh([exe, "-test.run", "TestTrace", "-test.count=1", "-test.timeout", "%ds" % timeout], env=env, timeout=timeout + 30)
    return rc, out, trace


def run_runner(runner, trace, timeout=900):
    rc, out = vlib.sh(runner, stdin=open(trace, errors="replace").read(), timeout=timeout)
    return out


def split_cases(lines):
    """-> list of dicts {ops:[...], first:lineno(1-based) of CASE, last:lineno, lines:[(lineno, text)]}"""
    cases, ops, cur = [], [], None
    for i, l in enumerate(lines, 1):
        if l.startswith("# "):
            if cur is not None and cur.get("closed"):
                cur = None
            if cur is None:
                ops.append(l[2:])
            continue
        if l.startswith("CASE "):
            cur = dict(ops=[o for o in ops if not o.startswith("file ")], first=i, lines=[], closed=False)
            ops = []
            cases.append(cur)
        if cur is not None:
            cur["lines"].append((i, l))
            cur["last"] = i
            if l == "END":
                cur["closed"] = True
                cur = None
    return cases


def hexname_words(name_field):
    """module/verb of a CMD name field, as text (for signatures)"""
    words = []
    for c in name_field.split(","):
        if ":" in c:
            t, h = c.split(":", 1)
            try:
                w = bytes.fromhex(h).decode("ascii", "replace")
            except ValueError:
                w = "?"
            words.append(w if t == "8" else t + "=" + w)
    top = "/".join(words[:2])
    mv = "/".join(words[2:4]) if len(words) >= 4 else "/".join(words[2:])
    return top, re.sub(r"[^A-Za-z0-9/_=-]", "?", mv)


def analyse(lines, out):
    """-> (oracle: list of (lineno, which, detail), diverge: list of (lineno, kind, rest), bad: [..], done: bool)"""
    oracle, diverge, bad, done = [], [], [], False
    for l in out.split("\n"):
        if l.startswith("ORACLE "):
            p = l.split(" ", 3)
            oracle.append((int(p[1]), p[2], p[3] if len(p) > 3 else ""))
        elif l.startswith("DIVERGE "):
            p = l.split(" ", 3)
            diverge.append((int(p[1]), p[2], p[3] if len(p) > 3 else ""))
        elif l.startswith("BADLINE") or l.startswith("CONSTS"):
            bad.append(l[:300])
        elif l.startswith("DONE"):
            done = True
    return oracle, diverge, bad, done


def classify_divergence(kind, rest):
    """A divergence that is by itself a failure of mgmt_effect_exact: the tables after the command are not the ones the
    (proved) effect function gives, or accept/reject differs. Other response differences stay plain divergences."""
    if kind.startswith("ref-"):
        return "refmodel"       # the implementation departs from the model with the constants the theorems were proved for
    if kind.startswith("tab-") or kind.startswith("init-"):
        return "effect"
    if kind == "resp":
        m = re.match(r"model=(.*?) impl=(.*)$", rest)
        if m:
            a, b = m.group(1), m.group(2)
            # the same refusal with another code of the same class (4xx / 5xx): the property constrains the class, not the code
            ma, mb = re.match(r"ctl (\d)\d\d (.*)$", a), re.match(r"ctl (\d)\d\d (.*)$", b)
            if ma and mb and ma.group(1) == mb.group(1) and ma.group(1) in "45" and ma.group(2) == mb.group(2):
                return "same-class"
            acc = lambda s: s.startswith("ctl 200 ")
            if acc(a) != acc(b):
                return "effect"
            if acc(a) and acc(b):
                return "effect"     # accepted, but the echoed parameters (what was done) differ from the described effect
            if a.startswith("data ") or b.startswith("data "):
                return "dataset"
    return None


def signature(which, cmdline, detail):
    f = cmdline.split(" ")
    top, mv = hexname_words(f[2]) if len(f) > 2 else ("?", "?")
    d = ""
    if which == "panic":
        d = ":" + re.sub(r"[^A-Za-z_]", "", detail)[:60]
    elif which == "face-unusable":
        d = ":" + re.sub(r"^\d+=", "", detail).split(":")[0]
    elif which == "dataset-unanswered":
        # size class of the table the request reads: a dataset of a small table must be answered; the pinned code gives up
        # only when the encoded dataset exceeds one segment (8000 bytes; every entry takes at least ~10 bytes)
        sizes = dict(kv.split("=") for kv in detail.split(",") if "=" in kv)
        tab = {"rib/list": "rib", "fib/list": "fib", "strategy-choice/list": "strat", "faces/list": "faces"}.get(mv)
        n = int(sizes.get(tab, "0")) if tab else 0
        d = ":entries>=100" if n >= 100 else ":entries<100"
    return "%s:%s:%s%s" % (which, top, mv, d)


def shrink(R, runner, ops, which, budget=40):
    """ddmin over the command lines of a case, keeping the same kind of oracle failure"""
    head = [o for o in ops if not o.startswith("cmd ")]
    cmds = [o for o in ops if o.startswith("cmd ")]
    opsf = os.path.join(R.work, "shrink.ops")

    def fails(sub):
        open(opsf, "w").write("\n".join(head + sub) + "\n")
        rc, out, trace = run_harness(R, dict(VERIF_OPS=opsf), "shrink.trace", timeout=120)
        if rc != 0:
            return False
        o, d, _, _ = analyse([], run_runner(runner, trace, timeout=120))
        kinds = set(w for (_, w, _) in o) | set(classify_divergence(k, r) for (_, k, r) in d) - {"same-class"}
        return which in kinds
    if len(cmds) > 1:
        cmds = vlib.ddmin(cmds, fails, budget=budget)
    return head + cmds


def reference_runner(R):
    """Runner built from the current Model.v/Spec.v but with the REFERENCE constants (coq/Mgmt/GenConsts.reference = the
    translated constants for which every theorem was last proved). Used only to search for a concrete failing input
    when the theorems no longer check against the freshly translated constants."""
    import glob
    ref = os.path.join(vlib.VERIF, "coq", FAM, "GenConsts.reference")
    d = os.path.join(R.work, "refcoq", FAM)
    ml = os.path.join(R.work, "refcoq", "ml")
    shutil.rmtree(os.path.join(R.work, "refcoq"), ignore_errors=True)
    os.makedirs(d); os.makedirs(ml)
    for f in ("Model.v", "Spec.v", "Extract.v"):
        shutil.copy(os.path.join(vlib.VERIF, "coq", FAM, f), d)
    shutil.copy(ref, os.path.join(d, "GenConsts.v"))
    flags = ["-Q", os.path.join(vlib.COQ, "Base"), "Base", "-Q", d, "Mgmt"]
    for f in ("GenConsts.v", "Model.v", "Spec.v"):
        rc, out = vlib.sh(["coqc"] + flags + [os.path.join(d, f)], cwd=d, timeout=600)
        if rc != 0:
            return None, out
    rc, out = vlib.sh(["coqc"] + flags + ["-o", os.path.join(ml, "Extract.vo"), os.path.join(d, "Extract.v")], cwd=ml, timeout=600)
    if rc != 0:
        return None, out
    for dsrc in glob.glob(os.path.join(vlib.VERIF, "runner", FAM, "*.ml")):
        shutil.copy(dsrc, ml)
    rc, order = vlib.sh("ocamlfind ocamldep -sort *.ml *.mli 2>/dev/null || ocamlfind ocamldep -sort *.ml", cwd=ml, timeout=120)
    rc, out = vlib.sh("ocamlfind ocamlopt -w -a -package str,unix -linkpkg %s -o runner" % " ".join(order.split()), cwd=ml, timeout=600)
    if rc != 0:
        return None, out
    return os.path.join(ml, "runner"), ""


def run(R):
    R.assumptions += [
        "Coq 8.16.1 kernel; vm_compute only for facts about the translated constants, refutation witnesses and the non-vacuity Example",
        "coq/Mgmt/Model.v is hand-written from fw/mgmt/*.go (Thread.Run and the six modules); status codes, prefixes, module and verb lists, "
        "defaults and MTU/overhead constants are NOT hand-written: harness/mgmt TestConsts regenerates coq/Mgmt/GenConsts.v from the compiled code and its observed behaviour on every run",
        "a command is abstracted to (incoming face, name components, ControlParameters as decoded by the real mgmt_2022 parser, "
        "attributes of the Uri field computed by the real fw/defn functions, kind of ApplicationParameters); TLV decoding itself is C13/C04's",
        "table.Rib's re-flattening of next hops into the FIB and Rib.CleanUpFace are external functions (Section variables rib_to_fib, "
        "face_cleanup; arbitrary in every theorem; the runner instantiates them with the implementation's observed tables) - they are C06's",
        "faces/create is modelled up to parameter validation; socket/transport creation is outcome RSocket and is not exercised",
        "Component.String() == \"word\" is modelled as: generic component with exactly these bytes (injectivity of the URI form is C14's)",
        "that only local faces can send Interests under /localhost is enforced in fw/fw/thread.go (C09), not in the management thread",
        "extraction: ExtrOcamlBasic only; N, Z, positive, nat stay Coq datatypes",
    ]
    R.coverage["trusted_base"] = ["Coq kernel 8.16.1", "Coq extraction + OCaml 4.13.1", "runner/Mgmt/driver.ml", "harness/mgmt TestConsts (constants probe)",
                                  "harness/mgmt (generator, fake forwarding thread, recording transport hooks)", "go1.26 toolchain"]
    ok, log = vlib.go_test_build("mgmt", os.path.join(R.work, "h.test"))
    if not ok:
        R.proof_problems.append("Go harness harness/mgmt no longer builds against the tree: " + log[-400:])
        R.log(log[-1500:])
        R.coverage["obligations"] += 1
        return R.finish()
    proved = False
    if translate(R):
        proved = R.prove(FAM)
    else:
        R.coverage["obligations"] += 1
    def defs(path):
        d = {}
        for line in open(path).read().split("\n"):
            m = re.match(r"^Definition\s+([A-Za-z_][A-Za-z0-9_']*)\s*:[^=]*:=\s*(.*?)\.\s*(\(\*.*)?$", line)
            if m:
                d[m.group(1)] = re.sub(r"\s+", "", m.group(2))
        return d
    try:
        same = defs(os.path.join(vlib.COQ, FAM, "GenConsts.v")) == defs(os.path.join(vlib.VERIF, "coq", FAM, "GenConsts.reference"))
    except OSError:
        same = False
    R.coverage["translated_constants_equal_reference"] = same
    if not same:
        R.notes.append("translated constants differ from coq/Mgmt/GenConsts.reference (the constants the theorems were last proved for)")
    if not R.quick:
        R.coqchk(FAM, ["Mgmt.Proofs", "Mgmt.Effects"])
    ok, runner, log = vlib.extract_build(FAM)
    if not ok:
        R.proof_problems.append("extraction/OCaml build of the Mgmt model failed")
        R.log(log[-1500:])
        return R.finish()
    n = 250 if R.quick else 20000
    configs = [("nametree", n, True), ("hashtable", 60 if R.quick else 3000, False)]
    reported = {}
    same_class_notes = {}
    kinds, labels, resp_kinds = {}, {}, {}
    distinct = set()
    ncmds = ncases = 0
    samples = []
    per_config = {}
    for (algo, count, with_corpus) in configs:
        env = dict(VERIF_SEED=R.seed, VERIF_N=count, VERIF_FIB=algo)
        if with_corpus:
            env["VERIF_CORPUS"] = os.path.join(vlib.VERIF, "corpus", "C17")
        # A wall-clock limit never decides a verdict: a run that hits it is repeated once with three times the limit, and if that
        # also hits it the configuration is recorded as inconclusive (note), not as a failure. A crash of the harness is a failure.
        limit = 600 if R.quick else 2400
        rc, out, trace = run_harness(R, env, "trace-" + algo, timeout=limit)
        timed_out = lambda rc, out: rc == 124 or "test timed out" in out or "[timeout after" in out
        if rc != 0 and timed_out(rc, out):
            R.notes.append("harness run (%s FIB) hit the %d s wall-clock limit (machine load?); repeated once with %d s" % (algo, limit, 3 * limit))
            rc, out, trace = run_harness(R, env, "trace-" + algo, timeout=3 * limit)
            if rc != 0 and timed_out(rc, out):
                R.notes.append("harness run (%s FIB) hit the wall-clock limit again: this configuration is INCONCLUSIVE in this run (no verdict derived from it)" % algo)
                R.coverage.setdefault("inconclusive", []).append(algo)
                continue
        if rc != 0:
            R.oracle_failure("harness-crash", "the Go harness aborted (a panic outside the management goroutine, or a hang)",
                             dict(output=out[-3000:], fib=algo))
            continue
        lines = open(trace, errors="replace").read().split("\n")
        rout = run_runner(runner, trace)
        oracle, diverge, bad, done = analyse(lines, rout)
        if not done:
            R.proof_problems.append("runner did not finish (%s): %s" % (algo, rout[-300:]))
        for b in bad[:5]:
            R.proof_problems.append("runner: " + b)

        # the theorems do not check against the current constants: search a failing input with the proved (reference) model
        if not proved and not same:
            ref_runner, log = reference_runner(R)
            if ref_runner is None:
                R.log("reference runner could not be built: " + log[-400:])
            else:
                o2, d2, _, _ = analyse(lines, run_runner(ref_runner, trace))
                R.log("reference-model replay (%s): %d divergences" % (algo, len(d2)))
                for (ln, kind, rest) in d2:
                    diverge.append((ln, "ref-" + kind, rest))

        # ---- coverage
        cases = split_cases(lines)
        per_config[algo] = len(cases)
        ncases += len(cases)
        for c in cases:
            ck = set()
            init = None
            changed = False
            for (_, l) in c["lines"]:
                if l.startswith("INIT "):
                    init = l[5:]
                elif l.startswith("TAB ") and init is not None and l[4:] != init:
                    changed = True
                elif l.startswith("CMD "):
                    ncmds += 1
                    top, mv = hexname_words(l.split(" ")[2])
                    ck.add(mv)
                    kinds[mv] = kinds.get(mv, 0) + 1
                elif l.startswith("OBS "):
                    k = " ".join(l.split(" ")[1:3]) if l.startswith("OBS ctl") else l.split(" ")[1]
                    resp_kinds[k] = resp_kinds.get(k, 0) + 1
            for o in c["ops"]:
                if o.startswith("cmd "):
                    f = o.split(" ")
                    for lab in (f[4].split(",")[1:] if len(f) > 4 else []):
                        lab = re.sub(r"=.*", "", lab)
                        labels[lab] = labels.get(lab, 0) + 1
            if len(ck) >= 3 and changed:
                distinct.add(hashlib.sha1((algo + "\n" + "\n".join(c["ops"])).encode()).hexdigest())
        for c in cases[:2]:
            cm = [o for o in c["ops"] if o.startswith("cmd ")]
            samples.append("[%s FIB] history of %d commands, e.g. %s" % (algo, len(cm), "; ".join((o.split(" ")[4] if len(o.split(" ")) > 4 else "?") for o in cm[:4])))

        # ---- failures of this configuration
        def case_of(ln, cases=cases):
            for c in cases:
                if c["first"] <= ln <= c["last"]:
                    return c
            return None
        for (ln, which, detail) in oracle:
            cmdline = lines[ln - 1]
            sig = signature(which, cmdline, detail)
            if sig in reported:
                reported[sig]["count"] += 1
                continue
            reported[sig] = dict(count=1, which=which, detail=detail, cmdline=cmdline, ops=list((case_of(ln) or {}).get("ops", [])), fib=algo)
        for (ln, kind, rest) in diverge:
            cls = classify_divergence(kind, rest)
            cmdline = lines[ln - 1] if lines[ln - 1].startswith("CMD ") else "CMD ? -"
            if cls == "same-class":
                same_class_notes[hexname_words(cmdline.split(" ")[2])[1] if len(cmdline.split(" ")) > 2 else "?"] = rest[:160]
                continue
            if cls is None:
                c = case_of(ln)
                R.divergence("model and implementation disagree on %s at trace line %d (%s FIB): %s" % (kind, ln, algo, rest[:300]),
                             dict(trace_line=cmdline[:2000], ops=(c or {}).get("ops", [])[:80], detail=rest[:2000], fib=algo))
                continue
            sig = signature(cls, cmdline, kind) + ":" + kind
            if sig in reported:
                reported[sig]["count"] += 1
                continue
            reported[sig] = dict(count=1, which=cls, detail=kind + " " + rest, cmdline=cmdline, ops=list((case_of(ln) or {}).get("ops", [])), fib=algo)

    if same_class_notes:
        R.notes.append("status code differs from the model's within the same class (4xx/5xx) - not constrained by the property: " +
                       "; ".join("%s: %s" % kv for kv in list(same_class_notes.items())[:8]))
        R.coverage["status_code_differences_within_class"] = same_class_notes
    top_kinds = dict(sorted(kinds.items(), key=lambda kv: -kv[1])[:40])
    R.coverage["distribution"] = dict(histories=ncases, histories_by_fib_algorithm=per_config, commands=ncmds, commands_by_module_verb=top_kinds,
                                      adversarial_labels=labels, responses=resp_kinds)
    R.coverage["rule"] = ("one evaluation = one generated history (6-25 management Interests plus a final read-back of every dataset) executed on the real "
                          "management thread with all tables compared after every command; non-trivial = at least 3 distinct module/verb kinds and at "
                          "least one table state different from the initial one; distinct by SHA-1 of the history's operation text (and FIB algorithm)")
    R.add_cases(ncases, len(distinct), samples)

    kf = vlib.known_findings(R.pid)
    shrunk = 0
    for sig, info in reported.items():
        ops = info["ops"]
        os.environ["VERIF_FIB"] = info["fib"]
        known = any(rx.search(sig) for rx, _ in kf)
        if ops and not known and shrunk < 4:
            try:
                ops = shrink(R, runner, ops, info["which"], budget=30 if R.quick else 80)
                shrunk += 1
            except Exception as e:  # shrinking is best effort
                R.log("shrink failed: %r" % (e,))
        what = {
            "panic": "a management Interest makes the management goroutine panic (the daemon exits)",
            "hang": "the management thread stops answering",
            "unauthorised": "forwarder state changed for a command that is neither under /localhost/nfd nor an enabled /localhop/nfd RIB command",
            "impure-reject": "tables changed although the command was not answered with status 200",
            "status-class": "a ControlResponse status outside {200, 4xx, 5xx}",
            "dataset": "a status dataset does not list exactly the table contents",
            "dataset-unanswered": "a status dataset request is not answered at all",
            "cs-effect": "after an accepted cs/config the Content Store does not obey the configured capacity (it holds a different number of entries than min(stored, capacity))",
            "wire-numbers": "a ControlParameters / ControlResponse encoded with the NFD management protocol's TLV numbers is read differently by the repository's codec",
            "fib-lookup": "a next-hop lookup (FindNextHopsEnc) of a FIB entry's own name does not return the next hops the table and fib/list report",
            "fib-after-rib": "after an accepted RIB change (register/unregister/face removal) the FIB does not hold the flattened next hops of the new RIB",
            "strategy-table": "an accepted strategy-choice command installed a strategy that no forwarding thread instantiates",
            "mtu-floor": "an accepted face MTU leaves no room for a fragment payload",
            "face-unusable": "after the command a face can no longer send (or its send path panics)",
            "cs-capacity": "an accepted cs/config leaves a negative Content Store capacity",
            "effect": "accepted command's table effect / accept-reject decision differs from the proved effect function",
            "refmodel": "response or table effect differs from the proved model (status code, default value, bound or guard changed in the source)",
        }.get(info["which"], info["which"])
        R.oracle_failure(sig, what + " [" + info["detail"][:300] + "]",
                         dict(command=info["cmdline"][:3000], occurrences=info["count"], ops=ops, fib_algorithm=info["fib"],
                              replay_hint="write the ops lines to a file F and run: VERIF_OPS=F work/C17/h.test -test.run TestTrace (trace in $VERIF_OUT), "
                                          "or bin/check C17 --replay <this file>"))
    return R.finish()


def replay(R, path):
    """bin/check C17 --replay file.json : re-run the recorded history on the current tree and show trace + runner verdicts"""
    import json
    body = json.load(open(path))
    ops = body.get("ops") or body.get("first_divergence", {}).get("ops") or []
    if not ops:
        print("no ops recorded in", path)
        return 2
    ok, runner, log = vlib.extract_build(FAM)
    ok2, log2 = vlib.go_test_build("mgmt", os.path.join(R.work, "h.test"))
    if not (ok and ok2):
        print("build failed")
        return 2
    os.environ["VERIF_FIB"] = body.get("fib_algorithm", "nametree")
    opsf = os.path.join(R.work, "replay.ops")
    open(opsf, "w").write("\n".join(ops) + "\n")
    rc, out, trace = run_harness(R, dict(VERIF_OPS=opsf), "replay.trace", timeout=120)
    print(open(trace).read())
    rout = run_runner(runner, trace)
    print(rout)
    return 1 if ("ORACLE" in rout or "DIVERGE" in rout or rc != 0) else 0
