"""Shared driver for C07 and C08 (family PitCs): one Coq model (coq/PitCs), one Go harness (harness/pitcs), one OCaml
runner (runner/PitCs).  checks/C07.py and checks/C08.py call run_family(R, pid, ...) and keep the oracle lines of their
own property; divergences between model and implementation are reported by both (the model serves both theorems)."""
import hashlib, os, re, shutil, sys
import vlib

FAM = "PitCs"


def build_harness(R):
    h = os.path.join(R.work, "h.test")
    ok, log = vlib.go_test_build("pitcs", h)
    if not ok:
        R.proof_problems.append("Go harness pitcs no longer builds against the tree: " + log[-600:])
        R.log(log[-2000:])
        return None
    return h


def translate(R, h):
    """Measure the model's constants on the running code (TestProbeConsts, virtual time) and regenerate coq/PitCs/GenConsts.v
    (write-if-changed).  Items that cannot be measured keep the committed reference value: a note, not an alarm."""
    out = os.path.join(vlib.COQ, FAM, "GenConsts.v")
    probe = os.path.join(R.work, "probe-consts.txt")
    if os.path.exists(probe):
        os.remove(probe)
    if h is not None:
        env = vlib.goenv(); env.update(VERIF_OUT=probe)
        rc, o = vlib.sh([h, "-test.run", "TestProbeConsts", "-test.count=1", "-test.timeout=0"], env=env, timeout=3600, cwd=R.work)   # failure = NOTE only
        if rc != 0:
            R.notes.append("translator: the constants probe aborted (%s); reference values kept; the correspondence run decides" % o.strip()[-200:])
    rc, o = vlib.sh([sys.executable, os.path.join(vlib.VERIF, "translators", "pitcs", "consts.py"), probe, out], timeout=60)
    R.coverage.setdefault("translated", {})["coq/PitCs/GenConsts.v"] = o.strip()[:400]
    inc = [l.split(" ", 2)[1:] for l in o.split("\n") if l.startswith("INCOMPLETE ")]
    if inc:
        R.coverage.setdefault("translation_incomplete", []).extend(["PitCs:" + x[0] for x in inc])
        for x in inc:
            R.notes.append("translator: %s not measurable on this tree (%s); reference value kept; the correspondence run decides" % (x[0], x[1] if len(x) > 1 else ""))
    if rc != 0:
        R.proof_problems.append("no value for a PitCs constant: " + o.strip()[:300])
        return False
    return True


def build_runner(R):
    ok, exe, log = vlib.extract_build(FAM)
    if not ok:
        R.proof_problems.append("extraction/OCaml build of the PitCs model failed")
        R.log(log[-2000:])
        return None
    # private copy of the runner: another check of the family may rebuild work/PitCs/ml concurrently
    exe2 = os.path.join(R.work, "runner")
    for attempt in range(3):
        try:
            shutil.copy(exe, exe2)
            break
        except OSError:
            ok, exe, log = vlib.extract_build(FAM)
            if not ok:
                R.proof_problems.append("extraction/OCaml build of the PitCs model failed")
                return None
    return exe2


def build(R):
    h = build_harness(R)
    if h is None:
        return None, None
    exe = build_runner(R)
    if exe is None:
        return None, None
    return h, exe


def run_harness(R, h, n, seed, mode, tag, ops_file=None, corpus=None):
    trace = os.path.join(R.work, "trace-" + tag)
    env = vlib.goenv()
    env.update(VERIF_SEED=str(seed), VERIF_N=str(n), VERIF_OUT=trace, VERIF_MODE=mode)
    env.pop("VERIF_OPS", None); env.pop("VERIF_CORPUS", None)
    if ops_file:
        env["VERIF_OPS"] = ops_file
    if corpus:
        env["VERIF_CORPUS"] = corpus
    # No wall-clock limit decides a verdict: the Go test timeout is off and the outer limit is a last-resort safety net whose
    # expiry is only a NOTE.  A hang of the code under test is proven by state inside the harness (operation counter stuck while
    # the process burns CPU: exit status 3 and <trace>.hang with the history), see pitcs_test.go startWatchdog.
    if os.path.exists(trace + ".hang"):
        os.remove(trace + ".hang")
    rc, out = vlib.sh([h, "-test.run", "TestTrace", "-test.count=1", "-test.timeout=0"], env=env, timeout=14400, cwd=R.work)
    if rc != 0:
        if rc == 3 and os.path.exists(trace + ".hang"):
            return None, "HANG-PROVEN\n" + open(trace + ".hang", errors="replace").read()[:6000]
        if rc == 124:
            return None, "WALL-LIMIT the harness did not finish within the safety limit (machine load?)"
        return None, out
    return trace, out


def run_runner(exe, trace):
    rc, out = vlib.sh("%s < %s" % (exe, trace), timeout=14400)     # the model is total: only slowness can hit this safety net
    return rc, out


def split_cases(trace):
    """-> list of dicts {id, src, gen: [harness-level op lines], kinds: set, nops, nontrivial-obs}"""
    cases = []
    cur = None
    for l in open(trace, errors="replace"):
        l = l.rstrip("\n")
        if l.startswith("case "):
            p = l.split(" ")
            cur = dict(id=p[1], src=p[2] if len(p) > 2 else "", gen=[], kinds=set(), nops=0, changed=False, first_st=None)
            cases.append(cur)
        elif cur is None:
            continue
        elif l.startswith("gen "):
            cur["gen"].append(l[4:])
            k = l.split(" ")[1]
            if k != "cfg":
                cur["kinds"].add(k)
        elif l.startswith("op "):
            cur["nops"] += 1
        elif l.startswith("obs st "):
            if cur["first_st"] is None:
                cur["first_st"] = l
            elif l != cur["first_st"]:
                cur["changed"] = True
    return cases


def write_ops(path, gen_lines):
    open(path, "w").write("\n".join(gen_lines) + "\n")


def shrink(R, h, exe, case, pid, sig_prefix, tag):
    """ddmin the harness-level operations of a failing case while the same oracle signature (prefix) is reported."""
    cfg = [g for g in case["gen"] if g.startswith("cfg ")]
    ops = [g for g in case["gen"] if not g.startswith("cfg ")]
    if not cfg:
        return case["gen"]
    counter = [0]

    def fails(sub):
        counter[0] += 1
        p = os.path.join(R.work, "shrink-%s-%d.ops" % (tag, counter[0] % 4))
        write_ops(p, cfg + list(sub))
        tr, out = run_harness(R, h, 0, 1, "all", "shrink-" + tag, ops_file=p)
        if tr is None:
            return False
        rc, o = run_runner(exe, tr)
        for l in o.split("\n"):
            if l.startswith("ORACLE " + pid + " "):
                f = l.split(" ", 5)
                if len(f) > 4 and f[4].startswith(sig_prefix):
                    return True
        return False

    if not fails(ops):
        return case["gen"]
    small = vlib.ddmin(ops, fails, budget=60 if R.quick else 200)
    return cfg + small


def run_family(R, pid, modes, n_quick, n_thorough):
    """Proves, builds, runs corpus + generated cases, reports.  Returns the runner's parsed output for extra checks."""
    other = "C08" if pid == "C07" else "C07"
    R.assumptions += [
        "Coq 8.16.1 kernel; vm_compute only in non-vacuity Examples",
        "coq/PitCs/Model.v is a hand-written model of fw/table/{pit-cs-tree,pit-cs,cs-lru,dead-nonce-list,init}.go and of the PIT/CS part of "
        "fw/fw/thread.go (processIncomingInterest from the dead-nonce test on, processIncomingData, finalizeInterest) and strategy.go SendData; "
        "it is tied to the code by this run's differential trace (state dump after every operation)",
        "tables keyed by a 64-bit hash (tree children, csMap, LRU locations, DNL) are modelled as keyed by the name / (name, nonce): "
        "hash-collision freedom on the generated universe is assumed and checked by the harness at start-up for components",
        "the faces the strategy forwards an Interest to are an input of the model step (theorems quantify over every choice); the harness supplies what the implementation did",
        "Go map iteration order in findMatchingDataCSPrefix is arbitrary: the model gives the set of admissible answers (Tree.v proves every visiting order answers inside it)",
        "time is the virtual clock of testing/synctest (go1.26); the forwarding thread's select loop is emulated by the harness, serving the PIT update signal and the DNL ticker at the instant they become ready",
        "extraction: ExtrOcamlBasic only; N, Z, positive, nat stay Coq datatypes",
    ]
    R.coverage["trusted_base"] = ["Coq kernel 8.16.1", "harness/pitcs TestProbeConsts + translators/pitcs/consts.py (constants measured on the running code)", "Coq extraction + OCaml 4.13.1", "runner/PitCs/driver.ml", "harness/pitcs generator and event loop",
                                  "go1.26 toolchain incl. testing/synctest", "verif hooks fw/table/zz_verif_pitcs.go, fw/fw/zz_verif_pitcs.go"]
    h = build_harness(R)
    translate(R, h)
    R.prove(FAM)
    if not R.quick:
        R.coqchk(FAM, ["PitCs.Props_" + pid] if os.path.exists(os.path.join(vlib.COQ, FAM, "Props_%s.vo" % pid)) else ["PitCs.Model"])
    if h is None:
        return None
    exe = build_runner(R)
    if exe is None:
        return None
    corpus_dir = os.path.join(R.work, "corpus")
    shutil.rmtree(corpus_dir, ignore_errors=True)
    os.makedirs(corpus_dir)
    for d in ("C07", "C08"):
        src = os.path.join(vlib.VERIF, "corpus", d)
        if os.path.isdir(src):
            for f in sorted(os.listdir(src)):
                if f.endswith(".ops"):
                    shutil.copy(os.path.join(src, f), os.path.join(corpus_dir, d + "-" + f))
    n = n_quick if R.quick else n_thorough
    totals = dict(cases=0, ops=0, nontrivial=set(), kinds={}, modes={}, stats={})
    results = []
    first = True
    for mode in modes:
        per = max(1, n // len(modes))
        if mode == "dnl":
            per = max(1, per // 6)       # long histories (110-270 Interests each)
        tr, out = run_harness(R, h, per, R.seed * 1000 + len(results), mode, mode, corpus=corpus_dir if first else None)
        first = False
        if tr is None:
            if out.startswith("WALL-LIMIT"):
                R.notes.append("mode %s: %s; no verdict from this mode" % (mode, out))
                R.coverage.setdefault("incomplete_modes", []).append(mode)
            elif out.startswith("HANG-PROVEN"):
                hist = [l for l in out.split("--- stacks ---")[0].split("\n")[2:] if l.strip()]
                R.oracle_failure("hang-proven:" + mode, "one operation of the implementation never finished while consuming CPU (proven by state: operation counter stuck, > 20 s CPU burnt)",
                                 dict(mode=mode, seed=R.seed, ops=hist, stacks=out.split("--- stacks ---")[-1][:3000]))
            else:
                R.oracle_failure("harness-crash:" + mode, "the Go harness aborted (panic in the implementation outside an operation, or the runtime proved a deadlock in the bubble)",
                                 dict(output=out[-3000:], mode=mode, seed=R.seed))
            continue
        rc, o = run_runner(exe, tr)
        cases = split_cases(tr)
        bycase = {c["id"]: c for c in cases}
        totals["cases"] += len(cases)
        totals["modes"][mode] = totals["modes"].get(mode, 0) + len(cases)
        for c in cases:
            totals["ops"] += c["nops"]
            for k in c["kinds"]:
                totals["kinds"][k] = totals["kinds"].get(k, 0) + 1
            if len(c["kinds"]) >= 3 and c["changed"]:
                totals["nontrivial"].add(hashlib.sha1("\n".join(c["gen"]).encode()).hexdigest())
        if "DONE" not in o:
            if rc == 124:
                R.notes.append("mode %s: the runner did not finish within the safety limit (machine load?); no verdict from this mode" % mode)
                R.coverage.setdefault("incomplete_modes", []).append(mode)
                continue
            R.proof_problems.append("runner did not finish on mode %s: %s" % (mode, o[-300:]))
        seen = set()
        for l in o.split("\n"):
            if l.startswith("ORACLE " + pid + " "):
                f = l.split(" ", 5)
                cid, gi, sig = f[2], f[3], f[4]
                detail = f[5] if len(f) > 5 else ""
                if (sig,) in seen:
                    continue
                seen.add((sig,))
                c = bycase.get(cid)
                gen = c["gen"] if c else []
                if c and len(seen) <= 4:
                    gen = shrink(R, h, exe, c, pid, sig, "%s-%s" % (mode, len(seen)))
                R.oracle_failure(sig, "implementation violates the %s specification (%s): %s" % (pid, sig, detail[:300]),
                                 dict(mode=mode, case=cid, source=c["src"] if c else "?", detail=detail[:2000], ops=gen,
                                      replay_hint="save `ops` (one per line) to a file and run the harness with VERIF_OPS=<file>, then the runner on its trace"))
            elif l.startswith("DIVERGE "):
                f = l.split(" ", 3)
                c = bycase.get(f[1])
                if ("div",) in seen:
                    continue
                seen.add(("div",))
                R.divergence("model and implementation disagree (%s case %s): %s" % (mode, f[1], (f[3] if len(f) > 3 else "")[:400]),
                             dict(mode=mode, case=f[1], gen_index=f[2], detail=(f[3] if len(f) > 3 else "")[:3000], ops=c["gen"] if c else []))
            elif l.startswith("STAT "):
                f = l.split(" ")
                totals["stats"][f[1]] = totals["stats"].get(f[1], 0) + int(f[2])
            elif l.startswith("BADLINE"):
                R.proof_problems.append("runner could not parse: " + l[:200])
        results.append((mode, tr, o))
    R.coverage["distribution"] = dict(cases_per_mode=totals["modes"], cases_containing_op_kind=totals["kinds"], model_level_ops=totals["ops"],
                                     outcomes=dict(sorted(totals["stats"].items())))
    R.coverage["rule"] = ("one evaluation = one generated history (10-60 harness-level operations over a shared-prefix universe of <= 40 names, capacity 0..8 or 1024, "
                          "then a quiescent period) executed on the real PitCsTree / fw.Thread with a white-box dump after every operation; "
                          "non-trivial = at least 3 different operation kinds and a dump that differs from the initial one; distinct by SHA-1 of the operation list")
    samples = []
    for mode, tr, o in results[:2]:
        cs = split_cases(tr)
        if cs:
            samples.append("%s: %s" % (mode, " ; ".join(cs[-1]["gen"][:8])))
    R.add_cases(totals["cases"], len(totals["nontrivial"]), samples)
    return results


def replay(R, pid, path):
    """bin/check Cxx --replay <file>: rebuild harness and runner from the current tree and re-run exactly the recorded ops."""
    import json
    rj = json.load(open(path))
    ops = rj.get("ops") or (rj.get("first_divergence") or {}).get("ops")
    if not ops:
        print("replay file has no operation list (kind=%s): %s" % (rj.get("kind"), json.dumps(rj)[:1500]))
        return 2
    h, exe = build(R)
    if h is None:
        return R.finish()
    p = os.path.join(R.work, "replay.ops")
    write_ops(p, ops)
    tr, out = run_harness(R, h, 0, 1, "all", "replay", ops_file=p)
    if tr is None:
        print("harness aborted:\n" + out[-3000:])
        return 1
    rc, o = run_runner(exe, tr)
    print("operations:")
    for l in ops:
        print("   ", l)
    bad = [l for l in o.split("\n") if l.startswith(("ORACLE " + pid, "DIVERGE"))]
    seen = set()
    for l in bad:
        k = " ".join(l.split(" ")[:5])
        if k in seen:
            continue
        seen.add(k)
        print(l[:600])
    print("trace: %s" % tr)
    print("REPLAY %s: %s" % (pid, "property violated / model diverges" if bad else "no violation on the current tree"))
    return 1 if bad else 0
