"""C16 — shared tables tolerate concurrent updates, teardown and lookups (partial by nature).
Proof side: coq/Tables/Props_C16.v — abstract lock semantics (guarded_race_free, no_deadlock, guarded_linearizable) and
the instance lockfacts_ok computed over coq/Tables/GenLockFacts.v, which translators/tables/lockfacts regenerates from the
current fw/table and fw/face sources on every run (go/ast, conservative).
Search side: harness/conc built with -race: 2..16 goroutines issue RIB / FIB / strategy / face-teardown operations and
lookups against both FIB implementations; a race report, runtime abort, panic or watchdog timeout is a failing schedule;
recorded invocation/response histories are checked by runner/Tables (mode conc) for a sequential order that respects
real time, reproduces every lookup result on the sequential C05/C06 model and ends in the observed final tables."""
import hashlib, json, os, re, sys
sys.path.insert(0, os.path.dirname(os.path.abspath(__file__)))
import vlib
import tables_common as tc


# entry points of the shared tables that harness/conc drives (stress, forced interleavings, face, lifecycle, readvertise,
# listing, big and unset-race rounds): only for these may an unclassified lock discipline degrade to a note
EXERCISED = {
    "RibTable.AddEncRoute", "RibTable.RemoveRouteEnc", "RibTable.CleanUpFace", "RibTable.GetAllEntries",
    "Table.Add", "Table.Remove", "Table.Get", "Table.GetAll",
    "NlsrReadvertiser.Announce", "NlsrReadvertiser.Withdraw",
}
for _t in ("FibStrategyTree", "FibStrategyHashTable"):
    for _m in ("FindNextHopsEnc", "FindStrategyEnc", "InsertNextHopEnc", "RemoveNextHopEnc", "ReplaceNextHopsEnc",
               "SetStrategyEnc", "UnSetStrategyEnc", "GetAllFIBEntries", "GetAllForwardingStrategies"):
        EXERCISED.add(_t + "." + _m)


def translate(R):
    """regenerate coq/Tables/GenLockFacts.v from the current tree (written only if changed)"""
    src = os.path.join(vlib.VERIF, "translators", "tables", "lockfacts")
    exe = os.path.join(R.work, "lockfacts")
    with vlib.flock("go-lockfacts"):
        rc, out = vlib.sh([vlib.GO, "build", "-o", exe, "."], cwd=src, env=vlib.goenv(), timeout=600)
    if rc != 0:
        R.proof_problems.append("lockfacts translator does not build: " + out[-300:])
        return False
    rc, out = vlib.sh([exe, vlib.REPO], timeout=120)
    if rc != 0 or "Definition gen_facts" not in out:
        R.proof_problems.append("lockfacts translator failed on the current tree: " + out[-300:])
        return False
    # methods the translator could not classify (they take a lock through something it does not follow): keep the
    # reference fact (the committed GenLockFacts.v), say so, and let the race / forced-interleaving runs decide
    # (docs/ROBUST_TRANSLATORS.md rule 2).  A method positively seen to access table state outside its lock is not in this list.
    gen = os.path.join(vlib.COQ, "Tables", "GenLockFacts.v")
    unclear = re.findall(r"\(\* UNCLASSIFIED (\S+):", out)
    if unclear:
        ref = open(os.path.join(vlib.VERIF, "coq", "Tables", "GenLockFacts.v")).read()
        kept, assumed, not_exercised = [], [], []
        for name in unclear:
            m_new = re.search(r'^  mkfact (\d+) "%s" (\S+(?: \S+)?) (true|false) (true|false) (\[[^\]]*\]) (true|false)(;?)$' % re.escape(name), out, re.M)
            if name not in EXERCISED or not m_new:
                # nothing dynamic stands in for the missing classification: stays a proof problem (the fact keeps bracket None)
                not_exercised.append(name)
                continue
            m_ref = re.search(r'^  mkfact \d+ "%s" .*$' % re.escape(name), ref, re.M)
            if m_ref:
                line = m_ref.group(0).rstrip(";") + m_new.group(7)
                kept.append(name)
            else:
                # no reference (a new method): assumed bracketed by its table's mutex in write mode; the dynamic rounds decide
                line = '  mkfact %s "%s" (Some (%s, true)) true true %s %s%s' % (m_new.group(1), name, m_new.group(1), m_new.group(5), m_new.group(6), m_new.group(7))
                assumed.append(name)
            out = out.replace(m_new.group(0), line)
        R.coverage["translation_incomplete"] = dict(reference_kept=kept, assumed_guarded=assumed, unclassified_and_not_exercised=not_exercised)
        if kept or assumed:
            R.notes.append("translator: lock discipline of %s not classified from the source (lock taken through a construct the AST analysis does not follow); "
                           "these entry points are driven by the race-detector, forced-interleaving and linearizability rounds, which decide" % ", ".join(kept + assumed))
        for name in not_exercised:
            R.proof_problems.append("lock discipline of %s could not be classified and no round of harness/conc drives it" % name)
    with vlib.flock("coq-Tables"):
        changed = vlib.write_if_changed(gen, out)
    R.coverage["lockfacts"] = dict(methods=out.count("mkfact "), regenerated=changed,
                                   unbracketed=[m for m in re.findall(r'mkfact \d+ "([^"]+)" None (?:true|false) (?:true|false)', out)],
                                   aliasing=[m for m in re.findall(r'mkfact \d+ "([^"]+)" \S+(?: \S+)? (?:true|false) (?:true|false) \[[^\]]*\] true', out)])
    return True


def race_signature(block):
    frames = re.findall(r"^\s+github\.com/named-data/ndnd/(fw/\S+)\(\)", block, re.M)
    seen = []
    for f in frames:
        f = f.split("/")[-1]
        if f not in seen:
            seen.append(f)
    return "race:" + "|".join(seen[:3])


def stress(R, exe, seed, seconds, rounds, record=300, tag=""):
    trace = os.path.join(R.work, "conc-trace%s-%d" % (tag, os.getpid()))
    env = vlib.goenv()
    env.update(VERIF_SEED=str(seed), VERIF_N=str(rounds), VERIF_SECONDS=str(seconds), VERIF_RECORD=str(record), VERIF_OUT=trace,
               GORACE="halt_on_error=1 exitcode=66")
    rc, out = vlib.sh([exe, "-test.run", "TestConc", "-test.count=1", "-test.timeout=%ds" % (seconds + 900)], env=env, timeout=seconds + 1200)
    return rc, out, trace


def run(R):
    R.assumptions += tc.ASSUMPTIONS + [
        "C16 is partial by nature: the theorems are about an abstract RW-lock semantics (interleaving of atomic actions); the Go scheduler, the Go memory model and runtime aborts are exercised by the race-detector run, not proved",
        "the lock facts are extracted by an AST analysis without type information (taint from the receiver, by-name method resolution); it errs on the unsafe side but a missed access is possible; the race run is the backstop",
        "sequential meaning of every table method = the C05/C06 models (proved there)",
    ]
    R.coverage["trusted_base"] = tc.TRUSTED + ["translators/tables/lockfacts (go/ast)", "Go race detector", "harness/conc", "runner/Tables/conc_check.ml"]
    ok = translate(R)
    R.prove("Tables")
    if not R.quick:
        R.coqchk("Tables", ["Tables.Lock"])
    # search side
    built = vlib.extract_build("Tables")
    if not built[0]:
        R.proof_problems.append("extraction/OCaml build of the Tables model failed"); R.log(built[2][-1500:]); return R.finish()
    runner = built[1]
    h = os.path.join(R.work, "conc.test")
    okb, log = vlib.go_test_build("conc", h, race=True)
    if not okb:
        R.proof_problems.append("Go harness harness/conc no longer builds against the tree: " + log[-400:]); R.log(log[-1500:]); return R.finish()
    seconds, rounds, record = (17, 100000, 300) if R.quick else (300, 10000000, 5000)
    rc, out, trace = stress(R, h, R.seed, seconds, rounds, record)
    nraces = out.count("WARNING: DATA RACE")
    if nraces:
        block = out[out.index("WARNING: DATA RACE"):][:6000]
        R.oracle_failure(race_signature(block), "data race reported by the Go race detector on the shared tables",
                         dict(seed=R.seed, report=block, how="schedule dependent: re-run  bin/check C16 quick  with the same VERIF_SEED"))
    if "fatal error:" in out:
        i = out.index("fatal error:")
        R.oracle_failure("abort:" + out[i:i + 60].split("\n")[0], "the Go runtime aborted the process during concurrent table operations",
                         dict(seed=R.seed, report=out[i:i + 4000]))
    harness_failed = rc not in (0, 66) and not nraces and "fatal error:" not in out
    if harness_failed and ("test timed out" in out or rc == 124):
        # a wall-clock limit is never a verdict: the machine was too slow for the stress phase
        R.notes.append("harness/conc did not finish within its time limit (slow machine); the rounds completed before that are evaluated")
        harness_failed = False
    text = open(trace, errors="replace").read() if os.path.exists(trace) else ""
    if os.path.exists(trace) and not os.environ.get("VERIF_KEEP"):
        os.remove(trace)
    rcr, rout = vlib.sh([runner, "conc"], stdin=text, timeout=1500)
    lin_ok = lin_fail = face_ok = 0
    anomalies = []
    fails = []
    face_fails = []
    for l in rout.split("\n"):
        if l.startswith("FACE "):
            if " ok " in l:
                face_ok += 1
            else:
                face_fails.append(l)
        elif l.startswith("LIN "):
            if " ok " in l:
                lin_ok += 1
            else:
                lin_fail += 1
                fails.append(l)
        elif l.startswith("ANOMALY"):
            anomalies.append(l)
        elif l.startswith("NOTE "):
            R.notes.append("harness/conc: " + l[5:300])
        elif l.startswith("BADLINE"):
            R.proof_problems.append("conc runner could not parse: " + l[:200])
    if "DONE" not in rout:
        R.proof_problems.append("conc runner did not finish: " + rout[-300:])
    if harness_failed and not anomalies:
        R.oracle_failure("harness-failed:" + str(rc), "the concurrency harness failed (panic, deadlock watchdog or timeout)", dict(seed=R.seed, output=out[-4000:]))
    # self-test of the history checker: stored bad histories must be rejected, stored good ones accepted
    import glob
    for p in sorted(glob.glob(os.path.join(vlib.VERIF, "corpus", "C16", "*.hist"))):
        want_ok = os.path.basename(p).startswith("good_")
        rcs, outs = vlib.sh([runner, "conc"], stdin=open(p).read(), timeout=300)
        verdicts = [l for l in outs.split("\n") if l.startswith("LIN ")]
        verdicts += [l for l in outs.split("\n") if l.startswith("FACE ")]
        if not verdicts or any((" ok " in l) != want_ok for l in verdicts):
            R.proof_problems.append("history checker self-test failed on corpus/C16/%s (expected every round %s)" % (os.path.basename(p), "accepted" if want_ok else "rejected"))
    R.coverage["checker_selftest"] = "corpus/C16/*.hist: bad_* rejected, good_* accepted"
    # rounds: recorded ones (with H lines) and heavy unrecorded ones
    rounds_seen = text.count("\nR ") + text.count("\nFR ") + (1 if text.startswith("R ") else 0)
    distinct = set()
    cur, kinds, gors = [], set(), set()
    hist = {}
    rid = None
    for l in text.split("\n"):
        if l.startswith("R ") or l.startswith("FR "):
            rid = l.split(" ")[1]; cur, kinds, gors = [l], set(), set()
        elif l.startswith(("A ", "D ")):
            cur.append(l)
        elif l.startswith("H "):
            p = l.split(" "); cur.append(l); kinds.add(p[4]); gors.add(p[1])
        elif l.startswith(("U ", "F ")):
            cur.append(l)
        elif l == "E" and rid is not None:
            hist[rid] = cur
            if len(kinds) >= 3 and len(gors) >= 2:
                distinct.add(hashlib.md5("\n".join(x for x in cur if x.startswith("H ")).encode()).hexdigest())
    for l in anomalies[:3]:
        rnd = l.split(" ")[1].split(":")[0]
        R.oracle_failure("anomaly:" + " ".join(l.split(" ")[2:6]), "implementation-side anomaly during concurrent operations: " + l[:400],
                         dict(seed=R.seed, line=l, history=hist.get(rnd, [])))
    for l in fails[:3]:
        rnd = l.split(" ")[1].split(":")[0]
        forced = rnd.startswith("g")
        R.oracle_failure(("forced-interleaving:" if forced else "linearizability:") + (" ".join(l.split(" ")[6:8]))[:80],
                         ("forced interleaving (op1 parked between the RIB and the FIB critical section while op2 runs): " if forced else "") +
                         "a recorded concurrent history has no sequential order that respects real time, reproduces every lookup result and ends in the observed final tables",
                         dict(seed=R.seed, verdict=l[:600], history=hist.get(rnd, [])))
    for l in face_fails[:3]:
        rnd = l.split(" ")[1].split(":")[0]
        R.oracle_failure("facetable:" + ("duplicate-face-ids" if "duplicate-ids=[]" not in l and "duplicate-ids=" in l else " ".join(l.split(" ")[5:7]))[:80],
                         "concurrent FaceTable.Add/Remove/Get: the face table / dispatch registry is not the outcome of any sequential order of the same operations "
                         "(FaceIDs must be distinct and consecutive, every face bound under the id its Add returned)",
                         dict(seed=R.seed, verdict=l[:600], history=hist.get(rnd, [])))
    samples = [x for x in text.split("\n") if x.startswith("H ")][:4]
    R.add_cases(rounds_seen, len(distinct), samples)
    R.coverage["rule"] = ("one evaluation = one round of 2..16 goroutines issuing reg/unreg/teardown/ins/rem/sets/uns and nh/st/fib/sl/rib lookups concurrently on a fresh FIB "
                          "(alternating name tree / hash table, m in 1..3) under -race; the first rounds (3 in 4, up to a cap) are recorded (<= 17 operations) and checked for a sequential witness, "
                          "before them 72 deterministic forced interleavings (a harness-side shim around table.FibStrategyTable parks op1 at the entry of the FIB while a second complete RIB operation "
                          "on the same / an ancestor / a descendant prefix is attempted; reg/unreg/teardown pairs, both FIBs), checked the same way; "
                          "the others are unrecorded heavy rounds (200 operations per goroutine) for race/abort/deadlock detection; every fifth round exercises the face table instead "
                          "(stub faces: concurrent FaceTable.Add/Remove/Get; small recorded rounds searched for a sequential witness, heavy rounds checked against what every sequential order "
                          "produces: distinct consecutive FaceIDs, bindings = added minus removed, dispatch registry equal); non-trivial = recorded round with >= 3 operation kinds "
                          "from >= 2 goroutines; distinct by MD5 of the history")
    R.coverage["distribution"] = dict(rounds=rounds_seen, linearizable=lin_ok, not_linearizable=lin_fail, face_rounds_ok=face_ok, face_rounds_failed=len(face_fails), race_reports=nraces,
                                      stress_seconds=seconds, harness_exit=rc)
    return R.finish()


def replay(R, path):
    body = json.load(open(path))
    built = vlib.extract_build("Tables")
    if not built[0]:
        print("runner build failed"); return 2
    if body.get("history"):
        rc, out = vlib.sh([built[1], "conc"], stdin="\n".join(body["history"] + ["E"]) + "\n", timeout=600)
        print(out[-2000:])
        return 1 if "FAIL" in out else 0
    h = os.path.join(R.work, "conc.test")
    okb, log = vlib.go_test_build("conc", h, race=True)
    if not okb:
        print(log[-1000:]); return 2
    rc, out, trace = stress(R, h, body.get("seed", 1), 20, 100000, 0, tag="-replay")
    print(out[-3000:])
    return 1 if ("DATA RACE" in out or "fatal error" in out or rc not in (0,)) else 0
