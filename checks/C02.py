"""C02 — Interests go only to FIB next hops, without loops or duplicate forwarding.
Proof: coq/Fw (C02.v, Props_C02.v): normal form of the Interest step and its consequences, in every state.
Correspondence + oracle: harness/fwcore drives real fw.Thread objects; runner/Fw replays on the extracted model and evaluates
c02_outs_ok / c02_drop_ok / c02_suppress_ok / c02_strategy_ok / c02_forward_ok / c02_nodup_ok on the recorded sends, with the
state before the Interest taken from the model (which is compared with the implementation's dumps after every event)."""
import os, sys
sys.path.insert(0, os.path.dirname(os.path.abspath(__file__)))
import _fw

def run(R):
    return _fw.run(R, "C02", [
        "usable next hop (spec): face exists, not the non-ad-hoc arrival face, hop limit after decrement > 0 or face local, scope allows, "
        "and the face holds no in-record of the same PIT entry (consumer-chosen next hops are exempt from the last rule)",
        "content in the cache (spec): cache serving, no Interest of this face pending in the entry, a cached Data matches name/CanBePrefix/MustBeFresh",
        "dead nonce list keys are (name, nonce) pairs in the model (the code uses hash(name)+nonce)",
    ])

def replay(R, path):
    return _fw.replay(R, path)
