"""Shared driver for the forwarder-core checks C01, C02, C09 (family coq/Fw, harness/fwcore, runner/Fw).

One harness run produces a trace of generated histories executed on real fw.Thread objects; runner/Fw replays it on
the model extracted from coq/Fw/Model.v (correspondence) and evaluates the extracted spec oracle of the property
on the implementation's observations."""
import glob, hashlib, os, re, sys
import vlib

ASSUMPTIONS = [
    "Coq 8.16.1 kernel; vm_compute only in non-vacuity Examples and *_refuted witnesses",
    "coq/Fw/Model.v is hand-written from fw/fw/{thread,strategy,bestroute,multicast}.go and fw/table/{pit-cs,pit-cs-tree,dead-nonce-list,cs-lru,network-region}.go "
    "and fw/face/link-service.go dispatchData; it is tied to the code by this run's differential trace (outputs, full PIT dump, CS, dead nonce list after every event)",
    "tables keyed by 64-bit hashes in the code are keyed by the name in the model (collision-freeness on the names of a history)",
    "FIB and strategy-choice table are spec-level longest-prefix-match maps (agreement of the Go tables with that is property C05)",
    "nondeterminism (fresh random PIT token, tie among equal-cost next hops, child chosen by a CanBePrefix cache lookup, pop order of equal-priority expirations) "
    "is taken from the implementation's observation and checked admissible; theorems quantify over every choice",
    "extraction: ExtrOcamlBasic only; N, positive, nat stay Coq datatypes",
    "1-4 forwarding threads behind the real link-service dispatch; the name hash is abstract in the model (coq/Fw/World.v) and read from the implementation (HashNameToFwThread of every universe name and prefix); go1.26 testing/synctest virtual time",
]
TRUSTED = ["translators/fw/consts.py + harness TestConsts (values reported by the compiled implementation: hook constants, config defaults, behavioural probes; reference fallback with a note)",
           "translators/fw/scope_table.py + harness TestScope (scope table observed from the real transport constructors; reference rows with a note where the host cannot exercise one); translators/fw/scope/main.go is a go/ast cross-check producing notes only", "Coq kernel 8.16.1", "Coq extraction + OCaml 4.13.1", "runner/Fw/driver.ml", "harness/fwcore generator and recording faces",
           "verif hooks fw/fw/zz_verif_fw.go, fw/table/zz_verif_fw.go, fw/face/zz_verif_fw.go, std/utils/priority_queue/zz_verif_fw.go", "go1.26 toolchain (synctest)"]

RULE = ("one evaluation = one generated history (1-4 forwarding threads; setup of 2-6 faces of mixed scope/link type, FIB, strategy choice, CS flags; then 20-45 events: Interests, Data, "
        "sleeps, per-thread PIT update ticks and dead-nonce sweeps, FIB/strategy/face/CS changes) executed on real fw.Thread objects behind the real link-service dispatch (three in five single-thread histories with the production Thread.Run goroutine as the driver, its PIT update timer and dead-nonce ticker firing by themselves in virtual time; the others step by step through hooks); after every event the sends recorded on the fake faces "
        "and the dumped PIT/CS/dead-nonce state of every thread are compared with the extracted model and the property's spec oracle is evaluated on the implementation's observation; "
        "non-trivial = at least 3 operation kinds and at least one send or PIT entry; distinct by MD5 of the operation list")


# No wall-clock limit decides a verdict (docs/C16.md). A child process is stopped early only on a bound that does not depend on the
# load of the machine: the CPU time it consumed itself. STALL_CPU: CPU seconds one single operation of a history may consume (the
# operation log <trace>.ops, written before every operation, did not grow meanwhile; an operation normally takes microseconds) - a
# proven hang of the code under test, reported with its history. CPU_BUDGET: CPU seconds a whole run may consume (a thorough run
# needs about 100). The wall-clock cap only ever produces a note ("inconclusive").
STALL_CPU = 150.0
CPU_BUDGET = 7200.0
WALL_CAP = 6 * 3600.0


def _cpu_seconds(pid):
    try:
        f = open("/proc/%d/stat" % pid).read().rsplit(")", 1)[1].split()
        return (int(f[11]) + int(f[12])) / float(os.sysconf("SC_CLK_TCK"))
    except Exception:
        return None


def run_bounded(cmd, env=None, stdin_text=None, progress=None, outfile=None):
    """run cmd to completion; returns (rc, output, why) with why in (None, 'hang', 'cpu-budget', 'wall-cap')"""
    import subprocess, tempfile, time as _t
    of = tempfile.TemporaryFile(mode="w+", errors="replace")
    inf = None
    if stdin_text is not None:
        inf = tempfile.TemporaryFile(mode="w+")
        inf.write(stdin_text); inf.flush(); inf.seek(0)
    p = subprocess.Popen(cmd, env=env, stdin=inf if inf else subprocess.DEVNULL, stdout=of, stderr=subprocess.STDOUT)
    t0 = _t.time()
    last_size, cpu_at_change, why = -1, 0.0, None
    while True:
        try:
            p.wait(timeout=1.0)
            break
        except subprocess.TimeoutExpired:
            pass
        cpu = _cpu_seconds(p.pid)
        if cpu is None:
            continue
        if progress:
            try:
                size = os.path.getsize(progress)
            except OSError:
                size = 0
            if size != last_size:
                last_size, cpu_at_change = size, cpu
            elif cpu - cpu_at_change >= STALL_CPU:
                why = "hang"
        if why is None and cpu >= CPU_BUDGET:
            why = "cpu-budget"
        if why is None and _t.time() - t0 >= WALL_CAP:
            why = "wall-cap"
        if why:
            p.kill(); p.wait()
            break
    of.seek(0)
    out = of.read()
    of.close()
    if inf:
        inf.close()
    return (p.returncode if why is None else 124), out, why


INCONCLUSIVE = "inconclusive"   # a run stopped by the CPU budget or the wall-clock cap without a proven hang: a note, never a verdict


def run_harness(R, n, seed, tag="", ops=None):
    """returns (trace, output); trace is None if the harness aborted or provably hung (output starts with HANG then), and
    INCONCLUSIVE if it was stopped without either (the caller writes a note)"""
    exe = os.path.join(R.work, "h.test")
    trace = os.path.join(R.work, "trace" + tag)
    env = vlib.goenv()
    env.update(VERIF_SEED=str(seed), VERIF_N=str(n), VERIF_OUT=trace)
    if ops:
        env["VERIF_OPS"] = ops
    try:
        os.remove(trace + ".ops")
    except OSError:
        pass
    rc, out, why = run_bounded([exe, "-test.run", "TestTrace", "-test.count=1"], env=env, progress=trace + ".ops")
    if why == "hang":
        return None, "HANG: one operation consumed more than %d CPU seconds without finishing\n%s" % (STALL_CPU, out)
    if why:
        R.notes.append("harness run%s stopped by the %s (no verdict drawn from it)" % (tag, why))
        return INCONCLUSIVE, out
    if rc != 0:
        return None, out
    return trace, out


def crashed_history(trace):
    """the last case of <trace>.ops: the operations logged before execution when the harness aborted"""
    try:
        lines = open(trace + ".ops", errors="replace").read().split("\n")
    except OSError:
        return None, []
    last = max([i for i, l in enumerate(lines) if l.startswith("case ")] or [0])
    body = [l for l in lines[last + 1:] if l.strip()]
    hdr = [l for l in body if l.split(" ")[0] in ("threads", "dnl", "fibm") and not (l == "fibm 0" or l == "dnl 6000")]
    ops = [l for l in body if l.split(" ")[0] not in ("threads", "dnl", "fibm")]
    return hdr or ["threads 1"], ops


def report_crash(R, label, trace, out):
    """an abort of the harness (panic in the forwarder) is reported with the history that caused it"""
    hdr, ops = crashed_history(trace)
    m = re.search(r"(panic: [^\n]*|fatal error: [^\n]*)", out)
    hung = out.startswith("HANG:")
    why = m.group(1)[:200] if m else ("it did not return: " + out.split("\n")[0][6:] if hung else "the Go harness aborted")
    last = ops[-1] if ops else "?"
    f = last.split(" ")
    kind = f[0]
    detail = ""
    if kind == "data" and len(f) >= 5:
        tok = f[4]
        detail = ":token-symbolic" if tok.startswith("@") else (":no-token" if tok == "-" else ":token-%d-bytes" % (len(tok) // 2))
    # shrink: the shortest sub-history on which the harness still aborts
    tmp = os.path.join(R.work, "crash-ops")
    def aborts(cand):
        open(tmp, "w").write(ops_text(hdr, cand))
        tr2, _ = run_harness(R, 1, 1, tag="-crash", ops=tmp)
        return tr2 is None  # (INCONCLUSIVE is not an abort)
    try:
        if ops and not hung and aborts(ops):
            ops = vlib.ddmin(ops, aborts, budget=40)
    except Exception:
        pass
    R.oracle_failure("harness-%s:%s%s" % ("hang" if hung else "crash", kind, detail),
                     "the implementation aborted (%s) while executing `%s` after %d earlier operations of %s" % (why, last, max(0, len(ops) - 1), label),
                     dict(trace=label, threads=hdr, ops=ops, output=out[-1500:],
                          replay_hint="VERIF_OPS=<file with: case 0 / these header lines / these operations> go1.26 test -tags verif -run TestTrace ./harness/fwcore"))


def case_ops(trace_lines, caseid):
    """the configuration header (thread count, dead-nonce lifetime, FIB implementation) and the `ev` lines of one case of a trace"""
    ops, on, hdr = [], False, ["threads 1"]
    for l in trace_lines:
        if l.startswith("case "):
            on = (l == "case " + caseid)
            continue
        if on and l.startswith("cfg "):
            hdr = []
            m = re.search(r"threads=(\d+)", l)
            hdr.append("threads %d" % (int(m.group(1)) if m else 1))
            m = re.search(r"dnl=(\d+)", l)
            if m and int(m.group(1)) != 6000000000:
                hdr.append("dnl %d" % (int(m.group(1)) // 1000000))
            m = re.search(r"fibm=(\d+)", l)
            if m and int(m.group(1)) > 0:
                hdr.append("fibm %d" % int(m.group(1)))
        if on and (l.startswith("ev ") or l.startswith("mark ")):
            ops.append(l)
    return hdr, ops


def take_events(ops, n):
    """the prefix of ops holding the first n events (marker lines are not events)"""
    out, k = [], 0
    for l in ops:
        if l.startswith("ev "):
            if k == n:
                break
            k += 1
        out.append(l)
    return out


def ops_text(hdr, ops):
    """hdr: list of header lines (or, from older replay files, a thread count / a (threads, dnl ms) pair)"""
    if isinstance(hdr, int):
        hdr = ["threads %d" % hdr]
    elif hdr and isinstance(hdr[0], int):
        hdr = ["threads %d" % hdr[0], "dnl %d" % hdr[1]]
    return "case 0\n" + "\n".join(hdr) + "\n" + "\n".join(ops) + "\n"


def runner_on(exe, trace, prop):
    rc, out, why = run_bounded([exe, prop], stdin_text=open(trace, errors="replace").read())
    if why:
        out += "\nSTOPPED %s\n" % why
    return rc, out


def shrink(R, exe, prop, threads, ops, sig_prefix, budget=60):
    """ddmin a failing case: re-run the implementation on a sub-history and keep it while the oracle still reports the same kind of failure"""
    tmp = os.path.join(R.work, "shrink-ops")
    def fails(cand):
        open(tmp, "w").write(ops_text(threads, cand))
        tr, _ = run_harness(R, 1, 1, tag="-shrink", ops=tmp)
        if tr is None or tr == INCONCLUSIVE:
            return False
        rc, out = runner_on(exe, tr, prop)
        return any(l.startswith("ORACLE " + prop) and l.split(" ", 5)[4].startswith(sig_prefix) for l in out.split("\n"))
    try:
        if fails(ops):
            return vlib.ddmin(ops, fails, budget=budget)
    except Exception:
        pass
    return ops


def run(R, prop, extra_assumptions=()):
    R.assumptions += ASSUMPTIONS + list(extra_assumptions)
    R.coverage["trusted_base"] = TRUSTED
    # build the harness first: the constants of the model are obtained from the compiled implementation
    hbin = os.path.join(R.work, "h.test")
    hok, hlog = vlib.go_test_build("fwcore", hbin)
    incomplete = []
    def notes_of(out):
        for l in out.split("\n"):
            if l.startswith("note: "):
                R.notes.append(l[6:])
                incomplete.append(l[6:].split(";")[0])
    # translate 1: constants (verif hook fw.VerifConsts, core.DefaultConfig, behavioural probes) -> coq/Fw/GenConsts.v
    probe = "-"
    if hok:
        probe = os.path.join(R.work, "consts.probe")
        env = vlib.goenv(); env.update(VERIF_OUT=probe)
        rc, out, _why = run_bounded([hbin, "-test.run", "TestConsts", "-test.count=1"], env=env)   # (not finished: a note, below)
        if rc != 0:
            R.notes.append("constant probes (harness TestConsts) did not finish: " + out.strip()[-200:])
    rc, out = vlib.sh([sys.executable, os.path.join(vlib.VERIF, "translators", "fw", "consts.py"), probe,
                       os.path.join(vlib.COQ, "Fw", "GenConsts.reference"), os.path.join(vlib.COQ, "Fw", "GenConsts.v")], timeout=3600)   # (failure: a note, below)
    notes_of(out)
    if rc != 0:
        R.notes.append("translators/fw/consts.py: " + out.strip()[-200:] + " (committed GenConsts.v kept)")
        incomplete.append("GenConsts.v")
    if incomplete:
        R.coverage["translation_incomplete"] = incomplete
    R.coverage["translated"] = "coq/Fw/GenConsts.v from the compiled implementation (hook fw.VerifConsts, core.DefaultConfig, behavioural probes in harness TestConsts)"
    if not R.prove("Fw"):
        # a theorem no longer checks: still build the proof-free model files the runner is extracted from, so that the
        # oracle can look for a concrete failing input
        vlib.coq_make("Fw", targets="GenConsts.vo Model.vo Spec.vo World.vo")
    if not R.quick:
        R.coqchk("Fw", ["Fw.Props_" + prop])
    ok, exe, log = vlib.extract_build("Fw")
    if not ok:
        R.proof_problems.append("extraction/OCaml build of the Fw model failed")
        R.log(log[-2000:])
        return R.finish()
    ok, log = hok, hlog
    if not ok:
        R.proof_problems.append("Go harness fwcore no longer builds against the tree: " + log[-600:])
        R.log(log[-2000:])
        return R.finish()

    traces = []
    # corpus first
    corpus = sorted(glob.glob(os.path.join(vlib.VERIF, "corpus", prop, "*.ops")))
    for i, c in enumerate(corpus):
        tr, out = run_harness(R, 1, 1, tag="-corpus%d" % i, ops=c)
        if tr is None:
            report_crash(R, "corpus case " + os.path.basename(c), os.path.join(R.work, "trace-corpus%d" % i), out)
        elif tr == INCONCLUSIVE:
            pass
        else:
            traces.append(("corpus:" + os.path.basename(c), tr))
    n = 400 if R.quick else 12000
    tr, out = run_harness(R, n, R.seed)
    if tr is None:
        report_crash(R, "the generated stream (seed %d)" % R.seed, os.path.join(R.work, "trace"), out)
        return R.finish()
    if tr != INCONCLUSIVE:
        traces.append(("generated", tr))

    kinds = {}
    total = nontriv = 0
    distinct = set()
    samples = []
    for label, tr in traces:
        lines = open(tr, errors="replace").read().split("\n")
        for l in lines:
            if l.startswith("ev "):
                k = l.split(" ")[1]
                kinds[k] = kinds.get(k, 0) + 1
        rc, out = runner_on(exe, tr, prop)
        if "STOPPED wall-cap" in out:
            R.notes.append("runner stopped by the wall-clock cap on %s (no verdict drawn from it)" % label)
        elif "DONE" not in out:
            # it exited by itself without finishing, or exceeded its CPU budget (CPU time of the process: independent of the load)
            R.proof_problems.append("runner did not finish on %s: %s" % (label, out[-300:]))
        seen_sig = {}
        for l in out.split("\n"):
            if l.startswith("STAT "):
                p = l.split(" ")
                kinds["model:" + p[1]] = kinds.get("model:" + p[1], 0) + int(p[2])
            elif l.startswith("CASE "):
                p = l.split(" ")
                total += 1
                if p[4] == "1":
                    nontriv += 1
                    distinct.add(p[5])
            elif l.startswith("DIVERGE "):
                p = l.split(" ", 4)
                nthr, ops = case_ops(lines, p[1])
                R.divergence("case %s event %s: %s differs between model and implementation" % (p[1], p[2], p[3]),
                             dict(trace=label, case=p[1], event=int(p[2]), what=p[3], detail=p[4][:3000], threads=nthr, ops=take_events(ops, int(p[2]))))
            elif l.startswith("ORACLE " + prop):
                p = l.split(" ", 5)
                sig = p[4]
                detail = p[5] if len(p) > 5 else ""
                if sig in seen_sig:
                    seen_sig[sig] += 1
                    # still record (counted for KNOWN-FINDING lines) but do not shrink again
                    R.oracle_failure(sig, detail.lstrip("| "), dict(trace=label, case=p[2], event=int(p[3])))
                    continue
                seen_sig[sig] = 1
                nthr, ops = case_ops(lines, p[2])
                ops = take_events(ops, int(p[3]))
                small = shrink(R, exe, prop, nthr, ops, sig.split(":")[0]) if len(seen_sig) <= 4 else ops
                R.oracle_failure(sig, detail.lstrip("| "), dict(trace=label, case=p[2], event=int(p[3]), threads=nthr, ops=small,
                                                              replay_hint="VERIF_OPS=<file with these ev lines> go1.26 test -tags verif ./harness/fwcore"))
        if label == "generated":
            samples = [l for l in lines if l.startswith(("ev int", "ev data"))][:4]
            ncase = sum(1 for l in lines if l.startswith("case "))
            if ncase != n:
                R.proof_problems.append("the harness wrote %d of %d generated cases (trace incomplete)" % (ncase, n))
    if prop == "C09":
        scope_classification(R, exe, kinds)
    R.coverage["distribution"] = kinds
    R.coverage["rule"] = RULE
    R.add_cases(total, len(distinct), samples)
    return R.finish()


def scope_classification(R, exe, kinds):
    """C09, face-scope classification (family coq/FwScope, kept apart from coq/Fw): the scope the real transport constructors assign.
    GenScope.v is generated from these observations; the classification theorem is proved over the observed table; the go/ast reading
    of the constructors is a cross-check whose disagreement is a note."""
    h = os.path.join(R.work, "h.test")
    tr = os.path.join(R.work, "trace-scope")
    env = vlib.goenv(); env.update(VERIF_OUT=tr)
    rc, out, why = run_bounded([h, "-test.run", "TestScope", "-test.count=1"], env=env)
    if why:
        R.notes.append("scope harness stopped by the %s (no verdict drawn from it; scope classification not evaluated in this run)" % why)
        return
    if rc != 0:
        R.oracle_failure("harness-crash:scope", "the scope harness aborted", dict(output=out[-2000:]))
        return
    lines = open(tr, errors="replace").read().split("\n")
    rows = [l for l in lines if l.startswith("scope ")]
    # cross-check input: what the go/ast reading of the constructors predicts (never an alarm)
    astf = os.path.join(R.work, "scope-ast")
    rc, out = vlib.sh([vlib.GO, "run", os.path.join(vlib.VERIF, "translators", "fw", "scope", "main.go"), vlib.REPO],
                      env=vlib.goenv(), timeout=3600, cwd=vlib.VERIF)   # (failure or timeout: a note, below)
    if rc == 0:
        open(astf, "w").write(out)
    else:
        astf = "-"
        R.notes.append("translator: go/ast cross-check of the scope statements could not read the tree; the observed table is used")
    rc, out = vlib.sh([sys.executable, os.path.join(vlib.VERIF, "translators", "fw", "scope_table.py"), tr,
                       os.path.join(vlib.COQ, "FwScope", "GenScope.reference"), astf, os.path.join(vlib.COQ, "FwScope", "GenScope.v")], timeout=3600)
    inc = []
    for l in out.split("\n"):
        if l.startswith("note: "):
            R.notes.append(l[6:]); inc.append(l[6:].split(";")[0])
    if inc:
        R.coverage.setdefault("translation_incomplete", []).extend(inc)
    if rc == 124:
        R.notes.append("translators/fw/scope_table.py did not finish in an hour (committed GenScope.v kept)")
    elif rc != 0:
        R.proof_problems.append("translators/fw/scope_table.py failed: " + out.strip()[-300:])
    # prove the classification theorems over the observed table (separate family: cannot affect C01/C02)
    proved = R.prove("FwScope", props_pid="C09")
    if not R.quick and proved:
        R.coqchk("FwScope", ["FwScope.Props_C09"])
    if not proved:
        vlib.coq_make("FwScope", targets="GenScope.vo ScopeModel.vo")
    ok, sexe, log = vlib.extract_build("FwScope")
    if not ok:
        R.proof_problems.append("extraction/OCaml build of the FwScope model failed")
        R.log(log[-1500:])
        return
    rc, out, why = run_bounded([sexe], stdin_text=open(tr, errors="replace").read())
    if why == "wall-cap":
        R.notes.append("scope runner stopped by the wall-clock cap (no verdict drawn from it)")
        return
    for l in out.split("\n"):
        if l.startswith("ORACLE C09 scope"):
            p = l.split(" ", 5)
            R.oracle_failure(p[4], p[5].lstrip("| ") if len(p) > 5 else "", dict(trace="scope", rows=[r for r in rows if r.split(" ")[4] == p[4].split(":")[1]][:12],
                             replay_hint="go1.26 test -tags verif -run TestScope ./harness/fwcore  (calls the real fw/face constructors)"))
    if "SCOPES" not in out:
        R.proof_problems.append("scope runner did not finish: " + out[-200:])
    if len([r for r in rows if r.startswith("scope 0 ")]) < 6:
        R.proof_problems.append("the scope harness produced too few rows for MakeUnicastTCPTransport")
    kinds["scope-rows"] = len(rows)
    for c in sorted(set(r.split(" ")[4] for r in rows)):
        kinds["scope:" + c] = len([r for r in rows if r.split(" ")[4] == c])
    R.coverage["scope_rule"] = ("face-scope classification: every exported transport constructor of fw/face is called for real (outgoing TCP without dialing, accepted TCP / "
                                "WebSocket / Unix over in-process connections on loopback and on this host's own non-loopback addresses, UDP by connecting a datagram socket); "
                                "coq/FwScope/GenScope.v is generated from the observed scopes and the classification theorem proved over that table; the go/ast reading of the "
                                "constructors is a cross-check (notes only)")
    R.add_cases(len(rows), len(set(rows)), rows[:2])


def replay(R, path):
    import json
    body = json.load(open(path))
    ops = body.get("ops") or body.get("first_divergence", {}).get("ops") or []
    threads = body.get("threads") or body.get("first_divergence", {}).get("threads") or 1
    ok, exe, log = vlib.extract_build("Fw")
    ok2, log2 = vlib.go_test_build("fwcore", os.path.join(R.work, "h.test"))
    if not (ok and ok2):
        print("build failed"); return 2
    f = os.path.join(R.work, "replay-ops")
    open(f, "w").write(ops_text(threads, ops))
    tr, out = run_harness(R, 1, 1, tag="-replay", ops=f)
    if tr == INCONCLUSIVE:
        print("inconclusive: the harness run was stopped (see notes)"); return 2
    if tr is None:
        print(out[-3000:]); return 1
    rc, out = runner_on(exe, tr, R.pid)
    print(out)
    return 1 if re.search(r"^(ORACLE %s|DIVERGE)" % R.pid, out, re.M) else 0
