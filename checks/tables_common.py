"""Shared driver code for the Tables family (C05, C06, C08 tables part, C16 sequential model).
Owned by the tables builder; imported by checks/C05.py, C06.py, C08_tables.py, C16.py."""
import glob, hashlib, os, re
import vlib

ASSUMPTIONS = [
    "Coq 8.16.1 kernel; vm_compute only in non-vacuity Examples, *_refuted witnesses and the translated lock-fact instance",
    "models coq/Tables/Model*.v are hand-written from fw/table/fib-strategy-tree.go, fib-strategy-hashtable.go, rib.go; tied to the code by this run's differential trace incl. white-box node/entry dumps",
    "tables keyed by a 64-bit name hash are modelled as keyed by the name (collision freedom on the names of a history is assumed; the harness checks it for every generated universe and reports collisions)",
    "Go map iteration order (min-cost map in updateNexthopsEnc, children maps) is an arbitrary permutation: next-hop lists are compared as finite maps (Permutation in the theorems)",
    "extraction: ExtrOcamlBasic only; N, positive, nat stay Coq datatypes",
]
TRUSTED = ["Coq kernel 8.16.1", "Coq extraction + OCaml 4.13.1", "runner/Tables/*.ml", "harness/tables generator and trace printer",
           "hook fw/table/zz_verif_tables.go (dumps only)", "go1.26 toolchain"]


def build(R, need_harness=True):
    """extract+build the runner, build the Go harness; returns (runner_exe, harness_exe) or None after recording the problem."""
    ok, exe, log = vlib.extract_build("Tables")
    if not ok:
        R.proof_problems.append("extraction/OCaml build of the Tables model failed")
        R.log(log[-1500:])
        return None
    h = os.path.join(R.work, "tables-h.test")
    if need_harness:
        ok, log = vlib.go_test_build("tables", h)
        if not ok:
            R.proof_problems.append("Go harness harness/tables no longer builds against the tree: " + log[-400:])
            R.log(log[-1500:])
            return None
    return exe, h


def corpus_files(pid):
    return sorted(glob.glob(os.path.join(vlib.VERIF, "corpus", pid, "*.ops")))


def run_harness(R, h, kind, n, seed, ms, ops_files=(), tag=""):
    # one file per process: a quick and a thorough run of the same check may be in flight at the same time
    trace = os.path.join(R.work, "tables-trace%s-%d" % (tag, os.getpid()))
    env = vlib.goenv()
    env.update(VERIF_SEED=str(seed), VERIF_N=str(n), VERIF_OUT=trace, VERIF_KIND=kind,
               VERIF_MS=",".join(str(m) for m in ms), VERIF_OPS=":".join(ops_files))
    # the only time limit is the outer one, and running into it is a note (slow machine), never a verdict
    rc, out = vlib.sh([h, "-test.run", "TestTrace", "-test.count=1", "-test.timeout=0"], env=env, timeout=1500 + n)
    if rc != 0:
        return None, out
    return trace, out


def harness_abort(R, out, sig, what):
    """the harness did not end normally: a crash is a finding, the outer time limit only a note"""
    if "[timeout after" in out[-200:]:
        R.notes.append("harness/tables did not finish within its time limit (slow machine); nothing was evaluated in this run")
    else:
        R.oracle_failure(sig, what, dict(output=out[-2000:]))


def run_runner(exe, trace, timeout=1500):
    with open(trace, errors="replace") as f:
        data = f.read()
    rc, out = vlib.sh(exe, stdin=data, timeout=timeout)
    if not os.environ.get("VERIF_KEEP"):
        try:
            os.remove(trace)
        except OSError:
            pass
    return rc, out, data


def case_ops(trace_text, case_id, upto=None):
    """C/U/O lines of one case (ops file format); upto = number of ops kept."""
    out, on, k = [], False, 0
    for l in trace_text.split("\n"):
        if l.startswith("C "):
            on = l.split(" ")[1] == case_id
            if on:
                out.append(l)
        elif on and l.startswith("U "):
            out.append(l)
        elif on and l.startswith("O "):
            k += 1
            if upto is None or k <= upto:
                out.append(l)
        elif on and l == "E":
            break
    return out


class Report:
    """parsed runner output"""
    def __init__(self, out):
        self.diverge, self.oracle, self.minimal, self.anomaly, self.bad = [], [], [], [], []
        self.cases = {}
        self.done = None
        self.notes = []
        for l in out.split("\n"):
            p = l.split(" ")
            if p[0] == "DIVERGE" and len(p) >= 5:
                self.diverge.append(dict(case=p[1], op=int(p[2]), label=p[3], kind=p[4], text=l))
            elif p[0] == "ORACLE" and len(p) >= 5:
                self.oracle.append(dict(case=p[1], op=int(p[2]), label=p[3], kind=p[4], text=l))
            elif p[0] == "MINIMAL" and len(p) >= 4:
                self.minimal.append(dict(case=p[1], op=int(p[2]), label=p[3], kind="minimal", text=l))
            elif p[0] == "ANOMALY" and len(p) >= 3:
                self.anomaly.append(dict(case=p[1], op=int(p[2]), label="-", kind="anomaly", text=l))
            elif p[0] == "NOTE":
                self.notes.append(l[5:300])
            elif p[0] == "BADLINE":
                self.bad.append(l)
            elif p[0] == "CASE":
                kv = dict(x.split("=", 1) for x in p[2:] if "=" in x)
                self.cases[p[1]] = kv
            elif p[0] == "DONE":
                self.done = l


def first_per_case(items):
    """earliest failing item of each case (cases in order of appearance)"""
    seen = {}
    for it in items:
        c = it["case"]
        if c not in seen or it["op"] < seen[c]["op"]:
            seen[c] = it
    return list(seen.values())


def shrink(R, exe, h, kind, ops_lines, still_fails, budget=60):
    """ddmin over the O lines of a single-case ops file; still_fails(Report) -> bool"""
    head = [l for l in ops_lines if not l.startswith("O ")]
    ops = [l for l in ops_lines if l.startswith("O ")]
    counter = [0]
    def fails(sub):
        counter[0] += 1
        p = os.path.join(R.work, "tables-shrink-%d-%d.ops" % (os.getpid(), counter[0] % 2))
        open(p, "w").write("\n".join(head + sub) + "\n")
        tr, out = run_harness(R, h, kind, 0, 1, [1], [p], tag="-shrink")
        if tr is None:
            return False
        rc, rout, _ = run_runner(exe, tr, timeout=120)
        return still_fails(Report(rout))
    if len(ops) > 1:
        ops = vlib.ddmin(ops, fails, budget=budget)
    return head + ops


def count_cases(R, rep, trace_text, samples_prefix="O "):
    for t in rep.notes[:5]:
        R.notes.append("harness/tables: " + t)
    n = len(rep.cases)
    distinct = set(kv.get("hash") for kv in rep.cases.values() if kv.get("nontrivial") == "1")
    samples = []
    for l in trace_text.split("\n"):
        if l.startswith(samples_prefix):
            samples.append(l)
            if len(samples) >= 4:
                break
    R.add_cases(n, len(distinct), samples)
    return n, len(distinct)


def op_histogram(trace_text):
    h = {}
    for l in trace_text.split("\n"):
        if l.startswith("O "):
            k = l.split(" ")[1]
            h[k] = h.get(k, 0) + 1
    return h


def replay(R, path, kind):
    """bin/check Cxx --replay file: rebuild harness+runner from the current tree, re-run exactly the recorded ops."""
    import json
    body = json.load(open(path))
    ops = body.get("ops") or []
    if not ops:
        print("replay file carries no operation list (proof-only failure): broken =", body.get("broken"))
        return 2
    b = build(R)
    if b is None:
        print("build failed"); return 2
    exe, h = b
    p = os.path.join(R.work, "tables-replay-%d.ops" % os.getpid())
    open(p, "w").write("\n".join(ops) + "\n")
    tr, out = run_harness(R, h, kind, 0, 1, [1], [p], tag="-replay")
    if tr is None:
        print("harness aborted:\n" + out[-2000:]); return 1
    rc, rout, _ = run_runner(exe, tr, timeout=300)
    rep = Report(rout)
    bad = rep.oracle + rep.diverge + rep.minimal + rep.anomaly
    for it in bad[:20]:
        print(it["text"][:600])
    print("replay: %d oracle failure(s), %d divergence(s), %d minimality failure(s), %d anomaly(ies)" % (
        len(rep.oracle), len(rep.diverge), len(rep.minimal), len(rep.anomaly)))
    return 1 if bad else 0


def oracle_selftest(R, exe, trace_text, label="T", kind="nh"):
    """Guard against a vacuous pass: corrupt one lookup observation of the first case of this run's trace and require
    the runner's spec oracle to report it."""
    lines = trace_text.split("\n")
    out, done, in_first = [], False, False
    for l in lines:
        if l.startswith("C "):
            if in_first:
                break
            in_first = True
        if in_first:
            if not done and l.startswith(label + " " + kind + " "):
                vals = l.split(" ", 2)[2].split("|")
                vals[0] = "9:9" if vals[0] != "9:9" else "8:8"
                l = label + " " + kind + " " + "|".join(vals)
                done = True
            out.append(l)
        if in_first and l == "E":
            break
    if not done:
        return
    rc, rout = vlib.sh(exe, stdin="\n".join(out) + "\n", timeout=120)
    if "ORACLE" not in rout:
        R.proof_problems.append("oracle self-test failed: a corrupted %s observation was not reported by the runner" % kind)
    R.coverage["oracle_selftest"] = "a corrupted lookup observation of this run's first case is reported by the spec oracle"
