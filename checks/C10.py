"""C10 — link-layer fragmentation and reassembly reproduce every packet exactly.
Proof: coq/Face (Lp.v model, LpProofs.v, Props_C10.v).  Correspondence: harness/facelp drives the real
NDNLPLinkService.sendPacket on an in-memory transport (frames compared byte for byte with the model's), feeds the captured
frames in chosen interleavings to a peer link service whose dispatch goes to recording forwarding threads, and
runner/Face replays everything on the extracted model; the spec oracle (every frame <= MTU, a packet that fits is one
frame, no frames when fragmentation is off and the packet does not fit, every packet delivered exactly once with token and
mark) is evaluated on the implementation's observations."""
import importlib.util, os
import vlib

HERE = os.path.dirname(os.path.abspath(__file__))


def _face():
    spec = importlib.util.spec_from_file_location("check_C04_face", os.path.join(HERE, "C04_face.py"))
    mod = importlib.util.module_from_spec(spec)
    spec.loader.exec_module(mod)
    return mod


def run(R):
    F = _face()
    ok, test_exe, runner = F.prepare(R, "C10")
    if not ok:
        return R.finish()
    if not R.quick:
        R.coqchk("Face", ["Face.LpTheorems", "Face.LpTotal"])
    nperm = 260 if R.quick else 6000
    res = F.lp_trace(R, test_exe, runner, nperm, 0, "quick" if R.quick else "full", [os.path.join(vlib.VERIF, "corpus", "C10")], "c10",
                     timeout=1500 if R.quick else 2400)
    if res:
        R.coverage["distribution"] = dict(cases=res["kinds"], operations=res["ops"],
                                          mtus="quick {128,255,256,1500,8800}; thorough 12 MTUs 128..8800, every packet size 1..8800 in the sweep")
        R.coverage["rule"] = ("perm case = 1..3 real Interest/Data packets (sizes around every fragmentation boundary of the MTU) sent by the real sendPacket "
                              "with/without PIT token (0/1..5/6/7..32 bytes), congestion mark, incoming-face indication, sequence counters incl. wrap at 2^64, "
                              "all frames fed to the peer in order / reversed round-robin / random interleaving; sweep case = frame lengths and bytes for a "
                              "list of sizes on one MTU with a pattern payload; non-trivial = at least 3 operations and a delivery or two operation kinds; "
                              "distinct by MD5 of the canonical case")
        R.add_cases(res["cases"], len(res["nontrivial"]), res["samples"])
    F.concurrent_send(R, test_exe, 6 if R.quick else 60)
    if not R.quick:
        F.concurrent_send(R, test_exe, 30, race=True)
    return R.finish()


def replay(R, path):
    return _face().replay_generic(R, path, "C10")
