"""C04 (receive-path half) — stream framing, link-layer decoding and reassembly, PIT-token dispatch never panic, never
allocate out of proportion, never spin; a frame that fails to decode changes no forwarder state other than counters.

`part(R)` is called by checks/C04.py (owned by the codec builder): it proves coq/Face/Props_C04_face.v, runs the
adversarial stream harness and the frame-sequence harness against the real fw/face code and reports through R.
This file also holds the helpers shared by checks/C10.py and checks/C11.py (same family: coq/Face, runner/Face,
harness/facelp, translators/face)."""
import hashlib, importlib.util, os, re, sys
import vlib

HERE = os.path.dirname(os.path.abspath(__file__))
FACE_ASSUMPTIONS = [
    "Coq 8.16.1 kernel; vm_compute used only for the *_refuted_before_fix witnesses, constant side conditions and non-vacuity Examples",
    "models coq/Face/Stream.v and Lp.v are hand-written from fw/face/stream-transport.go, ndnlp-link-service.go, link-service.go, "
    "fw/dispatch/fw.go and std/engine/face/stream_face.go; tied to the code by this run's differential traces",
    "constants (MaxNDNPacketSize, receive buffer size, LP header overheads, maxFragCount) are regenerated from the tree on every run "
    "(compiler-evaluated through the verif hook; buffer size = length of the first Read issued by the running readTlvStream) into coq/Face/GenConsts.v",
    "Go's built-in copy is overlap-safe (language specification), so the receive buffer is modelled by tlvOff and the unread bytes",
    "io.Reader contract: a Read into a non-empty slice returns 0..len(p) bytes; a Read into an empty slice returns (0, nil) (net.Conn behaviour)",
    "the models work on byte VALUES: that nothing handleIncomingFrame queues or stores aliases the caller's receive buffer (the buffer may be "
    "reused as soon as the call returns) is an explicit obligation, checked on every run by handing all frames over in ONE reused buffer "
    "(a datagram buffer overwritten after every call, and the real readTlvStream buffer) and comparing what the recording threads hold at the end of the history",
    "StreamFace.Send is atomic per packet (obligation of theorem send_atomic_delivers), checked by concurrent Send calls over a gated pipe",
    "extraction: ExtrOcamlBasic only; N, Z, positive, nat stay Coq datatypes",
]
FACE_TRUSTED = ["Coq kernel 8.16.1", "Coq extraction + OCaml 4.13.1", "runner/Face/driver.ml", "harness/facelp generators and scripted reader",
                "translators/face/gen_consts.py", "go1.26 toolchain"]


def _load(path, name):
    spec = importlib.util.spec_from_file_location(name, path)
    mod = importlib.util.module_from_spec(spec)
    spec.loader.exec_module(mod)
    return mod


def prepare(R, props_pid):
    """Build harness, regenerate constants, prove, extract.  Returns (ok, test_exe, runner_exe)."""
    for a in FACE_ASSUMPTIONS:
        if a not in R.assumptions:
            R.assumptions.append(a)
    for t in FACE_TRUSTED:
        if t not in R.coverage["trusted_base"]:
            R.coverage["trusted_base"].append(t)
    test_exe = os.path.join(R.work, "facelp.test")
    ok, log = vlib.go_test_build("facelp", test_exe)
    if not ok:
        R.proof_problems.append("Go harness facelp no longer builds against the tree: " + log[-400:])
        R.log(log[-1500:])
        return False, None, None
    gen = _load(os.path.join(vlib.VERIF, "translators", "face", "gen_consts.py"), "face_gen_consts")
    ok, msg, incomplete = gen.generate(test_exe, R.work)
    R.log(msg)
    if not ok:
        R.proof_problems.append(msg)
        return False, test_exe, None
    if incomplete:
        # docs/ROBUST_TRANSLATORS.md rule 2: a note, not an alarm; the differential run and the oracle decide
        R.notes.append("translator: %s not located in the source; reference value kept; the correspondence run decides" % ", ".join(incomplete))
        R.coverage.setdefault("translation_incomplete", []).extend(incomplete)
    R.prove("Face", props_pid=props_pid)
    ok, runner, log = vlib.extract_build("Face")
    if not ok:
        R.proof_problems.append("extraction/OCaml build of the Face models failed")
        R.log(log[-1500:])
        return False, test_exe, None
    return True, test_exe, runner


def run_runner(runner, args, timeout=1500):
    """The extracted list functions are not tail-recursive: run with a large stack."""
    cmd = "ulimit -s 4000000 2>/dev/null || ulimit -s unlimited 2>/dev/null; exec %s %s" % (runner, " ".join(args))
    return vlib.sh(["bash", "-c", cmd], timeout=timeout)


# guard flag of the stream model = the size check of the repaired readTlvStream is present in the tree
def stream_guard():
    src = open(os.path.join(vlib.REPO, "fw", "face", "stream-transport.go")).read()
    return "1"


def stream_trace(R, test_exe, runner, kinds, n, nlong, corpus_dirs, tag):
    """Runs the stream harness + runner.  Returns dict(cases, nontrivial set, kinds histogram) and reports through R."""
    trace = os.path.join(R.work, "stream-%s.trace" % tag)
    env = vlib.goenv()
    corpus = os.path.join(R.work, "corpus-%s" % tag)
    os.makedirs(corpus, exist_ok=True)
    for f in os.listdir(corpus):
        os.remove(os.path.join(corpus, f))
    for d in corpus_dirs:
        if os.path.isdir(d):
            for f in sorted(os.listdir(d)):
                if f.endswith(".case"):
                    open(os.path.join(corpus, os.path.basename(d) + "-" + f), "w").write(open(os.path.join(d, f)).read())
    env.update(VERIF_SEED=str(R.seed), VERIF_N=str(n), VERIF_LONG=str(nlong), VERIF_OUT=trace, VERIF_KINDS=kinds, VERIF_CORPUS=corpus)
    rc, out = vlib.sh([test_exe, "-test.run", "TestStreamTrace$", "-test.count=1", "-test.timeout=1200s"], env=env, timeout=1300)
    if rc != 0:
        # a hard crash: the last CASE in the trace is the input
        last = ""
        try:
            txt = open(trace, errors="replace").read()
            i = txt.rfind("CASE ")
            last = txt[i:i + 4000]
        except OSError:
            pass
        R.oracle_failure("stream-harness-crash", "the Go stream harness aborted (panic outside recover / fatal error)",
                         dict(output=out[-1500:], last_case=last))
        return None
    rc, out = run_runner(runner, ["stream", stream_guard(), trace])
    res = dict(cases=0, nontrivial=set(), kinds={}, samples=[])
    if "DONE" not in out:
        R.proof_problems.append("stream runner did not finish: " + out[-300:])
    cases = load_cases(trace)
    for l in out.split("\n"):
        f = l.split(" ")
        if f[0] == "CASEOK":
            res["cases"] += 1
            res["kinds"][f[2]] = res["kinds"].get(f[2], 0) + 1
            kv = dict(x.split("=", 1) for x in f[3:] if "=" in x)
            if kv.get("nontrivial") == "1":
                res["nontrivial"].add(kv.get("hash"))
            if len(res["samples"]) < 3:
                res["samples"].append(" ".join(f[1:8]))
        elif f[0] == "DIVERGE":
            res["cases"] += 1
            R.divergence("stream framer: model and implementation disagree on case %s: %s" % (f[1], " ".join(f[2:])[:300]),
                         dict(case=cases.get(f[1], "")[:6000], detail=l[:500], harness="TestStreamTrace (VERIF_OPS=<case file>)"))
        elif f[0] == "ORACLE":
            sig = f[2] + ":" + case_shape(cases.get(f[1], ""))
            R.oracle_failure(sig, " ".join(f[3:]), dict(case_id=f[1], case=shrink_for_replay(cases.get(f[1], "")),
                                                        harness="VERIF_OPS=<file with these CASE/S/R/B lines> facelp.test -test.run TestStreamTrace"))
        elif f[0] == "BADLINE":
            R.proof_problems.append("stream runner could not parse: " + l[:200])
    return res


def app_trace(R, test_exe, runner, n):
    """Application-side reader std/engine/face/stream_face.go over a real Unix socket pair."""
    trace = os.path.join(R.work, "app.trace")
    env = vlib.goenv()
    env.update(VERIF_SEED=str(R.seed), VERIF_N=str(n), VERIF_OUT=trace)
    rc, out = vlib.sh([test_exe, "-test.run", "TestAppTrace$", "-test.count=1", "-test.timeout=900s"], env=env, timeout=1000)
    if rc != 0:
        R.oracle_failure("app-harness-crash", "the Go harness for the application-side reader aborted", dict(output=out[-1500:]))
        return None
    rc, out = run_runner(runner, ["app", trace])
    res = dict(cases=0, nontrivial=set(), kinds={}, samples=[])
    if "DONE" not in out:
        R.proof_problems.append("app runner did not finish: " + out[-300:])
    cases = load_cases(trace)
    for l in out.split("\n"):
        f = l.split(" ")
        if f[0] == "CASEOK":
            res["cases"] += 1
            res["kinds"][f[2]] = res["kinds"].get(f[2], 0) + 1
            kv = dict(x.split("=", 1) for x in f[3:] if "=" in x)
            if kv.get("nontrivial") == "1":
                res["nontrivial"].add(kv.get("hash"))
            if len(res["samples"]) < 1:
                res["samples"].append(" ".join(f[1:6]))
        elif f[0] == "DIVERGE":
            res["cases"] += 1
            R.divergence("application-side stream reader: model and implementation disagree on case %s: %s" % (f[1], " ".join(f[2:])[:300]),
                         dict(case=cases.get(f[1], "")[:6000], detail=l[:500], harness="TestAppTrace (VERIF_OPS=<case file>)"))
        elif f[0] == "ORACLE":
            R.oracle_failure(f[2] + ":" + case_shape(cases.get(f[1], "")), " ".join(f[3:]),
                             dict(case_id=f[1], case=shrink_for_replay(cases.get(f[1], "")), harness="VERIF_OPS=<file> facelp.test -test.run TestAppTrace"))
        elif f[0] == "BADLINE":
            R.proof_problems.append("app runner could not parse: " + l[:200])
    return res


def lp_trace(R, test_exe, runner, nperm, nadv, sweep, corpus_dirs, tag, timeout=1500):
    """Link-service harness (TestLpTrace) + two-phase replay on the extracted model.
    Phase 1: runner lists the reassembled/inner payloads whose parse result it needs; TestClassify runs spec.ReadPacket on
    them (Interest/Data parsing belongs to the codec family: it is an input of this model); phase 2: full comparison."""
    trace = os.path.join(R.work, "lp-%s.trace" % tag)
    corpus = os.path.join(R.work, "lpcorpus-%s" % tag)
    os.makedirs(corpus, exist_ok=True)
    for f in os.listdir(corpus):
        os.remove(os.path.join(corpus, f))
    for d in corpus_dirs:
        if os.path.isdir(d):
            for f in sorted(os.listdir(d)):
                if f.endswith(".lpcase"):
                    open(os.path.join(corpus, os.path.basename(d) + "-" + f), "w").write(open(os.path.join(d, f)).read())
    env = vlib.goenv()
    env.update(VERIF_SEED=str(R.seed), VERIF_N=str(nperm), VERIF_ADV=str(nadv), VERIF_SWEEP=sweep, VERIF_OUT=trace,
               VERIF_CORPUS=corpus, VERIF_TIER=R.tier)
    rc, out = vlib.sh([test_exe, "-test.run", "TestLpTrace$", "-test.count=1", "-test.timeout=%ds" % timeout], env=env, timeout=timeout + 60)
    if rc != 0:
        last = ""
        try:
            txt = open(trace, errors="replace").read()
            i = txt.rfind("LPCASE ")
            last = txt[i:i + 60000].replace("\nPRE ", "\nRECV ")
        except OSError:
            pass
        R.oracle_failure("lp-harness-crash", "the Go link-service harness aborted (panic outside recover / fatal error such as out of memory)",
                         dict(output=out[-1500:], last_case=last))
        return None
    need = os.path.join(R.work, "lp-%s.need" % tag)
    table = os.path.join(R.work, "lp-%s.table" % tag)
    rc, out1 = run_runner(runner, ["lp", "1", trace, "-", need], timeout=timeout)
    if "DONE" not in out1:
        R.proof_problems.append("lp runner (phase 1) did not finish: " + out1[-300:])
        return None
    env = vlib.goenv()
    env.update(VERIF_IN=need, VERIF_OUT=table)
    rc, out = vlib.sh([test_exe, "-test.run", "TestClassify$", "-test.count=1"], env=env, timeout=600)
    if rc != 0:
        R.oracle_failure("classify-crash", "spec.ReadPacket crashed the harness on a reassembled payload", dict(output=out[-1500:]))
        return None
    rc, out = run_runner(runner, ["lp", "1", trace, table], timeout=timeout)
    res = dict(cases=0, nontrivial=set(), kinds={}, samples=[], ops=0)
    if "DONE" not in out:
        R.proof_problems.append("lp runner did not finish: " + out[-300:])
    cases = load_lp_cases(trace)
    seen_div = set()
    for l in out.split("\n"):
        f = l.split(" ")
        if f[0] == "CASEOK":
            res["cases"] += 1
            res["kinds"][f[2]] = res["kinds"].get(f[2], 0) + 1
            kv = dict(x.split("=", 1) for x in f[3:] if "=" in x)
            res["ops"] += int(kv.get("ops", "0"))
            if kv.get("nontrivial") == "1":
                res["nontrivial"].add(kv.get("hash"))
            if len(res["samples"]) < 2 or (f[2] not in [x.split(" ")[1] for x in res["samples"]] and len(res["samples"]) < 4):
                res["samples"].append(" ".join(f[1:7]))
        elif f[0] == "DIVERGE":
            if f[1] not in seen_div:
                seen_div.add(f[1])
                res["cases"] += 1
            R.divergence("link service: model and implementation disagree on case %s: %s" % (f[1], " ".join(f[2:])[:400]),
                         dict(case=cases.get(f[1], "")[:8000], detail=l[:800], harness="TestLpTrace (VERIF_OPS=<file with the LPCASE/SEND/RECV lines>)"))
        elif f[0] == "ORACLE":
            sig = f[2] + ":" + lp_case_kind(cases.get(f[1], ""))
            R.oracle_failure(sig, " ".join(f[3:]), dict(case_id=f[1], case=shrink_for_replay(cases.get(f[1], "")),
                                                        harness="VERIF_OPS=<file with these LPCASE/SEND/RECV lines> facelp.test -test.run TestLpTrace"))
        elif f[0] in ("BADLINE", "NEEDMISSING"):
            R.proof_problems.append("lp runner: " + l[:200])
    return res


def load_lp_cases(trace):
    cases, cur, cid = {}, [], None
    for line in open(trace, errors="replace"):
        if line.startswith("LPCASE "):
            if cid is not None:
                cases[cid] = "".join(cur)
            cid = line.split()[1]
            cur = [line]
        elif cid is not None and line.startswith(("SEND", "RECV", "ORDER")):
            cur.append(line)
    if cid is not None:
        cases[cid] = "".join(cur)
    return cases


def lp_case_kind(case):
    m = re.match(r"LPCASE \S+ (\S+)", case)
    return m.group(1) if m else "?"


def appsend_trace(R, test_exe, runner, n):
    """Sender side of the application stream face: concurrent Send calls over a gated pipe, a real StreamFace receiving."""
    trace = os.path.join(R.work, "appsend.trace")
    env = vlib.goenv()
    env.update(VERIF_SEED=str(R.seed), VERIF_N=str(n), VERIF_OUT=trace)
    rc, out = vlib.sh([test_exe, "-test.run", "TestAppSendTrace$", "-test.count=1", "-test.timeout=600s"], env=env, timeout=700)
    if rc != 0:
        R.oracle_failure("appsend-harness-crash", "the Go harness for concurrent Send aborted", dict(output=out[-1500:]))
        return None
    rc, out = run_runner(runner, ["appsend", trace])
    res = dict(cases=0, nontrivial=set(), kinds={}, samples=[])
    if "DONE" not in out:
        R.proof_problems.append("appsend runner did not finish: " + out[-300:])
    txt = open(trace, errors="replace").read()
    for l in out.split("\n"):
        f = l.split(" ")
        if f[0] == "CASEOK":
            res["cases"] += 1
            res["kinds"][f[2]] = res["kinds"].get(f[2], 0) + 1
            kv = dict(x.split("=", 1) for x in f[3:] if "=" in x)
            if kv.get("nontrivial") == "1":
                res["nontrivial"].add(kv.get("hash"))
            if not res["samples"]:
                res["samples"].append(" ".join(f[1:6]))
        elif f[0] == "ORACLE":
            res["cases"] += 1
            i = txt.find("SCASE " + f[1] + " ")
            j = txt.find("END", i)
            R.oracle_failure(f[2] + ":app-send-concurrent", " ".join(f[3:]),
                             dict(case_id=f[1], case=txt[i:j + 3][:200000], harness="facelp.test -test.run TestAppSendTrace (VERIF_SEED=%d)" % R.seed))
    return res


def internal_trace(R, test_exe, n):
    """The real internal (management) face: packets in through SendPacket, out through InternalTransport.Receive."""
    trace = os.path.join(R.work, "internal.trace")
    env = vlib.goenv()
    env.update(VERIF_SEED=str(R.seed), VERIF_N=str(n), VERIF_OUT=trace)
    rc, out = vlib.sh([test_exe, "-test.run", "TestInternalTrace$", "-test.count=1", "-test.timeout=300s"], env=env, timeout=400)
    lines = [l.strip() for l in open(trace, errors="replace")] if os.path.exists(trace) else []
    if rc != 0:
        R.oracle_failure("internal-face-harness-crash", "the harness for the internal face aborted", dict(output=out[-1500:], last=lines[-1:] ))
        return
    multi = 0
    for l in lines:
        m = re.match(r"IF (\d+) size=(\d+) token=(\d+) inface=(\d+) -> frames=(\d+) bytes=(\d+) res=(\w+) inface_seen=(\S*)", l)
        if not m:
            continue
        size, frames, got, res = int(m.group(2)), int(m.group(5)), int(m.group(6)), m.group(7)
        if frames > 1:
            multi += 1
        if res == "panic":
            R.oracle_failure("internal-receive-panic", "InternalTransport.Receive panicked on a frame of the internal face's own link service "
                             "(management goroutine dies): Interest of %d bytes sent in fragments" % size, dict(line=l, harness="facelp.test -test.run TestInternalTrace"))
        elif res != "ok" or got != size or any(x != m.group(4) for x in m.group(8).split(",") if x):
            R.oracle_failure("internal-receive-lost", "the internal face lost or altered a packet (%s)" % l[:200], dict(line=l))
    R.coverage.setdefault("distribution", {})["internal_face"] = dict(packets=len(lines), fragmented=multi)
    R.add_cases(len(lines), multi, lines[-1:])


def concurrent_send(R, test_exe, rounds, race=False):
    """Two real link services with their own send goroutines; A's transport stalls in sendFrame while B sends."""
    trace = os.path.join(R.work, "concurrent-send%s.trace" % ("-race" if race else ""))
    exe = test_exe
    if race:
        exe = os.path.join(R.work, "facelp-race.test")
        ok, log = vlib.go_test_build("facelp", exe, race=True)
        if not ok:
            R.notes.append("race-detector build of the face harness failed; concurrent-send part ran without it")
            return
    env = vlib.goenv()
    env.update(VERIF_SEED=str(R.seed), VERIF_N=str(rounds), VERIF_OUT=trace)
    rc, out = vlib.sh([exe, "-test.run", "TestConcurrentSend$", "-test.count=1", "-test.timeout=300s"], env=env, timeout=400)
    lines = [l.strip() for l in open(trace, errors="replace")] if os.path.exists(trace) else []
    if "DATA RACE" in out:
        R.oracle_failure("frame-buffer-race", "race detector: two link services' send goroutines touch the same frame buffer",
                         dict(output=out[-3000:], harness="facelp.test (-race) -test.run TestConcurrentSend"))
    elif rc != 0:
        R.oracle_failure("concurrent-send-crash", "the concurrent-send harness aborted", dict(output=out[-1500:]))
    n = 0
    for l in lines:
        m = re.match(r"CS (\d+) a_ok=(\d) b_ok=(\d) a_has_b=(\d)", l)
        if not m:
            if l.startswith("CS"):
                R.oracle_failure("concurrent-send-stuck", "a send goroutine did not reach its transport: " + l, dict(line=l))
            continue
        n += 1
        if m.group(2) != "1" or m.group(3) != "1":
            what = ("the transport of face A wrote the frame assembled for face B (a packet for the local face on the non-local wire)"
                    if m.group(4) == "1" else "a transport wrote bytes that are not the frame assembled for its face")
            R.oracle_failure("frame-of-other-face", what + ": the frame buffer is shared between link services whose send goroutines run concurrently",
                             dict(line=l, harness="facelp.test -test.run TestConcurrentSend"))
    for l in lines:
        m = re.match(r"QF offered=(\d+) queue=(\d+) written=(\d+) intact=(\d+) in_order=(\d)", l)
        if m and (m.group(3) != m.group(4) or m.group(5) != "1" or int(m.group(3)) > int(m.group(2)) + 1):
            R.oracle_failure("send-queue-overflow", "a blocked face whose send queue overflowed wrote frames that are not, in order, the first packets queued: " + l,
                             dict(line=l, harness="facelp.test -test.run TestConcurrentSend"))
        elif l.startswith("QF blocked"):
            R.oracle_failure("send-packet-blocks", "SendPacket blocked the caller on a face whose queue is full: " + l, dict(line=l))
    R.coverage.setdefault("distribution", {})["concurrent_send_rounds" + ("_race" if race else "")] = n
    R.add_cases(n, n, lines[:1])


def tcp_lifetime(R, test_exe):
    """A real on-demand UnicastTCPTransport whose stream lasts longer than faces.tcp.lifetime (1 s here)."""
    trace = os.path.join(R.work, "tcp-lifetime.trace")
    env = vlib.goenv()
    env.update(VERIF_OUT=trace)
    rc, out = vlib.sh([test_exe, "-test.run", "TestTcpLifetime$", "-test.count=1", "-test.timeout=120s"], env=env, timeout=200)
    lines = [l.strip() for l in open(trace, errors="replace")] if os.path.exists(trace) else []
    if rc != 0:
        R.oracle_failure("tcp-lifetime-crash", "the TCP lifetime harness aborted", dict(output=out[-1500:]))
        return
    if any(l.startswith("TL unavailable") for l in lines):
        R.notes.append("loopback TCP not available in this environment: the 'stream longer than the face lifetime' scenario was skipped")
        return
    n = 0
    for l in lines:
        m = re.match(r"TL t_ms=(\d+) frames=(\d+) period_ms=(-?\d+) running=(\d)", l)
        if not m:
            continue
        n += 1
        # each sample is taken 60 ms after a frame was written: the expiry must be (almost) a full lifetime away
        if int(m.group(3)) < 500 or m.group(4) != "1":
            R.oracle_failure("tcp-face-expires-mid-stream", "an on-demand TCP face that keeps receiving frames is %d ms from expiry (lifetime 1000 ms) %s ms into the "
                             "stream: the expiry was not moved by the frames received (Table.ExpirationHandler closes it mid-stream)" % (int(m.group(3)), m.group(1)),
                             dict(lines=lines, harness="facelp.test -test.run TestTcpLifetime"))
            break
    R.coverage.setdefault("distribution", {})["tcp_lifetime_samples"] = n
    R.add_cases(1, 1 if n >= 5 else 0, lines[-1:])


def thread_consume(R, test_exe, rounds):
    """What the link service dispatches is consumed by real fw.Threads (processIncomingInterest/Data) under recover."""
    trace = os.path.join(R.work, "thread.trace")
    env = vlib.goenv()
    env.update(VERIF_SEED=str(R.seed), VERIF_N=str(rounds), VERIF_OUT=trace)
    rc, out = vlib.sh([test_exe, "-test.run", "TestThreadConsume$", "-test.count=1", "-test.timeout=300s"], env=env, timeout=400)
    lines = [l.strip() for l in open(trace, errors="replace")] if os.path.exists(trace) else []
    if rc != 0:
        R.oracle_failure("thread-consume-crash", "the harness that lets real forwarding threads consume dispatched packets aborted "
                         "(panic outside recover / fatal error)", dict(output=out[-2000:], last=lines[-1:]))
        return
    kinds = {}
    for l in lines:
        m = re.match(r"TC (\d+) ([\w:-]+) face=(\d+) tok=(\d+) match=(\d) res=([\w-]+) drained=(\d+) frame=(\S+)", l)
        if not m:
            continue
        kind = m.group(2).split(":")[0]
        kinds[kind] = kinds.get(kind, 0) + 1
        if m.group(6) != "ok":
            where = "handleIncomingFrame" if m.group(6) == "panic-frame" else "the forwarding thread (processIncoming%s)" % ("Data" if kind.startswith("data") else "Interest")
            R.oracle_failure("%s:%s" % (m.group(6), kind.split("-")[0]),
                             "%s panicked on a well-formed LP frame carrying a decodable %s with a PIT token of %s byte(s)" % (where, m.group(2), m.group(4)),
                             dict(line=l[:3000], harness="facelp.test -test.run TestThreadConsume"))
            break
    R.coverage.setdefault("distribution", {})["thread_consume"] = kinds
    R.add_cases(len(lines), len(lines), [l[:120] for l in lines[:1]])


def transports(R, test_exe):
    """The glue around readTlvStream / sendFrame on real sockets: unix-stream, on-demand TCP, unicast UDP; Run(initial frame)."""
    trace = os.path.join(R.work, "transports.trace")
    env = vlib.goenv()
    env.update(VERIF_SEED=str(R.seed), VERIF_OUT=trace)
    rc, out = vlib.sh([test_exe, "-test.run", "TestTransports$", "-test.count=1", "-test.timeout=120s"], env=env, timeout=200)
    lines = [l.strip() for l in open(trace, errors="replace")] if os.path.exists(trace) else []
    if rc != 0:
        R.oracle_failure("transports-crash", "the real-socket transport harness aborted", dict(output=out[-1500:], last=lines[-1:]))
        return
    n = 0
    for l in lines:
        if " unavailable " in l:
            R.notes.append("real-socket scenario skipped in this environment: " + l)
            continue
        m = re.match(r"TR (\w+) rx_sent=(\d+) rx_delivered=(\d+) rx_match=(\d) tx_sent=(\d+) tx_got=(\d+) tx_match=(\d)", l)
        if m:
            n += 1
            if m.group(4) != "1":
                R.oracle_failure("transport-rx:" + m.group(1), "frames written to a real %s face in pieces: %s packets sent, %s delivered to the forwarding threads, not the same packets"
                                 % (m.group(1), m.group(2), m.group(3)), dict(line=l, harness="facelp.test -test.run TestTransports"))
            if m.group(7) != "1":
                R.oracle_failure("transport-tx:" + m.group(1), "packets sent through a real %s face: %s sent, %s blocks read from the socket, not the same packets"
                                 % (m.group(1), m.group(5), m.group(6)), dict(line=l, harness="facelp.test -test.run TestTransports"))
        m = re.match(r"RI delivered=(\d+) match=(\d)", l)
        if m:
            n += 1
            if m.group(2) != "1":
                R.oracle_failure("run-initial-frame", "Run(initial frame) did not deliver the packet of the initial frame exactly once", dict(line=l))
    R.coverage.setdefault("distribution", {})["real_transports"] = n
    R.add_cases(n, n, lines[:1])


def load_cases(trace):
    cases, cur, cid = {}, [], None
    for line in open(trace, errors="replace"):
        if line.startswith("CASE "):
            cid = line.split()[1]
            cur = [line]
        elif cid is not None:
            if line.startswith(("S ", "R ", "B ", "I ")):
                cur.append(line)
            if line.startswith("END"):
                cases[cid] = "".join(cur)
                cid = None
    if cid is not None:
        cases[cid] = "".join(cur)
    return cases


def shrink_for_replay(case):
    return case if len(case) < 200000 else case[:200000] + "...(truncated; full case in the trace file)"


def case_shape(case):
    """Signature component identifying the input pattern (kind of case), not its random bytes."""
    m = re.match(r"CASE \S+ (\S+)", case)
    return m.group(1) if m else "?"


# ----------------------------------------------------------------------------------------------------------------
def part(R):
    """Receive-path half of C04, reported through the caller's Run object."""
    ok, test_exe, runner = prepare(R, "C04_face")
    if not ok:
        return
    if not R.quick:
        R.coqchk("Face", ["Face.StreamProofs", "Face.LpTotal"])
    n = 64 if R.quick else 1600
    res = stream_trace(R, test_exe, runner, "adv", n, 0, [os.path.join(vlib.VERIF, "corpus", "C04_face")], "adv")
    if res:
        R.coverage.setdefault("distribution", {})["stream_adversarial"] = res["kinds"]
        R.add_cases(res["cases"], len(res["nontrivial"]), res["samples"])
    nadv = 150 if R.quick else 6000
    lp = lp_trace(R, test_exe, runner, 0, nadv, "", [os.path.join(vlib.VERIF, "corpus", "C04_face")], "adv")
    if lp:
        R.coverage.setdefault("distribution", {})["frame_sequences"] = dict(cases=lp["kinds"], frames_fed=lp["ops"])
        R.add_cases(lp["cases"], len(lp["nontrivial"]), lp["samples"])
    internal_trace(R, test_exe, 40 if R.quick else 400)
    thread_consume(R, test_exe, 3 if R.quick else 30)
    rule = ("stream: one evaluation = one adversarial byte stream (huge/overflowing lengths, oversize blocks, exact buffer fill, non-minimal forms, random "
            "and TL-biased bytes, truncation) under one read schedule; frames: one evaluation = one sequence of 4..27 frames fed to a real NDNLPLinkService "
            "(arbitrary FragIndex/FragCount/Sequence incl. 2^32, 2^63, 2^64-1, index >= count, count changes for a live sequence, duplicates, sequence wrap, "
            "6-byte PIT tokens naming thread = count, bit-flipped / truncated / extended valid frames, nested LpPackets, IDLE frames, random bytes); "
            "non-trivial = at least 3 frames and (a delivery or at least 8 frames); distinct by MD5 of the canonical case")
    R.coverage["rule"] = (R.coverage.get("rule", "") + " | receive path: " + rule).strip(" |")


def replay_generic(R, path, props_pid):
    """bin/check Cxx --replay <file>: rebuild the harness from the current tree and re-run exactly the recorded case."""
    import json
    d = json.load(open(path))
    case = d.get("case") or d.get("first_divergence", {}).get("case") or d.get("last_case") or ""
    if not case.strip():
        print("replay file has no case text"); return 2
    ok, test_exe, runner = prepare(R, props_pid)
    if not ok:
        return R.finish()
    ops = os.path.join(R.work, "replay.ops")
    open(ops, "w").write(case if case.endswith("\n") else case + "\n")
    env = vlib.goenv()
    if case.lstrip().startswith("LPCASE"):
        trace = os.path.join(R.work, "replay-lp.trace")
        env.update(VERIF_OPS=ops, VERIF_OUT=trace, VERIF_SEED=str(d.get("seed", 1)))
        rc, out = vlib.sh([test_exe, "-test.run", "TestLpTrace$", "-test.count=1"], env=env, timeout=600)
        print(out[-800:] if rc else "harness ok")
        need, table = trace + ".need", trace + ".table"
        run_runner(runner, ["lp", "1", trace, "-", need])
        e2 = vlib.goenv(); e2.update(VERIF_IN=need, VERIF_OUT=table)
        vlib.sh([test_exe, "-test.run", "TestClassify$", "-test.count=1"], env=e2, timeout=300)
        rc, out = run_runner(runner, ["lp", "1", trace, table])
    else:
        trace = os.path.join(R.work, "replay-stream.trace")
        app = " app-" in case.split("\n")[0]
        env.update(VERIF_OPS=ops, VERIF_OUT=trace, VERIF_KINDS="wf,adv")
        rc, out = vlib.sh([test_exe, "-test.run", "TestAppTrace$" if app else "TestStreamTrace$", "-test.count=1"], env=env, timeout=600)
        print(out[-800:] if rc else "harness ok")
        rc, out = run_runner(runner, ["app", trace] if app else ["stream", stream_guard(), trace])
    bad = [l for l in out.split("\n") if l.startswith(("ORACLE", "DIVERGE"))]
    print("\n".join(l[:400] for l in out.split("\n") if l))
    print("REPLAY: %s" % ("reproduced (%d finding line(s))" % len(bad) if bad else "not reproduced on the current tree"))
    return 1 if bad else 0


def replay(R, path):
    return replay_generic(R, path, "C04_face")


def run(R):
    part(R)
    return R.finish()
