"""C11 — stream framing delivers each TLV exactly once for any chunking of the stream, for streams of unbounded length.
Proof: coq/Face (Stream.v model, StreamProofs.v, Props_C11.v).  Correspondence: harness/facelp drives the real
fw/face readTlvStream with a scripted io.Reader (1 byte at a time, buffer-filling reads, cuts inside T and L, zero-byte
reads, ignorable errors) over streams of > 600 KB (the 281600-byte receive buffer wraps repeatedly); runner/Face replays
every case on the extracted model and evaluates the spec oracle (frames = blocks complete in the consumed prefix) on the
implementation's frames.  The application-side reader std/engine/face/stream_face.go is driven over a real socket pair."""
import importlib.util, os
import vlib

HERE = os.path.dirname(os.path.abspath(__file__))


def _face():
    spec = importlib.util.spec_from_file_location("check_C04_face", os.path.join(HERE, "C04_face.py"))
    mod = importlib.util.module_from_spec(spec)
    spec.loader.exec_module(mod)
    return mod


def run(R):
    F = _face()
    ok, test_exe, runner = F.prepare(R, "C11")
    if not ok:
        return R.finish()
    if not R.quick:
        R.coqchk("Face", ["Face.StreamProofs"])
    n, nlong = (36, 3) if R.quick else (1500, 30)
    res = F.stream_trace(R, test_exe, runner, "wf", n, nlong, [os.path.join(vlib.VERIF, "corpus", "C11")], "wf")
    if res:
        R.coverage["distribution"] = dict(stream_cases=res["kinds"])
        R.coverage["rule"] = ("one evaluation = one generated stream of minimal-form TLV blocks (sizes 2..8800; 1/3-byte lengths; 1/3/5/9-byte types; "
                              "payload bytes biased to TL head values) fed to the real readTlvStream under one read schedule and replayed on the model; "
                              "non-trivial = at least 3 frames and at least 3 reads; distinct by MD5 of (kind, stream bytes, schedule). "
                              "long cases exceed 600 KB so the 32-packet receive buffer is compacted/wrapped many times")
        R.add_cases(res["cases"], len(res["nontrivial"]), res["samples"])
    app = F.app_trace(R, test_exe, runner, 12 if R.quick else 300)
    if app:
        R.coverage["distribution"]["app_reader_cases"] = app["kinds"]
        R.add_cases(app["cases"], len(app["nontrivial"]), app["samples"])
    F.tcp_lifetime(R, test_exe)
    F.transports(R, test_exe)
    snd = F.appsend_trace(R, test_exe, runner, 3 if R.quick else 60)
    if snd:
        R.coverage["distribution"]["app_sender_cases"] = snd["kinds"]
        R.add_cases(snd["cases"], len(snd["nontrivial"]), snd["samples"])
    return R.finish()


def replay(R, path):
    return _face().replay_generic(R, path, "C11")
