"""C04 (decoder half) — no byte sequence can crash or exhaust any TLV decoder.
Proof: coq/Codec (Props_C04.v): the generic parser never panics and never runs out of fuel, for both readers.
Correspondence/search: structure-aware mutations of valid encodings of every generated model (every length replaced by
boundary and huge values, truncation, type confusion, duplication/reordering, bit flips), through every generated parser
and the hand-written packet/name decoders, with the contiguous and the segmented reader, in a child process (input on disk
before each call, per-call watchdog, address-space limit, allocation measured per call).  The runner replays every parser
case on the extracted model (accept/reject and value must agree) and the crash/hang/allocation oracle is evaluated on the
implementation's own record.
The receive-path half of C04 (stream framing, LP reassembly, dispatch) belongs to checks/C04_face.py (function part(R)),
called from here when that file exists."""
import os, sys, json, re, resource, subprocess, importlib.util
import vlib
sys.path.insert(0, os.path.join(vlib.VERIF, "translators", "codec"))
import codecgen, codec_common as cc

ALLOC_PER_BYTE = 64        # bytes requested from the Go allocator per input byte ...
ALLOC_CONST = 65536        # ... plus this constant (io.CopyN's 32 KiB buffer, reflection overhead of the harness)
AS_LIMIT = 6 << 30         # address-space limit of the child: a decoder asking for more aborts the child (recorded as oom)


def run_children(R, hexe, cases, out, watchdog_ms=5000):
    """Run TestChild over the case file, restarting after each hard failure. Returns list of (line_index, kind)."""
    ncases = sum(1 for _ in open(cases))
    failures = []
    start = 0
    if os.path.exists(out):
        os.remove(out)
    guard = 0
    while start < ncases and guard < 200:
        guard += 1
        env = vlib.goenv()
        env.update(VERIF_SCHEMAS=os.path.join(cc.rundir(R), "schemas.json"), VERIF_CASES=cases, VERIF_OUT=out,
                   VERIF_START=str(start), VERIF_WATCHDOG_MS=str(watchdog_ms), GOMEMLIMIT="off", GOTRACEBACK="single")
        def limit():
            resource.setrlimit(resource.RLIMIT_AS, (AS_LIMIT, AS_LIMIT))
        try:
            p = subprocess.run([hexe, "-test.run", "^TestChild$", "-test.count=1", "-test.timeout=0"], env=env, cwd=cc.rundir(R),
                               preexec_fn=limit, stdout=subprocess.PIPE, stderr=subprocess.STDOUT, timeout=None, text=True, errors="replace")
            rc, o = p.returncode, p.stdout      # no wall-clock limit here: the child stops itself (CPU budget per call / END)
        except subprocess.TimeoutExpired as e:
            rc, o = 124, (e.stdout or "")
        # what was the last started case?
        last_s = None; ended = False; last_done = None
        with open(out, errors="replace") as f:
            for l in f:
                if l.startswith("S "):
                    last_s = int(l.split()[1])
                elif l.startswith("END "):
                    ended = True
                elif l.startswith(("D ", "HR ")):
                    last_done = last_s
                elif l.startswith("T "):
                    pass
        if ended and rc == 0:
            break
        if last_s is None:
            R.proof_problems.append("C04 child could not start: " + o[-400:])
            break
        if rc == 4:
            # wall-clock expiry in one call while its CPU budget was not used up (machine load, stopped process, ...): no
            # verdict from a clock (docs/C16.md) - a note, the case is recorded as inconclusive and the run goes on
            msg = "C04 child: case %d spent more than the wall-clock note limit in one call without using up its CPU budget; inconclusive, skipped" % last_s
            R.notes.append(msg); R.coverage.setdefault("inconclusive", []).append(msg); R.log(msg)
            start = last_s + 1
            continue
        kind = "timeout" if rc == 3 else ("oom" if ("out of memory" in o or "cannot allocate" in o) else ("fatal" if rc != 0 else "exit"))
        if last_done == last_s:
            # died between cases: treat as failure of the harness itself
            R.proof_problems.append("C04 child exited (rc=%s) outside a decoder call: %s" % (rc, o[-300:]))
            start = last_s + 1
            continue
        failures.append((last_s, kind, o[-600:]))
        start = last_s + 1
        # drop a trailing END marker so the next child's END is the only one
    return failures, ncases


def run(R):
    R.assumptions += cc.ASSUMPTIONS + [
        "heap use and run time are properties of the Go runtime, not of the model: they are measured on the implementation (TotalAlloc delta per call, "
        "address-space limit, per-call watchdog); the theorems bound what the decoder can ask for (never a panic, termination within input-length fuel)",
    ]
    R.coverage["trusted_base"] = cc.TRUSTED + ["child-process supervisor in checks/C04.py (rlimit, watchdog)"]
    pkgs = cc.translate(R)
    if pkgs is None:
        return R.finish()
    R.pkgs = pkgs
    cc.prove(R)
    if not R.quick:
        R.coqchk("Codec", ["Codec.TotalWr", "Codec.Hand", "Codec.Alloc"])
    b = cc.build(R, pkgs)
    if b is None:
        return R.finish()
    rexe, hexe = b
    # ---- case files: corpus first, then generated ----
    cases = os.path.join(cc.rundir(R), "cases")
    with open(cases, "w") as f:
        cdir = os.path.join(vlib.VERIF, "corpus", "C04")
        ncorpus = 0
        if os.path.isdir(cdir):
            for fn in sorted(os.listdir(cdir)):
                for l in open(os.path.join(cdir, fn)):
                    if l.strip() and not l.startswith("#"):
                        f.write(l.strip() + "\n"); ncorpus += 1
    gen = os.path.join(cc.rundir(R), "cases-gen")
    n = 1 if R.quick else 6
    rc, o = cc.run_harness(R, hexe, "TestMutGen", gen, dict(VERIF_N=str(n), VERIF_FULL="0" if R.quick else "1"), timeout=1200)
    if rc != 0:
        R.proof_problems.append("mutation generator failed: " + o[-400:]); return R.finish()
    with open(cases, "a") as f:
        f.write(open(gen).read())
    out = os.path.join(cc.rundir(R), "child-out")
    failures, ncases = run_children(R, hexe, cases, out)
    case_lines = open(cases).read().split("\n")
    R.log("child: %d cases (%d from corpus), %d hard failures" % (ncases, ncorpus, len(failures)))
    # ---- assemble the trace for the runner: D lines of parser cases (+ synthesized lines for hard failures) ----
    dlines = []; hr = []; tags = {}; allocs = []; bad_alloc = []
    for l in open(out, errors="replace"):
        l = l.rstrip("\n")
        if l.startswith("D "):
            dlines.append(l)
        elif l.startswith("HR "):
            hr.append(l)
        elif l.startswith("X "):
            R.proof_problems.append("corpus refers to a model that no longer exists: " + l)
    for idx, kind, tail in failures:
        f = case_lines[idx].split(" ")
        if f[0] == "PC":
            # resolve names
            for pi, p in enumerate(pkgs):
                if p["dir"] == f[1]:
                    for mi, m in enumerate(p["models"]):
                        if m["name"] == f[2]:
                            f = ["P", str(pi), str(mi)] + f[3:]
        if f[0] == "P":
            dlines.append("D %s %s %s %s %s %s - - %s" % (f[1], f[2], f[3], f[4], f[5], kind if kind in ("timeout", "oom") else "panic", f[6]))
        else:
            hr.append("HR %s %s %s %s %s" % (f[1], f[2], f[3], kind, f[4]))
    trace = os.path.join(cc.rundir(R), "trace")
    modelled = ("NameFromBytes", "ReadName", "ComponentFromBytes", "ParseNat", "ReadPacket", "ReadData", "ReadInterest")
    open(trace, "w").write("\n".join(dlines + [l for l in hr if l.split(" ")[1] in modelled]) + "\n")
    rc, rout, lines = cc.run_runner(R, rexe, trace, timeout=3000)
    if "DONE" not in rout:
        R.proof_problems.append("runner did not finish: " + rout[-300:])
    stats = {}
    alloc_cmp = {}
    for l in rout.split("\n"):
        if l.startswith("STAT "):
            _, k, v = l.split(" "); stats[k] = int(v)
        elif l.startswith("DIVERGE "):
            parts = l.split(" ", 3); src = lines[int(parts[1]) - 1]; f = src.split(" ")
            if f[0] == "HR":
                R.divergence("%s through reader %s: %s" % (parts[2], f[2], parts[3][:300]), dict(trace_line=src[:6000], detail=parts[3][:3000]))
                continue
            R.divergence("%s (model %s/%s, %s): %s" % (parts[2], f[1], f[2], f[9].split(";")[0], parts[3][:300]), dict(trace_line=src[:6000], detail=parts[3][:3000]))
        elif l.startswith("ORACLE "):
            parts = l.split(" ", 3); src = lines[int(parts[1]) - 1]; f = src.split(" ")
            pk = pkgs[int(f[1])]; mname = pk["models"][int(f[2])]["name"]
            tag = re.sub(r"[@:;].*", "", f[9])
            R.oracle_failure("%s:%s:%s.%s:%s" % (parts[2], tag, pk["dir"], mname, f[4]),
                             "generated parser of %s.%s: %s on a %s input through reader %s" % (pk["dir"], mname, parts[2], tag, f[4]),
                             dict(trace_line=src[:6000], package=pk["dir"], model=mname, segments=f[5]))
        elif l.startswith("BADLINE"):
            R.proof_problems.append("runner could not parse: " + l[:200])
        elif l.startswith("ALLOC "):
            # the model's allocation bound (Alloc.decode_alloc, proved linear) against the measured allocation of this call
            _, ln, a = l.split(" ")
            src = lines[int(ln) - 1]
            m = re.search(r"alloc=(\d+);len=(\d+)", src)
            if m:
                excess = int(m.group(1)) - int(a)
                b = "<=0" if excess <= 0 else ("<=4KiB" if excess <= 4096 else ("<=64KiB" if excess <= 65536 else ">64KiB"))
                alloc_cmp[b] = alloc_cmp.get(b, 0) + 1
                if excess > 65536:
                    R.divergence("allocation: the implementation allocated %s bytes, the model's bound decode_alloc gives %s (input %s bytes)" % (m.group(1), a, m.group(2)),
                                 dict(trace_line=src[:6000], model_bound=a))
    R.coverage.setdefault("distribution", {})
    # ---- hand-written decoders: crash oracle only ----
    hstats = {}
    for l in hr:
        f = l.split(" ")
        res = f[4].split(":")[0]
        hstats[f[1] + ":" + res] = hstats.get(f[1] + ":" + res, 0) + 1
        if res not in ("ok", "err"):
            tag = re.sub(r"[@:;].*", "", f[5]) if len(f) > 5 else ""
            R.oracle_failure("CRASH:%s:%s:%s:%s" % (res, f[1], f[2], tag), "hand-written decoder %s: %s through reader %s" % (f[1], f[4][:200], f[2]),
                             dict(trace_line=l[:6000], function=f[1], segments=f[3]))
    # ---- allocation oracle on every call ----
    worst = (0, "")
    hist = {}
    for l in dlines + hr:
        m = re.search(r"alloc=(\d+);len=(\d+)", l)
        if not m:
            continue
        a, ln = int(m.group(1)), int(m.group(2))
        ratio = max(0, a - ALLOC_CONST) / (ln + 1)
        b = "<=%d" % (8 * (1 + int(ratio // 8))) if ratio < 64 else ">64"
        hist[b] = hist.get(b, 0) + 1
        if ratio > worst[0]:
            worst = (ratio, l[:200])
        if a > ALLOC_PER_BYTE * ln + ALLOC_CONST:
            f = l.split(" ")
            who = ("%s/%s" % (f[1], f[2])) if f[0] == "D" else f[1]
            R.oracle_failure("ALLOC:%s" % who, "decoder allocated %d bytes for a %d-byte input (limit %d*len+%d)" % (a, ln, ALLOC_PER_BYTE, ALLOC_CONST),
                             dict(trace_line=l[:6000]))
    # ---- counts ----
    kinds = {}
    distinct = set()
    for l in dlines + hr:
        f = l.split(" ")
        tag = re.sub(r"[@:;].*", "", f[9] if f[0] == "D" else (f[5] if len(f) > 5 else ""))
        key = ("gen:" if f[0] == "D" else "hand:") + tag
        kinds[key] = kinds.get(key, 0) + 1
        inp = f[5] if f[0] == "D" else f[3]
        if len(inp) >= 8 and tag != "valid":
            distinct.add(cc.sha(" ".join(f[:6] if f[0] == "D" else f[:4])))
    R.coverage["distribution"] = dict(mutation_kinds=kinds, runner=stats, handwritten=hstats, alloc_excess_per_input_byte=hist,
                                      measured_alloc_minus_model_bound=alloc_cmp,
                                      alloc_worst=worst[1], hard_failures=len(failures), corpus_cases=ncorpus)
    R.coverage["rule"] = ("one evaluation = one decoder call on the real code in the supervised child (generated Parse of a model, or ReadPacket/ReadData/ReadInterest/"
                          "NameFromBytes/ReadName/ComponentFromBytes/ParseNat) with BufferReader or WireReader (adversarial segmentation: empty segments, cuts inside headers, "
                          "one byte per segment); inputs = valid encodings of generated values and their mutations (length fields replaced by "
                          "0,1,252,253,2^16-1,2^16,2^32-1,2^32,2^34,2^40,2^47,2^62,2^63-1,2^63,2^64-10,2^64-1,true+-1,to-end; non-minimal length forms; truncation; type "
                          "confusion; swap/dup; bit flips; random); non-trivial = mutated input of >= 4 bytes; distinct by SHA-1 of decoder+reader+input. "
                          "Oracle: no panic / fatal error / exit, no call above the watchdog, allocation <= %d*len+%d; generated-parser cases are also replayed on the extracted model "
                          "(outcome and value must agree)." % (ALLOC_PER_BYTE, ALLOC_CONST))
    samples = [l[:300] for l in dlines if ";len@" in l or " len@" in l][:3] + [l[:300] for l in hr[:2]]
    R.add_cases(len(dlines) + len(hr), len(distinct), samples)
    # ---- receive path half (builder "face") ----
    fp = os.path.join(vlib.VERIF, "checks", "C04_face.py")
    if os.path.exists(fp):
        try:
            spec = importlib.util.spec_from_file_location("check_C04_face", fp)
            mod = importlib.util.module_from_spec(spec)
            spec.loader.exec_module(mod)
            mod.part(R)
            R.notes.append("receive-path part (checks/C04_face.py) included")
        except Exception as e:
            import traceback; traceback.print_exc()
            R.proof_problems.append("receive-path part (checks/C04_face.py) crashed: %r" % (e,))
    else:
        R.notes.append("receive-path half of C04 (stream framing, LP reassembly, dispatch: checks/C04_face.py) is not yet included in this evidence")
    return R.finish()


def _replay(R, path):
    """re-run the input of a replay file (its trace_line: a D or HR line) in the supervised child and on the model"""
    body = json.load(open(path))
    line = body.get("trace_line")
    if not line:
        print(json.dumps(body, indent=1)[:3000]); return 0
    pkgs = cc.translate(R)
    if pkgs is None:
        return R.finish()
    R.pkgs = pkgs
    vlib.coq_make("Codec")
    b = cc.build(R, pkgs)
    if b is None:
        return R.finish()
    rexe, hexe = b
    f = line.split(" ")
    cases = os.path.join(cc.rundir(R), "cases")
    if f[0] == "D":
        open(cases, "w").write("P %s %s %s %s %s %s\n" % (f[1], f[2], f[3], f[4], f[5], re.sub(r";alloc=.*", "", f[9]) if len(f) > 9 else "replay"))
    else:
        open(cases, "w").write("H %s %s %s %s\n" % (f[1], f[2], f[3], re.sub(r";alloc=.*", "", f[5]) if len(f) > 5 else "replay"))
    out = os.path.join(cc.rundir(R), "child-out")
    failures, n = run_children(R, hexe, cases, out)
    print(open(out).read()[:3000])
    for idx, kind, tail in failures:
        R.oracle_failure("CRASH:%s:replay" % kind, "the decoder %s on the replayed input" % kind, dict(trace_line=line[:6000], child_output=tail))
    dl = [l.rstrip("\n") for l in open(out) if l.startswith(("D ", "HR "))]
    trace = os.path.join(cc.rundir(R), "trace")
    open(trace, "w").write("\n".join(dl) + "\n")
    rc, rout, lines = cc.run_runner(R, rexe, trace)
    print(rout[:2000])
    for l in rout.split("\n"):
        if l.startswith("DIVERGE "):
            R.divergence("replay: " + l[:300], dict(trace_line=line[:6000]))
        elif l.startswith("ORACLE "):
            R.oracle_failure("replay:" + l.split(" ")[2], l[:300], dict(trace_line=line[:6000]))
    for l in dl:
        if l.startswith("HR ") and l.split(" ")[4].split(":")[0] not in ("ok", "err"):
            R.oracle_failure("CRASH:replay", l[:300], dict(trace_line=line[:6000]))
    R.add_cases(len(dl), 0, [line[:300]])
    return R.finish()


def replay(R, path):
    """replay must not clobber the evidence of the last real run"""
    ev = os.path.join(vlib.EVID, R.pid + ".json")
    old = open(ev, "rb").read() if os.path.exists(ev) else None
    try:
        return _replay(R, path)
    finally:
        if old is not None:
            open(ev, "wb").write(old)
