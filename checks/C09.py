"""C09 — /localhost traffic never crosses a non-local face.
Proof: coq/Fw (C09.v, Props_C09.v): c09_scope over every history of the forwarder model, c09_inbound, c09_local_ok.
Correspondence + oracle: harness/fwcore drives real fw.Thread objects; runner/Fw replays on the extracted model and evaluates
c09_out_ok on every send recorded on the fake faces and the inbound no-effect rule on the dumped table state."""
import os, sys
sys.path.insert(0, os.path.dirname(os.path.abspath(__file__)))
import _fw

def run(R):
    return _fw.run(R, "C09", [
        "scope predicate: a name is under /localhost iff its first component is the generic (type 8) component `localhost`; "
        "the code tests only the component value, which is a superset (lemma spec_code_localhost)",
    ])

def replay(R, path):
    return _fw.replay(R, path)
