"""C19 — routes installed by the routing daemon mirror its tables; prefix logs replicate.

Proof: coq/DvFib (Props_C19.v): installed_mirrors_tables (FIB installer: every history of table changes and fibUpdate
runs), log_replication (prefix operation log: every publisher history, every peer schedule / late-join point).
Translation: translators/dvfib regenerates coq/DvFib/GenConsts.v (CostInfinity, the two snapshot-threshold tests as
written) from the Go sources on every run.
Correspondence + oracle: harness/dvfib drives the real table.Fib / table.PrefixTable / dv.Router (fake engine, nfdc
queue drained through verif hooks) on generated histories; runner/DvFib replays them on the extracted model and
evaluates the spec predicates on the implementation's own observations."""
import glob, hashlib, os
import vlib

FAM = "DvFib"


U64 = 1 << 64


def classify(points):
    """points: [(a, b, res)] for a test over uint64 a, b. Find the comparisons  u64(x - y) >= T  (x, y = a, b in either
    order, T in 0..330; `> T` is the same as `>= T+1`) that reproduce every observation. Returns the list of (orient, T)."""
    pts = [(a, b, r) for a, b, r in points if r in (0, 1)]
    if len(pts) < 50 or len(set(r for _, _, r in pts)) < 2:
        return []
    out = []
    for orient in ("ab", "ba"):
        for T in range(0, 332):
            ok = True
            for a, b, r in pts:
                d = (a - b) % U64 if orient == "ab" else (b - a) % U64
                if (1 if d >= T else 0) != r:
                    ok = False; break
            if ok:
                out.append((orient, T))
    return out


def committed_defs():
    """definitions of the committed reference translation (fallback values): name -> full `Definition ... .` line"""
    txt = open(os.path.join(vlib.VERIF, "coq", FAM, "GenConsts.reference")).read()
    defs = {}
    for l in txt.split("\n"):
        if l.startswith("Definition "):
            defs[l.split()[1]] = l
    return defs


def translate(R):
    """coq/DvFib/GenConsts.v from (1) compiler-evaluated constants and behavioural probes of the two threshold tests run on
    the real code through the harness, (2) a structural AST reading of the tests, cross-checked against the probes.
    An item that cannot be located is kept from the committed reference with a note (no alarm): the correspondence
    run and the oracles decide. Call after the harness is built."""
    exe = os.path.join(R.work, "h.test")
    probe = os.path.join(R.work, "probe")
    notes, incomplete, origin = [], [], {}
    consts, pub_pts, fetch_pts = {}, [], []
    if os.path.exists(exe):
        env = vlib.goenv(); env.update(VERIF_OUT=probe)
        rc, out = vlib.sh([exe, "-test.run", "TestProbe", "-test.count=1"], env=env, timeout=600)
        if rc == 0 and os.path.exists(probe):
            for l in open(probe):
                f = l.split()
                if len(f) == 3 and f[0] == "const": consts[f[1]] = int(f[2])
                elif len(f) == 4 and f[0] == "pub": pub_pts.append((int(f[1]), int(f[2]), int(f[3])))
                elif len(f) == 4 and f[0] == "fetch": fetch_pts.append((int(f[1]), int(f[2]), int(f[3])))
        else:
            notes.append("translator: behavioural probe did not run (%s)" % out.strip()[-120:])
    src = os.path.join(vlib.VERIF, "translators", "dvfib", "main.go")
    rc, out = vlib.sh([vlib.GO, "run", src, vlib.REPO] + ([probe] if pub_pts else []), env=vlib.goenv(), timeout=300, cwd=os.path.dirname(src))
    ast_ = {}
    for l in out.split("\n"):
        f = l.split(" ", 1)
        if len(f) == 2 and f[0] in ("pub_src", "pub_coq", "pub_fail", "pub_probe", "fetch_src", "fetch_coq", "fetch_fail", "fetch_probe", "fetch_lit", "fetch_op"):
            ast_[f[0]] = f[1].strip()
    ref = committed_defs()
    lines = []

    def const(coqname, goname):
        if goname in consts:
            origin[coqname] = "compiler-evaluated constant (verif hook Vf19Consts)"
            return "Definition %s : N := %d." % (coqname, consts[goname])
        incomplete.append(coqname); notes.append("translator: %s not located; reference value kept; the correspondence run decides" % goname)
        return ref[coqname]

    def test(coqname, args, key, pts, orient_vars):
        cand = sorted(set(classify(pts)))
        agree = ast_.get(key + "_probe", "").startswith("agree")
        if key + "_coq" in ast_ and (agree or not pts):
            origin[coqname] = "source expression `%s`%s" % (ast_.get(key + "_src", "?"), " (agrees with %s probe points)" % ast_[key + "_probe"].split()[1] if agree else "")
            return "Definition %s (%s) : bool := %s." % (coqname, args, ast_[key + "_coq"]), cand
        if len(cand) == 1:
            o, T = cand[0]
            x, y = orient_vars if o == "ab" else orient_vars[::-1]
            origin[coqname] = "behaviour (probe of the real code at %d points): u64(%s - %s) >= %d" % (len(pts), x, y, T)
            notes.append("translator: %s derived from behavioural probes (source shape not recognised: %s)" % (coqname, ast_.get(key + "_fail", ast_.get(key + "_probe", "no structural match"))))
            return "Definition %s (%s) : bool := (%d <=? (u64_sub %s %s))." % (coqname, args, T, x, y), cand
        incomplete.append(coqname)
        notes.append("translator: %s not located in the source and not classified by the probes; reference value kept; the correspondence run decides" % coqname)
        return ref[coqname], cand

    lines.append(const("cost_infinity", "CostInfinity"))
    lines.append(const("nlsr_origin", "NlsrOrigin"))
    d, _ = test("pub_snap_test", "snapshotAt seq : N", "pub", pub_pts, ("snapshotAt", "seq"))
    lines.append(d)
    d, fc = test("fetch_snap_test", "latest known : N", "fetch", fetch_pts, ("latest", "known"))
    lines.append(d)
    # fetch_threshold: snapshot iff more than this many behind
    thr = None
    if "fetch_coq" in ast_ and "fetch_lit" in ast_ and ast_.get("fetch_op") in (">", ">=") and d.endswith(ast_["fetch_coq"] + "."):
        thr = int(ast_["fetch_lit"]) - (1 if ast_["fetch_op"] == ">=" else 0)
    elif len(fc) == 1 and fc[0][1] >= 1:
        thr = fc[0][1] - 1
    if thr is not None and thr >= 0:
        origin["fetch_threshold"] = "from fetch_snap_test above: a snapshot is requested iff more than this many publications behind"
        lines.append("Definition fetch_threshold : N := %d." % thr)
    else:
        incomplete.append("fetch_threshold"); lines.append(ref["fetch_threshold"])
    text = ("(* DvFib/GenConsts.v — GENERATED by checks/C19.py (translate) on every run; do not edit by hand.\n"
            "   Sources: compiler-evaluated constants and behavioural probes of the real code (harness/dvfib TestProbe), and the\n"
            "   structural AST reading of translators/dvfib cross-checked against the probes. GenConsts.reference is the\n"
            "   committed fallback. *)\nFrom DvFib Require Import U64.\nOpen Scope N_scope.\n\n")
    for l in lines:
        name = l.split()[1]
        text += "(* %s *)\n%s\n" % (origin.get(name, "kept from the committed reference"), l)
    changed = vlib.write_if_changed(os.path.join(vlib.COQ, FAM, "GenConsts.v"), text)
    R.coverage["translated"] = dict(file="coq/DvFib/GenConsts.v", changed=changed, definitions=lines, origin=origin,
                                    probe_points=dict(pub=len(pub_pts), fetch=len(fetch_pts)))
    if incomplete:
        R.coverage["translation_incomplete"] = incomplete
    R.notes += notes
    return True


def run_harness(R, env_extra, tag):
    exe = os.path.join(R.work, "h.test")
    trace = os.path.join(R.work, "trace-" + tag)
    env = vlib.goenv(); env.update(VERIF_OUT=trace); env.update(env_extra)
    rc, out = vlib.sh([exe, "-test.run", "TestTrace", "-test.count=1", "-test.timeout=30m"], env=env, timeout=2400)
    return rc, out, trace


def wallclock(rc, out):
    """the command hit a wall-clock limit (vlib.sh timeout, go test -test.timeout): never a verdict, only a note"""
    return rc == 124 or "[timeout after" in out or "test timed out after" in out


def run_runner(exe, trace_path):
    """runner reads the trace from the file (traces of the thorough tier are hundreds of MB)"""
    rc, out = vlib.sh("%s < %s" % (exe, trace_path), timeout=3000)
    return out


def case_ops(case_lines):
    return [l for l in case_lines if l.startswith("case ") or l.startswith("op ")]


def analyse(R, runner, trace, label, count=True):
    """Run the model/oracle over a trace; returns (findings, cases) where cases holds only the cases that contain a
    finding: list of (first_lineno(1-based), [lines])."""
    out = run_runner(runner, trace)
    if "DONE" not in out:
        if wallclock(0, out):
            R.notes.append("runner exceeded its wall-clock budget on %s (machine load?): no verdict from that trace" % label)
        else:
            R.proof_problems.append("runner did not finish on %s: %s" % (label, out[-300:]))
    finds = []
    for l in out.split("\n"):
        if l.startswith("ORACLE"):
            p = l.split(" ", 4)
            finds.append(("oracle", int(p[1]), p[2], p[3], p[4] if len(p) > 4 else ""))
        elif l.startswith("DIVERGE"):
            p = l.split(" ", 4)
            finds.append(("diverge", int(p[1]), p[2], p[3], p[4] if len(p) > 4 else ""))
        elif l.startswith("BADLINE"):
            R.proof_problems.append("runner could not parse: " + l[:200])
    want = sorted(set(f[1] for f in finds))
    kinds = R.coverage.setdefault("distribution", {})
    sit = R.coverage.setdefault("situations", {})
    def bump(k, n=1): sit[k] = sit.get(k, 0) + n
    distinct, nontriv, ncases, samples, cases = set(), 0, 0, [], []
    cur, start, opk, changed, h = None, 0, set(), False, None
    dump_pfx, dump_faces = {}, {}
    wi = 0
    with open(trace, errors="replace") as fh:
        for i, l in enumerate(fh, 1):
            l = l.rstrip("\n")
            f = l.split(" ")
            if f[0] == "case":
                cur, start, opk, changed, h = [], i, set(), False, hashlib.sha1()
                ncases += 1
                if count: kinds["case " + f[1]] = kinds.get("case " + f[1], 0) + 1
            if cur is None:
                continue
            cur.append(l)
            if f[0] in ("case", "op"):
                h.update((l + "\n").encode())
            if count:
                if f[0] == "op":
                    opk.add(f[1]); kinds["op " + f[1]] = kinds.get("op " + f[1], 0) + 1
                    if f[1] == "ans" and len(f) > 3 and f[3].startswith("s"): bump("answers_from_snapshot_cache")
                    elif f[1] == "tmo": bump("fetch_timeouts_or_nacks")
                elif f[0] == "obs":
                    if f[1] == "peer":
                        if f[-1] != "-": changed = True
                        if f[6] == "snap": bump("peer_obs_with_snapshot_request_pending")
                        elif f[6].startswith("op:"): bump("peer_obs_with_op_request_pending")
                        if f[3] != "0" and f[-1] != "-": bump("peer_obs_nonempty_set")
                    elif f[1] == "fwd":
                        bump("executor_settle_points")
                        if f[2] != "-": changed = True
                    elif f[1] == "attempts" and f[2] != "-":
                        nf = f[2].count("|F")
                        bump("executor_calls", f[2].count("|ok") + nf); bump("executor_failed_calls", nf)
                    elif f[1] == "cmds" and f[2] != "-":
                        changed = True
                        bump("fib_rounds_emitting_commands")
                        if "U:" in f[2]: bump("fib_rounds_emitting_unregister")
                        if "R:" in f[2] and "U:" in f[2]: bump("fib_rounds_emitting_both")
                elif f[0] == "tab":
                    if f[1] == "me": dump_pfx, dump_faces = {}, {}
                    elif f[1] == "pfx" and f[3] != "-":
                        for x in f[3].split(","): dump_pfx[x] = dump_pfx.get(x, 0) + 1
                    elif f[1] == "nbr": dump_faces[f[3]] = dump_faces.get(f[3], 0) + 1
                elif f[0] == "go":
                    bump("fib_rounds_checked")
                    if any(v > 1 for v in dump_pfx.values()): bump("fib_rounds_with_multihomed_prefix")
                    if any(v > 1 for k, v in dump_faces.items() if k != "0"): bump("fib_rounds_with_two_neighbours_on_one_face")
            if l == "end":
                if count and len(opk) >= 3 and changed:
                    nontriv += 1
                    distinct.add(h.hexdigest())
                if len(samples) < 2:
                    samples.append(" | ".join(case_ops(cur)[:8])[:300])
                if any(start <= w < i + 1 for w in want):
                    cases.append((start, cur))
                cur = None
    if count:
        R.add_cases(ncases, len(distinct), samples)
        R.coverage["nontrivial_cases"] = R.coverage.get("nontrivial_cases", 0) + nontriv
    return finds, cases, None


def case_of_line(cases, lineno):
    for start, cl in cases:
        if start <= lineno < start + len(cl):
            return start, cl
    return None, None


def reproduce(R, runner, ops, want_kind, want_sig):
    """Re-run one case (op list) on the implementation + model; True if the same finding shows."""
    p = os.path.join(R.work, "shrink.ops")
    open(p, "w").write("\n".join(ops) + "\n")
    rc, out, trace = run_harness(R, dict(VERIF_OPS=p), "shrink")
    if rc != 0:
        return want_kind == "crash"
    o = run_runner(runner, trace)
    for l in o.split("\n"):
        p_ = l.split(" ", 4)
        if want_kind == "oracle" and l.startswith("ORACLE") and p_[3] == want_sig: return True
        if want_kind == "diverge" and l.startswith("DIVERGE") and p_[3] == want_sig: return True
    return False


def report(R, runner, finds, cases, budget):
    seen = set()
    for kind, lineno, cid, sig, detail in finds:
        key = (kind, sig)
        if key in seen:
            continue
        seen.add(key)
        start, cl = case_of_line(cases, lineno)
        ops = case_ops(cl[: lineno - start + 1]) if cl else []
        shr = ops
        if ops and budget > 0 and reproduce(R, runner, ops, kind, sig):
            head, body = ops[0], ops[1:]
            body = vlib.ddmin(body, lambda x: reproduce(R, runner, [head] + x, kind, sig), budget=budget)
            shr = [head] + body
        rep = dict(case=cid, detail=detail[:2000], ops=shr, ops_unshrunk_len=len(ops),
                   replay_hint="write ops (one per line) to a file and run the harness test binary with VERIF_OPS=<file>; bin/check C19 --replay <this file> does that")
        if kind == "oracle":
            R.oracle_failure(sig, "implementation violates the C19 spec predicate: %s (%s)" % (sig, detail[:200]), rep)
        else:
            R.divergence("model and implementation disagree on %s in %s: %s" % (sig, cid, detail[:200]), rep)


def setup(R):
    R.assumptions += [
        "Coq 8.16.1 kernel; vm_compute only in non-vacuity Examples",
        "models coq/DvFib/PfxLog.v and DvFib.v are hand-written from dv/table/{prefix_table,fib,rib,neighbor_table}.go and dv/dv/{prefix_sync,table_algo}.go; tied to the code by this run's differential traces; constants and the two snapshot-threshold tests are translated from the source on every run",
        "tables keyed by 64-bit name hashes are modelled as keyed by the name (no hash collision among the names of a history)",
        "sequence numbers do not wrap (fewer than 2^64 publications)",
        "Go map iteration order = arbitrary order: observables are compared as sets / finite maps; theorems hold for every table value and every processing order",
        "the nfdc command stream is observed at the management queue (dv/nfdc channel) and, in executor histories, at the stand-in forwarder behind the real NfdMgmtThread.Start; commands whose retry budget is exhausted are lost (the code drops them): the forwarder-vs-desired oracle applies to histories with faults within the budget",
        "extraction: ExtrOcamlBasic only; N, positive, nat stay Coq datatypes",
    ]
    R.coverage["trusted_base"] = ["Coq kernel 8.16.1", "Coq extraction + OCaml 4.13.1", "runner/DvFib/driver.ml",
                                  "translators/dvfib (go/ast)", "harness/dvfib generator + fake ndn.Engine",
                                  "go1.26 toolchain, testing/synctest virtual time"]


def link_c18(R):
    """Optional: instantiate daemon_keeps_mirror with C18's RIB model (coq/Dv) -> hypothesis-free theorem.
    A failure here (e.g. coq/Dv being edited) is recorded as a note, never as a violation of C19."""
    info = R.coverage.setdefault("linked_with_C18", dict(built=False))
    hits = vlib.forbidden_scan(["DvFibLink"])
    if hits:
        R.proof_problems.append("forbidden token(s) in coq/DvFibLink: " + "; ".join(hits[:3]))
        return
    try:
        ok, log = vlib.coq_make("Dv", timeout=1500)
        if not ok:
            R.notes.append("optional C18 link skipped: coq/Dv does not build at the moment"); return
        ok, log = vlib.coq_make("DvFibLink", timeout=600)
        if not ok:
            R.notes.append("optional C18 link skipped: coq/DvFibLink does not build against the current coq/Dv: " + log.strip()[-200:]); return
        pr = vlib.coq_props("DvFibLink", "C19link")
    except Exception as e:
        R.notes.append("optional C18 link skipped: %r" % (e,)); return
    if pr["ok"] and pr["discharged"]:
        info.update(built=True, theorems=pr["obligations"], print_assumptions={k: (v or "Closed under the global context") for k, v in pr["assumptions"].items()})
        R.coverage["obligations"] += len(pr["obligations"]); R.coverage["discharged"] += len(pr["discharged"])
        R.coverage.setdefault("theorems", []).extend(pr["obligations"])
    else:
        R.notes.append("optional C18 link: Props_C19link.v did not check: " + pr["log"].strip()[-200:])


def build(R):
    ok_h, log_h = vlib.go_test_build("dvfib", os.path.join(R.work, "h.test"))
    if not ok_h and os.path.exists(os.path.join(R.work, "h.test")):
        os.remove(os.path.join(R.work, "h.test"))
    translate(R)
    if R.prove(FAM):
        link_c18(R)
    if not R.quick:
        R.coqchk(FAM, ["DvFib.PfxLogProofs", "DvFib.PfxLogLive", "DvFib.ConstFacts", "DvFib.DvFibProofs", "DvFib.DvDaemonProofs", "DvFib.ExecutorProofs"])
    ok, runner, log = vlib.extract_build(FAM)
    if not ok:
        R.proof_problems.append("extraction/OCaml build of the DvFib model failed"); R.log(log[-1500:]); return None
    if not ok_h:
        R.proof_problems.append("Go harness dvfib no longer builds against the tree: " + log_h[-400:]); R.log(log_h[-1500:]); return None
    return runner


def run(R):
    setup(R)
    runner = build(R)
    if runner is None:
        return R.finish()
    R.coverage["rule"] = ("one evaluation = one generated history (case) executed on the real dv code: kind pfx = publisher "
                          "PrefixTable + 1..3 late-joining peer Routers (announce/withdraw bursts around the snapshot threshold, sync values, "
                          "answers from publisher or snapshot cache, deliveries, timeouts); kind fib = one Router whose RIB / neighbour faces / "
                          "prefix table are changed and fibUpdate run, nfdc commands drained (every third one instead runs the REAL NfdMgmtThread.Start against a stand-in forwarder whose ExecMgmtCmd fails the first k attempts of chosen commands); kind net = table changes through the real event handlers. "
                          "non-trivial = at least 3 operation kinds and an observation that differs from the initial state (non-empty peer set / "
                          "route table); distinct by SHA-1 of the operation list")
    # 1. corpus first
    corpus = sorted(glob.glob(os.path.join(vlib.VERIF, "corpus", "C19", "*.ops")))
    for c in corpus:
        rc, out, trace = run_harness(R, dict(VERIF_OPS=c), "corpus")
        if rc != 0 and wallclock(rc, out):
            R.notes.append("corpus case %s exceeded the wall-clock budget (machine load?): skipped, no verdict" % os.path.basename(c))
            continue
        if rc != 0:
            R.oracle_failure("harness-crash-corpus:" + os.path.basename(c), "the Go harness aborted on a corpus case", dict(output=out[-2000:], corpus=c))
            continue
        finds, cases, _ = analyse(R, runner, trace, "corpus " + os.path.basename(c))
        report(R, runner, finds, cases, budget=0)
    # 2. generated
    n = 300 if R.quick else 3000
    rc, out, trace = run_harness(R, dict(VERIF_SEED=str(R.seed), VERIF_N=str(n)), "gen")
    if rc != 0 and wallclock(rc, out):
        # a wall-clock limit never decides a verdict: retry once with a quarter of the histories, then give up with a note
        R.notes.append("generated run exceeded the wall-clock budget (machine load?); retried with %d histories per kind" % max(1, n // 4))
        rc, out, trace = run_harness(R, dict(VERIF_SEED=str(R.seed), VERIF_N=str(max(1, n // 4))), "gen")
        if rc != 0 and wallclock(rc, out):
            R.notes.append("generated run exceeded the wall-clock budget again: no verdict from generated histories in this run")
            return R.finish()
    if rc != 0:
        R.oracle_failure("harness-crash", "the Go harness aborted (panic in the code under test or deadlock)", dict(output=out[-3000:], seed=R.seed, n=n))
        return R.finish()
    finds, cases, _ = analyse(R, runner, trace, "generated")
    report(R, runner, finds, cases, budget=150 if R.quick else 400)
    return R.finish()


def replay(R, path):
    import json
    vlib.EVID = R.work          # a replay must not overwrite evidence/C19.json (written to work/C19/C19.json instead)
    setup(R)
    runner = build(R)
    if runner is None:
        return R.finish()
    body = json.load(open(path))
    ops = body.get("ops") or (body.get("first_divergence") or {}).get("ops") or []
    p = os.path.join(R.work, "replay.ops")
    open(p, "w").write("\n".join(ops) + "\n")
    rc, out, trace = run_harness(R, dict(VERIF_OPS=p), "replay")
    if rc != 0:
        R.oracle_failure("harness-crash", "the Go harness aborted", dict(output=out[-3000:]))
        return R.finish()
    print(open(trace).read()[-3000:])
    finds, cases, _ = analyse(R, runner, trace, "replay")
    report(R, runner, finds, cases, budget=0)
    return R.finish()
