"""C06 — the FIB always equals the flattening of the currently registered RIB routes.
Proof: coq/Tables (Props_C06.v): for every register/unregister/face-cleanup history the FIB entry of every prefix is the
flattening of the registered routes (own + child-inherit of shorter prefixes up to and including the nearest capture
holder, nothing inherited under an own capture route, min cost per face), nothing for prefixes without routes; composed
with C05 for both FIB implementations; root clean; no residue.
Correspondence: harness/tables drives table.Rib over BOTH FIB implementations on generated histories (all four flag
combinations, gaps, several origins per face, face cleanup), after every operation looks up a universe of names, lists
the FIB and the RIB and dumps all RIB/FIB nodes (white box); runner/Tables replays on the extracted RIB model (which emits
FIB operations into the extracted FIB models) and evaluates the extracted flattening spec on the implementation's answers."""
import os, sys
sys.path.insert(0, os.path.dirname(os.path.abspath(__file__)))
import vlib
import tables_common as tc

def run(R):
    R.assumptions += tc.ASSUMPTIONS + [
        "FIB next hops are written only by the RIB in a C06 history (direct fib/add-nexthop management commands are outside the statement)",
        "route expiration is not modelled (the pinned RIB stores ExpirationPeriod but never acts on it)",
    ]
    R.coverage["trusted_base"] = tc.TRUSTED
    R.prove("Tables")
    if not R.quick:
        R.coqchk("Tables", ["Tables.Rib"])
    b = tc.build(R)
    if b is None:
        return R.finish()
    exe, h = b
    ms = [1, 2, 3] if R.quick else [1, 2, 3, 4, 5, 6]
    n = 300 if R.quick else 12000
    trace, out = tc.run_harness(R, h, "rib", n, R.seed, ms, tc.corpus_files("C06"))
    if trace is None:
        tc.harness_abort(R, out, "harness-crash", "the Go harness aborted")
        return R.finish()
    rc, rout, text = tc.run_runner(exe, trace)
    rep = tc.Report(rout)
    if rep.done is None:
        R.proof_problems.append("runner did not finish: " + rout[-300:])
    for l in rep.bad[:3]:
        R.proof_problems.append("runner could not parse: " + l[:200])
    tc.count_cases(R, rep, text)
    tc.oracle_selftest(R, exe, text)
    R.coverage["rule"] = ("one evaluation = one generated RIB history (6..40 ops of reg/unreg/cleanup over nested and sibling prefixes of depth 0..7 with gaps, "
                          "faces 1..4, origins {0,65,128,255}, costs incl. 0 and 2^64-1, all four child-inherit/capture flag combinations) run against one FIB "
                          "implementation (each history is run against both); after every op every universe name is looked up, FIB and RIB are listed and all nodes dumped; "
                          "non-trivial = at least 3 op kinds and some lookup differing from the empty table; distinct by MD5 of (m, op list)")
    R.coverage["distribution"] = dict(ops=tc.op_histogram(text), m_values=ms, observations=rep.done)
    for it in tc.first_per_case(rep.oracle)[:3]:
        ops = tc.case_ops(text, it["case"], it["op"])
        ops = tc.shrink(R, exe, h, "rib", ops, lambda r, k=it["kind"]: any(x["kind"] == k for x in r.oracle))
        R.oracle_failure("flatten:%s:%s" % (it["label"], it["kind"]),
                         "FIB/RIB %s over the %s differs from the flattening of the registered routes" % (it["kind"], "name tree" if it["label"] == "T" else "hash table"),
                         dict(ops=ops, detail=it["text"][:1500]))
    for it in tc.first_per_case(rep.anomaly)[:3]:
        ops = tc.case_ops(text, it["case"], max(it["op"], 1))
        R.oracle_failure("anomaly:" + " ".join(it["text"].split(" ")[3:8]), "implementation-side anomaly: " + it["text"][:300], dict(ops=ops, detail=it["text"][:1500]))
    # purely structural differences (RIB/FIB node sets, side tables) are C08's business (checks/C08_tables.py): noted only
    STRUCT = ("nodes", "pfx", "virt", "vn", "rnodes")
    if not rep.oracle:
        obs = [d for d in rep.diverge if d["kind"] not in STRUCT]
        for it in tc.first_per_case(obs)[:3]:
            ops = tc.case_ops(text, it["case"], it["op"])
            ops = tc.shrink(R, exe, h, "rib", ops, lambda r, k=it["kind"]: any(x["kind"] == k for x in r.diverge), budget=40)
            R.divergence("model of the RIB (+ %s FIB) differs from the implementation on %s" % ("name tree" if it["label"] == "T" else "hash table", it["kind"]),
                         dict(ops=ops, detail=it["text"][:1500]))
        struct = [d for d in rep.diverge if d["kind"] in STRUCT]
        if struct:
            R.notes.append("white-box structure differs from the model in %d observation(s) (first: %s); lookups and listings agree; see C08 (tables part)" % (len(struct), struct[0]["text"][:300]))
    return R.finish()

def replay(R, path):
    return tc.replay(R, path, "rib")
