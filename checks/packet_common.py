"""Shared driver for C03 and C12 (coq/Packet, runner/Packet, harness/packet).

One harness run drives spec_2022.MakeData/MakeInterest/ReadData/ReadInterest/ReadPacket, the name encoders and all shipped
signers/validators; one runner pass replays every line on the model extracted from Coq (correspondence: DIVERGE) and
evaluates the specification side on the implementation's own observations (oracle: SPECFAIL).  Each property keeps the
oracle kinds that belong to it."""
import hashlib, os, re, sys
sys.path.insert(0, os.path.dirname(os.path.abspath(__file__)))
import vlib

ASSUMPTIONS = [
    "Coq 8.16.1 kernel; vm_compute used only in non-vacuity Examples and for the translated signer facts",
    "models coq/Packet/Readers.v (std/encoding/readers.go) and coq/Packet/Model.v (spec_2022/spec.go + the Data/Interest/Packet/"
    "MetaInfo/SignatureInfo/KeyLocator/Links/ValidityPeriod code of zz_generated.go) are hand-written; tied to the code by this run's differential trace",
    "SHA-256, HMAC, ECDSA and RSA are Section variables (arbitrary functions; hypotheses: |sha256 x| = 32, verify k m (sign k m) = true, |sign| <= estimate); "
    "in the runner SHA-256/HMAC are computed by the OCaml driver, ECDSA/RSA signature values are taken from the implementation (picks) and judged by the real validators",
    "extraction: ExtrOcamlBasic only; N, Z, positive, nat stay Coq datatypes",
    "LpPacket elements and CertAdditionalDescription are outside the modelled fragment (model answers `unmodelled`, line skipped and counted)",
    "allocation sizes (make) and Go's aliasing of caller buffers are not modelled",
]
TRUSTED = ["Coq kernel 8.16.1", "Coq extraction + OCaml 4.13.1", "runner/Packet/driver.ml (incl. its SHA-256/HMAC)", "harness/packet generator and its Go TLV walker",
           "go1.26 toolchain, Go crypto library (real validators in the tamper sweep)", "translators/packet/signers.py"]

# oracle kinds per property
C03_KINDS = ("roundtrip-", "tlv-exact", "name-bytes-roundtrip", "comp-bytes-roundtrip", "same-name-in-packet", "same-hint-entries", "same-finalname-reuse", "same-api-", "same-reuse-")
C12_KINDS = ("sigcovered-", "same-handed-to-signer", "same-reuse-", "same-seq-", "same-engine-", "params-digest", "validate-", "tamper-")
C03_DIV = ("MKDATA", "MKINT", "RD-", "WALK", "NAMEB", "COMPB")
C12_DIV = ("VALID-", "RD-", "MKDATA", "MKINT")


def build(R):
    ok, exe, log = vlib.extract_build("Packet")
    if not ok:
        R.proof_problems.append("extraction/OCaml build of the Packet model failed"); R.log(log[-1500:]); return None
    h = os.path.join(R.work, "h.test")
    ok, log = vlib.go_test_build("packet", h)
    if not ok:
        R.proof_problems.append("Go harness for packet no longer builds against the tree: " + log[-400:]); R.log(log[-1500:]); return None
    return exe, h


def run_harness(R, h, n, seed, corpus_dirs, tag=""):
    trace = os.path.join(R.work, "trace" + tag)
    env = vlib.goenv()
    cdir = os.path.join(R.work, "corpus" + tag)
    os.makedirs(cdir, exist_ok=True)
    for f in os.listdir(cdir):
        os.remove(os.path.join(cdir, f))
    for d in corpus_dirs:
        if os.path.isdir(d):
            for f in sorted(os.listdir(d)):
                open(os.path.join(cdir, os.path.basename(d) + "-" + f), "w").write(open(os.path.join(d, f)).read())
    env.update(VERIF_SEED=str(seed), VERIF_N=str(n), VERIF_OUT=trace, VERIF_TIER="quick" if R.quick else "thorough", VERIF_CORPUS=cdir)
    rc, out = vlib.sh([h, "-test.run", "TestTrace", "-test.count=1", "-test.timeout=60m"], env=env, timeout=3000)
    if rc != 0:
        return None, out
    return trace, out


class Report:
    def __init__(self, rout, lines):
        self.diverge, self.spec, self.bad, self.skip, self.done = [], [], [], 0, None
        for l in rout.split("\n"):
            if l.startswith("DIVERGE "):
                p = l.split(" ", 3)
                self.diverge.append(dict(line=int(p[1]), kind=p[2], text=p[3] if len(p) > 3 else ""))
            elif l.startswith("SPECFAIL "):
                p = l.split(" ", 3)
                self.spec.append(dict(line=int(p[1]), kind=p[2], text=p[3] if len(p) > 3 else ""))
            elif l.startswith("BADLINE"):
                self.bad.append(l)
            elif l.startswith("SKIP"):
                self.skip += 1
            elif l.startswith("DONE"):
                self.done = [int(x) for x in l.split()[1:]]
        self.lines = lines

    def context(self, ln):
        """the MK line of the case a trace line belongs to, and the line itself"""
        src = self.lines[ln - 1] if 0 < ln <= len(self.lines) else ""
        mk = ""
        for i in range(ln - 1, -1, -1):
            if self.lines[i].startswith(("MKDATA", "MKINT")):
                mk = self.lines[i]; break
            if self.lines[i].startswith("# corpus"):
                break
        return src, mk


def run(R, pid):
    R.assumptions += ASSUMPTIONS
    R.coverage["trusted_base"] = TRUSTED
    # C12 only: facts of the shipped signers, OBSERVED on the live objects by the harness (TestSignerFacts: SigInfo(),
    # EstimateSize(), a signed packet offered to the validator under every type code) -> coq/Packet/GenSigners.v, re-checked by
    # the Props file.  No source text is read; whatever cannot be observed keeps its committed row (a note, not a failure).
    # C03 does not depend on signer facts.
    if pid == "C12":
        try:
            sys.path.insert(0, os.path.join(vlib.VERIF, "translators", "packet"))
            import signers as sgx
            os.makedirs(R.work, exist_ok=True)
            hprobe = os.path.join(R.work, "h-facts.test")
            okb, blog = vlib.go_test_build("packet", hprobe)
            flines = []
            if okb:
                fout = os.path.join(R.work, "signer-facts")
                env = vlib.goenv(); env.update(VERIF_OUT=fout)
                rc, out = vlib.sh([hprobe, "-test.run", "TestSignerFacts", "-test.count=1"], env=env, timeout=3000)     # watchdog only: expiry keeps the committed table (note)
                if rc == 0 and os.path.exists(fout):
                    flines = open(fout).read().split("\n")
            changed, facts, notes = sgx.regenerate(os.path.join(vlib.COQ, "Packet", "GenSigners.v"), flines)
            if not okb:
                notes.append("translator: harness does not build, signer facts not observed; committed GenSigners.v kept (the build failure is reported below)")
            for n in notes:
                R.notes.append(n) if hasattr(R, "notes") else R.log(n)
            R.coverage["translated"] = dict(file="coq/Packet/GenSigners.v", source="live signer objects (harness TestSignerFacts)", rewritten=changed,
                                            signers=facts, translation_incomplete=notes)
        except Exception as e:      # never a reason to fail: the committed table stays, the differential run and the oracles decide
            R.log("signer facts: %r; committed GenSigners.v kept" % (e,))
            R.coverage["translated"] = dict(file="coq/Packet/GenSigners.v", rewritten=False, translation_incomplete=["exception: %r" % (e,)])
    ok, log = vlib.coq_make("Names")
    if not ok:
        R.proof_problems.append("coq build of family Names (dependency) failed")
    if pid == "C12":
        # GenSigners.v (translated) and SigProofs.v belong to C12 only: they are not in _CoqProject, so that a change of the
        # signer facts cannot break the build C03 depends on; compiled here when stale, before Props_C12.v.
        ok, log = vlib.coq_make("Packet")
        d = os.path.join(vlib.COQ, "Packet")
        def stale(v):
            vo = os.path.join(d, v[:-2] + ".vo")
            if not os.path.exists(vo):
                return True
            t = os.path.getmtime(vo)
            if os.path.getmtime(os.path.join(d, v)) > t:
                return True
            return any(os.path.getmtime(os.path.join(d, f)) > t for f in os.listdir(d) if f.endswith((".v", ".vo")) and f[:-2 if f.endswith(".v") else -3] not in ("Props_C03", "Props_C12", "Extract", "SigProofs") and not (f.endswith(".vo") and f[:-3] == v[:-2]))
        def loads(v):
            # mtimes are not reliable across copies of the tree: ask Coq whether the compiled file still fits its dependencies
            os.makedirs(R.work, exist_ok=True)
            probe = os.path.join(R.work, "LoadProbe.v")
            open(probe, "w").write("Require Packet.%s.\n" % v[:-2])
            rc, _ = vlib.sh(["coqc"] + vlib._coq_flags("Packet") + [probe], cwd=d, timeout=3000)
            return rc == 0
        with vlib.flock("coq-Packet"):
            for v in ("GenSigners.v", "SigProofs.v"):
                if ok and (stale(v) or not loads(v)):
                    rc, out = vlib.sh(["coqc"] + vlib._coq_flags("Packet") + [os.path.join(d, v)], cwd=d, timeout=3000)
                    if rc != 0:
                        ok = False
                        R.proof_problems.append("coq/Packet/%s no longer checks: %s" % (v, " ".join(out.strip().split("\n")[-3:])[:300]))
                        R.log(out[-1500:])
    R.prove("Packet")
    if not R.quick:
        R.coqchk("Packet", ["Packet.Roundtrip", "Packet.Walker"] + (["Packet.SigProofs", "Packet.TamperName"] if pid == "C12" else []))
    b = build(R)
    if b is None:
        return R.finish()
    exe, h = b
    batches = [(240, R.seed)] if R.quick else [(500, R.seed * 1000 + k) for k in range(8)]
    corpus = [os.path.join(vlib.VERIF, "corpus", "C03"), os.path.join(vlib.VERIF, "corpus", "C12")]
    lines, rout_all, spec_all, div_all, bad_all, skip_all, compared = [], [], [], [], [], 0, 0
    for bi, (n, seed) in enumerate(batches):
        trace, out = run_harness(R, h, n, seed, corpus if bi == 0 else [], tag=str(bi) if bi else "")
        if trace is None:
            R.oracle_failure("harness-crash", "the Go harness aborted (panic outside recover?)", dict(output=out[-3000:], seed=seed))
            return R.finish()
        text = open(trace, errors="replace").read()
        blines = text.split("\n")
        rc, rout = vlib.sh(exe, stdin=text, timeout=3000)
        open(os.path.join(R.work, "runner.out" + (str(bi) if bi else "")), "w").write(rout)
        rep1 = Report(rout, blines)
        if rep1.done is None:
            R.proof_problems.append("runner did not finish (batch %d): %s" % (bi, rout[-300:]))
        else:
            compared += rep1.done[1]
        base = len(lines)
        for it in rep1.spec:
            it["line"] += base
        for it in rep1.diverge:
            it["line"] += base
        spec_all += rep1.spec; div_all += rep1.diverge; bad_all += rep1.bad; skip_all += rep1.skip
        # keep only what the report needs from big batches: the lines referenced and the MK lines (context), others truncated
        if len(batches) > 1:
            blines = [l if (l.startswith(("MKDATA", "MKINT", "#", "SFACT", "TAMPER")) or len(l) < 400) else l[:400] for l in blines]
        lines += blines
        if bi and os.path.exists(trace):
            os.remove(trace)
    rep = Report("", lines)
    rep.spec, rep.diverge, rep.bad, rep.skip, rep.done = spec_all, div_all, bad_all, skip_all, [len(lines), compared, skip_all]
    for l in rep.bad[:3]:
        R.proof_problems.append("runner could not parse: " + l[:200])
    # coverage
    kinds, stats, tamper = {}, {}, {}
    distinct = set()
    nontriv = 0
    for l in lines:
        if not l:
            continue
        k = l.split(" ", 1)[0]
        if k == "#":
            f = l.split()
            if len(f) == 4 and f[1] == "stat":
                stats[f[2]] = stats.get(f[2], 0) + int(f[3])
            if len(f) == 4 and f[1] == "tamper":
                tamper[f[2]] = tamper.get(f[2], 0) + int(f[3])
            continue
        if k == "RD":
            k = "RD-" + l.split(" ", 4)[2]
        kinds[k] = kinds.get(k, 0) + 1
        if (" => ok" in l or " => Dok" in l or " => Iok" in l) and len(l) > 60:
            nontriv += 1
            distinct.add(hashlib.sha1(l.encode()).hexdigest())
    R.coverage["distribution"] = dict(lines=kinds, cases_by_signer=stats, tamper_bits_by_region_outcome=tamper,
                                      compared=rep.done[1] if rep.done else 0, unmodelled_skipped=rep.skip)
    R.coverage["rule"] = ("one evaluation = one implementation call group recorded as a trace line: MKDATA/MKINT (packet built from generated name, "
                          "optional-field subset with boundary values, content/parameters as 0..4 buffers incl. empty/nil, one of the shipped or an abstract signer), "
                          "RD (ReadData/ReadInterest/ReadPacket over a BufferReader or a WireReader on the encoder's own wire, every single cut for packets <= 48 bytes, "
                          "cuts inside the outer T/L, random multi-cuts with empty segments, outer-TL-only first segment; plus sampled single-bit-tampered packets), "
                          "WALK (independent TLV walker), NAMEB/COMPB (standalone encoders), VALID (real validator on the untampered packet), DIGEST, "
                          "TAMPER (every bit of the signed portion / signature value / parameters / digest component flipped, real validators). "
                          "non-trivial = a line whose implementation result is a successfully built or decoded packet; distinct by SHA-1 of the line")
    samples = [l[:300] for l in lines if l.startswith(("MKDATA", "MKINT"))][:3] + [l[:300] for l in lines if l.startswith("RD ") and " W " in l][:2]
    R.add_cases(len([l for l in lines if l and not l.startswith("#")]), len(distinct), samples)
    # the table proved about is the table observed: the SFACT lines of this very run must be the rows of GenSigners.v
    if pid == "C12":
        live = [l for l in lines if l.startswith("SFACT ")]
        rows_now, _ = sgx.facts_from_lines(live) if "sgx" in dir() else ([], [])
        tab = {x["name"]: x for x in (R.coverage.get("translated", {}).get("signers") or [])}
        for x in rows_now:
            y = tab.get(x["name"])
            if y is not None and any(x[k] != y[k] for k in ("type", "est", "keyloc", "intfields", "validity", "vtype", "fits")):
                R.oracle_failure("signer-facts:%s" % x["name"], "signer %s behaves differently in the trace run than when the table was generated" % x["name"],
                                 dict(signer=x["name"], table=y, live=x))
        R.coverage["signer_facts_observed"] = sorted(x["name"] for x in rows_now)
    mine_spec = C03_KINDS if pid == "C03" else C12_KINDS
    mine_div = C03_DIV if pid == "C03" else C12_DIV
    seen = set()
    for it in rep.spec:
        if not it["kind"].startswith(mine_spec):
            continue
        src, mk = rep.context(it["line"])
        sig = "%s:%s" % (it["kind"], hashlib.sha1((src + mk).encode()).hexdigest()[:10])
        if it["kind"] in seen and len(seen) > 8:
            continue
        seen.add(it["kind"])
        R.oracle_failure(sig, "the implementation's observation violates the specification (%s)" % it["kind"],
                         dict(trace_line=src[:6000], case=mk[:6000], detail=it["text"][:3000],
                              replay_hint="put the trace_line (RD ...) into a file under VERIF_CORPUS, or re-run with the recorded seed"))
    if not R.oracle_failures:
        for it in rep.diverge[:200]:
            if not it["kind"].startswith(mine_div):
                continue
            src, mk = rep.context(it["line"])
            R.divergence("model and implementation differ on %s" % it["kind"], dict(trace_line=src[:6000], case=mk[:6000], detail=it["text"][:3000]))
    return R.finish()
