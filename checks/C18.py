"""C18 — distance-vector routing converges to shortest paths on every connected topology and every fair schedule.
Proof: coq/Dv (Props_C18.v).  Translator: translators/dv/gen_consts.py regenerates coq/Dv/GenConsts.v (CostInfinity from the compiler via the hook; per-hop cost measured on one real ribUpdate).
Correspondence: harness/dv drives a network of real dv.Router objects (real table.Rib, real ribUpdate and
checkDeadNeighbors through verif wrappers, fake ndn.Engine) with generated fair schedules and fault sequences;
runner/Dv replays every event on the extracted model and compares the whole RIB (per-hop costs, best and second
best, dirty flags), Advert(), Entries(), neighbour tables and the change flag after every event.
Oracle: the extracted spec predicates adv_ok (every advertisement, every step) and table_ok (after the proved
number of fair rounds: cost = hop distance of the current topology, deterministic next hop on a shortest path,
unreachable destinations absent) are evaluated on the IMPLEMENTATION's observations."""
import os, hashlib, re
import vlib


def translate(R, exe):
    """constants from the compiler / from behaviour (translators/dv/gen_consts.py); never an alarm by itself"""
    import importlib.util
    spec = importlib.util.spec_from_file_location("dv_gen_consts", os.path.join(vlib.VERIF, "translators", "dv", "gen_consts.py"))
    mod = importlib.util.module_from_spec(spec); spec.loader.exec_module(mod)
    notes, incomplete, changed = mod.generate(exe, R.rundir)
    for n in notes:
        R.log(n)
        if "kept" in n or "did not run" in n or "differs" in n or "no reference" in n:
            R.notes.append(n)
    if incomplete:
        R.coverage["translation_incomplete"] = incomplete


def cut_to_last_case(trace):
    """a run stopped by the wall clock leaves an unfinished case at the end of the trace: drop it"""
    data = open(trace, errors="replace").read()
    k = data.rfind("\nend\n")
    if k >= 0:
        open(trace, "w").write(data[:k + 5])


def run_harness(R, exe, n, seed, exhaustive, tag):
    trace = os.path.join(R.rundir, "trace" + tag)
    env = vlib.goenv()
    env.update(VERIF_SEED=str(seed), VERIF_N=str(n), VERIF_OUT=trace, VERIF_EXHAUSTIVE="1" if exhaustive else "0")
    rc, out = vlib.sh([exe, "-test.run", "TestTrace$", "-test.count=1", "-test.timeout=0"], env=env, timeout=75 if R.quick else 3000)
    if rc == 124:
        # every loop of the harness has a step bound (noquiet / overrun are reported from the trace), so running out of
        # wall clock with cases completed means a loaded machine, not a hanging router: analyse what was produced
        done = 0
        try:
            done = sum(1 for l in open(trace, errors="replace") if l.startswith("end"))
        except OSError:
            pass
        if done >= 10:
            R.notes.append("event-level run stopped by its wall-clock budget after %d cases (loaded machine); the completed cases are analysed" % done)
            cut_to_last_case(trace)
            return trace
        R.oracle_failure("harness-timeout", "the event-level run did not get through 10 cases within its wall-clock budget: the real routers do not come to rest in a bounded number of exchanges under the generated schedules",
                         dict(output=out[-2000:], seed=seed, n=n, exhaustive=exhaustive))
        return trace if os.path.exists(trace) else None
    if rc != 0:
        R.oracle_failure("harness-crash", "the Go harness aborted (panic or deadlock in the dv code under the generated schedule)",
                         dict(output=out[-3000:], seed=seed, n=n, exhaustive=exhaustive))
        return None
    return trace


def case_slices(trace):
    """yield (case header, [lines]) per case"""
    cur, hdr = [], None
    with open(trace, errors="replace") as f:
        for line in f:
            line = line.rstrip("\n")
            if line.startswith("case "):
                if hdr is not None:
                    yield hdr, cur
                hdr, cur = line, [line]
            elif hdr is not None:
                cur.append(line)
    if hdr is not None:
        yield hdr, cur


def analyse(R, runner, trace, tag):
    rc, out = vlib.sh("%s < %s" % (runner, trace), timeout=3000)
    open(os.path.join(R.work, "runner%s.out" % tag), "w").write(out[-200000:])
    if "DONE" not in out:
        R.proof_problems.append("runner did not finish: " + out[-300:])
    # statistics over the trace
    kinds, sizes = {}, {}
    evals = distinct = 0
    seen = set()
    samples = []
    cases = {}
    lineno = 0
    for hdr, lines in case_slices(trace):
        cid = hdr.split()[1]
        cases[cid] = (lineno + 1, lines)
        lineno += len(lines)
        evk = set()
        changed = False
        ops = []
        for l in lines:
            if l.startswith("ev "):
                k = l.split()[1]
                kinds[k] = kinds.get(k, 0) + 1
                evk.add(k)
                ops.append(l)
            elif l.startswith("chk"):
                kinds[l.split()[0]] = kinds.get(l.split()[0], 0) + 1
            elif l.startswith("obs ") and not changed and ";" in l.split(" rib=")[1].split(" ")[0]:
                changed = True     # some router learnt a destination other than itself
        m = re.search(r"n=(\d+)", hdr)
        sizes["n=" + m.group(1)] = sizes.get("n=" + m.group(1), 0) + 1
        evals += 1
        if len(evk) >= 3 and changed:
            h = hashlib.sha1("\n".join(ops).encode()).hexdigest()
            if h not in seen:
                seen.add(h); distinct += 1
        if len(samples) < 3:
            samples.append(hdr + " | " + " | ".join(ops[:12])[:400])
    st = re.search(r"STAT (\d+) (\d+) (\d+)", out)
    R.coverage.setdefault("distribution", {})
    d = R.coverage["distribution"]
    for k, v in kinds.items():
        d["ev_" + k] = d.get("ev_" + k, 0) + v
    for k, v in sizes.items():
        d[k] = d.get(k, 0) + v
    if st:
        d["events_replayed_on_model"] = d.get("events_replayed_on_model", 0) + int(st.group(2))
        d["convergence_checks"] = d.get("convergence_checks", 0) + int(st.group(3))
    R.add_cases(evals, distinct, samples)

    def case_of(ln):
        for cid, (start, lines) in cases.items():
            if start <= ln < start + len(lines):
                return cid, start, lines
        return None, 0, []

    for l in out.split("\n"):
        if l.startswith("ORACLE"):
            p = l.split(" ", 4)
            ln = int(p[1]); which = p[3]; detail = p[4] if len(p) > 4 else ""
            cid, start, lines = case_of(ln)
            ops = [x for x in lines[:ln - start + 1] if x.startswith(("case", "node", "ev ", "chk"))]
            sig = "%s:%s" % (which, hashlib.sha1(detail.encode()).hexdigest()[:10])
            what = {"adv_ok": "an advertisement of the real router lists a destination whose best cost is >= infinity",
                    "table_ok": "after the proved number of fair rounds the real router's table is not the shortest-path table of the topology",
                    "quiet_not_converged": "the real routers, fetching only when a neighbour announced a change, came to rest in a state that is not the shortest-path state (a stale or wrong route lingers with nothing left to trigger its repair)",
                    "quiet_not_fixed": "the real routers announced nothing more although some router has not processed a neighbour's current advertisement (a change was not flagged)",
                    "not_fixed_after_bound": "after 2*16+maxdist+1 fair rounds the real routers' stored costs are still not a fixed point (the proved bound for the whole state is exceeded)",
                    "fixed_not_converged": "the real routers' state is a fixed point but not the shortest-path state",
                    "late_update_changed_state": "a ribUpdate that ran after the dead sweep had removed its neighbour (on the neighbour object it was started with) changed the real router's RIB: the lost neighbour's destinations are re-installed through a hop that is no longer a neighbour",
                    "stale_data_changed_state": "advertisement Data whose sequence number is not the latest one announced by that neighbour (delayed / reordered Data, or Data of a neighbour that is gone) changed the real router's RIB: an out-of-date advertisement is processed and what it lists is (re-)installed",
                    "live_neighbour_declared_dead": "the real dead sweep removed a neighbour from which a Sync Interest had been received within RouterDeadInterval (a heartbeat with an unchanged sequence number did not refresh its liveness)",
                    "restart_not_noticed": "a neighbour restarted (fresh NewRouter, same name) inside the dead interval; its Sync Interest and advertisement Data were delivered, yet the real router still stores the old incarnation's routes through it (the new initial sequence number is not larger than the remembered one)",
                    "refresh_not_two_least": "the real RibEntry.refresh (through ribUpdate/Set) did not select the two least (cost, next-hop hash) pairs on an entry with ties",
                    "refresh_unstable": "re-delivering an UNCHANGED advertisement to the real router reported a change / flipped a next hop among tied costs: the result of refresh depends on the Go map iteration order (ties are not broken the same way every time; the exchange cannot come to rest)",
                    "no_quiescence_proto": "the real routers running their own Start() loops kept exchanging advertisements without end on a stable topology (event budget of the simulated network exhausted): no fixed point within a bounded number of exchanges",
                    "fetch_not_retried": "an advertisement fetch of the real router failed (NACK / timeout) and was not re-issued although the neighbour's sequence number is still the latest known: that advertisement is never fetched (later Sync Interests with the same number are 'nothing changed')",
                    "route_via_non_neighbour": "the real router holds a usable cost through somebody who is not in its neighbour table (e.g. an update that started before the dead sweep and finished after it re-installed the removed neighbour's destinations from what it had read before taking the lock); nothing will ever withdraw it",
                    "stale_snapshot_applied": "an update of the real router applied an older advertisement than the one current when it held the router lock (a newer advertisement was overtaken)",
                    "table_changed_while_quiet": "with stable links and every heartbeat delivered (latency varying below dead - advertise interval) a real router withdrew or changed something during a quiet run of more than five dead intervals (e.g. a live neighbour was declared dead and re-learnt)",
                    "heartbeat_too_slow": "the observed period of a real router's Sync Interests plus the latency variation is not below the dead interval: live neighbours get declared dead",
                    "proto_not_fixed": "long after the last physical change some real router still has not processed a neighbour's current advertisement (its stored costs through that neighbour are not what the neighbour now offers) although the link is up",
                    "no_quiescence": "the notification-driven schedule of the real routers did not come to rest",
                    "harness": "the harness saw an ill-formed table/advertisement"}.get(which, which)
            rep = dict(case=p[2], detail=detail[:3000], ops=ops[-6000:], trace_line=ln)
            if R._shrinks < 2 and len(ops) <= 6000 and any(x.startswith("chk") for x in ops):
                R._shrinks += 1
                small, ok = shrink(R, R._exe, R._runner, ops, which)
                if ok:
                    rep["ops_min"] = small
                    rep["shrunk"] = "%d -> %d events" % (len([x for x in ops if x.startswith("ev ")]), len([x for x in small if x.startswith("ev ")]))
            R.oracle_failure(sig, what, rep)
        elif l.startswith("DIVERGE"):
            p = l.split(" ", 4)
            ln = int(p[1])
            cid, start, lines = case_of(ln)
            ops = [x for x in lines[:ln - start + 1] if x.startswith(("case", "node", "ev ", "chk"))]
            R.divergence("model and implementation disagree on %s (case %s, trace line %d)" % (p[3], p[2], ln),
                         dict(case=p[2], field=p[3], detail=(p[4] if len(p) > 4 else "")[:3000], ops=ops[-4000:]))
        elif l.startswith(("BADCHK", "BADLINE")):
            R.proof_problems.append("runner rejected the harness trace: " + l[:300])


def run_proto(R, exe, runner, n, seed):
    """protocol level: real Start() loops over a simulated network; spec oracle against the physical topology"""
    trace = os.path.join(R.rundir, "ptrace")
    env = vlib.goenv(); env.update(VERIF_SEED=str(seed), VERIF_N=str(n), VERIF_OUT=trace)
    rc, out = vlib.sh([exe, "-test.run", "TestProto$", "-test.count=1", "-test.timeout=0"], env=env, timeout=60 if R.quick else 3000)
    if rc == 124:
        done = 0
        try:
            done = sum(1 for l in open(trace, errors="replace") if l.startswith("end"))
        except OSError:
            pass
        if done < 4:
            R.oracle_failure("proto-harness-timeout", "the protocol-level run did not get through 4 cases within its wall-clock budget (the real routers keep exchanging advertisements)",
                             dict(output=out[-2000:], seed=seed, n=n))
            return
        R.notes.append("protocol-level run stopped by its wall-clock budget after %d cases (loaded machine); the completed cases are analysed" % done)
        cut_to_last_case(trace)
    elif rc != 0:
        R.oracle_failure("proto-harness-crash", "the protocol-level harness aborted (panic or deadlock of the real router loops)",
                         dict(output=out[-3000:], seed=seed, n=n))
        return
    rc, out = vlib.sh("%s < %s" % (runner, trace), timeout=3000)
    if "DONE" not in out:
        R.proof_problems.append("runner did not finish on the protocol trace: " + out[-300:])
    lines = open(trace, errors="replace").read().split("\n")
    d = R.coverage.setdefault("distribution", {})
    ncase = nchk = nontriv = 0
    seen = set()
    cur = []
    def close():
        nonlocal nontriv
        if cur and sum(1 for l in cur if l.startswith("chkphys")) >= 2 and any(";" in l.split(" ent=")[1] for l in cur if l.startswith("obs ")):
            h = hashlib.sha1("\n".join(l for l in cur if l.startswith(("case", "node", "phys"))).encode()).hexdigest()
            if h not in seen:
                seen.add(h); nontriv += 1
    for l in lines:
        if l.startswith("case "):
            close(); cur = [l]; ncase += 1
        elif l.startswith("stat "):
            p = l.split(); d["proto_" + p[1]] = d.get("proto_" + p[1], 0) + int(p[2])
        else:
            if l.startswith("chkphys"): nchk += 1
            cur.append(l)
    close()
    d["proto_cases"] = d.get("proto_cases", 0) + ncase
    d["proto_checks"] = d.get("proto_checks", 0) + nchk
    R.add_cases(ncase, nontriv, [l for l in lines if l.startswith("case ")][:1])
    for l in out.split("\n"):
        if l.startswith("ORACLE"):
            p = l.split(" ", 4)
            ln = int(p[1]); which = p[3]; detail = p[4] if len(p) > 4 else ""
            # the case this line belongs to
            start = max(k for k in range(ln) if lines[k].startswith("case "))
            ctx = [x for x in lines[start:ln] if x.startswith(("case", "node", "phys", "chkphys"))]
            what = {"table_changed_while_quiet": "with stable links and every heartbeat delivered a real router withdrew or changed something during a quiet run of more than five dead intervals",
                    "heartbeat_too_slow": "the observed period of a real router's Sync Interests plus the latency variation is not below the dead interval",
                    "proto_not_fixed": "long after the last physical change some real router has not processed a neighbour's current advertisement although the link is up (a lost fetch was never retried)",
                    "neighbours": "after waiting longer than the dead interval the real routers' neighbour tables are not the physical topology",
                    "table_ok_proto": "the real routers (running their own Start loops) did not reach the shortest-path tables of the physical topology",
                    "adv_ok": "an advertisement of the real router lists a destination whose best cost is >= infinity"}.get(which, which)
            R.oracle_failure("proto:%s:%s" % (which, hashlib.sha1(detail.encode()).hexdigest()[:10]), what,
                             dict(case=p[2], detail=detail[:3000], context=ctx[-60:], seed=seed,
                                  replay_hint="VERIF_SEED=%d VERIF_N=%d TestProto of harness/dv, case %s" % (seed, n, p[2])))
        elif l.startswith(("BADLINE", "DIVERGE")):
            R.proof_problems.append("runner on protocol trace: " + l[:300])


def run_race(R, n, seed):
    """the protocol-level harness under the Go race detector: every reported race with an access in dv/ is a failure"""
    exe = os.path.join(R.rundir, "h-race.test")
    ok, log = vlib.go_test_build("dv", exe, race=True)
    if not ok:
        R.proof_problems.append("race build of the dv harness failed: " + log[-300:]); return
    trace = os.path.join(R.rundir, "ptrace-race")
    env = vlib.goenv(); env.update(VERIF_SEED=str(seed), VERIF_N=str(n), VERIF_OUT=trace, GORACE="halt_on_error=0")
    rc, out = vlib.sh([exe, "-test.run", "TestProto$", "-test.count=1", "-test.timeout=0"], env=env, timeout=60 if R.quick else 3000)
    d = R.coverage.setdefault("distribution", {})
    if rc == 124:
        R.notes.append("race run stopped by its wall-clock budget")
    d["race_proto_cases"] = d.get("race_proto_cases", 0) + n
    blocks = out.split("WARNING: DATA RACE")[1:]
    seen = set()
    for b in blocks:
        accs, cur = [], None
        for l in b.split("\n"):
            if re.match(r"^(Read|Write|Previous read|Previous write) at", l):
                cur = []; accs.append(cur)
            elif l.startswith(("Goroutine", "====")):
                cur = None
            elif cur is not None and l.strip().startswith("/") and len(cur) < 3:
                cur.append(l.strip().split(" +")[0])
        sites = [a[0] if a else "?" for a in accs[:2]]
        frames = [f for a in accs[:2] for f in a]
        mine = [f for f in frames if "/dv/" in f and "/harness/" not in f and "zz_verif" not in f]
        if not mine:
            continue
        rel = lambda f: f.split("/dv/", 1)[-1] if "/dv/" in f else os.path.basename(f)
        sig = "race:" + "|".join(sorted(set(rel(f) for f in mine))[:3])
        if sig in seen:
            continue
        seen.add(sig)
        R.oracle_failure(sig, "data race in the dv daemon while the real routers run their Start() loops (Go race detector)",
                         dict(report=("WARNING: DATA RACE" + b)[:3500], seed=seed, n=n,
                              replay_hint="go1.26 test -race -tags verif ./harness/dv -run TestProto with VERIF_SEED=%d VERIF_N=%d" % (seed, n)))
    d["race_reports"] = d.get("race_reports", 0) + len(blocks)
    if rc != 0 and rc != 124 and not blocks:
        R.oracle_failure("proto-harness-crash-race", "the protocol-level harness aborted under -race", dict(output=out[-3000:], seed=seed, n=n))


def replay_ops(R, exe, runner, ops, tag="rp"):
    """re-run exactly these case/node/ev/chk lines on the implementation and the model; returns the runner output"""
    rd = getattr(R, "rundir", R.work)
    opsf = os.path.join(rd, "ops-%s.txt" % tag)
    trace = os.path.join(rd, "trace-%s" % tag)
    open(opsf, "w").write("\n".join(ops) + "\n")
    env = vlib.goenv(); env.update(VERIF_OPS=opsf, VERIF_OUT=trace)
    rc, out = vlib.sh([exe, "-test.run", "TestReplay$", "-test.count=1"], env=env, timeout=300)
    if rc != 0:
        return "HARNESSCRASH " + out[-500:]
    rc, out = vlib.sh("%s < %s" % (runner, trace), timeout=300)
    return out


def shrink(R, exe, runner, ops, which):
    """delta-debug the event list: keep case/node/chk lines, drop ev lines while the same oracle still fails
    (a check that is no longer justified by enough rounds is rejected by the runner and does not count)"""
    last_chk = max(k for k, l in enumerate(ops) if l.startswith("chk"))
    fixed = [(k, l) for k, l in enumerate(ops) if not l.startswith("ev ") and (not l.startswith("chk") or k == last_chk)]
    evs = [(k, l) for k, l in enumerate(ops) if l.startswith("ev ")]
    # only the last check matters
    def build(sub):
        return [l for _, l in sorted(fixed + sub)]
    def fails(sub):
        out = replay_ops(R, exe, runner, build(sub), "shrink")
        return ("ORACLE" in out) and any(l.split(" ")[3] == which for l in out.split("\n") if l.startswith("ORACLE"))
    if not fails(evs):
        return ops, False
    small = vlib.ddmin(evs, fails, budget=150)
    return build(small), True


def replay(R, path):
    import json
    rj = json.load(open(path))
    print(json.dumps({k: rj[k] for k in rj if k not in ("ops", "ops_min", "how_to_replay")}, indent=1)[:3000])
    ops = rj.get("ops_min") or rj.get("ops") or (rj.get("first_divergence") or {}).get("ops")
    if not ops:
        print("no operation list recorded in this replay file"); return 2
    R.rundir = os.path.join(R.work, "run-%d" % os.getpid())
    os.makedirs(R.rundir, exist_ok=True)
    ok, runner, log = vlib.extract_build("Dv")
    exe = os.path.join(R.rundir, "h.test")
    ok2, log2 = vlib.go_test_build("dv", exe)
    if not (ok and ok2):
        print("build failed", (log or "")[-500:], (log2 or "")[-500:]); return 2
    out = replay_ops(R, exe, runner, ops, "replay")
    bad = [l for l in out.split("\n") if l.startswith(("ORACLE", "HARNESSCRASH"))] + [l for l in out.split("\n") if l.startswith("DIVERGE")]
    print("\n".join(ops[-40:]))
    print("---- result of replaying %d lines on the current tree ----" % len(ops))
    print("\n".join(l[:600] for l in bad[:10]) if bad else "no failure reproduced")
    import shutil
    shutil.rmtree(R.rundir, ignore_errors=True)
    return 1 if bad else 0


def run(R):
    R.assumptions += [
        "Coq 8.16.1 kernel; vm_compute only in non-vacuity Examples",
        "model coq/Dv/Model.v is hand-written from dv/table/rib.go, dv/dv/table_algo.go, dv/table/neighbor_table.go; tied to the code by this run's differential trace (whole RIB compared after every event)",
        "routers/destinations/next hops are identified by the 64-bit hash of their name (the Go map keys); distinct router names are assumed to have distinct hashes (checked for the generated names)",
        "Go map iteration order is arbitrary: refresh is proved order independent; the other loops touch independent entries",
        "a router does not receive its own Sync Interest (it would add itself as a neighbour); links are what the neighbour tables say",
        "fair schedule = every ordered adjacent pair (i, j in i's neighbour table) is fetched in every round; the real trigger chain (change flag -> sequence number -> Sync Interest -> fetch) is observed only through the change flag",
        "extraction: ExtrOcamlBasic only; N, positive, nat stay Coq datatypes",
    ]
    R.coverage["trusted_base"] = ["Coq kernel 8.16.1", "Coq extraction + OCaml 4.13.1", "runner/Dv/driver.ml", "harness/dv generator and fake ndn.Engine",
                                  "translators/dv/gen_consts.py (compiler-evaluated CostInfinity through the hook, behavioural probe of the per-hop cost)", "go1.26 toolchain, testing/synctest"]
    import glob, shutil, time
    for f in glob.glob(os.path.join(R.work, "replay-*.json")):
        if time.time() - os.path.getmtime(f) > 600:
            os.remove(f)
    # several runs of this check may be in flight at once (checkall, other builders): private scratch per run
    R.rundir = os.path.join(R.work, "run-%d" % os.getpid())
    shutil.rmtree(R.rundir, ignore_errors=True)
    os.makedirs(R.rundir)
    for d in glob.glob(os.path.join(R.work, "run-*")):
        if d != R.rundir and time.time() - os.path.getmtime(d) > 7200:
            shutil.rmtree(d, ignore_errors=True)
    try:
        return run2(R)
    finally:
        shutil.rmtree(R.rundir, ignore_errors=True)


def run2(R):
    import glob, shutil
    exe = os.path.join(R.rundir, "h.test")
    hok, hlog = vlib.go_test_build("dv", exe)
    if hok:
        translate(R, exe)
    else:
        R.notes.append("translator: harness does not build, constants kept from the committed GenConsts.v")
        R.coverage["translation_incomplete"] = ["cost_infinity", "local_cost"]
    R.prove("Dv")
    if not R.quick:
        R.coqchk("Dv", ["Dv.Props_C18"] if os.path.exists(os.path.join(vlib.COQ, "Dv", "Props_C18.vo")) else ["Dv.Model"])
    ok, runner, log = vlib.extract_build("Dv")
    if not ok:
        R.proof_problems.append("extraction/OCaml build of the Dv model failed"); R.log(log[-1500:]); return R.finish()
    shutil.copy(runner, os.path.join(R.rundir, "runner")); runner = os.path.join(R.rundir, "runner")
    if not hok:
        R.proof_problems.append("Go harness for dv no longer builds against the tree: " + hlog[-400:]); R.log(hlog[-1500:]); return R.finish()
    R._shrinks = 0; R._exe = exe; R._runner = runner
    R.coverage["rule"] = ("one evaluation = one generated case: a connected graph on 2..6 real dv.Router objects with random names (random tie-break order), "
                          "bring-up, fair rounds (random permutations with repetitions), 2-3 fault phases (link/router loss and re-addition in random order, partial rounds) "
                          "each followed by INF+maxdist+1 fair rounds and the convergence oracle; every event is replayed on the extracted model and the whole RIB compared. "
                          "non-trivial = at least 3 event kinds and some router learnt a remote destination; distinct by SHA-1 of the event list. "
                          "Protocol-level cases (proto_*): 2..6 real routers running their own Start() loops (tickers, Sync Interests, advertisement fetches with 15% loss, ribUpdate goroutines) "
                          "over a simulated network in virtual time, 2-3 phases of link/router loss and return, spec oracle against the physical topology after each; "
                          "non-trivial = at least two checks and a learnt remote destination. race_proto_cases: the same protocol-level cases under the Go race detector (not counted as evaluations)")
    # corpus first: minimised histories kept from earlier failures (mutation trials)
    cdir = os.path.join(vlib.VERIF, "corpus", "C18")
    ncorp = 0
    for f in sorted(glob.glob(os.path.join(cdir, "*.ops"))):
        ops = [l for l in open(f).read().split("\n") if l]
        out = replay_ops(R, exe, runner, ops, "corpus")
        ncorp += 1
        for l in out.split("\n"):
            if l.startswith("ORACLE"):
                p = l.split(" ", 4)
                R.oracle_failure("corpus:%s:%s" % (os.path.basename(f), p[3]), "corpus history %s fails the spec oracle %s" % (os.path.basename(f), p[3]),
                                 dict(detail=(p[4] if len(p) > 4 else "")[:3000], ops=ops))
            elif l.startswith("DIVERGE"):
                R.divergence("model and implementation disagree on corpus history %s: %s" % (os.path.basename(f), l[:300]), dict(ops=ops))
            elif l.startswith(("BADCHK", "BADLINE", "HARNESSCRASH")):
                R.proof_problems.append("corpus history %s: %s" % (os.path.basename(f), l[:300]))
    R.coverage.setdefault("distribution", {})["corpus_histories"] = ncorp
    runs = [(120, R.seed, False, "")] if R.quick else [(0, R.seed, True, "-all"), (1500, R.seed + 1, False, "-rand")]
    for n, seed, exh, tag in runs:
        trace = run_harness(R, exe, n, seed, exh, tag)
        if trace is None:
            continue
        analyse(R, runner, trace, tag)
        try:
            os.remove(trace)
        except OSError:
            pass
    # protocol level last: event-level failures (replayable, shrunk) are reported first
    run_proto(R, exe, runner, 60 if R.quick else 1500, R.seed)
    run_race(R, 10 if R.quick else 120, R.seed)
    return R.finish()
