#!/usr/bin/env python3
"""Shared driver library for /verif checks (see DESIGN.md section 3).

Every check script checks/Cxx.py defines run(R) where R is a vlib.Run; it calls the
steps below and ends with R.finish().  Layout conventions:

  coq/Base/            shared Coq library (built first)
  coq/<Fam>/           one Coq project per family: _CoqProject, *.v, Props_Cxx.v, Extract.v
  runner/<Fam>/*.ml    OCaml driver(s) linked with the extracted model
  harness/<pkg>/       Go package(s) of module verifharness, built against $VERIF_REPO (default /repo)
  work/<Cxx>/          scratch for one check (git-ignored)
"""
import fcntl, glob, hashlib, json, os, re, shutil, subprocess, sys, time

VERIF = os.path.dirname(os.path.dirname(os.path.abspath(__file__)))
REPO = os.environ.get("VERIF_REPO", "/repo")
GO = os.environ.get("VERIF_GO", "go1.26")
NPROC = os.cpu_count() or 4
# Alternate-repo mode (mutation trials, agents' scratch worktrees): VERIF_REPO=/tmp/wt bin/check Cxx quick
# keeps everything mutable (work/, evidence/, a private copy of coq/) under work/alt-<hash>/ so that /verif's own
# evidence and build products are untouched.
ALT = os.path.realpath(REPO) != "/repo"
WROOT = os.path.join(VERIF, "work", "alt-" + hashlib.sha1(os.path.realpath(REPO).encode()).hexdigest()[:8]) if ALT else os.path.join(VERIF, "work")
COQ = os.path.join(WROOT, "coq") if ALT else os.path.join(VERIF, "coq")
EVID = os.path.join(WROOT, "evidence") if ALT else os.path.join(VERIF, "evidence")
os.makedirs(WROOT, exist_ok=True)
if ALT:
    subprocess.run(["rsync", "-a", "--exclude", "Makefile", "--exclude", "Makefile.conf", "--exclude", ".Makefile.d",
                    os.path.join(VERIF, "coq") + "/", COQ + "/"], check=False)

FORBIDDEN = re.compile(
    r"\b(Admitted|admit|Axiom|Axioms|Parameter|Parameters|Conjecture|Conjectures|Admit\s+Obligations)\b"
    r"|Unset\s+Guard|bypass_check|-type-in-type|-impredicative-set|Unset\s+Universe\s+Checking|Unset\s+Positivity"
    r"|native_compute")

# axioms of the standard library that may appear under Print Assumptions (named in the trusted base)
ALLOWED_AXIOMS = {
    "functional_extensionality_dep", "FunctionalExtensionality.functional_extensionality_dep",
    "Eqdep.Eq_rect_eq.eq_rect_eq", "eq_rect_eq", "Coq.Logic.Eqdep.Eq_rect_eq.eq_rect_eq",
    "proof_irrelevance", "ProofIrrelevance.proof_irrelevance", "Classical_Prop.classic", "classic",
    "JMeq_eq", "JMeq.JMeq_eq", "propositional_extensionality",
}


def goenv():
    e = dict(os.environ)
    e.update(GOFLAGS="-mod=mod", GOPROXY="off", GOSUMDB="off", GOTOOLCHAIN="local",
             CGO_ENABLED=e.get("CGO_ENABLED", "1"))
    return e


def sh(cmd, cwd=None, timeout=1800, env=None, stdin=None):
    """Run a shell command; returns (rc, combined output). rc=124 on timeout."""
    try:
        p = subprocess.run(cmd, shell=isinstance(cmd, str), cwd=cwd, env=env, input=stdin,
                           stdout=subprocess.PIPE, stderr=subprocess.STDOUT, timeout=timeout, text=True,
                           errors="replace")
        return p.returncode, p.stdout
    except subprocess.TimeoutExpired as e:
        out = e.stdout if isinstance(e.stdout, str) else (e.stdout or b"").decode("utf8", "replace")
        return 124, out + "\n[timeout after %ss]" % timeout


class flock:
    def __init__(self, name):
        self.path = os.path.join(WROOT, ".lock-" + name.replace("/", "_"))
    def __enter__(self):
        self.f = open(self.path, "w")
        fcntl.flock(self.f, fcntl.LOCK_EX)
    def __exit__(self, *a):
        fcntl.flock(self.f, fcntl.LOCK_UN)
        self.f.close()


def write_if_changed(path, content):
    old = None
    if os.path.exists(path):
        old = open(path).read()
    if old != content:
        os.makedirs(os.path.dirname(path), exist_ok=True)
        with open(path, "w") as f:
            f.write(content)
        return True
    return False


# ----------------------------------------------------------------------------------------------
# Coq
# ----------------------------------------------------------------------------------------------
def _coq_flags(fam):
    d = os.path.join(COQ, fam)
    flags = []
    for line in open(os.path.join(d, "_CoqProject")):
        line = line.strip()
        if line.startswith("-Q") or line.startswith("-R"):
            parts = line.split()
            flags += [parts[0], os.path.normpath(os.path.join(d, parts[1])), parts[2]]
    return flags


def coq_make(fam, timeout=10800, targets=""):
    """Full .vo build of coq/<fam> (and coq/Base first) with coq_makefile; never -vos/-vok."""
    logs = []
    for f in (["Base"] if fam != "Base" else []) + [fam]:
        d = os.path.join(COQ, f)
        with flock("coq-" + f):
            mk = os.path.join(d, "Makefile")
            cp = os.path.join(d, "_CoqProject")
            if not os.path.exists(mk) or os.path.getmtime(mk) < os.path.getmtime(cp):
                rc, out = sh("coq_makefile -f _CoqProject -o Makefile", cwd=d, timeout=120)
                if rc != 0:
                    return False, out
            rc, out = sh("make -j%d %s 2>&1" % (NPROC, targets if f == fam else ""), cwd=d, timeout=timeout)
            logs.append(out)
            if rc != 0:
                return False, "\n".join(logs)
    return True, "\n".join(logs)


_THM = re.compile(r"^\s*(Theorem|Lemma|Corollary|Example)\s+([A-Za-z_][A-Za-z0-9_']*)", re.M)


def coq_props(fam, pid, timeout=3600):
    """Re-compile coq/<fam>/Props_<pid>.v (always, so Print Assumptions output is fresh).
    Returns dict: obligations [names], discharged [names], assumptions {name: [axioms]}, bad_axioms, ok, log."""
    d = os.path.join(COQ, fam)
    src = os.path.join(d, "Props_%s.v" % pid)
    text = open(src).read()
    names = [m.group(2) for m in _THM.finditer(text)]
    with flock("coq-" + fam):
        rc, out = sh(["coqc"] + _coq_flags(fam) + [src], cwd=d, timeout=timeout)
    res = dict(obligations=names, discharged=[], assumptions={}, bad_axioms=[], ok=False, log=out,
               file="coq/%s/Props_%s.v" % (fam, pid))
    if rc != 0:
        # which theorem failed: Coq reports line numbers; map to the enclosing theorem
        m = re.search(r"line (\d+)", out)
        if m:
            ln = int(m.group(1))
            upto = "\n".join(text.split("\n")[:ln])
            prev = [x.group(2) for x in _THM.finditer(upto)]
            res["failed_at"] = prev[-1] if prev else None
            res["discharged"] = prev[:-1]
        return res
    # Print Assumptions blocks, in order of appearance: either "Closed under the global context" or "Axioms:\n..."
    blocks = re.split(r"(?m)^(?=Closed under the global context|Axioms:)", out)
    blocks = [b for b in blocks if b.startswith("Closed under") or b.startswith("Axioms:")]
    pa = re.findall(r"Print\s+Assumptions\s+([A-Za-z_][A-Za-z0-9_'.]*)", text)
    for name, b in zip(pa, blocks):
        if b.startswith("Closed"):
            res["assumptions"][name] = []
        else:
            axs = re.findall(r"(?m)^([A-Za-z_][A-Za-z0-9_'.]*)\s*:", b[len("Axioms:"):])
            res["assumptions"][name] = axs
            for a in axs:
                if a not in ALLOWED_AXIOMS and a.split(".")[-1] not in ALLOWED_AXIOMS:
                    res["bad_axioms"].append((name, a))
    res["discharged"] = list(names)
    missing = [n for n in names if n not in res["assumptions"] and not n.endswith("_example")
               and not text.count("Example " + n)]
    res["unprinted"] = missing
    res["ok"] = not res["bad_axioms"] and len(pa) == len(blocks)
    return res


def forbidden_scan(fams):
    hits = []
    for fam in fams:
        for p in sorted(glob.glob(os.path.join(COQ, fam, "**", "*.v"), recursive=True)):
            txt = open(p, errors="replace").read()
            # strip comments (non-nested approximation good enough: nested handled by loop)
            prev = None
            while prev != txt:
                prev = txt
                txt = re.sub(r"\(\*[^*(]*(?:\*(?!\))[^*(]*|\((?!\*)[^*(]*)*\*\)", " ", txt)
            for i, line in enumerate(txt.split("\n"), 1):
                m = FORBIDDEN.search(line)
                if m:
                    hits.append("%s:%d:%s" % (os.path.relpath(p, os.path.dirname(COQ)), i, m.group(0)))
    return hits


def coqchk(fam, modules, timeout=14400):
    d = os.path.join(COQ, fam)
    flags = " ".join(_coq_flags(fam))
    with flock("coq-" + fam):
        rc, out = sh("coqchk -silent -o %s %s 2>&1" % (flags, " ".join(modules)), cwd=d, timeout=timeout)
    return rc == 0, out


def extract_build(fam, drivers=None, exe="runner", timeout=3600):
    """coqc coq/<fam>/Extract.v with cwd=work/<fam>/ml (Extraction writes *.ml there), then link
    runner/<fam>/<drivers> with ocamlfind ocamlopt.  Returns (ok, exe_path, log)."""
    # one build directory per process: two checks of the same family (C01/C02/C09, C10/C11 ...) may run at the same
    # time against the same work root and must not delete each other's runner
    ml = os.path.join(WROOT, fam, "ml-%d" % os.getpid())
    for old in glob.glob(os.path.join(WROOT, fam, "ml-*")):
        try:
            pid = int(old.rsplit("-", 1)[1])
            os.kill(pid, 0)
        except (ValueError, ProcessLookupError):
            shutil.rmtree(old, ignore_errors=True)
        except PermissionError:
            pass
    os.makedirs(ml, exist_ok=True)
    src = os.path.join(COQ, fam, "Extract.v")
    with flock("ml-" + fam):
        for f in glob.glob(os.path.join(ml, "*")):
            if os.path.isfile(f):
                os.remove(f)
        with flock("coq-" + fam):
            rc, out = sh(["coqc"] + _coq_flags(fam) + ["-o", os.path.join(ml, "Extract.vo"), src], cwd=ml, timeout=timeout)
        if rc != 0:
            return False, None, out
        mls = sorted(glob.glob(os.path.join(ml, "*.ml")))
        drv = drivers or sorted(glob.glob(os.path.join(VERIF, "runner", fam, "*.ml")))
        for dsrc in drv:
            shutil.copy(dsrc, ml)
        # dependency order: extracted modules first (ocamldep -sort), then drivers
        rc, order = sh("ocamlfind ocamldep -sort *.ml *.mli 2>/dev/null || ocamlfind ocamldep -sort *.ml", cwd=ml, timeout=120)
        files = order.split()
        rc, out2 = sh("ocamlfind ocamlopt -w -a -package str,unix -linkpkg %s -o %s" %
                      (" ".join(files), exe), cwd=ml, timeout=timeout)
        if rc != 0:
            return False, None, out + out2
        return True, os.path.join(ml, exe), out + out2


# ----------------------------------------------------------------------------------------------
# Go
# ----------------------------------------------------------------------------------------------
def go_modfile():
    """harness/go.mod replaces ndnd => /repo; when VERIF_REPO is overridden write an alternate modfile."""
    h = os.path.join(VERIF, "harness")
    base = open(os.path.join(h, "go.mod")).read()
    alt = os.path.join(WROOT, "gomod")
    os.makedirs(alt, exist_ok=True)
    txt = re.sub(r"=> /repo\b", "=> " + REPO, base)
    write_if_changed(os.path.join(alt, "go.mod"), txt)
    shutil.copy(os.path.join(REPO, "go.sum"), os.path.join(alt, "go.sum"))
    return os.path.join(alt, "go.mod")


def go_test_build(pkg, out, race=False, tags="verif", timeout=3600):
    """Build harness/<pkg> as a test binary against $VERIF_REPO's working tree."""
    os.makedirs(os.path.dirname(out), exist_ok=True)
    # VERIF_COVERDIR=<dir> (coverage survey, bin/coverage): build with coverage of the repository's packages and put a
    # wrapper at `out` that passes -test.gocoverdir to the real binary; never set by a registered command.
    cov = os.environ.get("VERIF_COVERDIR")
    real = out + ".real" if cov else out
    cmd = [GO, "test", "-c", "-vet=off", "-tags", tags, "-modfile", go_modfile(), "-o", real]
    if race:
        cmd.append("-race")
    if cov:
        cmd += ["-cover", "-covermode=atomic", "-coverpkg=github.com/named-data/ndnd/..."]
    cmd.append("./" + pkg)
    with flock("go-" + pkg + ("-race" if race else "")):
        rc, o = sh(cmd, cwd=os.path.join(VERIF, "harness"), env=goenv(), timeout=timeout)
    if cov and rc == 0:
        os.makedirs(cov, exist_ok=True)
        with open(out, "w") as f:
            f.write('#!/bin/sh\nexec "%s" -test.gocoverdir="%s" "$@"\n' % (real, cov))
        os.chmod(out, 0o755)
    return rc == 0, o


def go_build(pkg, out, tags="verif", timeout=3600, cwd=None):
    os.makedirs(os.path.dirname(out), exist_ok=True)
    cmd = [GO, "build", "-tags", tags, "-modfile", go_modfile(), "-o", out, "./" + pkg]
    with flock("go-" + pkg):
        rc, o = sh(cmd, cwd=cwd or os.path.join(VERIF, "harness"), env=goenv(), timeout=timeout)
    return rc == 0, o


# ----------------------------------------------------------------------------------------------
# known findings
# ----------------------------------------------------------------------------------------------
def known_findings(pid):
    """Lines of known_findings.txt:  finding: property=Cxx match=<regex> <text>   (read-only at run time)."""
    res = []
    p = os.path.join(VERIF, "known_findings.txt")
    if not os.path.exists(p):
        return res
    for line in open(p):
        line = line.strip()
        m = re.match(r"finding:\s+property=(\S+)\s+match=(\S+)\s+(.*)$", line)
        if m and m.group(1) == pid:
            res.append((re.compile(m.group(2)), m.group(3)))
    return res


# ----------------------------------------------------------------------------------------------
# generic delta debugging over a list
# ----------------------------------------------------------------------------------------------
def ddmin(items, fails, budget=200):
    """Shrink `items` (list) while fails(items) stays True. Classic ddmin with an evaluation budget."""
    n = 2
    calls = [0]
    def test(x):
        calls[0] += 1
        return fails(x)
    while len(items) >= 2 and calls[0] < budget:
        chunk = max(1, len(items) // n)
        reduced = False
        for i in range(0, len(items), chunk):
            cand = items[:i] + items[i + chunk:]
            if cand and test(cand):
                items = cand
                n = max(n - 1, 2)
                reduced = True
                break
            if calls[0] >= budget:
                break
        if not reduced:
            if chunk == 1:
                break
            n = min(len(items), n * 2)
    return items


# ----------------------------------------------------------------------------------------------
# a run
# ----------------------------------------------------------------------------------------------
class Run:
    def __init__(self, pid, tier):
        self.pid = pid
        self.tier = tier
        self.seed = int(os.environ.get("VERIF_SEED", "1") or 1)
        self.t0 = time.time()
        self.work = os.path.join(WROOT, pid)
        os.makedirs(self.work, exist_ok=True)
        self.proof = None              # result of coq_props (+ build failures)
        self.proof_problems = []       # strings: theorem/correspondence that no longer checks
        self.oracle_failures = []      # dicts: {signature, what, replay(dict)}  -- concrete failing inputs on the implementation
        self.corr_divergences = []     # dicts: {what, replay(dict)}             -- model != implementation (no spec failure shown)
        self.coverage = dict(evaluations=0, distinct_nontrivial=0, rule="", samples=[],
                             traces_validated_against_impl=0, obligations=0, discharged=0,
                             checker_cmd="", trusted_base=[])
        self.assumptions = []
        self.notes = []
        self.quick = tier != "thorough"

    def log(self, *a):
        print("[%s %6.1fs]" % (self.pid, time.time() - self.t0), *a, flush=True)

    # --- proof side ---------------------------------------------------------------------------
    def prove(self, fam, extra_fams=(), props_pid=None):
        """make coq/<fam>, recompile Props_<pid>.v, scan for forbidden tokens; fills coverage."""
        pid = props_pid or self.pid
        ok, log = coq_make(fam)
        open(os.path.join(self.work, "coq-make.log"), "w").write(log)
        cov = self.coverage
        cov["checker_cmd"] = "coq_makefile -f coq/%s/_CoqProject && make (full .vo) ; coqc coq/%s/Props_%s.v (Print Assumptions)" % (fam, fam, pid)
        hits = forbidden_scan(["Base", fam] + list(extra_fams))
        if hits:
            self.proof_problems.append("forbidden token(s) in development: " + "; ".join(hits[:5]))
        if not ok:
            tail = "\n".join(log.strip().split("\n")[-25:])
            m = re.search(r'File "([^"]+)", line (\d+)', log)
            where = "%s:%s" % (m.group(1), m.group(2)) if m else "?"
            self.proof_problems.append("coq build of family %s failed at %s" % (fam, where))
            self.log("coq build FAILED:\n" + tail)
            # obligations are still counted from the Props file
            try:
                text = open(os.path.join(COQ, fam, "Props_%s.v" % pid)).read()
                names = [m.group(2) for m in _THM.finditer(text)]
            except OSError:
                names = []
            cov["obligations"] += max(1, len(names))
            return False
        pr = coq_props(fam, pid)
        self.proof = pr
        open(os.path.join(self.work, "coq-props.log"), "w").write(pr["log"])
        cov["obligations"] += len(pr["obligations"])
        cov["discharged"] += len(pr["discharged"])
        cov.setdefault("theorems", []).extend(pr["obligations"])
        cov.setdefault("print_assumptions", {}).update({k: (v or "Closed under the global context") for k, v in pr["assumptions"].items()})
        if not pr["ok"]:
            if pr.get("failed_at"):
                self.proof_problems.append("theorem %s in %s no longer checks" % (pr["failed_at"], pr["file"]))
            for (n, a) in pr["bad_axioms"]:
                self.proof_problems.append("theorem %s depends on non-standard axiom %s" % (n, a))
            if not pr.get("failed_at") and not pr["bad_axioms"]:
                self.proof_problems.append("Props file %s did not compile cleanly" % pr["file"])
            self.log("props FAILED:\n" + "\n".join(pr["log"].strip().split("\n")[-20:]))
            return False
        self.log("proved %d/%d theorems of %s" % (len(pr["discharged"]), len(pr["obligations"]), pr["file"]))
        return True

    def coqchk(self, fam, modules):
        ok, out = coqchk(fam, modules)
        open(os.path.join(self.work, "coqchk.log"), "w").write(out)
        self.coverage["coqchk"] = dict(ok=ok, tail=out.strip().split("\n")[-30:])
        if not ok and "[timeout after" in out[-200:]:
            # a wall-clock limit decides no verdict: the independent re-check simply did not finish on this machine
            self.coverage["coqchk"]["note"] = "coqchk did not finish within its time limit (slow or busy machine); the kernel-checked build (coqc) is unaffected"
            return True
        if not ok:
            self.proof_problems.append("coqchk rejected %s" % " ".join(modules))
        return ok

    # --- results ------------------------------------------------------------------------------
    def oracle_failure(self, signature, what, replay):
        self.oracle_failures.append(dict(signature=signature, what=what, replay=replay))

    def divergence(self, what, replay):
        self.corr_divergences.append(dict(what=what, replay=replay))

    def add_cases(self, evaluations, distinct_nontrivial, samples=(), traces=None):
        c = self.coverage
        c["evaluations"] += evaluations
        c["distinct_nontrivial"] += distinct_nontrivial
        c["traces_validated_against_impl"] += evaluations if traces is None else traces
        for s in samples:
            if len(c["samples"]) < 6:
                c["samples"].append(s)

    def _write_replay(self, kind, idx, body):
        p = os.path.join(self.work, "replay-%s-%d.json" % (kind, idx))
        body = dict(body)
        body.update(property=self.pid, seed=self.seed, tier=self.tier, kind=kind,
                    how_to_replay="bin/check %s --replay %s" % (self.pid, p))
        json.dump(body, open(p, "w"), indent=1, default=str)
        return p

    def finish(self, level="proof"):
        kf = known_findings(self.pid)
        lines = []
        violations = 0
        known = {}
        unlisted = []
        for f in self.oracle_failures:
            hit = None
            for rx, text in kf:
                if rx.search(f["signature"]):
                    hit = text
                    break
            if hit is not None:
                known.setdefault(hit, 0)
                known[hit] += 1
            else:
                unlisted.append(f)
        for text, n in known.items():
            lines.append("KNOWN-FINDING: property=%s %s (%d case(s) this run)" % (self.pid, text, n))
        seen = set()
        for i, f in enumerate(unlisted):
            if f["signature"] in seen:
                continue
            seen.add(f["signature"])
            if len(seen) > 5:
                break
            p = self._write_replay("oracle", i, dict(what=f["what"], signature=f["signature"], **f["replay"]))
            lines.append("VIOLATION property=%s replay=%s" % (self.pid, p))
            violations += 1
        if not unlisted:
            probs = list(self.proof_problems)
            for d in self.corr_divergences[:3]:
                probs.append("correspondence: " + d["what"])
            if probs:
                body = dict(what="no concrete failing input found; these obligations no longer check",
                            broken=probs)
                if self.corr_divergences:
                    body["first_divergence"] = self.corr_divergences[0]["replay"]
                p = self._write_replay("proof", 0, body)
                lines.append("VIOLATION property=%s replay=%s no-failing-input-found" % (self.pid, p))
                violations += 1
        cov = self.coverage
        if not cov["samples"]:
            cov["samples"] = ["(no sample recorded)"]
        ev = dict(property_id=self.pid, tier="thorough" if self.tier == "thorough" else "quick", seed=self.seed,
                  level=level, coverage=cov, assumptions=self.assumptions,
                  wall_s=round(time.time() - self.t0, 2), violations=violations,
                  known_findings=sorted(known.keys()), notes=self.notes, repo=REPO)
        os.makedirs(EVID, exist_ok=True)
        json.dump(ev, open(os.path.join(EVID, self.pid + ".json"), "w"), indent=1, default=str)
        for l in lines:
            print(l, flush=True)
        self.log("done: evaluations=%d distinct_nontrivial=%d obligations=%d discharged=%d violations=%d wall=%.1fs" % (
            cov["evaluations"], cov["distinct_nontrivial"], cov["obligations"], cov["discharged"], violations,
            time.time() - self.t0))
        return 1 if violations else 0
