// translators/dvfib — regenerates coq/DvFib/GenConsts.v from the Go sources of the repository under test.
// Standard library only (go/parser, go/ast). Usage: go run main.go <repo> > GenConsts.v
//
// Translated:
//   dv/config/config.go      const CostInfinity, NlsrOrigin                         -> cost_infinity, nlsr_origin
//   dv/table/prefix_table.go  publishOp: the condition guarding pt.publishSnap()      -> pub_snap_test snapshotAt seq
//   dv/dv/prefix_sync.go      prefixDataFetch: the expression assigned to isSnap     -> fetch_snap_test latest known,
//                                                                                       fetch_threshold (its literal)
// Conditions are translated structurally: uint64 `-` becomes u64_sub (wraps modulo 2^64), `+` u64-wrapping add,
// comparisons become N comparisons, integer literals stay. Anything outside this grammar aborts the translation
// (the check then reports that the obligation no longer holds for the code as written).
package main

import (
	"fmt"
	"go/ast"
	"go/parser"
	"go/printer"
	"go/token"
	"os"
	"path/filepath"
	"strings"
)

func die(f string, a ...any) {
	fmt.Fprintf(os.Stderr, "dvfib translator: "+f+"\n", a...)
	os.Exit(1)
}

func parse(fset *token.FileSet, path string) *ast.File {
	f, err := parser.ParseFile(fset, path, nil, parser.ParseComments)
	if err != nil {
		die("%v", err)
	}
	return f
}

func src(fset *token.FileSet, n ast.Node) string {
	var b strings.Builder
	printer.Fprint(&b, fset, n)
	return b.String()
}

// constant of the form  const X = uint64(N)  or  const X = N
func constVal(f *ast.File, name string) string {
	for _, d := range f.Decls {
		gd, ok := d.(*ast.GenDecl)
		if !ok || gd.Tok != token.CONST {
			continue
		}
		for _, s := range gd.Specs {
			vs := s.(*ast.ValueSpec)
			for i, id := range vs.Names {
				if id.Name != name || i >= len(vs.Values) {
					continue
				}
				v := vs.Values[i]
				if c, ok := v.(*ast.CallExpr); ok && len(c.Args) == 1 {
					v = c.Args[0]
				}
				if lit, ok := v.(*ast.BasicLit); ok && lit.Kind == token.INT {
					return lit.Value
				}
				die("constant %s is not an integer literal", name)
			}
		}
	}
	die("constant %s not found", name)
	return ""
}

func findFunc(f *ast.File, name string) *ast.FuncDecl {
	for _, d := range f.Decls {
		if fd, ok := d.(*ast.FuncDecl); ok && fd.Name.Name == name {
			return fd
		}
	}
	die("function %s not found", name)
	return nil
}

// expression translation; vars maps Go source text of leaves to Coq variable names
func tr(fset *token.FileSet, e ast.Expr, vars map[string]string) string {
	switch x := e.(type) {
	case *ast.ParenExpr:
		return tr(fset, x.X, vars)
	case *ast.BasicLit:
		if x.Kind == token.INT {
			return x.Value
		}
	case *ast.Ident, *ast.SelectorExpr:
		if v, ok := vars[src(fset, e)]; ok {
			return v
		}
	case *ast.BinaryExpr:
		a, b := tr(fset, x.X, vars), tr(fset, x.Y, vars)
		switch x.Op {
		case token.SUB:
			return fmt.Sprintf("(u64_sub %s %s)", a, b)
		case token.ADD:
			return fmt.Sprintf("((%s + %s) mod two64)", a, b)
		case token.GEQ:
			return fmt.Sprintf("(%s <=? %s)", b, a)
		case token.GTR:
			return fmt.Sprintf("(%s <? %s)", b, a)
		case token.LEQ:
			return fmt.Sprintf("(%s <=? %s)", a, b)
		case token.LSS:
			return fmt.Sprintf("(%s <? %s)", a, b)
		case token.LAND:
			return fmt.Sprintf("(%s && %s)", a, b)
		case token.LOR:
			return fmt.Sprintf("(%s || %s)", a, b)
		}
	}
	die("cannot translate expression %q", src(fset, e))
	return ""
}

func callsMethod(n ast.Node, method string) bool {
	found := false
	ast.Inspect(n, func(m ast.Node) bool {
		if c, ok := m.(*ast.CallExpr); ok {
			if s, ok := c.Fun.(*ast.SelectorExpr); ok && s.Sel.Name == method {
				found = true
			}
		}
		return true
	})
	return found
}

func main() {
	if len(os.Args) < 2 {
		die("usage: main <repo>")
	}
	repo := os.Args[1]
	fset := token.NewFileSet()
	cfg := parse(fset, filepath.Join(repo, "dv/config/config.go"))
	pt := parse(fset, filepath.Join(repo, "dv/table/prefix_table.go"))
	ps := parse(fset, filepath.Join(repo, "dv/dv/prefix_sync.go"))

	inf := constVal(cfg, "CostInfinity")
	origin := constVal(cfg, "NlsrOrigin")

	// publishOp: exactly one `if <cond> { ... pt.publishSnap() ... }` without else; the sequence number variable is
	// the one assigned from IncrSeqNo.
	var pubCond ast.Expr
	seqVar := ""
	po := findFunc(pt, "publishOp")
	ast.Inspect(po.Body, func(n ast.Node) bool {
		switch x := n.(type) {
		case *ast.AssignStmt:
			if len(x.Lhs) == 1 && len(x.Rhs) == 1 && callsMethod(x.Rhs[0], "IncrSeqNo") {
				seqVar = src(fset, x.Lhs[0])
			}
		case *ast.IfStmt:
			if callsMethod(x.Body, "publishSnap") {
				if pubCond != nil || x.Else != nil || x.Init != nil {
					die("publishOp: unexpected shape of the snapshot test")
				}
				pubCond = x.Cond
			}
		}
		return true
	})
	if pubCond == nil || seqVar == "" {
		die("publishOp: snapshot test or sequence variable not found")
	}
	pubSrc := src(fset, pubCond)
	pubCoq := tr(fset, pubCond, map[string]string{"pt.snapshotAt": "snapshotAt", seqVar: "seq", "pt.me.Latest": "seq", "pt.me.Known": "seq"})

	// prefixDataFetch: isSnap := <expr>
	var fetchExpr ast.Expr
	pf := findFunc(ps, "prefixDataFetch")
	ast.Inspect(pf.Body, func(n ast.Node) bool {
		if a, ok := n.(*ast.AssignStmt); ok && len(a.Lhs) == 1 && len(a.Rhs) == 1 && src(fset, a.Lhs[0]) == "isSnap" {
			if fetchExpr != nil {
				die("prefixDataFetch: isSnap assigned twice")
			}
			fetchExpr = a.Rhs[0]
		}
		return true
	})
	if fetchExpr == nil {
		die("prefixDataFetch: isSnap assignment not found")
	}
	// the numeric threshold of the fetch rule: the only integer literal of that expression
	fetchThr := ""
	ast.Inspect(fetchExpr, func(n ast.Node) bool {
		if l, ok := n.(*ast.BasicLit); ok && l.Kind == token.INT {
			if fetchThr != "" {
				die("prefixDataFetch: more than one integer literal in the isSnap expression")
			}
			fetchThr = l.Value
		}
		return true
	})
	if fetchThr == "" {
		die("prefixDataFetch: no integer literal in the isSnap expression")
	}
	fetchSrc := src(fset, fetchExpr)
	fetchCoq := tr(fset, fetchExpr, map[string]string{"router.Latest": "latest", "router.Known": "known"})

	fmt.Printf(`(* DvFib/GenConsts.v — GENERATED by translators/dvfib from the Go sources on every run; do not edit by hand.
   source: dv/config/config.go, dv/table/prefix_table.go (publishOp), dv/dv/prefix_sync.go (prefixDataFetch) *)
From DvFib Require Import U64.
Open Scope N_scope.

(* dv/config/config.go: CostInfinity *)
Definition cost_infinity : N := %s.
(* dv/config/config.go: NlsrOrigin *)
Definition nlsr_origin : N := %s.
(* dv/table/prefix_table.go publishOp: if %s { pt.publishSnap() } *)
Definition pub_snap_test (snapshotAt seq : N) : bool := %s.
(* dv/dv/prefix_sync.go prefixDataFetch: isSnap := %s *)
Definition fetch_snap_test (latest known : N) : bool := %s.
(* the integer literal of that expression *)
Definition fetch_threshold : N := %s.
`, inf, origin, pubSrc, pubCoq, fetchSrc, fetchCoq, fetchThr)
}
