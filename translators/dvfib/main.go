// translators/dvfib — structural (AST) reading of the two snapshot-threshold tests of the DV prefix log, cross-checked
// against behavioural probes. Standard library only. Usage: go run main.go <repo> [<probe file>]
//
// Nothing here depends on local identifier names, declaration style, or on literals vs named constants:
//   publisher test : in dv/table, the method that calls IncrSeqNo (an API of std/sync); in it the only `if` without else
//                    whose condition is a comparison containing a subtraction. Leaves: the variable assigned from
//                    IncrSeqNo (and selectors ending in .Latest/.Known) = seq; the single other non-constant leaf =
//                    snapshotAt. Integer leaves: literals or constants of the package / of dv/config.
//   fetcher test   : in dv/dv, the comparison that contains a subtraction of two selectors with fields Latest / Known.
// Output (one item per line, consumed by checks/C19.py):
//   pub_coq <Coq expr over snapshotAt seq> | pub_fail <why>      pub_src <Go text>      pub_probe agree|disagree <n>
//   fetch_coq <Coq expr over latest known> | fetch_fail <why>    fetch_src <Go text>    fetch_probe agree|disagree <n>
//   fetch_lit <the integer of the fetch test>
// When a probe file is given, the located expressions are evaluated with uint64 semantics on every probe point and
// compared with what the implementation did. A failure to locate an item is NOT an error (exit 0): the check then
// derives the item from the probes or keeps the committed value.
package main

import (
	"bufio"
	"fmt"
	"go/ast"
	"go/parser"
	"go/printer"
	"go/token"
	"os"
	"path/filepath"
	"strconv"
	"strings"
)

var fset = token.NewFileSet()

func src(n ast.Node) string {
	var b strings.Builder
	printer.Fprint(&b, fset, n)
	return strings.Join(strings.Fields(b.String()), " ")
}

func parseDir(dir string) []*ast.File {
	pkgs, err := parser.ParseDir(fset, dir, func(fi os.FileInfo) bool {
		return !strings.HasSuffix(fi.Name(), "_test.go") && !strings.HasPrefix(fi.Name(), "zz_")
	}, 0)
	if err != nil {
		return nil
	}
	var fs []*ast.File
	for _, p := range pkgs {
		for _, f := range p.Files {
			fs = append(fs, f)
		}
	}
	return fs
}

// integer constants declared in the given files: name -> value (literal, or uint64(literal) style conversions)
func consts(files []*ast.File, prefix string, into map[string]uint64) {
	for _, f := range files {
		for _, d := range f.Decls {
			gd, ok := d.(*ast.GenDecl)
			if !ok || (gd.Tok != token.CONST && gd.Tok != token.VAR) {
				continue
			}
			for _, s := range gd.Specs {
				vs, ok := s.(*ast.ValueSpec)
				if !ok {
					continue
				}
				for i, id := range vs.Names {
					if i >= len(vs.Values) || gd.Tok == token.VAR {
						continue
					}
					v := vs.Values[i]
					for {
						if c, ok := v.(*ast.CallExpr); ok && len(c.Args) == 1 {
							v = c.Args[0]
						} else if p, ok := v.(*ast.ParenExpr); ok {
							v = p.X
						} else {
							break
						}
					}
					if lit, ok := v.(*ast.BasicLit); ok && lit.Kind == token.INT {
						if n, err := strconv.ParseUint(strings.ReplaceAll(lit.Value, "_", ""), 0, 64); err == nil {
							into[prefix+id.Name] = n
						}
					}
				}
			}
		}
	}
}

func callsMethod(n ast.Node, method string) bool {
	found := false
	ast.Inspect(n, func(m ast.Node) bool {
		if c, ok := m.(*ast.CallExpr); ok {
			if s, ok := c.Fun.(*ast.SelectorExpr); ok && s.Sel.Name == method {
				found = true
			}
		}
		return true
	})
	return found
}

func hasSub(e ast.Expr) bool {
	found := false
	ast.Inspect(e, func(m ast.Node) bool {
		if b, ok := m.(*ast.BinaryExpr); ok && b.Op == token.SUB {
			found = true
		}
		return true
	})
	return found
}

func isCmp(op token.Token) bool {
	return op == token.GEQ || op == token.GTR || op == token.LEQ || op == token.LSS
}

type leafFn func(e ast.Expr) (string, bool) // Coq variable name for a non-constant leaf

// tr translates an expression to Coq; ev evaluates it with uint64 semantics under env
type xl struct {
	leaf leafFn
	cs   map[string]uint64
	err  string
}

func (x *xl) constOf(e ast.Expr) (uint64, bool) {
	switch v := e.(type) {
	case *ast.BasicLit:
		if v.Kind == token.INT {
			n, err := strconv.ParseUint(strings.ReplaceAll(v.Value, "_", ""), 0, 64)
			return n, err == nil
		}
	case *ast.Ident:
		n, ok := x.cs[v.Name]
		return n, ok
	case *ast.SelectorExpr:
		if id, ok := v.X.(*ast.Ident); ok {
			n, ok := x.cs[id.Name+"."+v.Sel.Name]
			return n, ok
		}
	case *ast.CallExpr: // uint64(100)
		if len(v.Args) == 1 {
			return x.constOf(v.Args[0])
		}
	case *ast.ParenExpr:
		return x.constOf(v.X)
	}
	return 0, false
}

func (x *xl) tr(e ast.Expr) string {
	if n, ok := x.constOf(e); ok {
		return strconv.FormatUint(n, 10)
	}
	switch v := e.(type) {
	case *ast.ParenExpr:
		return x.tr(v.X)
	case *ast.BinaryExpr:
		a, b := x.tr(v.X), x.tr(v.Y)
		switch v.Op {
		case token.SUB:
			return fmt.Sprintf("(u64_sub %s %s)", a, b)
		case token.ADD:
			return fmt.Sprintf("((%s + %s) mod two64)", a, b)
		case token.GEQ:
			return fmt.Sprintf("(%s <=? %s)", b, a)
		case token.GTR:
			return fmt.Sprintf("(%s <? %s)", b, a)
		case token.LEQ:
			return fmt.Sprintf("(%s <=? %s)", a, b)
		case token.LSS:
			return fmt.Sprintf("(%s <? %s)", a, b)
		case token.LAND:
			return fmt.Sprintf("(%s && %s)", a, b)
		case token.LOR:
			return fmt.Sprintf("(%s || %s)", a, b)
		}
	}
	if name, ok := x.leaf(e); ok {
		return name
	}
	if x.err == "" {
		x.err = "cannot translate " + src(e)
	}
	return "?"
}

func (x *xl) ev(e ast.Expr, env map[string]uint64) uint64 {
	if n, ok := x.constOf(e); ok {
		return n
	}
	b2u := func(b bool) uint64 {
		if b {
			return 1
		}
		return 0
	}
	switch v := e.(type) {
	case *ast.ParenExpr:
		return x.ev(v.X, env)
	case *ast.BinaryExpr:
		a, b := x.ev(v.X, env), x.ev(v.Y, env)
		switch v.Op {
		case token.SUB:
			return a - b
		case token.ADD:
			return a + b
		case token.GEQ:
			return b2u(a >= b)
		case token.GTR:
			return b2u(a > b)
		case token.LEQ:
			return b2u(a <= b)
		case token.LSS:
			return b2u(a < b)
		case token.LAND:
			return b2u(a != 0 && b != 0)
		case token.LOR:
			return b2u(a != 0 || b != 0)
		}
	}
	if name, ok := x.leaf(e); ok {
		return env[name]
	}
	return 0
}

func selField(e ast.Expr) string {
	if s, ok := e.(*ast.SelectorExpr); ok {
		return s.Sel.Name
	}
	return ""
}

type probe struct {
	kind string
	a, b uint64
	res  int
}

func readProbes(path string) []probe {
	var ps []probe
	f, err := os.Open(path)
	if err != nil {
		return nil
	}
	defer f.Close()
	sc := bufio.NewScanner(f)
	for sc.Scan() {
		fl := strings.Fields(sc.Text())
		if len(fl) == 4 && (fl[0] == "pub" || fl[0] == "fetch") {
			a, _ := strconv.ParseUint(fl[1], 10, 64)
			b, _ := strconv.ParseUint(fl[2], 10, 64)
			r, _ := strconv.Atoi(fl[3])
			ps = append(ps, probe{fl[0], a, b, r})
		}
	}
	return ps
}

func main() {
	if len(os.Args) < 2 {
		fmt.Println("usage: main <repo> [<probe file>]")
		os.Exit(2)
	}
	repo := os.Args[1]
	var probes []probe
	if len(os.Args) > 2 {
		probes = readProbes(os.Args[2])
	}
	tableFiles := parseDir(filepath.Join(repo, "dv/table"))
	dvFiles := parseDir(filepath.Join(repo, "dv/dv"))
	cfgFiles := parseDir(filepath.Join(repo, "dv/config"))
	csTable, csDv := map[string]uint64{}, map[string]uint64{}
	consts(cfgFiles, "config.", csTable)
	consts(cfgFiles, "config.", csDv)
	consts(tableFiles, "", csTable)
	consts(tableFiles, "table.", csDv)
	consts(dvFiles, "", csDv)

	// ---- publisher ----
	func() {
		var cond ast.Expr
		var seqVar string
		n := 0
		for _, f := range tableFiles {
			for _, d := range f.Decls {
				fd, ok := d.(*ast.FuncDecl)
				if !ok || fd.Body == nil || !callsMethod(fd.Body, "IncrSeqNo") {
					continue
				}
				ast.Inspect(fd.Body, func(m ast.Node) bool {
					switch v := m.(type) {
					case *ast.AssignStmt:
						if len(v.Lhs) == 1 && len(v.Rhs) == 1 && callsMethod(v.Rhs[0], "IncrSeqNo") {
							seqVar = src(v.Lhs[0])
						}
					case *ast.ValueSpec:
						if len(v.Names) == 1 && len(v.Values) == 1 && callsMethod(v.Values[0], "IncrSeqNo") {
							seqVar = v.Names[0].Name
						}
					case *ast.IfStmt:
						if b, ok := v.Cond.(*ast.BinaryExpr); ok && v.Else == nil && v.Init == nil && isCmp(b.Op) && hasSub(b) {
							cond = v.Cond
							n++
						}
					}
					return true
				})
			}
		}
		if cond == nil || n != 1 || seqVar == "" {
			fmt.Printf("pub_fail the snapshot test was not located structurally (candidates: %d, sequence variable %q)\n", n, seqVar)
			return
		}
		other := ""
		x := &xl{cs: csTable}
		x.leaf = func(e ast.Expr) (string, bool) {
			s := src(e)
			if s == seqVar || selField(e) == "Latest" || selField(e) == "Known" {
				return "seq", true
			}
			switch e.(type) {
			case *ast.Ident, *ast.SelectorExpr:
				if other == "" || other == s {
					other = s
					return "snapshotAt", true
				}
			}
			return "", false
		}
		coq := x.tr(cond)
		if x.err != "" {
			fmt.Printf("pub_fail %s\n", x.err)
			return
		}
		fmt.Printf("pub_src %s\n", src(cond))
		fmt.Printf("pub_coq %s\n", coq)
		if probes != nil {
			bad, tot := 0, 0
			for _, p := range probes {
				if p.kind != "pub" || p.res < 0 {
					continue
				}
				tot++
				if int(x.ev(cond, map[string]uint64{"snapshotAt": p.a, "seq": p.b})) != p.res {
					bad++
				}
			}
			if bad == 0 {
				fmt.Printf("pub_probe agree %d\n", tot)
			} else {
				fmt.Printf("pub_probe disagree %d\n", bad)
			}
		}
	}()

	// ---- fetcher ----
	func() {
		var cond *ast.BinaryExpr
		n := 0
		for _, f := range dvFiles {
			ast.Inspect(f, func(m ast.Node) bool {
				b, ok := m.(*ast.BinaryExpr)
				if !ok || !isCmp(b.Op) {
					return true
				}
				var fields []string
				ast.Inspect(b, func(k ast.Node) bool {
					if s, ok := k.(*ast.BinaryExpr); ok && s.Op == token.SUB {
						fields = append(fields, selField(s.X), selField(s.Y))
					}
					return true
				})
				got := strings.Join(fields, ",")
				if got == "Latest,Known" || got == "Known,Latest" {
					cond = b
					n++
					return false
				}
				return true
			})
		}
		if cond == nil || n != 1 {
			fmt.Printf("fetch_fail the fetch test was not located structurally (candidates: %d)\n", n)
			return
		}
		x := &xl{cs: csDv}
		x.leaf = func(e ast.Expr) (string, bool) {
			switch selField(e) {
			case "Latest":
				return "latest", true
			case "Known":
				return "known", true
			}
			return "", false
		}
		coq := x.tr(cond)
		if x.err != "" {
			fmt.Printf("fetch_fail %s\n", x.err)
			return
		}
		fmt.Printf("fetch_src %s\n", src(cond))
		fmt.Printf("fetch_coq %s\n", coq)
		// the integer of the test: the operand that is a constant
		for _, side := range []ast.Expr{cond.X, cond.Y} {
			if v, ok := x.constOf(side); ok {
				fmt.Printf("fetch_lit %d\n", v)
			}
		}
		fmt.Printf("fetch_op %s\n", cond.Op.String())
		if probes != nil {
			bad, tot := 0, 0
			for _, p := range probes {
				if p.kind != "fetch" || p.res < 0 {
					continue
				}
				tot++
				if int(x.ev(cond, map[string]uint64{"latest": p.a, "known": p.b})) != p.res {
					bad++
				}
			}
			if bad == 0 {
				fmt.Printf("fetch_probe agree %d\n", tot)
			} else {
				fmt.Printf("fetch_probe disagree %d\n", bad)
			}
		}
	}()
}
