// lockfacts — translator for C16: extracts the lock discipline of the shared tables from the Go source
// (go/ast only, no type information, conservative) and prints coq/Tables/GenLockFacts.v.
//
//	usage: lockfacts <repo root>
//
// Tables: FibStrategyTree (0), FibStrategyHashTable (1), RibTable (2) in fw/table; face.Table (3) in fw/face.
// For every exported method of a table type it reports
//   - bracket: the body starts with  recv.<mutex>.Lock()/RLock()  followed by  defer recv.<mutex>.Unlock()/RUnlock()
//   - reads / writes: the body, or a same-package function it (transitively) calls, reads / writes memory reachable
//     from the receiver (taint analysis over local variables; fields of type sync.* / atomic.* synchronise themselves;
//     writes through locals that only ever hold fresh allocations are not table writes)
//   - calls: API methods of OTHER tables called from the body (FibStrategyTable.X, table.Rib.X) -> lock order
//   - alias: the result may alias table memory that some function of the package modifies in place
//     (a slice/map field that is index-assigned or copied into, or records of a type whose fields are assigned through
//     a non-fresh reference)
//
// Anything the analysis cannot classify is reported on the unsafe side (write, alias).
package main

import (
	"fmt"
	"go/ast"
	"go/parser"
	"go/token"
	"os"
	"path/filepath"
	"sort"
	"strings"
)

type structInfo struct {
	fields map[string]string // field -> type text
	embeds []string
}

type funcInfo struct {
	key         string
	recvType    string
	recvName    string
	decl        *ast.FuncDecl
	reads       bool
	writes      bool
	callees     map[string]bool // same-package functions called on / with table memory: their reads and writes count
	calleesX    map[string]bool // every same-package function called: only their calls into other tables count
	ext         map[string]bool // "Type.Method" of another table
	alias       map[string]bool // fields (f or f[]) the result may alias
	retCalls    []retCall       // same-package functions whose result flows into a returned value, with the call's arguments
	li          *localInfo
	params      []string
	splitAtomic bool // Load() and Add()/Store()/Swap() on the same atomic field: a read-modify-write that is not atomic
}

type retCall struct {
	callee string
	args   []ast.Expr
}

type pkgInfo struct {
	fset       *token.FileSet
	structs    map[string]*structInfo
	funcs      map[string]*funcInfo // key: Recv.Name or Name
	byName     map[string][]*funcInfo
	inplace    map[string]bool // fields modified in place
	takers     map[string]bool // method key -> takes its receiver's lock
	takerNames map[string]bool // names of such methods
	mutRec     map[string]bool // "Type.field" (or "?.field" when the type is unknown) assigned through non-fresh references
}

func typeText(e ast.Expr) string {
	switch t := e.(type) {
	case *ast.Ident:
		return t.Name
	case *ast.StarExpr:
		return "*" + typeText(t.X)
	case *ast.SelectorExpr:
		return typeText(t.X) + "." + t.Sel.Name
	case *ast.ArrayType:
		return "[]" + typeText(t.Elt)
	case *ast.MapType:
		return "map[" + typeText(t.Key) + "]" + typeText(t.Value)
	case *ast.ParenExpr:
		return typeText(t.X)
	}
	return "?"
}

func isSyncType(t string) bool {
	return strings.HasPrefix(t, "sync.") || strings.HasPrefix(t, "atomic.")
}

func loadPkg(dir string) *pkgInfo {
	p := &pkgInfo{fset: token.NewFileSet(), structs: map[string]*structInfo{}, funcs: map[string]*funcInfo{},
		byName: map[string][]*funcInfo{}, inplace: map[string]bool{}, mutRec: map[string]bool{}}
	matches, _ := filepath.Glob(filepath.Join(dir, "*.go"))
	sort.Strings(matches)
	for _, path := range matches {
		if strings.HasSuffix(path, "_test.go") {
			continue
		}
		src, err := os.ReadFile(path)
		if err != nil {
			continue
		}
		if strings.HasPrefix(string(src), "//go:build verif") {
			continue // verification hooks are not part of the program
		}
		f, err := parser.ParseFile(p.fset, path, src, 0)
		if err != nil {
			fmt.Fprintln(os.Stderr, "parse error:", err)
			os.Exit(2)
		}
		for _, d := range f.Decls {
			switch d := d.(type) {
			case *ast.GenDecl:
				for _, s := range d.Specs {
					ts, ok := s.(*ast.TypeSpec)
					if !ok {
						continue
					}
					st, ok := ts.Type.(*ast.StructType)
					if !ok {
						continue
					}
					si := &structInfo{fields: map[string]string{}}
					for _, fl := range st.Fields.List {
						tt := typeText(fl.Type)
						if len(fl.Names) == 0 {
							si.embeds = append(si.embeds, strings.TrimPrefix(tt, "*"))
						}
						for _, n := range fl.Names {
							si.fields[n.Name] = tt
						}
					}
					p.structs[ts.Name.Name] = si
				}
			case *ast.FuncDecl:
				fi := &funcInfo{decl: d, callees: map[string]bool{}, calleesX: map[string]bool{}, ext: map[string]bool{}, alias: map[string]bool{}}
				fi.key = d.Name.Name
				if d.Recv != nil && len(d.Recv.List) == 1 {
					fi.recvType = strings.TrimPrefix(typeText(d.Recv.List[0].Type), "*")
					if len(d.Recv.List[0].Names) == 1 {
						fi.recvName = d.Recv.List[0].Names[0].Name
					}
					fi.key = fi.recvType + "." + d.Name.Name
				}
				if d.Type.Params != nil {
					for _, fl := range d.Type.Params.List {
						for _, n := range fl.Names {
							fi.params = append(fi.params, n.Name)
						}
					}
				}
				if d.Body != nil {
					p.funcs[fi.key] = fi
					p.byName[d.Name.Name] = append(p.byName[d.Name.Name], fi)
				}
			}
		}
	}
	return p
}

// fieldType looks a field name up in every struct of the package (no type information: by name)
func (p *pkgInfo) fieldTypes(name string) []string {
	var out []string
	for _, s := range p.structs {
		if t, ok := s.fields[name]; ok {
			out = append(out, t)
		}
	}
	return out
}

func (p *pkgInfo) isSyncField(name string) bool {
	ts := p.fieldTypes(name)
	if len(ts) == 0 {
		return false
	}
	for _, t := range ts {
		if !isSyncType(t) {
			return false
		}
	}
	return true
}

// root unwraps an access path: the identifier it starts from, the field names on the way, whether it passes
// through a self-synchronising (sync.*/atomic.*) field, and whether it contains any selector/index/deref step.
func (p *pkgInfo) root(e ast.Expr) (id string, fields []string, viaSync bool, steps int) {
	for {
		switch t := e.(type) {
		case *ast.Ident:
			return t.Name, fields, viaSync, steps
		case *ast.SelectorExpr:
			fields = append(fields, t.Sel.Name)
			if p.isSyncField(t.Sel.Name) {
				viaSync = true
			}
			steps++
			e = t.X
		case *ast.IndexExpr:
			steps++
			e = t.X
		case *ast.SliceExpr:
			e = t.X
		case *ast.StarExpr:
			steps++
			e = t.X
		case *ast.ParenExpr:
			e = t.X
		case *ast.TypeAssertExpr:
			e = t.X
		case *ast.UnaryExpr:
			e = t.X
		case *ast.CallExpr:
			if s, ok := t.Fun.(*ast.SelectorExpr); ok {
				// method call: the result is derived from the receiver, unless the receiver is a sync field
				if p.isSyncField(s.Sel.Name) || p.takerNames[s.Sel.Name] {
					viaSync = true // what a guarded method returns is judged by that method's alias analysis
				}
				e = s.X
				if inner, ok2 := s.X.(*ast.SelectorExpr); ok2 && p.isSyncField(inner.Sel.Name) {
					viaSync = true
				}
				continue
			}
			return "", fields, viaSync, steps
		default:
			return "", fields, viaSync, steps
		}
	}
}

// recordTypes guesses the struct type(s) a local identifier points to, from the fields it was assigned from or
// ranges over (no type information: by the declared types of those fields)
func (p *pkgInfo) recordTypes(li *localInfo, id string, recv *funcInfo) []string {
	var out []string
	strip := func(t string) string {
		for {
			switch {
			case strings.HasPrefix(t, "[]"):
				t = t[2:]
			case strings.HasPrefix(t, "*"):
				t = t[1:]
			case strings.HasPrefix(t, "map["):
				if i := strings.Index(t, "]"); i >= 0 {
					t = t[i+1:]
				} else {
					return t
				}
			default:
				return t
			}
		}
	}
	if recv != nil && id == recv.recvName {
		return []string{recv.recvType}
	}
	for _, es := range [][]ast.Expr{li.rhs[id], li.elemsOf[id]} {
		for _, e := range es {
			_, fields, _, _ := p.root(e)
			if len(fields) == 0 {
				if r, ok := e.(*ast.Ident); ok && recv != nil && r.Name == recv.recvName {
					out = append(out, recv.recvType)
				}
				continue
			}
			for _, t := range p.fieldTypes(fields[0]) {
				out = append(out, strip(t))
			}
		}
	}
	return out
}

func isAlloc(e ast.Expr) bool {
	switch t := e.(type) {
	case *ast.BasicLit:
		return true
	case *ast.CompositeLit:
		return true
	case *ast.UnaryExpr:
		if t.Op == token.AND {
			_, ok := t.X.(*ast.CompositeLit)
			return ok
		}
	case *ast.CallExpr:
		if id, ok := t.Fun.(*ast.Ident); ok && (id.Name == "make" || id.Name == "new") {
			return true
		}
		if s, ok := t.Fun.(*ast.SelectorExpr); ok && s.Sel.Name == "Clone" {
			return true
		}
	case *ast.Ident:
		return t.Name == "nil"
	}
	return false
}

type localInfo struct {
	rhs     map[string][]ast.Expr // identifier -> expressions assigned to it
	elemsOf map[string][]ast.Expr // identifier -> expressions it ranges over / is copied from (element aliasing)
	tainted map[string]bool
}

func (p *pkgInfo) locals(fi *funcInfo) *localInfo {
	li := &localInfo{rhs: map[string][]ast.Expr{}, elemsOf: map[string][]ast.Expr{}, tainted: map[string]bool{}}
	if fi.recvName != "" {
		li.tainted[fi.recvName] = true
	}
	ast.Inspect(fi.decl.Body, func(n ast.Node) bool {
		switch s := n.(type) {
		case *ast.AssignStmt:
			for i, l := range s.Lhs {
				id, ok := l.(*ast.Ident)
				if !ok || id.Name == "_" {
					continue
				}
				if len(s.Rhs) == len(s.Lhs) {
					li.rhs[id.Name] = append(li.rhs[id.Name], s.Rhs[i])
				} else if len(s.Rhs) == 1 {
					li.rhs[id.Name] = append(li.rhs[id.Name], s.Rhs[0])
				}
			}
		case *ast.ValueSpec:
			for i, id := range s.Names {
				if i < len(s.Values) {
					li.rhs[id.Name] = append(li.rhs[id.Name], s.Values[i])
				}
			}
		case *ast.RangeStmt:
			for _, v := range []ast.Expr{s.Key, s.Value} {
				if id, ok := v.(*ast.Ident); ok && id.Name != "_" {
					li.elemsOf[id.Name] = append(li.elemsOf[id.Name], s.X)
				}
			}
		case *ast.CallExpr:
			if id, ok := s.Fun.(*ast.Ident); ok && id.Name == "copy" && len(s.Args) == 2 {
				if d, ok := s.Args[0].(*ast.Ident); ok {
					li.elemsOf[d.Name] = append(li.elemsOf[d.Name], s.Args[1])
				}
			}
		}
		return true
	})
	// taint fixpoint: a local is tainted if it is assigned from / ranges over something rooted at a tainted identifier
	// (not through a self-synchronising field), or from append(tainted, ...)
	for changed := true; changed; {
		changed = false
		mark := func(name string, es []ast.Expr) {
			if li.tainted[name] {
				return
			}
			for _, e := range es {
				if p.exprTainted(li, e) {
					li.tainted[name] = true
					changed = true
					return
				}
			}
		}
		for name, es := range li.rhs {
			mark(name, es)
		}
		ast.Inspect(fi.decl.Body, func(n ast.Node) bool {
			c, ok := n.(*ast.CallExpr)
			if !ok {
				return true
			}
			sel, ok := c.Fun.(*ast.SelectorExpr)
			if !ok {
				return true
			}
			id, _, viaSync, _ := p.root(sel.X)
			if id == "" || viaSync || li.tainted[id] {
				return true
			}
			if _, isLocal := li.rhs[id]; !isLocal {
				return true
			}
			for _, a := range c.Args {
				if p.exprTainted(li, a) {
					li.tainted[id] = true
					changed = true
				}
			}
			return true
		})
		for name, es := range li.elemsOf {
			// copy() into a fresh slice copies the elements: the slice itself stays untainted, only ranges taint
			var ranged []ast.Expr
			for _, e := range es {
				ranged = append(ranged, e)
			}
			if _, isRange := li.rhs[name]; !isRange {
				mark(name, ranged)
			}
		}
	}
	return li
}

func (p *pkgInfo) exprTainted(li *localInfo, e ast.Expr) bool {
	if c, ok := e.(*ast.CallExpr); ok {
		if id, ok := c.Fun.(*ast.Ident); ok {
			if id.Name == "append" && len(c.Args) > 0 {
				return p.exprTainted(li, c.Args[0])
			}
			if id.Name == "make" || id.Name == "new" || id.Name == "len" || id.Name == "min" || id.Name == "max" {
				return false
			}
		}
	}
	id, _, viaSync, _ := p.root(e)
	return id != "" && li.tainted[id] && !viaSync
}

func (li *localInfo) fresh(name string) bool {
	if li.tainted[name] {
		return false
	}
	es := li.rhs[name]
	if len(es) == 0 {
		return false
	}
	for _, e := range es {
		if !isAlloc(e) {
			return false
		}
	}
	return true
}

// analyse computes the direct properties of one function
func (p *pkgInfo) analyse(fi *funcInfo, apiTables map[string]bool) {
	li := p.locals(fi)
	fi.li = li
	callFuns := map[ast.Expr]bool{}
	ast.Inspect(fi.decl.Body, func(n ast.Node) bool {
		if c, ok := n.(*ast.CallExpr); ok {
			callFuns[c.Fun] = true
		}
		return true
	})
	write := func(e ast.Expr) {
		id, fields, viaSync, steps := p.root(e)
		if id == "" || viaSync {
			return
		}
		if li.fresh(id) {
			return
		}
		if steps == 0 && !li.tainted[id] {
			return // plain local / global identifier
		}
		if li.tainted[id] || steps > 0 {
			if li.tainted[id] {
				fi.writes = true
			}
			// in-place modification bookkeeping (package wide)
			if len(fields) > 0 {
				switch e.(type) {
				case *ast.IndexExpr, *ast.SliceExpr:
					p.inplace[fields[0]] = true
				case *ast.SelectorExpr:
					ts := p.recordTypes(li, id, fi)
					if len(fields) > 1 || len(ts) == 0 {
						// deeper path or unknown type: every struct with the field next to the written one
						if len(fields) > 1 {
							for _, t := range p.fieldTypes(fields[1]) {
								ts = append(ts, strings.TrimLeft(strings.TrimPrefix(strings.TrimPrefix(t, "[]"), "*"), "*"))
							}
						}
						if len(ts) == 0 {
							p.mutRec["?."+fields[0]] = true
						}
					}
					for _, t := range ts {
						p.mutRec[t+"."+fields[0]] = true
					}
				}
			}
		}
	}
	ast.Inspect(fi.decl.Body, func(n ast.Node) bool {
		switch s := n.(type) {
		case *ast.AssignStmt:
			for _, l := range s.Lhs {
				if _, ok := l.(*ast.Ident); !ok {
					write(l)
				}
			}
		case *ast.IncDecStmt:
			if _, ok := s.X.(*ast.Ident); !ok {
				write(s.X)
			}
		case *ast.SelectorExpr, *ast.IndexExpr:
			if sel, isSel := s.(*ast.SelectorExpr); isSel && callFuns[sel] && len(p.byName[sel.Sel.Name]) > 0 {
				return true // a method call, handled as a call
			}
			id, _, viaSync, _ := p.root(s.(ast.Expr))
			if id != "" && li.tainted[id] && !viaSync {
				fi.reads = true
			}
		case *ast.CallExpr:
			switch f := s.Fun.(type) {
			case *ast.Ident:
				switch f.Name {
				case "delete":
					if len(s.Args) > 0 {
						id, fields, viaSync, _ := p.root(s.Args[0])
						if id != "" && !viaSync && !li.fresh(id) && (li.tainted[id] || len(fields) > 0) {
							if li.tainted[id] {
								fi.writes = true
							}
						}
					}
				case "copy":
					if len(s.Args) == 2 {
						id, fields, viaSync, _ := p.root(s.Args[0])
						if id != "" && !viaSync && !li.fresh(id) && li.tainted[id] {
							fi.writes = true
							if len(fields) > 0 {
								p.inplace[fields[0]] = true
							}
						}
					}
				default:
					if _, ok := p.funcs[f.Name]; ok {
						fi.calleesX[f.Name] = true
						for _, a := range s.Args {
							if p.exprTainted(li, a) {
								fi.callees[f.Name] = true
							}
						}
					}
				}
			case *ast.SelectorExpr:
				// calls on the tables' package-level handles: API of another table
				switch x := f.X.(type) {
				case *ast.Ident:
					if x.Name == "FibStrategyTable" {
						fi.ext["FibStrategyTree."+f.Sel.Name] = true
						fi.ext["FibStrategyHashTable."+f.Sel.Name] = true
						return true
					}
					if x.Name == "Rib" {
						fi.ext["RibTable."+f.Sel.Name] = true
						return true
					}
				case *ast.SelectorExpr:
					if xi, ok := x.X.(*ast.Ident); ok && xi.Name == "table" && x.Sel.Name == "Rib" {
						fi.ext["RibTable."+f.Sel.Name] = true
						return true
					}
					if xi, ok := x.X.(*ast.Ident); ok && xi.Name == "table" && x.Sel.Name == "FibStrategyTable" {
						fi.ext["FibStrategyTree."+f.Sel.Name] = true
						fi.ext["FibStrategyHashTable."+f.Sel.Name] = true
						return true
					}
				}
				// the RIB calls its registered readvertisers (interface RibReadvertise; the one implementation is
				// mgmt.NlsrReadvertiser) while holding the RIB mutex
				if (f.Sel.Name == "Announce" || f.Sel.Name == "Withdraw") && len(p.byName[f.Sel.Name]) == 0 {
					fi.ext["NlsrReadvertiser."+f.Sel.Name] = true
					return true
				}
				// method call: every same-package method of that name (no type information), unless on a sync field
				if _, _, viaSync, _ := p.root(f.X); viaSync || p.isSyncField(f.Sel.Name) {
					return true
				}
				if sel, ok := f.X.(*ast.SelectorExpr); ok && p.isSyncField(sel.Sel.Name) {
					return true
				}
				onTable := p.exprTainted(li, f.X)
				for _, a := range s.Args {
					if p.exprTainted(li, a) {
						onTable = true
					}
				}
				for _, g := range p.byName[f.Sel.Name] {
					if g.recvType != "" {
						fi.calleesX[g.key] = true
						if onTable {
							fi.callees[g.key] = true
						}
					}
				}
			}
		}
		return true
	})
	// a read-modify-write of a self-synchronising (atomic) field split over several calls is not atomic:
	// Load()/CompareAndSwap-free update sequences such as  v := x.f.Load(); x.f.Add(1)  or  x.f.Store(x.f.Load()+1)
	atomicOps := map[string]map[string]bool{}
	ast.Inspect(fi.decl.Body, func(n ast.Node) bool {
		c, ok := n.(*ast.CallExpr)
		if !ok {
			return true
		}
		sel, ok := c.Fun.(*ast.SelectorExpr)
		if !ok {
			return true
		}
		fld, ok := sel.X.(*ast.SelectorExpr)
		if !ok {
			return true
		}
		isAtomic := false
		for _, t := range p.fieldTypes(fld.Sel.Name) {
			if strings.HasPrefix(t, "atomic.") {
				isAtomic = true
			}
		}
		if id, _, _, _ := p.root(fld.X); isAtomic && id != "" && li.tainted[id] {
			if atomicOps[fld.Sel.Name] == nil {
				atomicOps[fld.Sel.Name] = map[string]bool{}
			}
			atomicOps[fld.Sel.Name][sel.Sel.Name] = true
		}
		return true
	})
	for _, ops := range atomicOps {
		if ops["Load"] && (ops["Add"] || ops["Store"] || ops["Swap"]) {
			fi.reads, fi.writes = true, true // an unsynchronised update of table state
			fi.splitAtomic = true
		}
	}
	// what the results may alias
	ast.Inspect(fi.decl.Body, func(n ast.Node) bool {
		if _, ok := n.(*ast.FuncLit); ok {
			return false
		}
		if r, ok := n.(*ast.ReturnStmt); ok {
			for _, e := range r.Results {
				p.aliasInto(fi, e, 0)
			}
		}
		return true
	})
}

func (fi *funcInfo) paramIndex(name string) int {
	for i, n := range fi.params {
		if n == name {
			return i
		}
	}
	return -1
}

// aliasInto adds to fi.alias what the value of e may alias: "f" (the slice/map/pointer held in field f of table
// memory), "f[]" (the elements of f), and, for values derived from the function's own parameters, the placeholders
// "$p<i>", "$p<i>[]", "$p<i>.f", "$p<i>.f[]" that callers resolve against their arguments.
func (p *pkgInfo) aliasInto(fi *funcInfo, e ast.Expr, depth int) {
	li := fi.li
	if e == nil || depth > 6 {
		return
	}
	switch t := e.(type) {
	case *ast.Ident:
		if t.Name == "nil" {
			return
		}
		if i := fi.paramIndex(t.Name); i >= 0 && !li.tainted[t.Name] {
			fi.alias[fmt.Sprintf("$p%d", i)] = true
		}
		for _, r := range li.rhs[t.Name] {
			p.aliasInto(fi, r, depth+1)
		}
		for _, src := range li.elemsOf[t.Name] {
			id, fields, viaSync, _ := p.root(src)
			if viaSync {
				continue
			}
			if p.exprTainted(li, src) && len(fields) > 0 {
				fi.alias[fields[0]+"[]"] = true
			} else if i := fi.paramIndex(id); i >= 0 {
				if len(fields) > 0 {
					fi.alias[fmt.Sprintf("$p%d.%s[]", i, fields[0])] = true
				} else {
					fi.alias[fmt.Sprintf("$p%d[]", i)] = true
				}
			}
		}
	case *ast.SelectorExpr, *ast.IndexExpr, *ast.SliceExpr:
		id, fields, viaSync, _ := p.root(e)
		if id == "" || viaSync || len(fields) == 0 {
			if id != "" && !viaSync && len(fields) == 0 {
				// indexing / slicing a plain identifier
				if _, isIdx := e.(*ast.IndexExpr); !isIdx {
					p.aliasInto(fi, &ast.Ident{Name: id}, depth+1)
				}
			}
			return
		}
		_, isIdx := e.(*ast.IndexExpr)
		suffix := ""
		if isIdx {
			suffix = "[]"
		}
		if li.tainted[id] {
			fi.alias[fields[0]+suffix] = true
		} else if i := fi.paramIndex(id); i >= 0 {
			fi.alias[fmt.Sprintf("$p%d.%s%s", i, fields[0], suffix)] = true
		}
	case *ast.UnaryExpr:
		p.aliasInto(fi, t.X, depth+1)
	case *ast.ParenExpr:
		p.aliasInto(fi, t.X, depth+1)
	case *ast.TypeAssertExpr:
		p.aliasInto(fi, t.X, depth+1)
	case *ast.CompositeLit:
		for _, el := range t.Elts {
			if kv, ok := el.(*ast.KeyValueExpr); ok {
				p.aliasInto(fi, kv.Value, depth+1)
			} else {
				p.aliasInto(fi, el, depth+1)
			}
		}
	case *ast.CallExpr:
		if id, ok := t.Fun.(*ast.Ident); ok {
			switch id.Name {
			case "append":
				for _, a := range t.Args {
					p.aliasInto(fi, a, depth+1)
				}
			case "make", "new", "len", "cap", "min", "max":
			default:
				if _, ok := p.funcs[id.Name]; ok {
					fi.retCalls = append(fi.retCalls, retCall{id.Name, t.Args})
				}
			}
			return
		}
		if s, ok := t.Fun.(*ast.SelectorExpr); ok {
			if s.Sel.Name == "Clone" {
				return
			}
			for _, g := range p.byName[s.Sel.Name] {
				fi.retCalls = append(fi.retCalls, retCall{g.key, t.Args})
			}
		}
	}
}

// resolveRetCalls maps the alias summary of the called functions onto the call's arguments; reports a change
func (p *pkgInfo) resolveRetCalls(fi *funcInfo) bool {
	before := len(fi.alias)
	for _, rc := range fi.retCalls {
		g := p.funcs[rc.callee]
		if g == nil || g == fi {
			continue
		}
		for a := range g.alias {
			if !strings.HasPrefix(a, "$p") {
				fi.alias[a] = true
				continue
			}
			rest := a[2:]
			n := 0
			for n < len(rest) && rest[n] >= '0' && rest[n] <= '9' {
				n++
			}
			idx := 0
			fmt.Sscanf(rest[:n], "%d", &idx)
			tail := rest[n:]
			if idx >= len(rc.args) {
				continue
			}
			arg := rc.args[idx]
			id, fields, viaSync, _ := p.root(arg)
			switch {
			case tail == "":
				p.aliasInto(fi, arg, 1)
			case tail == "[]":
				if !viaSync && p.exprTainted(fi.li, arg) && len(fields) > 0 {
					fi.alias[fields[0]+"[]"] = true
				} else if j := fi.paramIndex(id); j >= 0 && len(fields) == 0 {
					fi.alias[fmt.Sprintf("$p%d[]", j)] = true
				} else if _, isLocal := fi.li.rhs[id]; isLocal && len(fields) == 0 {
					// elements of a local: whatever the local's elements alias
					for _, src := range fi.li.elemsOf[id] {
						_, f2, vs, _ := p.root(src)
						if !vs && p.exprTainted(fi.li, src) && len(f2) > 0 {
							fi.alias[f2[0]+"[]"] = true
						}
					}
					for _, r := range fi.li.rhs[id] {
						_, f2, vs, _ := p.root(r)
						if !vs && p.exprTainted(fi.li, r) && len(f2) > 0 {
							fi.alias[f2[0]+"[]"] = true
						}
					}
				}
			default: // ".f" or ".f[]": a field of the object passed
				if !viaSync && (p.exprTainted(fi.li, arg) || fi.li.tainted[id]) {
					fi.alias[strings.TrimPrefix(tail, ".")] = true
				} else if j := fi.paramIndex(id); j >= 0 && len(fields) == 0 {
					fi.alias[fmt.Sprintf("$p%d%s", j, tail)] = true
				}
			}
		}
	}
	return len(fi.alias) != before
}

// touchesTable reports whether the node reads or writes table state: an access path rooted at the receiver or at a
// local derived from it (not through a self-synchronising field), a call on / with such a value into the package, or a
// call of another table's API.
func (p *pkgInfo) touchesTable(fi *funcInfo, n ast.Node) bool {
	li := fi.li
	found := false
	ast.Inspect(n, func(x ast.Node) bool {
		if found || x == nil {
			return false
		}
		switch t := x.(type) {
		case *ast.SelectorExpr, *ast.IndexExpr:
			id, fields, viaSync, _ := p.root(t.(ast.Expr))
			if id != "" && li.tainted[id] && !viaSync {
				// the mutex field itself is not table state
				if len(fields) > 0 && p.isSyncField(fields[len(fields)-1]) {
					return true
				}
				found = true
			}
			if id == "FibStrategyTable" || id == "Rib" {
				found = true
			}
		case *ast.Ident:
			if t.Name == "FibStrategyTable" {
				found = true
			}
		}
		return true
	})
	return found
}

// lockCall recognises  recv.<mutex>.<op>()  and returns the mutex field and the operation
func (p *pkgInfo) lockCall(fi *funcInfo, call *ast.CallExpr) (string, string) {
	sel, ok := call.Fun.(*ast.SelectorExpr)
	if !ok {
		return "", ""
	}
	mu, ok := sel.X.(*ast.SelectorExpr)
	if !ok {
		return "", ""
	}
	r, ok := mu.X.(*ast.Ident)
	if !ok || r.Name != fi.recvName {
		return "", ""
	}
	si := p.structs[fi.recvType]
	if si == nil || !isSyncType(si.fields[mu.Sel.Name]) {
		return "", ""
	}
	switch sel.Sel.Name {
	case "Lock", "RLock", "Unlock", "RUnlock":
		return mu.Sel.Name, sel.Sel.Name
	}
	return "", ""
}

func (p *pkgInfo) stmtLockCall(fi *funcInfo, s ast.Stmt) (mu, op string, deferred bool) {
	switch t := s.(type) {
	case *ast.ExprStmt:
		if c, ok := t.X.(*ast.CallExpr); ok {
			mu, op = p.lockCall(fi, c)
		}
	case *ast.DeferStmt:
		mu, op = p.lockCall(fi, t.Call)
		deferred = true
	}
	return
}

// bracket decides, by structure and not by statement position, whether every access of the method to table state is
// made under the receiver's mutex:
//   - top-level statements before the Lock()/RLock() must not touch table state (logging of the arguments, local
//     computations on parameters are fine);
//   - the lock is released either by a deferred Unlock()/RUnlock() stated before any later table access or return, or
//     explicitly: then every return after the Lock is immediately preceded by the Unlock in its block, nothing but a
//     return follows an Unlock in its block, returned expressions do not touch table state, and the body ends released.
//
// lockHelper recognises a method whose body is exactly
//
//	recv.<mutex>.Lock()      (or RLock)
//	return recv.<mutex>.Unlock   (or RUnlock; or a func literal that only calls it)
//
// i.e. "take the lock, hand back the function that releases it" (used as  defer x.h()() ).
func (p *pkgInfo) lockHelper(h *funcInfo) (mutex string, write bool, ok bool) {
	if h == nil || h.recvName == "" || len(h.decl.Body.List) != 2 {
		return "", false, false
	}
	mu, op, deferred := p.stmtLockCall(h, h.decl.Body.List[0])
	if mu == "" || deferred || (op != "Lock" && op != "RLock") {
		return "", false, false
	}
	want := map[string]string{"Lock": "Unlock", "RLock": "RUnlock"}[op]
	ret, isRet := h.decl.Body.List[1].(*ast.ReturnStmt)
	if !isRet || len(ret.Results) != 1 {
		return "", false, false
	}
	isUnlockValue := func(e ast.Expr) bool { // recv.<mutex>.Unlock as a method value
		sel, ok := e.(*ast.SelectorExpr)
		if !ok || sel.Sel.Name != want {
			return false
		}
		m, ok := sel.X.(*ast.SelectorExpr)
		if !ok || m.Sel.Name != mu {
			return false
		}
		r, ok := m.X.(*ast.Ident)
		return ok && r.Name == h.recvName
	}
	switch r := ret.Results[0].(type) {
	case *ast.SelectorExpr:
		if isUnlockValue(r) {
			return mu, op == "Lock", true
		}
	case *ast.FuncLit:
		if len(r.Body.List) == 1 {
			if es, ok := r.Body.List[0].(*ast.ExprStmt); ok {
				if c, ok := es.X.(*ast.CallExpr); ok && len(c.Args) == 0 && isUnlockValue(c.Fun) {
					return mu, op == "Lock", true
				}
			}
		}
	}
	return "", false, false
}

// helperCall: is e a call  recv.h()  of a lock helper on the method's own receiver?
func (p *pkgInfo) helperCall(fi *funcInfo, e ast.Expr) (mutex string, write bool, ok bool) {
	c, isCall := e.(*ast.CallExpr)
	if !isCall || len(c.Args) != 0 {
		return "", false, false
	}
	sel, isSel := c.Fun.(*ast.SelectorExpr)
	if !isSel {
		return "", false, false
	}
	r, isId := sel.X.(*ast.Ident)
	if !isId || r.Name != fi.recvName {
		return "", false, false
	}
	return p.lockHelper(p.funcs[fi.recvType+"."+sel.Sel.Name])
}

func main() {
	if len(os.Args) < 2 {
		fmt.Fprintln(os.Stderr, "usage: lockfacts <repo root>")
		os.Exit(2)
	}
	repo := os.Args[1]
	tp := loadPkg(filepath.Join(repo, "fw", "table"))
	fp := loadPkg(filepath.Join(repo, "fw", "face"))
	mp := loadPkg(filepath.Join(repo, "fw", "mgmt"))
	tableID := map[string]int{"FibStrategyTree": 0, "FibStrategyHashTable": 1, "RibTable": 2, "Table": 3, "NlsrReadvertiser": 4}
	pkgOf := map[string]*pkgInfo{"FibStrategyTree": tp, "FibStrategyHashTable": tp, "RibTable": tp, "Table": fp, "NlsrReadvertiser": mp}
	apiTables := map[string]bool{}
	for k := range tableID {
		apiTables[k] = true
	}
	type outFact struct {
		table                 int
		name                  string
		bracket               string
		reads, writes, alias  bool
		calls                 []string
		aliasDetail, mutexTxt string
		unclear               bool
		why                   []string
	}
	var facts []outFact
	mutexOf := map[int]string{}
	for _, pk := range []*pkgInfo{tp, fp, mp} {
		pk.computeTakers()
	}
	for _, pk := range []*pkgInfo{tp, fp, mp} {
		for _, fi := range pk.funcs {
			pk.analyse(fi, apiTables)
		}
		// transitive closure over same-package callees
		for changed := true; changed; {
			changed = false
			for _, fi := range pk.funcs {
				for c := range fi.callees {
					g := pk.funcs[c]
					if g == nil || g == fi || pk.lockTaker(g) {
						continue
					}
					if g.reads && !fi.reads {
						fi.reads, changed = true, true
					}
					if g.writes && !fi.writes {
						fi.writes, changed = true, true
					}
				}
				for c := range fi.calleesX {
					g := pk.funcs[c]
					if g == nil || g == fi {
						continue
					}
					for e := range g.ext {
						if !fi.ext[e] {
							fi.ext[e], changed = true, true
						}
					}
				}
				if pk.resolveRetCalls(fi) {
					changed = true
				}
			}
		}
	}
	// record types whose fields are assigned through non-fresh references
	mutableRecord := func(pk *pkgInfo, typ string) bool {
		si := pk.structs[typ]
		if si == nil {
			return true
		}
		for f := range si.fields {
			if pk.mutRec[typ+"."+f] || pk.mutRec["?."+f] {
				return true
			}
		}
		return false
	}
	dangerous := func(pk *pkgInfo, a string) bool {
		if strings.HasSuffix(a, "[]") {
			f := strings.TrimSuffix(a, "[]")
			for _, t := range pk.fieldTypes(f) {
				if strings.HasPrefix(t, "[]*") {
					if mutableRecord(pk, strings.TrimPrefix(t, "[]*")) {
						return true
					}
				} else if strings.HasPrefix(t, "map[") && strings.Contains(t, "]*") {
					if mutableRecord(pk, t[strings.Index(t, "]*")+2:]) {
						return true
					}
				}
			}
			return false
		}
		if len(pk.fieldTypes(a)) == 0 {
			return true // a reference obtained through something that is not a field of the package's structs (a container): unknown extent
		}
		return pk.inplace[a]
	}
	for _, pk := range []*pkgInfo{tp, fp, mp} {
		var keys []string
		for k := range pk.funcs {
			keys = append(keys, k)
		}
		sort.Strings(keys)
		for _, k := range keys {
			fi := pk.funcs[k]
			if fi.recvType == "" || !ast.IsExported(fi.decl.Name.Name) {
				continue
			}
			id, isTable := tableID[fi.recvType]
			if !isTable || pkgOf[fi.recvType] != pk {
				continue
			}
			// per-access analysis: every access of the method (and of the lock-expecting helpers it calls) to guarded state
			// must lie between an acquisition of the receiver's mutex in a sufficient mode and its release on every path
			g := pk.guard(fi)
			of := outFact{table: id, name: fi.key, bracket: "None"}
			switch g.status() {
			case "ok":
				of.reads, of.writes = g.rd, g.wr
				if g.rd || g.wr {
					of.bracket = fmt.Sprintf("(Some (%d, %v))", id, g.wmode)
				}
				if g.mutex != "" {
					mutexOf[id] = fi.recvType + "." + g.mutex
				}
			case "bad":
				// positively unguarded: reported as an access of the table outside any lock
				of.reads, of.writes = true, g.wr || fi.writes
				of.why = g.bad
			default:
				of.reads, of.writes = true, g.wr || fi.writes
				of.unclear = true
				of.why = g.unclear
			}
			for e := range fi.ext {
				of.calls = append(of.calls, e)
			}
			sort.Strings(of.calls)
			var al []string
			for a := range fi.alias {
				if strings.HasPrefix(a, "$p") {
					continue // memory handed in by the caller of the API method
				}
				if dangerous(pk, a) {
					of.alias = true
					al = append(al, a+"!")
				} else {
					al = append(al, a)
				}
			}
			sort.Strings(al)
			of.aliasDetail = strings.Join(al, " ")
			facts = append(facts, of)
		}
	}
	// lock order from the call edges between tables: rank = longest call path below the mutex
	known := map[string]int{}
	for _, f := range facts {
		known[f.name] = f.table
	}
	edges := map[int]map[int]bool{}
	for _, f := range facts {
		for _, c := range f.calls {
			if t, ok := known[c]; ok {
				if edges[f.table] == nil {
					edges[f.table] = map[int]bool{}
				}
				edges[f.table][t] = true
			}
		}
	}
	rank := map[int]int{}
	for iter := 0; iter < 8; iter++ {
		for a, bs := range edges {
			for b := range bs {
				if rank[b] < rank[a]+1 && rank[a]+1 <= 6 {
					rank[b] = rank[a] + 1
				}
			}
		}
	}
	maxRank := 0
	for _, r := range rank {
		if r > maxRank {
			maxRank = r
		}
	}

	var sb strings.Builder
	sb.WriteString("(* GENERATED by translators/tables/lockfacts from fw/table/*.go and fw/face/*.go -- do not edit.\n")
	sb.WriteString("   Tables: 0 FibStrategyTree, 1 FibStrategyHashTable, 2 RibTable, 3 face.Table, 4 mgmt.NlsrReadvertiser.  Mutex i guards table i:\n")
	for i := 0; i < 5; i++ {
		m := mutexOf[i]
		if m == "" {
			m = "(none: the table's fields are sync.Map / atomic values)"
		}
		fmt.Fprintf(&sb, "     mutex %d = %s, rank %d\n", i, m, rank[i])
	}
	var ip, mr []string
	for f := range tp.inplace {
		ip = append(ip, f)
	}
	for f := range tp.mutRec {
		mr = append(mr, f)
	}
	sort.Strings(ip)
	sort.Strings(mr)
	fmt.Fprintf(&sb, "   fields modified in place (fw/table): %s\n   record fields assigned through shared references (fw/table): %s *)\n",
		strings.Join(ip, " "), strings.Join(mr, " "))
	sb.WriteString("From Tables Require Import ModelLock.\nLocal Open Scope string_scope.\n\n")
	sb.WriteString("Definition gen_mu (t : nat) : nat := t.\n")
	sb.WriteString("Definition gen_rank (m : nat) : nat :=\n  match m with\n")
	for i := 0; i < 5; i++ {
		fmt.Fprintf(&sb, "  | %d => %d\n", i, rank[i])
	}
	fmt.Fprintf(&sb, "  | _ => 0\n  end.\nDefinition gen_rank_bound : nat := %d.\n\n", maxRank)
	sb.WriteString("Definition gen_facts : list fact := [\n")
	for i, f := range facts {
		var calls []string
		for _, c := range f.calls {
			calls = append(calls, "\""+c+"\"")
		}
		sep := ";"
		if i == len(facts)-1 {
			sep = ""
		}
		if f.unclear {
			fmt.Fprintf(&sb, "  (* UNCLASSIFIED %s: takes a lock in a way the translator does not follow *)\n", f.name)
		}
		for i, y := range f.why {
			if i < 3 {
				fmt.Fprintf(&sb, "  (* %s: %s *)\n", f.name, strings.ReplaceAll(strings.ReplaceAll(y, "(*", "( *"), "*)", "* )"))
			}
		}
		fmt.Fprintf(&sb, "  (* result may alias: %s *)\n  mkfact %d \"%s\" %s %v %v [%s] %v%s\n", f.aliasDetail, f.table, f.name, f.bracket, f.reads, f.writes,
			strings.Join(calls, "; "), f.alias, sep)
	}
	sb.WriteString("].\n")
	fmt.Print(sb.String())
}
