// guard.go — per-ACCESS lock analysis of a method (replaces the whole-body bracket recognition).
//
// An access to guarded state (memory reachable from the receiver, not through a self-synchronising field) is fine iff, on
// the path from the method entry, the receiver's mutex has been taken (Lock for writes, Lock or RLock for reads) and is
// released again on every path to the exit (explicit Unlock, or a deferred one).  Statements that touch no guarded state
// may sit anywhere.  Same-package callees are followed: a callee that takes the receiver's lock itself is "guarded" (calling
// it needs no lock, calling it while holding the same mutex is a self-deadlock); a callee that takes no lock but touches the
// state expects its caller to hold the lock and counts as an access of that kind at the call site.
//
// Verdicts:  ok (every access under an adequate lock, lock released on every path)
//
//	bad (an access positively outside the lock / a write under the read lock / a path that keeps the lock /
//	     a lock-taking method called with the lock held)
//	unclear (lock state differs between joining paths, lock operations in constructs not followed, ...)
package main

import (
	"fmt"
	"go/ast"
	"go/token"
)

type gstate struct {
	held     int // 0 none, 1 read, 2 write
	deferred bool
}

type guardResult struct {
	bad, unclear []string
	rd, wr       bool // accesses made (under the lock)
	mutex        string
	wmode        bool // some critical section is a write-lock section
	lockSeen     bool
}

func (r *guardResult) status() string {
	switch {
	case len(r.bad) > 0:
		return "bad"
	case len(r.unclear) > 0:
		return "unclear"
	}
	return "ok"
}

// lockTaker: the method takes a lock of its own receiver somewhere in its body (directly or through a lock helper)
func (p *pkgInfo) lockTaker(fi *funcInfo) bool {
	if fi == nil || fi.recvName == "" {
		return false
	}
	if v, ok := p.takers[fi.key]; ok {
		return v
	}
	found := false
	ast.Inspect(fi.decl.Body, func(n ast.Node) bool {
		c, ok := n.(*ast.CallExpr)
		if !ok || found {
			return !found
		}
		if mu, op := p.lockCall(fi, c); mu != "" && (op == "Lock" || op == "RLock") {
			found = true
		}
		if _, _, ok := p.helperCall(fi, c); ok {
			found = true
		}
		return !found
	})
	p.takers[fi.key] = found
	return found
}

// computeTakers fills the set of method NAMES that take their receiver's lock (used to stop taint at their results:
// what a guarded method returns is judged by the alias analysis of that method, not as table memory of the caller)
func (p *pkgInfo) computeTakers() {
	p.takers = map[string]bool{}
	p.takerNames = map[string]bool{}
	for _, fi := range p.funcs {
		if lh, _, ok := p.lockHelper(fi); ok && lh != "" {
			continue // the helper itself is not a guarded method
		}
		if p.lockTaker(fi) {
			p.takerNames[fi.decl.Name.Name] = true
		}
	}
}

type access struct {
	rd, wr    bool
	selfCalls []string
}

// accessOf classifies what evaluating the node does to guarded state (nested function literals are taken as executed in place)
func (p *pkgInfo) accessOf(fi *funcInfo, n ast.Node) access {
	var a access
	if n == nil {
		return a
	}
	li := fi.li
	taintedRoot := func(e ast.Expr) (bool, []string) {
		id, fields, viaSync, _ := p.root(e)
		if id == "" || viaSync || !li.tainted[id] {
			return false, fields
		}
		return true, fields
	}
	callFuns := map[ast.Expr]bool{}
	ast.Inspect(n, func(x ast.Node) bool {
		if c, ok := x.(*ast.CallExpr); ok {
			callFuns[c.Fun] = true
		}
		return true
	})
	writeTo := func(e ast.Expr) {
		if _, ok := e.(*ast.Ident); ok {
			return
		}
		id, _, viaSync, _ := p.root(e)
		if id == "" || viaSync || li.fresh(id) || !li.tainted[id] {
			return
		}
		a.wr = true
	}
	ast.Inspect(n, func(x ast.Node) bool {
		switch t := x.(type) {
		case *ast.AssignStmt:
			for _, l := range t.Lhs {
				writeTo(l)
			}
		case *ast.IncDecStmt:
			writeTo(t.X)
		case *ast.SelectorExpr:
			if callFuns[t] {
				if _, isMethod := p.funcs[fi.recvType+"."+t.Sel.Name]; isMethod || len(p.byName[t.Sel.Name]) > 0 {
					return true // a method call: judged as a call below; its receiver expression is visited on its own
				}
			}
			if ok, fields := taintedRoot(t); ok {
				if len(fields) > 0 && p.isSyncField(fields[len(fields)-1]) {
					return true
				}
				a.rd = true
			}
		case *ast.IndexExpr:
			if ok, _ := taintedRoot(t); ok {
				a.rd = true
			}
		case *ast.CallExpr:
			switch f := t.Fun.(type) {
			case *ast.Ident:
				switch f.Name {
				case "delete", "copy":
					if len(t.Args) > 0 {
						id, _, viaSync, _ := p.root(t.Args[0])
						if id != "" && !viaSync && !li.fresh(id) && li.tainted[id] {
							a.wr = true
						}
					}
				default:
					if g := p.funcs[f.Name]; g != nil {
						for _, arg := range t.Args {
							if p.exprTainted(li, arg) {
								a.rd = a.rd || g.reads
								a.wr = a.wr || g.writes
							}
						}
					}
				}
			case *ast.SelectorExpr:
				if mu, _ := p.lockCall(fi, t); mu != "" {
					return true
				}
				if _, _, viaSync, _ := p.root(f.X); viaSync || p.isSyncField(f.Sel.Name) {
					return true
				}
				onRecv := false
				if id, ok := f.X.(*ast.Ident); ok && id.Name == fi.recvName {
					onRecv = true
				}
				onTable := onRecv || p.exprTainted(li, f.X)
				for _, arg := range t.Args {
					if p.exprTainted(li, arg) {
						onTable = true
					}
				}
				if !onTable {
					return true
				}
				for _, g := range p.byName[f.Sel.Name] {
					if g.recvType == "" || g == fi {
						continue
					}
					if _, _, isHelper := p.lockHelper(g); isHelper {
						continue
					}
					if p.lockTaker(g) {
						if onRecv && g.recvType == fi.recvType {
							a.selfCalls = append(a.selfCalls, g.key)
						}
						continue
					}
					a.rd = a.rd || g.reads
					a.wr = a.wr || g.writes
				}
			}
		}
		return true
	})
	return a
}

func (p *pkgInfo) guard(fi *funcInfo) *guardResult {
	if fi.li == nil {
		fi.li = p.locals(fi)
	}
	res := &guardResult{}
	pos := func(n ast.Node) string { return p.fset.Position(n.Pos()).String() }
	unlockIdents := map[string]int{} // u := recv.h()  ->  mode of the lock u releases
	check := func(st gstate, n ast.Node) {
		a := p.accessOf(fi, n)
		if a.rd || a.wr {
			switch {
			case st.held == 0:
				res.bad = append(res.bad, fmt.Sprintf("%s: guarded state accessed without the lock", pos(n)))
			case a.wr && st.held == 1:
				res.bad = append(res.bad, fmt.Sprintf("%s: guarded state written under the read lock", pos(n)))
			}
			res.rd = res.rd || a.rd
			res.wr = res.wr || a.wr
		}
		if st.held > 0 {
			for _, c := range a.selfCalls {
				res.bad = append(res.bad, fmt.Sprintf("%s: %s takes the receiver's lock and is called with it held", pos(n), c))
			}
		}
	}
	containsLockOp := func(n ast.Node) bool {
		found := false
		ast.Inspect(n, func(x ast.Node) bool {
			if c, ok := x.(*ast.CallExpr); ok {
				if mu, _ := p.lockCall(fi, c); mu != "" {
					found = true
				}
				if _, _, ok := p.helperCall(fi, c); ok {
					found = true
				}
			}
			return !found
		})
		return found
	}
	take := func(st gstate, mu string, write bool, n ast.Node) gstate {
		if st.held != 0 {
			res.bad = append(res.bad, fmt.Sprintf("%s: lock taken while it is held", pos(n)))
		}
		if res.mutex != "" && res.mutex != mu {
			res.unclear = append(res.unclear, fmt.Sprintf("%s: a second mutex of the receiver", pos(n)))
		}
		res.mutex, res.lockSeen = mu, true
		if write {
			st.held, res.wmode = 2, true
		} else {
			st.held = 1
		}
		return st
	}
	merge := func(n ast.Node, outs []gstate, terms []bool) (gstate, bool) {
		var live []gstate
		for i, o := range outs {
			if !terms[i] {
				live = append(live, o)
			}
		}
		if len(live) == 0 {
			return gstate{}, true
		}
		for _, o := range live[1:] {
			if o != live[0] {
				res.unclear = append(res.unclear, fmt.Sprintf("%s: the lock is held on some paths and not on others after this statement", pos(n)))
				return live[0], false
			}
		}
		return live[0], false
	}
	var walk func(list []ast.Stmt, st gstate) (gstate, bool)
	var stmt func(s ast.Stmt, st gstate) (gstate, bool)
	stmt = func(s ast.Stmt, st gstate) (gstate, bool) {
		switch t := s.(type) {
		case nil:
			return st, false
		case *ast.ExprStmt:
			if c, ok := t.X.(*ast.CallExpr); ok {
				if mu, op := p.lockCall(fi, c); mu != "" {
					switch op {
					case "Lock":
						return take(st, mu, true, s), false
					case "RLock":
						return take(st, mu, false, s), false
					default: // Unlock / RUnlock
						if st.held == 0 {
							res.unclear = append(res.unclear, fmt.Sprintf("%s: unlock without a lock on this path", pos(s)))
						}
						if st.deferred {
							res.unclear = append(res.unclear, fmt.Sprintf("%s: explicit unlock although a deferred one is pending", pos(s)))
						}
						st.held = 0
						return st, false
					}
				}
				if p.closureToTaker(fi, c) {
					// recv.locked(func() { ... }): the closure presumably runs under the callee's lock -- not followed
					res.unclear = append(res.unclear, fmt.Sprintf("%s: a closure is handed to a method that takes the lock", pos(s)))
					res.rd, res.wr = true, true
					return st, false
				}
				if mu, w, ok := p.helperCall(fi, c); ok { // recv.h() with the returned unlock function dropped
					res.unclear = append(res.unclear, fmt.Sprintf("%s: lock helper %s called without keeping its unlock function", pos(s), mu))
					return take(st, mu, w, s), false
				}
			}
			check(st, s)
			return st, false
		case *ast.AssignStmt:
			if len(t.Lhs) == 1 && len(t.Rhs) == 1 {
				if mu, w, ok := p.helperCall(fi, t.Rhs[0]); ok {
					if id, isId := t.Lhs[0].(*ast.Ident); isId {
						mode := 1
						if w {
							mode = 2
						}
						unlockIdents[id.Name] = mode
						return take(st, mu, w, s), false
					}
				}
			}
			check(st, s)
			return st, false
		case *ast.DeferStmt:
			if mu, op := p.lockCall(fi, t.Call); mu != "" {
				if op == "Unlock" || op == "RUnlock" {
					if st.held == 0 {
						res.unclear = append(res.unclear, fmt.Sprintf("%s: deferred unlock without a lock", pos(s)))
					}
					st.deferred = true
					return st, false
				}
				res.unclear = append(res.unclear, fmt.Sprintf("%s: deferred lock", pos(s)))
				return st, false
			}
			if len(t.Call.Args) == 0 {
				if mu, w, ok := p.helperCall(fi, t.Call.Fun); ok { // defer recv.h()()
					st = take(st, mu, w, s)
					st.deferred = true
					return st, false
				}
				if id, ok := t.Call.Fun.(*ast.Ident); ok {
					if _, isUnlock := unlockIdents[id.Name]; isUnlock { // u := recv.h(); defer u()
						st.deferred = true
						return st, false
					}
				}
				if fl, ok := t.Call.Fun.(*ast.FuncLit); ok && containsLockOp(fl) { // defer func() { ...Unlock() }()
					only := len(fl.Body.List) == 1
					if only {
						if es, ok := fl.Body.List[0].(*ast.ExprStmt); ok {
							if c, ok := es.X.(*ast.CallExpr); ok {
								if mu, op := p.lockCall(fi, c); mu != "" && (op == "Unlock" || op == "RUnlock") {
									st.deferred = true
									return st, false
								}
							}
						}
					}
					res.unclear = append(res.unclear, fmt.Sprintf("%s: lock operations inside a deferred closure", pos(s)))
					return st, false
				}
			}
			// a deferred call runs at the exit: under the lock only if the unlock is deferred too (and was deferred earlier)
			a := p.accessOf(fi, t.Call)
			if a.rd || a.wr {
				if st.held > 0 && !st.deferred {
					res.unclear = append(res.unclear, fmt.Sprintf("%s: deferred access while the unlock is explicit", pos(s)))
				} else {
					check(st, t.Call)
				}
			}
			return st, false
		case *ast.GoStmt:
			sub := p.guardClosure(fi, t.Call, res, pos)
			_ = sub
			return st, false
		case *ast.ReturnStmt:
			check(st, s)
			if st.held > 0 && !st.deferred {
				res.bad = append(res.bad, fmt.Sprintf("%s: returns with the lock held", pos(s)))
			}
			return st, true
		case *ast.BranchStmt:
			if t.Tok == token.GOTO {
				res.unclear = append(res.unclear, fmt.Sprintf("%s: goto", pos(s)))
			}
			return st, true
		case *ast.BlockStmt:
			return walk(t.List, st)
		case *ast.LabeledStmt:
			return stmt(t.Stmt, st)
		case *ast.IfStmt:
			if t.Init != nil {
				st, _ = stmt(t.Init, st)
			}
			check(st, t.Cond)
			s1, t1 := walk(t.Body.List, st)
			s2, t2 := st, false
			if t.Else != nil {
				s2, t2 = stmt(t.Else, st)
			}
			return merge(s, []gstate{s1, s2}, []bool{t1, t2})
		case *ast.ForStmt:
			if t.Init != nil {
				st, _ = stmt(t.Init, st)
			}
			if t.Cond != nil {
				check(st, t.Cond)
			}
			s1, t1 := walk(t.Body.List, st)
			if t.Post != nil {
				stmt(t.Post, s1)
			}
			if !t1 && s1 != st {
				res.unclear = append(res.unclear, fmt.Sprintf("%s: the loop body changes the lock state", pos(s)))
			}
			return st, false
		case *ast.RangeStmt:
			check(st, t.X)
			s1, t1 := walk(t.Body.List, st)
			if !t1 && s1 != st {
				res.unclear = append(res.unclear, fmt.Sprintf("%s: the loop body changes the lock state", pos(s)))
			}
			return st, false
		case *ast.SwitchStmt, *ast.TypeSwitchStmt, *ast.SelectStmt:
			var body *ast.BlockStmt
			hasDefault := false
			switch sw := t.(type) {
			case *ast.SwitchStmt:
				if sw.Init != nil {
					st, _ = stmt(sw.Init, st)
				}
				if sw.Tag != nil {
					check(st, sw.Tag)
				}
				body = sw.Body
			case *ast.TypeSwitchStmt:
				if sw.Init != nil {
					st, _ = stmt(sw.Init, st)
				}
				check(st, sw.Assign)
				body = sw.Body
			case *ast.SelectStmt:
				body = sw.Body
			}
			outs, terms := []gstate{}, []bool{}
			for _, cl := range body.List {
				var list []ast.Stmt
				switch c := cl.(type) {
				case *ast.CaseClause:
					if c.List == nil {
						hasDefault = true
					}
					for _, e := range c.List {
						check(st, e)
					}
					list = c.Body
				case *ast.CommClause:
					if c.Comm == nil {
						hasDefault = true
					} else {
						check(st, c.Comm)
					}
					list = c.Body
				}
				o, tm := walk(list, st)
				// break leaves the switch, it does not leave the function
				if tm && len(list) > 0 {
					if b, ok := list[len(list)-1].(*ast.BranchStmt); ok && b.Tok == token.BREAK {
						tm = false
					}
				}
				outs, terms = append(outs, o), append(terms, tm)
			}
			if !hasDefault {
				outs, terms = append(outs, st), append(terms, false)
			}
			return merge(s, outs, terms)
		default: // declarations, sends, inc/dec, empty statements
			check(st, s)
			return st, false
		}
	}
	walk = func(list []ast.Stmt, st gstate) (gstate, bool) {
		for _, s := range list {
			var term bool
			st, term = stmt(s, st)
			if term {
				return st, true
			}
		}
		return st, false
	}
	if fi.splitAtomic {
		res.bad = append(res.bad, fmt.Sprintf("%s: read-modify-write of an atomic field split over separate atomic calls", pos(fi.decl)))
		res.wr = true
	}
	end, term := walk(fi.decl.Body.List, gstate{})
	if !term && end.held > 0 && !end.deferred {
		res.bad = append(res.bad, fmt.Sprintf("%s: the method ends with the lock held", pos(fi.decl)))
	}
	return res
}

// guardClosure: a goroutine started by the method does not hold the method's lock
func (p *pkgInfo) guardClosure(fi *funcInfo, call *ast.CallExpr, res *guardResult, pos func(ast.Node) string) bool {
	a := p.accessOf(fi, call)
	if a.rd || a.wr {
		res.unclear = append(res.unclear, fmt.Sprintf("%s: a goroutine started here touches guarded state", pos(call)))
		return false
	}
	return true
}

// closureToTaker: recv.m(func() {...}) where m takes the receiver's lock
func (p *pkgInfo) closureToTaker(fi *funcInfo, c *ast.CallExpr) bool {
	sel, ok := c.Fun.(*ast.SelectorExpr)
	if !ok {
		return false
	}
	id, ok := sel.X.(*ast.Ident)
	if !ok || id.Name != fi.recvName {
		return false
	}
	g := p.funcs[fi.recvType+"."+sel.Sel.Name]
	if g == nil || !p.lockTaker(g) {
		return false
	}
	for _, a := range c.Args {
		if _, isLit := a.(*ast.FuncLit); isLit {
			return true
		}
	}
	return false
}
