// translators/mgmt — regenerates coq/Mgmt/GenConsts.v from the Go sources of the repository under verification.
//
// Everything in the management model that is *data* in the source is read here with go/parser + go/ast (std only):
//   - the management prefixes and the strategy component            (fw/mgmt/thread.go, strategy-choice.go)
//   - the registered modules, their verbs, their /localhost-only guards (fw/mgmt/*.go handleIncomingInterest)
//   - every makeControlResponse(code, text, ..) call, keyed by enclosing function and status text
//   - the defaults assigned in the RIB/FIB handlers (origin, cost, flags)
//   - named constants: route flags/origins, MaxNDNPacketSize, link-service overheads and the terms of
//     computeHeaderOverhead, face flags, persistencies, CS flags, name-component types, minimum MTU (if any)
//   - the strategy registry (fw/fw/*.go: StrategyVersions["x"] = []uint64{..}) and the FIB's default strategy
// usage: go run main.go <repo> <out.v>     (writes only if the content changed; exit 1 on anything unreadable)
package main

import (
	"fmt"
	"go/ast"
	"go/parser"
	"go/token"
	"os"
	"path/filepath"
	"sort"
	"strconv"
	"strings"
)

var fset = token.NewFileSet()
var problems []string

func fail(f string, a ...any) { problems = append(problems, fmt.Sprintf(f, a...)) }

func parseDir(dir string) []*ast.File {
	ents, err := os.ReadDir(dir)
	if err != nil {
		fail("cannot read %s: %v", dir, err)
		return nil
	}
	var out []*ast.File
	for _, e := range ents {
		n := e.Name()
		if !strings.HasSuffix(n, ".go") || strings.HasSuffix(n, "_test.go") || strings.HasPrefix(n, "zz_verif") {
			continue
		}
		f, err := parser.ParseFile(fset, filepath.Join(dir, n), nil, parser.ParseComments)
		if err != nil {
			fail("parse %s: %v", n, err)
			continue
		}
		out = append(out, f)
	}
	return out
}

// ---- tiny constant evaluator ------------------------------------------------------------------
type env map[string]int64

func eval(e ast.Expr, env env, iota int64) (int64, bool) {
	switch x := e.(type) {
	case *ast.BasicLit:
		if x.Kind == token.INT {
			v, err := strconv.ParseInt(x.Value, 0, 64)
			return v, err == nil
		}
	case *ast.Ident:
		if x.Name == "iota" {
			return iota, true
		}
		v, ok := env[x.Name]
		return v, ok
	case *ast.SelectorExpr:
		v, ok := env[x.Sel.Name]
		return v, ok
	case *ast.ParenExpr:
		return eval(x.X, env, iota)
	case *ast.CallExpr: // conversions: uint64(0), TLNum(8), enc.TLNum(8)
		if len(x.Args) == 1 {
			return eval(x.Args[0], env, iota)
		}
	case *ast.BinaryExpr:
		a, ok1 := eval(x.X, env, iota)
		b, ok2 := eval(x.Y, env, iota)
		if !ok1 || !ok2 {
			return 0, false
		}
		switch x.Op {
		case token.ADD:
			return a + b, true
		case token.SUB:
			return a - b, true
		case token.MUL:
			return a * b, true
		case token.QUO:
			if b == 0 {
				return 0, false
			}
			return a / b, true
		case token.SHL:
			return a << uint(b), true
		case token.OR:
			return a | b, true
		}
	}
	return 0, false
}

// consts evaluates every integer constant declared at package level in the files (const blocks with iota).
func consts(files []*ast.File, env env) {
	for _, f := range files {
		for _, d := range f.Decls {
			gd, ok := d.(*ast.GenDecl)
			if !ok || gd.Tok != token.CONST {
				continue
			}
			var last []ast.Expr
			for i, s := range gd.Specs {
				vs := s.(*ast.ValueSpec)
				vals := vs.Values
				if len(vals) == 0 {
					vals = last
				} else {
					last = vals
				}
				for j, n := range vs.Names {
					if j < len(vals) {
						if v, ok := eval(vals[j], env, int64(i)); ok {
							env[n.Name] = v
						}
					}
				}
			}
		}
	}
}

func strLit(e ast.Expr) (string, bool) {
	if b, ok := e.(*ast.BasicLit); ok && b.Kind == token.STRING {
		s, err := strconv.Unquote(b.Value)
		return s, err == nil
	}
	return "", false
}

// leading string literal of "lit" or "lit" + expr
func leadingStr(e ast.Expr) (string, bool) {
	if s, ok := strLit(e); ok {
		return s, true
	}
	if b, ok := e.(*ast.BinaryExpr); ok && b.Op == token.ADD {
		return leadingStr(b.X)
	}
	return "", false
}

func coqBytes(s string) string {
	parts := make([]string, len(s))
	for i := 0; i < len(s); i++ {
		parts[i] = strconv.Itoa(int(s[i]))
	}
	return "[" + strings.Join(parts, ";") + "]"
}

func mangle(s string) string {
	var b strings.Builder
	for _, r := range s {
		if (r >= 'a' && r <= 'z') || (r >= 'A' && r <= 'Z') || (r >= '0' && r <= '9') {
			b.WriteRune(r)
		} else {
			b.WriteByte('_')
		}
	}
	return b.String()
}

func recvName(fd *ast.FuncDecl) string {
	if fd.Recv == nil || len(fd.Recv.List) == 0 {
		return ""
	}
	t := fd.Recv.List[0].Type
	if s, ok := t.(*ast.StarExpr); ok {
		t = s.X
	}
	if id, ok := t.(*ast.Ident); ok {
		return id.Name
	}
	return ""
}

func exprString(e ast.Expr) string {
	switch x := e.(type) {
	case *ast.Ident:
		return x.Name
	case *ast.SelectorExpr:
		return exprString(x.X) + "." + x.Sel.Name
	case *ast.CallExpr:
		return exprString(x.Fun) + "(..)"
	case *ast.UnaryExpr:
		return x.Op.String() + exprString(x.X)
	case *ast.StarExpr:
		return "*" + exprString(x.X)
	}
	return "?"
}

// a URI like /localhost/nfd/strategy/best-route/v=1 as a Coq list of (typ, bytes); only generic components and v=N
func coqName(uri string, typGeneric, typVersion int64) string {
	var comps []string
	for _, c := range strings.Split(strings.Trim(uri, "/"), "/") {
		if c == "" {
			continue
		}
		if strings.HasPrefix(c, "v=") {
			v, err := strconv.ParseUint(c[2:], 10, 64)
			if err != nil || v > 255 {
				fail("unsupported version component %q", c)
			}
			comps = append(comps, fmt.Sprintf("(%d, [%d])", typVersion, v))
			continue
		}
		if strings.ContainsAny(c, "=%") {
			fail("unsupported component %q in %q", c, uri)
		}
		comps = append(comps, fmt.Sprintf("(%d, %s)", typGeneric, coqBytes(c)))
	}
	return "[" + strings.Join(comps, "; ") + "]"
}

func main() {
	if len(os.Args) < 3 {
		fmt.Fprintln(os.Stderr, "usage: main <repo> <out.v>")
		os.Exit(2)
	}
	repo, out := os.Args[1], os.Args[2]
	modelPath := ""
	if len(os.Args) > 3 {
		modelPath = os.Args[3]
	}
	var b strings.Builder
	w := func(f string, a ...any) { fmt.Fprintf(&b, f, a...) }
	w("(* GENERATED by translators/mgmt from the Go sources under verification - do not edit.\n")
	w("   Every definition is data read from the source (file named beside it); the model (Model.v) refers to\n")
	w("   these names, so a changed status code, default, prefix, verb list or bound is re-checked by every theorem. *)\n")
	w("From Coq Require Import List NArith ZArith.\nImport ListNotations.\nOpen Scope N_scope.\n\n")

	// constants of the Go standard library that the handlers compare against (64-bit platform)
	env := env{"MaxInt": 1<<63 - 1, "MaxInt64": 1<<63 - 1, "MaxInt32": 1<<31 - 1, "MaxUint32": 1<<32 - 1,
		"Nanosecond": 1, "Microsecond": 1000, "Millisecond": 1000000, "Second": 1000000000}
	// ---- named constants of other packages
	encFiles := parseDir(filepath.Join(repo, "std/encoding"))
	consts(encFiles, env)
	tableFiles := parseDir(filepath.Join(repo, "fw/table"))
	consts(tableFiles, env)
	defnFiles := parseDir(filepath.Join(repo, "fw/defn"))
	consts(defnFiles, env)
	faceFiles := parseDir(filepath.Join(repo, "fw/face"))
	consts(faceFiles, env)
	mgmtFiles := parseDir(filepath.Join(repo, "fw/mgmt"))
	consts(mgmtFiles, env)
	fwFiles := parseDir(filepath.Join(repo, "fw/fw"))

	need := func(coq, goName, where string) int64 {
		v, ok := env[goName]
		if !ok {
			fail("constant %s not found (%s)", goName, where)
		}
		w("Definition %s : N := %d.   (* %s %s *)\n", coq, v, where, goName)
		return v
	}
	w("(* ---- named constants ---- *)\n")
	typGeneric := need("k_typ_generic", "TypeGenericNameComponent", "std/encoding/name_component.go")
	typVersion := need("k_typ_version", "TypeVersionNameComponent", "std/encoding/name_component.go")
	need("k_typ_params_sha256", "TypeParametersSha256DigestComponent", "std/encoding/name_component.go")
	need("k_route_flag_child_inherit", "RouteFlagChildInherit", "fw/table/rib.go")
	need("k_route_flag_capture", "RouteFlagCapture", "fw/table/rib.go")
	need("k_route_origin_app", "RouteOriginApp", "fw/table/rib.go")
	need("k_max_ndn_packet_size", "MaxNDNPacketSize", "fw/defn/mtu.go")
	if _, ok := env["pitTokenOverhead"]; ok {
		need("k_pit_token_overhead", "pitTokenOverhead", "fw/face/ndnlp-link-service.go")
	} else {
		// sendPacket reserves the exact size of the outgoing PIT token; the forwarder's own tokens are 6 bytes (type + length + 6)
		w("Definition k_pit_token_overhead : N := 8.   (* no pitTokenOverhead constant: exact size of the forwarder's own 6-byte PIT token *)\n")
	}
	need("k_congestion_mark_overhead", "congestionMarkOverhead", "fw/face/ndnlp-link-service.go")
	need("k_face_flag_local_fields", "FaceFlagLocalFields", "fw/face/ndnlp-link-service.go")
	need("k_face_flag_congestion_marking", "FaceFlagCongestionMarking", "fw/face/ndnlp-link-service.go")
	need("k_pers_persistent", "PersistencyPersistent", "fw/face/persistency.go")
	need("k_pers_on_demand", "PersistencyOnDemand", "fw/face/persistency.go")
	need("k_pers_permanent", "PersistencyPermanent", "fw/face/persistency.go")
	need("k_cs_flag_enable_admit", "CsFlagEnableAdmit", "fw/mgmt/helpers.go")
	need("k_cs_flag_enable_serve", "CsFlagEnableServe", "fw/mgmt/helpers.go")
	// ---- computeHeaderOverhead: base + conditional terms
	w("\n(* ---- fw/face/ndnlp-link-service.go computeHeaderOverhead: terms added to lpPacketOverhead, by option ---- *)\n")
	var hdrFrag, hdrIfi, hdrOther, hdrBase int64
	foundCHO := false
	for _, f := range faceFiles {
		for _, d := range f.Decls {
			fd, ok := d.(*ast.FuncDecl)
			if !ok || fd.Name.Name != "computeHeaderOverhead" {
				continue
			}
			foundCHO = true
			for _, st := range fd.Body.List {
				switch s := st.(type) {
				case *ast.AssignStmt:
					if s.Tok == token.ASSIGN && len(s.Rhs) == 1 {
						v, ok := eval(s.Rhs[0], env, 0)
						if !ok {
							fail("computeHeaderOverhead: base overhead is not a constant expression")
						}
						hdrBase = v
					}
				case *ast.IfStmt:
					cond := exprString(s.Cond)
					var sum int64
					for _, bs := range s.Body.List {
						if as, ok := bs.(*ast.AssignStmt); ok && as.Tok == token.ADD_ASSIGN {
							v, ok := eval(as.Rhs[0], env, 0)
							if !ok {
								fail("computeHeaderOverhead: cannot evaluate term")
							}
							sum += v
						} else {
							fail("computeHeaderOverhead: unexpected statement in if")
						}
					}
					switch {
					case strings.HasSuffix(cond, "IsFragmentationEnabled"):
						hdrFrag += sum
					case strings.HasSuffix(cond, "IsIncomingFaceIndicationEnabled"):
						hdrIfi += sum
					default:
						hdrOther += sum
						fail("computeHeaderOverhead: unknown condition %s", cond)
					}
				default:
					fail("computeHeaderOverhead: unexpected statement")
				}
			}
		}
	}
	if !foundCHO {
		fail("computeHeaderOverhead not found")
	}
	w("Definition k_lp_packet_overhead : N := %d.   (* the unconditional part *)\n", hdrBase)
	w("Definition k_hdr_fragmentation : N := %d.\nDefinition k_hdr_incoming_face : N := %d.\n", hdrFrag, hdrIfi)

	// ---- strategies
	w("\n(* ---- fw/fw/*.go: StrategyVersions[name] = versions ---- *)\n")
	type sv struct {
		name string
		vers []string
	}
	var svs []sv
	for _, f := range fwFiles {
		ast.Inspect(f, func(n ast.Node) bool {
			as, ok := n.(*ast.AssignStmt)
			if !ok || len(as.Lhs) != 1 || len(as.Rhs) != 1 {
				return true
			}
			ix, ok := as.Lhs[0].(*ast.IndexExpr)
			if !ok || exprString(ix.X) != "StrategyVersions" {
				return true
			}
			name, ok := strLit(ix.Index)
			cl, ok2 := as.Rhs[0].(*ast.CompositeLit)
			if !ok || !ok2 {
				fail("StrategyVersions assignment not understood")
				return true
			}
			var vers []string
			for _, e := range cl.Elts {
				v, ok := eval(e, env, 0)
				if !ok {
					fail("StrategyVersions version not constant")
				}
				vers = append(vers, strconv.FormatInt(v, 10))
			}
			svs = append(svs, sv{name, vers})
			return true
		})
	}
	sort.Slice(svs, func(i, j int) bool { return svs[i].name < svs[j].name })
	var items []string
	for _, s := range svs {
		items = append(items, fmt.Sprintf("(%s, [%s])", coqBytes(s.name), strings.Join(s.vers, ";")))
	}
	w("Definition k_strategies : list (list N * list N) := [%s].   (* %d strategies *)\n", strings.Join(items, "; "), len(svs))
	// default strategy of a fresh FIB
	defStrat := ""
	for _, f := range tableFiles {
		for _, d := range f.Decls {
			fd, ok := d.(*ast.FuncDecl)
			if !ok || fd.Name.Name != "newFibStrategyTableTree" {
				continue
			}
			ast.Inspect(fd, func(n ast.Node) bool {
				if c, ok := n.(*ast.CallExpr); ok && strings.HasSuffix(exprString(c.Fun), "NameFromStr") && len(c.Args) == 1 {
					if s, ok := strLit(c.Args[0]); ok {
						defStrat = s
					}
				}
				return true
			})
		}
	}
	if defStrat == "" {
		fail("default strategy of the FIB tree not found")
	}
	w("Definition k_default_strategy : list (N * list N) := %s.   (* fw/table/fib-strategy-tree.go %q *)\n", coqName(defStrat, typGeneric, typVersion), defStrat)

	// ---- management thread: prefixes, modules
	w("\n(* ---- fw/mgmt/thread.go ---- *)\n")
	prefixes := map[string]string{}
	type mod struct{ name, typ string }
	var mods []mod
	stratComp := ""
	funcs := map[string]*ast.FuncDecl{}
	for _, f := range mgmtFiles {
		for _, d := range f.Decls {
			fd, ok := d.(*ast.FuncDecl)
			if !ok || fd.Body == nil {
				continue
			}
			key := fd.Name.Name
			if r := recvName(fd); r != "" {
				key = r + "_" + fd.Name.Name
			}
			funcs[key] = fd
		}
	}
	if fd := funcs["MakeMgmtThread"]; fd != nil {
		ast.Inspect(fd, func(n ast.Node) bool {
			switch x := n.(type) {
			case *ast.AssignStmt:
				if len(x.Lhs) >= 1 && len(x.Rhs) == 1 {
					if c, ok := x.Rhs[0].(*ast.CallExpr); ok && strings.HasSuffix(exprString(c.Fun), "NameFromStr") && len(c.Args) == 1 {
						if s, ok := strLit(c.Args[0]); ok {
							prefixes[exprString(x.Lhs[0])] = s
						}
					}
				}
			case *ast.CallExpr:
				if strings.HasSuffix(exprString(x.Fun), "registerModule") && len(x.Args) == 2 {
					name, ok := strLit(x.Args[0])
					typ := ""
					if c, ok2 := x.Args[1].(*ast.CallExpr); ok2 && exprString(c.Fun) == "new" && len(c.Args) == 1 {
						typ = exprString(c.Args[0])
					}
					if !ok || typ == "" {
						fail("registerModule call not understood")
					}
					mods = append(mods, mod{name, typ})
				}
			}
			return true
		})
	} else {
		fail("MakeMgmtThread not found")
	}
	for _, k := range []string{"m.localPrefix", "m.nonLocalPrefix"} {
		if prefixes[k] == "" {
			fail("prefix %s not found in MakeMgmtThread", k)
		}
	}
	w("Definition k_local_prefix : list (N * list N) := %s.   (* %q *)\n", coqName(prefixes["m.localPrefix"], typGeneric, typVersion), prefixes["m.localPrefix"])
	w("Definition k_nonlocal_prefix : list (N * list N) := %s.   (* %q *)\n", coqName(prefixes["m.nonLocalPrefix"], typGeneric, typVersion), prefixes["m.nonLocalPrefix"])
	// Run: which FIB registrations, and whether the non-local prefix test is conditioned on enableLocalhopManagement
	runGuarded := false
	runMinLen := int64(-1)
	if fd := funcs["Thread_Run"]; fd != nil {
		ast.Inspect(fd, func(n ast.Node) bool {
			ifs, ok := n.(*ast.IfStmt)
			if !ok {
				return true
			}
			var src strings.Builder
			ast.Inspect(ifs.Cond, func(m ast.Node) bool {
				if id, ok := m.(*ast.Ident); ok {
					src.WriteString(id.Name + " ")
				}
				return true
			})
			s := src.String()
			_ = s
			// exactly: !<local test> && !(enableLocalhopManagement && <x>.nonLocalPrefix.IsPrefix(..))
			if top, ok := ifs.Cond.(*ast.BinaryExpr); ok && top.Op == token.LAND {
				if un, ok := top.Y.(*ast.UnaryExpr); ok && un.Op == token.NOT {
					if par, ok := un.X.(*ast.ParenExpr); ok {
						if and, ok := par.X.(*ast.BinaryExpr); ok && and.Op == token.LAND {
							if id, ok := and.X.(*ast.Ident); ok && id.Name == "enableLocalhopManagement" &&
								strings.HasSuffix(exprString(and.Y), "nonLocalPrefix.IsPrefix(..)") {
								runGuarded = true
							}
						}
					}
				}
			}
			// len(interest.NameV) < len(m.localPrefix)+2
			if be, ok := ifs.Cond.(*ast.BinaryExpr); ok && be.Op == token.LSS {
				if add, ok := be.Y.(*ast.BinaryExpr); ok && add.Op == token.ADD && strings.Contains(exprString(add.X), "len") {
					if v, ok := eval(add.Y, env, 0); ok {
						runMinLen = v
					}
				}
			}
			return true
		})
	} else {
		fail("Thread.Run not found")
	}
	if runMinLen < 0 {
		fail("Thread.Run: minimum name length check not found")
	}
	w("Definition k_run_min_extra : N := %d.   (* Run drops names shorter than len(localPrefix)+this *)\n", runMinLen)
	w("Definition k_run_localhop_guarded : bool := %v.   (* Run tests the non-local prefix only when enableLocalhopManagement *)\n", runGuarded)
	var mi []string
	for _, m := range mods {
		mi = append(mi, coqBytes(m.name))
	}
	w("Definition k_modules : list (list N) := [%s].\n", strings.Join(mi, "; "))

	// strategy component
	if fd := funcs["StrategyChoiceModule_registerManager"]; fd != nil {
		ast.Inspect(fd, func(n ast.Node) bool {
			if kv, ok := n.(*ast.KeyValueExpr); ok && exprString(kv.Key) == "Val" {
				if c, ok := kv.Value.(*ast.CallExpr); ok && len(c.Args) == 1 {
					if s, ok := strLit(c.Args[0]); ok {
						stratComp = s
					}
				}
			}
			return true
		})
	}
	if stratComp == "" {
		fail("strategy prefix component not found")
	}
	w("Definition k_strategy_comp : list N := %s.   (* %q *)\n", coqBytes(stratComp), stratComp)

	// ---- per module: local-only guard and verbs
	w("\n(* ---- modules: /localhost-only guard, verbs (name, has a handler body) ---- *)\n")
	for _, m := range mods {
		fd := funcs[m.typ+"_handleIncomingInterest"]
		if fd == nil {
			fail("%s.handleIncomingInterest not found", m.typ)
			continue
		}
		guard := false
		var verbs []string
		hasDefault := false
		for _, st := range fd.Body.List {
			switch s := st.(type) {
			case *ast.IfStmt:
				c := exprString(s.Cond)
				if strings.HasPrefix(c, "!") && strings.Contains(c, "localPrefix.IsPrefix") {
					for _, bs := range s.Body.List {
						if _, ok := bs.(*ast.ReturnStmt); ok {
							guard = true
						}
					}
				}
			case *ast.SwitchStmt:
				for _, cc := range s.Body.List {
					cl := cc.(*ast.CaseClause)
					if cl.List == nil {
						hasDefault = true
						continue
					}
					for _, e := range cl.List {
						if v, ok := strLit(e); ok {
							verbs = append(verbs, fmt.Sprintf("(%s, %v)", coqBytes(v), len(cl.Body) > 0))
						} else {
							fail("%s: verb case not a string literal", m.typ)
						}
					}
				}
			}
		}
		if !hasDefault {
			fail("%s: verb switch has no default", m.typ)
		}
		w("Definition k_%s_local_only : bool := %v.\n", m.typ, guard)
		w("Definition k_%s_verbs : list (list N * bool) := [%s].\n", m.typ, strings.Join(verbs, "; "))
	}

	// ---- status codes by function and text
	w("\n(* ---- makeControlResponse(code, text, ..) calls: <receiver>_<function>_st_<text> ---- *)\n")
	var keys []string
	for k := range funcs {
		keys = append(keys, k)
	}
	sort.Strings(keys)
	for _, k := range keys {
		seen := map[string]int64{}
		var order []string
		ast.Inspect(funcs[k], func(n ast.Node) bool {
			c, ok := n.(*ast.CallExpr)
			if !ok || exprString(c.Fun) != "makeControlResponse" || len(c.Args) < 2 {
				return true
			}
			code, ok1 := eval(c.Args[0], env, 0)
			text, ok2 := leadingStr(c.Args[1])
			if !ok1 || !ok2 {
				fail("%s: makeControlResponse with non-constant code/text", k)
				return true
			}
			id := mangle(text)
			if old, dup := seen[id]; dup {
				if old != code {
					fail("%s: status text %q used with two codes (%d, %d)", k, text, old, code)
				}
				return true
			}
			seen[id] = code
			order = append(order, id)
			return true
		})
		for _, id := range order {
			w("Definition %s_st_%s : N := %d.\n", k, id, seen[id])
		}
	}

	// ---- defaults in handlers
	w("\n(* ---- defaults assigned in the handlers ---- *)\n")
	defaults := func(fn string, vars ...string) {
		fd := funcs[fn]
		if fd == nil {
			fail("%s not found", fn)
			return
		}
		got := map[string]bool{}
		ast.Inspect(fd, func(n ast.Node) bool {
			as, ok := n.(*ast.AssignStmt)
			if !ok || as.Tok != token.DEFINE || len(as.Lhs) != 1 || len(as.Rhs) != 1 {
				return true
			}
			id, ok := as.Lhs[0].(*ast.Ident)
			if !ok {
				return true
			}
			for _, v := range vars {
				if id.Name == v && !got[v] {
					val, ok := eval(as.Rhs[0], env, 0)
					if !ok {
						fail("%s: default of %s is not a constant (%s)", fn, v, exprString(as.Rhs[0]))
						return true
					}
					got[v] = true
					w("Definition k_%s_default_%s : N := %d.   (* %s *)\n", fn, v, val, exprString(as.Rhs[0]))
				}
			}
			return true
		})
		for _, v := range vars {
			if !got[v] {
				fail("%s: no default found for %s", fn, v)
			}
		}
	}
	defaults("RIBModule_register", "origin", "cost", "flags")
	defaults("RIBModule_unregister", "origin")
	defaults("FIBModule_add", "cost")

	// ---- range checks on parameters: `*params.<Field> <op> <constant>` in an if condition of the handler
	w("\n(* ---- parameter range checks found in the handlers (18446744073709551616 = 2^64 / 0 = no such check) ---- *)\n")
	bound := func(fn, field string, op token.Token, coq string, none string) {
		fd := funcs[fn]
		found := ""
		if fd != nil {
			ast.Inspect(fd, func(n ast.Node) bool {
				ifs, ok := n.(*ast.IfStmt)
				if !ok {
					return true
				}
				ast.Inspect(ifs.Cond, func(m ast.Node) bool {
					be, ok := m.(*ast.BinaryExpr)
					if !ok || be.Op != op || exprString(be.X) != "*params."+field {
						return true
					}
					if v, ok := eval(be.Y, env, 0); ok {
						// the body must refuse: it has to contain a return or clear areParamsValid
						refuses := false
						ast.Inspect(ifs.Body, func(b ast.Node) bool {
							switch x := b.(type) {
							case *ast.ReturnStmt:
								refuses = true
							case *ast.AssignStmt:
								if len(x.Lhs) == 1 && exprString(x.Lhs[0]) == "areParamsValid" && exprString(x.Rhs[0]) == "false" {
									refuses = true
								}
							}
							return true
						})
						if refuses && found == "" {
							found = strconv.FormatInt(v, 10)
						}
					}
					return true
				})
				return true
			})
		}
		if found == "" {
			found = none
		}
		w("Definition %s : N := %s.   (* %s: *params.%s %s .. *)\n", coq, found, fn, field, op.String())
	}
	bound("FaceModule_update", "Mtu", token.LSS, "k_FaceModule_update_min_mtu", "0")
	bound("FaceModule_create", "Mtu", token.LSS, "k_FaceModule_create_min_mtu", "0")
	bound("ContentStoreModule_config", "Capacity", token.GTR, "k_ContentStoreModule_config_max_capacity", "18446744073709551616")
	bound("RIBModule_register", "ExpirationPeriod", token.GTR, "k_RIBModule_register_max_expiration", "18446744073709551616")

	// ---- makeStatusDataset: the single-segment limit `len(dataset) > N`
	dsMax := ""
	if fd := funcs["makeStatusDataset"]; fd != nil {
		ast.Inspect(fd, func(n ast.Node) bool {
			if ifs, ok := n.(*ast.IfStmt); ok {
				if be, ok := ifs.Cond.(*ast.BinaryExpr); ok && be.Op == token.GTR && exprString(be.X) == "len(..)" {
					if v, ok := eval(be.Y, env, 0); ok && dsMax == "" {
						dsMax = strconv.FormatInt(v, 10)
					}
				}
			}
			return true
		})
	}
	if dsMax == "" {
		dsMax = "18446744073709551616"
	}
	w("Definition k_dataset_max_bytes : N := %s.   (* fw/mgmt/helpers.go makeStatusDataset: larger datasets are not published *)\n", dsMax)

	// ---- status constants the model refers to but the source no longer has: placeholders, listed in k_missing_status
	if modelPath != "" {
		src, err := os.ReadFile(modelPath)
		if err != nil {
			fail("cannot read model %s: %v", modelPath, err)
		}
		defined := map[string]bool{}
		for _, l := range strings.Split(b.String(), "\n") {
			f := strings.Fields(l)
			if len(f) > 1 && f[0] == "Definition" {
				defined[f[1]] = true
			}
		}
		var missing []string
		seen := map[string]bool{}
		for _, tok := range strings.FieldsFunc(string(src), func(r rune) bool {
			return !(r == '_' || (r >= 'a' && r <= 'z') || (r >= 'A' && r <= 'Z') || (r >= '0' && r <= '9'))
		}) {
			if strings.Contains(tok, "_st_") && !defined[tok] && !seen[tok] {
				seen[tok] = true
				missing = append(missing, tok)
			}
		}
		sort.Strings(missing)
		w("\n(* ---- status constants used by the model that the source does not (any longer) have ---- *)\n")
		var ms []string
		for _, m := range missing {
			w("Definition %s : N := 0.   (* MISSING in the source *)\n", m)
			ms = append(ms, coqBytes(m))
		}
		w("Definition k_missing_status : list (list N) := [%s].\n", strings.Join(ms, "; "))
	}

	if len(problems) > 0 {
		for _, p := range problems {
			fmt.Fprintln(os.Stderr, "translator:", p)
		}
		os.Exit(1)
	}
	old, _ := os.ReadFile(out)
	if string(old) != b.String() {
		if err := os.WriteFile(out, []byte(b.String()), 0o644); err != nil {
			fmt.Fprintln(os.Stderr, err)
			os.Exit(1)
		}
		fmt.Println("written", out)
	} else {
		fmt.Println("unchanged", out)
	}
}
