"""Translator for the Codec family (C13, C04).

 schemas(REPO)        builds translators/codec/schemadump against the tree (-tags verif) and returns the parsed JSON:
                      one entry per directory that contains a zz_generated.go, with the models the repository's own
                      generator front end parses from the definitions, and the encoders found in the generated file.
 emit_coq(pkgs)       text of coq/Codec/GenSchemas.v
 emit_registry(pkgs)  text of the Go registry (reflect.Types of every generated model/encoder/parsing context)
 build_harness(...)   assembles a scratch module (harness/codec sources + registry) and builds the test binary
 generator_identity() runs the checked-in generator on the checked-in definitions and byte-compares
"""
import json, os, re, shutil, sys
sys.path.insert(0, os.path.join(os.path.dirname(os.path.abspath(__file__)), "..", "..", "bin"))
import vlib

HERE = os.path.dirname(os.path.abspath(__file__))

WALL_NOTES = []     # drained into R.notes by codec_common


def _sh(cmd, timeout=1800, **kw):
    """vlib.sh, but a wall-clock expiry never decides anything: it is noted and the command is run again without a limit."""
    rc, out = vlib.sh(cmd, timeout=timeout, **kw)
    if rc == 124:
        WALL_NOTES.append("wall-clock limit of %ss expired for %s; run again without a limit (no verdict from a clock)" % (
            timeout, (cmd if isinstance(cmd, str) else " ".join(map(str, cmd)))[:120]))
        rc, out = vlib.sh(cmd, timeout=None, **kw)
    return rc, out


def _scratch_module(name, srcs, extra_files=None):
    """A scratch Go module under WROOT whose only dependency is the tree under verification."""
    d = os.path.join(vlib.WROOT, name)
    os.makedirs(d, exist_ok=True)
    vlib.write_if_changed(os.path.join(d, "go.mod"),
                          "module %s\n\ngo 1.23\n\nrequire github.com/named-data/ndnd v0.0.0\n\nreplace github.com/named-data/ndnd => %s\n" % (name.replace("-", ""), vlib.REPO))
    shutil.copy(os.path.join(vlib.REPO, "go.sum"), os.path.join(d, "go.sum"))
    for src, rel in srcs:
        dst = os.path.join(d, rel)
        os.makedirs(os.path.dirname(dst), exist_ok=True)
        vlib.write_if_changed(dst, open(src).read())
    for rel, text in (extra_files or {}).items():
        dst = os.path.join(d, rel)
        os.makedirs(os.path.dirname(dst), exist_ok=True)
        vlib.write_if_changed(dst, text)
    return d


def schemas(log=None):
    d = _scratch_module("codec-xlate", [(os.path.join(HERE, "schemadump", "main.go"), "main.go")])
    exe = os.path.join(d, "schemadump")
    with vlib.flock("go-codec-xlate"):
        rc, out = _sh([vlib.GO, "build", "-tags", "verif", "-o", exe, "."], cwd=d, env=vlib.goenv(), timeout=600)
        if rc != 0:
            return None, "schemadump does not build against the tree: " + out[-1500:]
        rc, out = _sh([exe, vlib.REPO], env=vlib.goenv(), timeout=300)
    if rc != 0:
        return None, "schemadump failed: " + out[-1500:]
    try:
        pkgs = json.loads(out[out.index("["):])
    except Exception as e:
        return None, "schemadump output unreadable: %r" % (e,)
    return pkgs, ""


# ------------------------------------------------------------------------------------------------------------
def _bool(b):
    return "true" if b else "false"


class XlateError(Exception):
    pass


def _kind(f, model, pkg, top=True):
    k = f["kind"]
    opt = _bool(f.get("opt", False))
    names = [m["name"] for m in pkg["models"]]
    fidx = {g["name"]: i for i, g in enumerate(model["fields"])}
    if k == "natural":
        return "KNat %s" % opt
    if k == "fixedUint":
        return "KFixed %d %s" % (f.get("width", 0), opt)
    if k == "time":
        return "KTime %s" % opt
    if k == "binary":
        return "KBin"
    if k == "string":
        return "KStr %s" % opt
    if k == "wire":
        return "KWire"
    if k == "name":
        return "KName"
    if k == "bool":
        return "KBool"
    if k == "struct":
        if f["struct"] not in names:
            raise XlateError("struct field %s.%s refers to unknown model %s" % (model["name"], f["name"], f["struct"]))
        return "KStruct %d" % names.index(f["struct"])
    if k == "sequence":
        return "KSeq (%s)" % _kind(f["sub"], model, pkg, False)
    if k == "map":
        return "KMap (%s) %d (%s)" % (_kind(f["key"], model, pkg, False), f["val"]["typ"], _kind(f["val"], model, pkg, False))
    if k == "signature":
        return "KSig %d %d" % (fidx.get(f["start"], 9999), fidx.get(f["covered"], 9999))
    if k == "interestName":
        return "KIntName %d" % fidx.get(f["covered"], 9999)
    if k == "offsetMarker":
        return "KOffset"
    if k == "rangeMarker":
        return "KRange %d %d" % (fidx.get(f["start"], 9999), fidx.get(f["covered"], 9999))
    if k == "procedureArgument":
        return "KArg"
    raise XlateError("unknown field class %r in %s.%s" % (k, model["name"], f["name"]))


def coq_ident(s):
    return re.sub(r"[^A-Za-z0-9_]", "_", s)


def emit_coq(pkgs):
    out = ["(* Codec/GenSchemas.v — GENERATED by translators/codec (schemadump + codecgen.py) from the definitions files of",
           "   every package that contains a zz_generated.go.  Do not edit; regenerated on every run of bin/check C13 / C04. *)",
           "From Codec Require Import Schema.", "Open Scope N_scope.", ""]
    names = []
    nmodels = 0
    for pi, p in enumerate(pkgs):
        ident = "pkg_" + coq_ident(p["dir"])
        names.append(ident)
        out.append("(* package %d: %s (%s), %d models *)" % (pi, p["dir"], p["pkgname"], len(p["models"])))
        out.append("Definition %s : schema := [" % ident)
        ms = []
        for mi, m in enumerate(p["models"]):
            nmodels += 1
            fs = []
            for f in m["fields"]:
                fs.append("      mkf %d (%s) (* %s *)" % (f["typ"], _kind(f, m, p), f["name"]))
            ms.append("  (* %d %s *) mkm %s %s [\n%s]" % (mi, m["name"], _bool(m["ordered"]), _bool(m["nocopy"]), ";\n".join(fs)))
        out.append(";\n".join(ms))
        out.append("].\n")
        # struct fields annotated struct:T:nocopy (inner wire plan merged into the outer one), per model / field
        rows = ["[" + "; ".join(_bool(bool(f.get("inner_nocopy"))) for f in m["fields"]) + "]" for m in p["models"]]
        out.append("Definition %s_inc : list (list bool) := [%s].\n" % (ident, ";\n  ".join(rows)))
    out.append("Definition all_schemas : list schema := [%s]." % "; ".join(names))
    out.append("Definition all_inc : list (list (list bool)) := [%s]." % "; ".join(n + "_inc" for n in names))
    out.append("Definition n_models : nat := %d." % nmodels)
    # positions used by the hand-written glue of std/ndn/spec_2022/spec.go (ReadPacket, ReadData, ReadInterest, checkInterest):
    # [package; Packet; Packet.Interest; Packet.Data; Packet.LpPacket; Interest.NameV; Interest.ApplicationParameters;
    #  Interest.SignatureValue; Data.NameV; LpPacket.Fragment]   (9999 = not found)
    def fidx(pk, model, field):
        for m in pk["models"]:
            if m["name"] == model:
                for i, f in enumerate(m["fields"]):
                    if f["name"] == field:
                        return i
        return 9999
    spec = [9999] * 10
    for pi, pk in enumerate(pkgs):
        if pk["dir"] == "std/ndn/spec_2022":
            mnames = [m["name"] for m in pk["models"]]
            spec = [pi, mnames.index("Packet") if "Packet" in mnames else 9999,
                    fidx(pk, "Packet", "Interest"), fidx(pk, "Packet", "Data"), fidx(pk, "Packet", "LpPacket"),
                    fidx(pk, "Interest", "NameV"), fidx(pk, "Interest", "ApplicationParameters"), fidx(pk, "Interest", "SignatureValue"),
                    fidx(pk, "Data", "NameV"), fidx(pk, "LpPacket", "Fragment")]
    out.append("Definition spec2022_ix : list nat := [%s]." % "; ".join("%d%%nat" % x for x in spec))
    out.append("")
    return "\n".join(out)


def emit_registry(pkgs):
    out = ["// GENERATED by translators/codec/codecgen.py from the generated sources of the tree under verification.",
           "package codec", "", "import (", '\t"reflect"', ""]
    for pi, p in enumerate(pkgs):
        out.append('\tp%d "%s"' % (pi, p["import"]))
    out.append(")\n")
    out.append("func init() {")
    for pi, p in enumerate(pkgs):
        for mi, name in enumerate(p["generated_encoders"]):
            out.append('\tregister(%d, %d, "%s", reflect.TypeOf(p%d.%s{}), reflect.TypeOf(p%d.%sEncoder{}), reflect.TypeOf(p%d.%sParsingContext{}))'
                       % (pi, mi, name, pi, name, pi, name, pi, name))
    out.append("}\n")
    return "\n".join(out)


def build_harness(pkgs, out_exe, race=False):
    """harness/codec/*.go + generated registry + schemas.json (embedded path via env) -> test binary."""
    hdir = os.path.join(vlib.VERIF, "harness", "codec")
    srcs = [(os.path.join(hdir, f), os.path.join("codec", f)) for f in sorted(os.listdir(hdir)) if f.endswith(".go")]
    d = _scratch_module("codec-harness", srcs, {os.path.join("codec", "zz_registry.go"): emit_registry(pkgs)})
    cmd = [vlib.GO, "test", "-c", "-vet=off", "-tags", "verif", "-o", out_exe]
    if race:
        cmd.append("-race")
    cmd.append("./codec")
    with vlib.flock("go-codec-harness"):
        rc, out = _sh(cmd, cwd=d, env=vlib.goenv(), timeout=1200)
    return rc == 0, out


# ------------------------------------------------------------------------------------------------------------
def generator_identity(pkgs, work):
    """C13, last sentence: the checked-in generated code is exactly what the checked-in generator produces from the
    checked-in definitions.  Builds std/cmd/gondn_tlv_gen from the tree, copies each package directory (without its
    zz_generated.go) to scratch, runs the generator there the way `go generate` does (no arguments, cwd = package
    directory) and byte-compares.  Returns list of (dir, ok, detail)."""
    gen = os.path.join(work, "gondn_tlv_gen")
    rc, out = _sh(["go", "build", "-o", gen, "./std/cmd/gondn_tlv_gen"], cwd=vlib.REPO, env=vlib.goenv(), timeout=600)
    if rc != 0:
        return [("std/cmd/gondn_tlv_gen", False, "generator does not build: " + out[-800:])]
    res = []
    for p in pkgs:
        src = os.path.join(vlib.REPO, p["dir"])
        dst = os.path.join(work, "regen", p["dir"].replace("/", "_"))
        shutil.rmtree(dst, ignore_errors=True)
        os.makedirs(dst)
        for f in os.listdir(src):
            if f.endswith(".go") and f != "zz_generated.go":
                shutil.copy(os.path.join(src, f), dst)
        directive = [g for g in p.get("go_generate") or [] if "gondn_tlv_gen" in g]
        if not directive:
            res.append((p["dir"], False, "no //go:generate gondn_tlv_gen directive in the package"))
            continue
        args = directive[0].split("gondn_tlv_gen", 1)[1].split()
        rc, out = _sh([gen] + args, cwd=dst, env=vlib.goenv(), timeout=300)
        new = os.path.join(dst, "zz_generated.go")
        if rc != 0 or not os.path.exists(new):
            res.append((p["dir"], False, "generator failed: " + out[-400:]))
            continue
        a = open(new, "rb").read()
        b = open(os.path.join(src, "zz_generated.go"), "rb").read()
        if a == b:
            res.append((p["dir"], True, "%d bytes identical" % len(a)))
        else:
            la, lb = a.split(b"\n"), b.split(b"\n")
            first = next((i for i in range(min(len(la), len(lb))) if la[i] != lb[i]), min(len(la), len(lb)))
            res.append((p["dir"], False, "differs from line %d: generated %r vs checked-in %r" % (
                first + 1, la[first][:120] if first < len(la) else b"<eof>", lb[first][:120] if first < len(lb) else b"<eof>")))
    return res


if __name__ == "__main__":
    pkgs, err = schemas()
    if pkgs is None:
        print(err); sys.exit(1)
    if len(sys.argv) > 1 and sys.argv[1] == "coq":
        print(emit_coq(pkgs))
    elif len(sys.argv) > 1 and sys.argv[1] == "registry":
        print(emit_registry(pkgs))
    else:
        print(json.dumps(pkgs, indent=1))
