// schemadump: translator for the Codec family (C13/C04).
// Scans the repository tree given as argv[1] for directories containing zz_generated.go, runs the repository's
// own generator front end (codegen.Generator.ProcessDecl, exactly as std/cmd/gondn_tlv_gen does) on the
// non-generated files of each such directory and dumps the parsed models through the verif hook
// (std/encoding/codegen/zz_verif_codec.go).  Also lists the `type XEncoder struct` declarations found in each
// zz_generated.go (the registry of generated types, discovered from the generated sources).
// Output: JSON on stdout.  Built with -tags verif against the tree under verification.
package main

import (
	"encoding/json"
	"fmt"
	"go/ast"
	"go/parser"
	"go/token"
	"os"
	"path/filepath"
	"regexp"
	"sort"
	"strings"

	"github.com/named-data/ndnd/std/encoding/codegen"
)

type Pkg struct {
	Dir       string                `json:"dir"`
	Import    string                `json:"import"`
	PkgName   string                `json:"pkgname"`
	Generate  []string              `json:"go_generate"`
	Models    []codegen.VerifModel  `json:"models"`
	Generated []string              `json:"generated_encoders"`
}

func main() {
	root := os.Args[1]
	var dirs []string
	filepath.Walk(root, func(p string, info os.FileInfo, err error) error {
		if err != nil {
			return nil
		}
		if info.IsDir() && (info.Name() == ".git" || info.Name() == "node_modules") {
			return filepath.SkipDir
		}
		if !info.IsDir() && info.Name() == "zz_generated.go" {
			dirs = append(dirs, filepath.Dir(p))
		}
		return nil
	})
	sort.Strings(dirs)
	encRe := regexp.MustCompile(`(?m)^type (\w+)Encoder struct`)
	genRe := regexp.MustCompile(`(?m)^//go:generate (.*)$`)
	var out []Pkg
	for _, d := range dirs {
		rel, _ := filepath.Rel(root, d)
		pk := Pkg{Dir: rel, Import: "github.com/named-data/ndnd/" + filepath.ToSlash(rel)}
		g := codegen.NewGenerator()
		fset := token.NewFileSet()
		pkgs, err := parser.ParseDir(fset, d, nil, parser.ParseComments)
		if err != nil {
			fmt.Fprintln(os.Stderr, "parse error:", err)
			os.Exit(1)
		}
		var names []string
		for n := range pkgs {
			names = append(names, n)
		}
		sort.Strings(names)
		for _, n := range names {
			if strings.HasSuffix(n, "_test") {
				continue
			}
			if pk.PkgName == "" {
				pk.PkgName = n
			} else if pk.PkgName != n {
				continue
			}
			var files []string
			for f := range pkgs[n].Files {
				files = append(files, f)
			}
			sort.Strings(files)
			for _, f := range files {
				src, _ := os.ReadFile(f)
				for _, m := range genRe.FindAllStringSubmatch(string(src), -1) {
					pk.Generate = append(pk.Generate, filepath.Base(f)+": "+m[1])
				}
				if filepath.Base(f) == "zz_generated.go" {
					continue
				}
				ast.Inspect(pkgs[n].Files[f], g.ProcessDecl)
			}
		}
		pk.Models = g.VerifModels()
		src, _ := os.ReadFile(filepath.Join(d, "zz_generated.go"))
		for _, m := range encRe.FindAllStringSubmatch(string(src), -1) {
			pk.Generated = append(pk.Generated, m[1])
		}
		out = append(out, pk)
	}
	b, _ := json.MarshalIndent(out, "", " ")
	os.Stdout.Write(b)
}
