"""Translation of the code generator's *templates* (std/encoding/codegen) into Coq: GenTemplates.v.

The byte comparison of the regenerated files (codecgen.generator_identity) says "generated code == generator output".
It says nothing about a template change that is regenerated consistently.  This translator reads the control skeleton
of the ModelParse template (model.go, TlvModel.GenReadFrom) and the `progress` statements of the repeated-field readers
(fields_sequence.go, map_field.go) and turns every expression and every `progress`/`handled` update into a Coq
function.  coq/Codec/Tmpl.v interprets the `for handled := false; cond; post { switch typ {...} ... }` loop literally
with these functions and proves that the result is the parser of Model.v (the subject of all C13 / C04 theorems):
a template whose loop condition, case condition, critical-type rule, unknown-element handling, skip-case numbering or
progress bookkeeping changes in meaning no longer satisfies those lemmas.

Go expressions are parsed by a small precedence-climbing parser (||, &&, comparisons, + - | ^, * / % & << >>, unary ! -,
parentheses, identifiers, integer literals) and printed over Z / bool.  Template placeholders become variables:
{{$i}} -> i, {{len .Model.Fields}} -> n, reader.Length() -> length, `err == nil` -> errnil.

Anything that does not have the expected statement shape raises XlateError: the check reports it (conservatively) as a
template that is no longer the translated one."""
import os, re


class XlateError(Exception):
    pass


# ---------------------------------------------------------------------------------------------- Go expressions -> Coq
_TOK = re.compile(r"\s*(\|\||&&|==|!=|<=|>=|<<|>>|&\^|[-+*/%&|^<>!()]|0[xX][0-9a-fA-F]+|\d+|[A-Za-z_][A-Za-z0-9_]*)")
_PREC = {"||": 1, "&&": 2, "==": 3, "!=": 3, "<": 3, "<=": 3, ">": 3, ">=": 3, "+": 4, "-": 4, "|": 4, "^": 4,
         "*": 5, "/": 5, "%": 5, "&": 5, "<<": 5, ">>": 5}
_BOOLVARS = {"handled", "ignoreCritical", "errnil", "true", "false"}


def _tokens(s):
    out = []; i = 0
    s = s.strip()
    while i < len(s):
        m = _TOK.match(s, i)
        if not m:
            raise XlateError("cannot tokenise Go expression %r at %r" % (s, s[i:i + 10]))
        out.append(m.group(1)); i = m.end()
    return out


def _parse(toks, pos, minprec):
    lhs, pos = _unary(toks, pos)
    while pos < len(toks) and toks[pos] in _PREC and _PREC[toks[pos]] >= minprec:
        op = toks[pos]
        rhs, pos = _parse(toks, pos + 1, _PREC[op] + 1)
        lhs = ("bin", op, lhs, rhs)
    return lhs, pos


def _unary(toks, pos):
    if pos >= len(toks):
        raise XlateError("unexpected end of Go expression")
    t = toks[pos]
    if t == "!":
        e, pos = _unary(toks, pos + 1); return ("not", e), pos
    if t == "-":
        e, pos = _unary(toks, pos + 1); return ("neg", e), pos
    if t == "(":
        e, pos = _parse(toks, pos + 1, 1)
        if pos >= len(toks) or toks[pos] != ")":
            raise XlateError("missing ) in Go expression")
        return e, pos + 1
    if re.match(r"^(0[xX][0-9a-fA-F]+|\d+)$", t):
        return ("int", int(t, 0)), pos + 1
    if re.match(r"^[A-Za-z_]", t):
        return ("var", t), pos + 1
    raise XlateError("unexpected token %r in Go expression" % t)


def go_expr(s):
    toks = _tokens(s)
    e, pos = _parse(toks, 0, 1)
    if pos != len(toks):
        raise XlateError("trailing tokens in Go expression %r" % s)
    return e


def _ty(e):
    k = e[0]
    if k == "int" or k == "neg":
        return "Z"
    if k == "var":
        return "bool" if e[1] in _BOOLVARS else "Z"
    if k == "not":
        return "bool"
    op = e[1]
    if op in ("||", "&&", "==", "!=", "<", "<=", ">", ">="):
        return "bool"
    return "Z"


def coq(e, allowed):
    """Coq term (Z / bool) of a parsed Go expression; `allowed` = identifiers that may occur."""
    k = e[0]
    if k == "int":
        return "%d" % e[1]
    if k == "var":
        if e[1] not in allowed and e[1] not in ("true", "false"):
            raise XlateError("identifier %r is not one the translation knows in this place (known: %s)" % (e[1], ", ".join(sorted(allowed))))
        return e[1]
    if k == "neg":
        if _ty(e[1]) != "Z":
            raise XlateError("unary minus on a boolean")
        return "(- %s)" % coq(e[1], allowed)
    if k == "not":
        if _ty(e[1]) != "bool":
            raise XlateError("! on a number")
        return "(negb %s)" % coq(e[1], allowed)
    op, a, b = e[1], e[2], e[3]
    ta, tb = _ty(a), _ty(b)
    ca, cb = coq(a, allowed), coq(b, allowed)
    if op in ("||", "&&"):
        if ta != "bool" or tb != "bool":
            raise XlateError("%s on numbers" % op)
        return "(%s %s %s)" % (ca, op, cb)
    if op in ("==", "!="):
        if ta != tb:
            raise XlateError("comparison of a boolean with a number")
        r = "(Bool.eqb %s %s)" % (ca, cb) if ta == "bool" else "(%s =? %s)" % (ca, cb)
        return r if op == "==" else "(negb %s)" % r
    if ta != "Z" or tb != "Z":
        raise XlateError("arithmetic operator %s on booleans" % op)
    if op in ("<", "<=", ">", ">="):
        return "(%s %s? %s)" % (ca, op, cb)
    fn = {"+": "Z.add", "-": "Z.sub", "*": "Z.mul", "/": "Z.quot", "%": "Z.rem", "&": "Z.land", "|": "Z.lor", "^": "Z.lxor",
          "<<": "Z.shiftl", ">>": "Z.shiftr"}[op]
    return "(%s %s %s)" % (fn, ca, cb)


def expr(s, allowed):
    s = s.replace("{{$i}}", " i ").replace("{{len .Model.Fields}}", " n ").replace("{{len $.Model.Fields}}", " n ")
    s = s.replace("reader.Length()", "length")
    s = re.sub(r"\berr\s*==\s*nil\b", "errnil", s)
    s = re.sub(r"\berr\s*!=\s*nil\b", "!errnil", s)
    if "{{" in s:
        raise XlateError("template action left in expression %r" % s)
    return coq(go_expr(s), set(allowed))


def progress_stmt(line):
    """`progress --`, `progress ++`, `progress += e`, `progress -= e`, `progress = e` -> Coq term over `progress`."""
    m = re.match(r"^progress\s*(\+\+|--)$", line)
    if m:
        return "(progress + 1)" if m.group(1) == "++" else "(progress - 1)"
    m = re.match(r"^progress\s*(\+=|-=|=)\s*(.+)$", line)
    if m:
        e = expr(m.group(2), {"progress", "i", "n"})
        return {"+=": "(progress + %s)", "-=": "(progress - %s)", "=": "%s"}[m.group(1)] % e
    raise XlateError("statement on `progress` not understood: %r" % line)


def compose(stmts):
    """sequence of progress updates as one Coq term over `progress`."""
    t = "progress"
    for s in stmts:
        t = s.replace("progress", "\x00").replace("\x00", t)
    return t


# ---------------------------------------------------------------------------------------------- template text
def _func_template(src, recv, name, path):
    m = re.search(r"(?m)^func \(\w+ \*?%s\) %s\(.*?\n}\n" % (recv, name), src, re.S)
    if not m:
        raise XlateError("%s: func (%s) %s not found" % (path, recv, name))
    body = m.group(0)
    ts = re.findall(r"\.Parse\(`(.*?)`\)", body, re.S)
    if len(ts) != 1:
        raise XlateError("%s: %s.%s: expected exactly one template literal, found %d" % (path, recv, name, len(ts)))
    return ts[0], body


def _lines(t):
    """non-empty lines of a template, comments removed (end-of-line comments too: they are not code)"""
    out = []
    for l in t.split("\n"):
        l = re.sub(r"(^|\s)//.*$", "", l).strip()
        if not l:
            continue
        out.append(l)
    return out


def _roles(T):
    """The identifiers of the generated parser by ROLE, not by name: the per-iteration flag H (`for H := false; ...`),
    the position counter P (the variable of the loop's post statement) and the prefix F of the per-field flags
    (`var F_<Field> bool`).  Returns (H, P, F)."""
    m = re.search(r"(?m)^\s*for (\w+) := \w+; .*; (\w+)\s*(?:\+\+|--|[-+]=.*) \{\s*$", T)
    if not m:
        raise XlateError("model.go: ordered loop header `for <flag> := ...; cond; <counter> post {` not found")
    H, P = m.group(1), m.group(2)
    m = re.search(r"(?m)^\s*var (\w+)_\{\{\$f\.Name\}\} bool\b", T)
    if not m:
        raise XlateError("model.go: declaration of the per-field flags `var <prefix>_{{$f.Name}} bool` not found")
    return H, P, m.group(1)


def _canon(t, roles):
    """rename the role identifiers to the canonical handled / progress / handled_<Field>"""
    H, P, F = roles
    t = re.sub(r"\b%s_\{\{\$f\.Name\}\}" % re.escape(F), "\x01", t)
    t = re.sub(r"\b%s\b" % re.escape(H), "\x02", t)
    t = re.sub(r"\b%s\b" % re.escape(P), "\x03", t)
    return t.replace("\x01", "handled_{{$f.Name}}").replace("\x02", "handled").replace("\x03", "progress")


ORD_IF = "{{- if (eq $.Model.Ordered true)}}"
ELSE = "{{- else}}"
END = "{{- end}}"


def templates(repo):
    d = os.path.join(repo, "std", "encoding", "codegen")
    path = os.path.join(d, "model.go")
    src = open(path).read()
    T, body = _func_template(src, "TlvModel", "GenReadFrom", "model.go")
    res = {}
    m = re.findall(r"IsCritical:\s*`([^`]*)`", body)
    if len(m) != 1:
        raise XlateError("model.go: IsCritical string not found")
    iscrit = m[0]
    roles = _roles(T)
    L = _lines(_canon(T, roles))

    def idx(pred, start=0, what=""):
        for k in range(start, len(L)):
            if pred(L[k]):
                return k
        raise XlateError("model.go ModelParse template: %s not found" % what)

    # progress := -1
    k = [l for l in L if re.match(r"^progress\s*:=", l)]
    if len(k) != 1:
        raise XlateError("model.go: expected one `progress := ...`")
    res["init"] = expr(k[0].split(":=", 1)[1], set())
    # outer loop: for { startPos = reader.Pos(); if COND { break } ... }
    a = idx(lambda l: l == "for {", 0, "outer `for {`")
    if L[a + 1] != "startPos = reader.Pos()":
        raise XlateError("model.go: outer loop does not begin with startPos = reader.Pos()")
    m = re.match(r"^if (.+) \{$", L[a + 2])
    if not m or L[a + 3] != "break" or L[a + 4] != "}":
        raise XlateError("model.go: end-of-input test of the outer loop not understood: %r" % L[a + 2:a + 5])
    res["end"] = expr(m.group(1), {"startPos", "length"})
    # ordered / unordered loop header
    b = idx(lambda l: l == '{{- if (eq $.Model.Ordered true)}}', a, "ordered loop header")
    m = re.match(r"^for handled := (\w+); (.+); (.+) \{$", L[b + 1])
    if not m or L[b + 2] != ELSE:
        raise XlateError("model.go: ordered `for handled := ...; cond; post {` not understood: %r" % L[b + 1])
    res["h0"] = expr(m.group(1), set())
    res["ocond"] = expr(m.group(2), {"handled", "progress", "n"})
    res["opost"] = progress_stmt(m.group(3).strip())
    m = re.match(r"^if handled := (\w+); (.+) \{$", L[b + 3])
    if not m or L[b + 4] != END:
        raise XlateError("model.go: unordered `if handled := ...; cond {` not understood: %r" % L[b + 3])
    res["uh0"] = expr(m.group(1), set())
    res["ucond"] = expr(m.group(2), {"handled"})
    known = None        # `known := true; switch typ {...; default: known = false}; if !known { <unknown element> }`
    m = re.match(r"^(\w+) := true$", L[b + 5])
    if m and L[b + 6] == "switch typ {":
        known = m.group(1)
    elif L[b + 5] != "switch typ {":
        raise XlateError("model.go: `switch typ {` expected after the loop header, found %r" % L[b + 5])
    # case clause
    c = idx(lambda l: l == "case {{$f.TypeNum}}:", b, "case {{$f.TypeNum}}:")
    exp = [ORD_IF, None, ELSE, None, END, None, None, "{{$f.GenReadFrom}}", "}"]
    got = L[c + 1:c + 1 + len(exp)]
    for e_, g in zip(exp, got):
        if e_ is not None and e_ != g:
            raise XlateError("model.go: case clause not understood: expected %r, found %r" % (e_, g))
    m1 = re.match(r"^if (.+) \{$", got[1]); m2 = re.match(r"^if (.+) \{$", got[3])
    m3 = re.match(r"^handled = (\w+)$", got[5]); m4 = re.match(r"^handled_\{\{\$f\.Name\}\} = (\w+)$", got[6])
    if not (m1 and m2 and m3 and m4):
        raise XlateError("model.go: case clause statements not understood: %r" % got)
    res["ocase"] = expr(m1.group(1), {"progress", "i", "n"})
    res["ucase"] = expr(m2.group(1), {"progress", "i", "n"})
    res["case_handled"] = expr(m3.group(1), set())
    res["case_mark"] = expr(m4.group(1), set())
    # default clause, up to the not-handled block
    dft = idx(lambda l: l == "default:", c, "default:")
    nh = idx(lambda l: re.match(r"^if .*handled.* \{$", l) is not None and "ignoreCritical" not in l, dft, "`if err == nil && !handled {`")
    D = L[dft + 1:nh]
    if not D or D[-1] != "}":
        raise XlateError("model.go: default clause does not end the switch")
    D = D[:-1]
    if known is not None:
        # the unknown-element statements live in `if !known { ... }` right after the switch; nothing else may assign `known`
        if D[:3] != ["%s = false" % known, "}", "if !%s {" % known]:
            raise XlateError("model.go: `%s` flag of the switch is not used as `default: %s = false }; if !%s {`" % (known, known, known))
        if sum(1 for l in L if re.match(r"^%s\s*(:?=|\+\+|--)" % re.escape(known), l)) != 2:
            raise XlateError("model.go: `%s` is assigned elsewhere too" % known)
        D = D[3:]
    m = re.match(r"^if (.+) \{$", D[0]) if D else None
    if not m or len(D) < 3 or not D[1].startswith("return nil, enc.ErrUnrecognizedField{") or D[2] != "}":
        raise XlateError("model.go: default clause does not begin with the critical-type rejection: %r" % D[:3])
    if "{{.IsCritical}}" not in m.group(1):
        raise XlateError("model.go: the rejection test of the default clause does not use {{.IsCritical}}")
    res["reject"] = expr(m.group(1).replace("{{.IsCritical}}", iscrit), {"ignoreCritical", "typ"})
    res["critical_text"] = iscrit
    onlyord, onlyun = [], []
    mode = "both"; handled = None; skip = 0
    for l in D[3:]:
        if l == ORD_IF:
            if mode != "both":
                raise XlateError("model.go: nested template condition in the default clause")
            mode = "ord"; continue
        if l == ELSE and mode == "ord":
            mode = "un"; continue
        if l == END and mode in ("ord", "un"):
            mode = "both"; continue
        if l.startswith("{{"):
            raise XlateError("model.go: template action %r in the default clause is not understood" % l)
        m = re.match(r"^handled = (\w+)$", l)
        if m:
            if mode != "both" or handled is not None:
                raise XlateError("model.go: `handled` assigned conditionally or twice in the default clause")
            handled = expr(m.group(1), set()); continue
        if l == "err = reader.Skip(int(l))":
            if mode != "both":
                raise XlateError("model.go: conditional Skip in the default clause")
            skip += 1; continue
        if l.startswith("progress"):
            st = progress_stmt(l)
            if mode in ("both", "ord"):
                onlyord.append(st)
            if mode in ("both", "un"):
                onlyun.append(st)
            continue
        raise XlateError("model.go: statement %r in the default clause is not understood" % l)
    if skip != 1:
        raise XlateError("model.go: the default clause calls reader.Skip(int(l)) %d times" % skip)
    if handled is None:
        handled = "handled"          # left as it was
    res["d_handled"] = handled
    res["d_oprogress"] = compose(onlyord)
    res["d_uprogress"] = compose(onlyun)
    # not-handled block
    m = re.match(r"^if (.+) \{$", L[nh])
    res["nh_guard"] = expr(m.group(1), {"errnil", "handled"})
    exp = [ORD_IF, "switch progress {", "{{- range $i, $f := .Model.Fields}}", None, None, "{{$f.GenSkipProcess}}", END, "}", END, "}"]
    got = L[nh + 1:nh + 1 + len(exp)]
    for e_, g in zip(exp, got):
        if e_ is not None and e_ != g:
            raise XlateError("model.go: not-handled block not understood: expected %r, found %r" % (e_, g))
    m1 = re.match(r"^case (.+):$", got[3]); m2 = re.match(r"^handled_\{\{\$f\.Name\}\} = (\w+)$", got[4])
    if not (m1 and m2):
        raise XlateError("model.go: skip case not understood: %r" % got[3:5])
    res["skipcase"] = expr(m1.group(1), {"i", "n"})
    res["skip_mark"] = expr(m2.group(1), set())
    e = L[nh + 1 + len(exp):nh + 4 + len(exp)]
    m = re.match(r"^if (.+) \{$", e[0]) if e else None
    if not m or not e[1].startswith("return nil, enc.ErrFailToParse{"):
        raise XlateError("model.go: error return after the not-handled block not understood: %r" % e)
    res["err_guard"] = expr(m.group(1), {"errnil", "handled"})
    # after the loop: `if !handled_X && err == nil { skip process }`
    f = idx(lambda l: re.match(r"^if .*handled_\{\{\$f\.Name\}\}.* \{$", l) is not None, nh, "final `if !handled_X && err == nil`")
    m = re.match(r"^if (.+) \{$", L[f])
    res["fin_guard"] = expr(m.group(1).replace("handled_{{$f.Name}}", "handled"), {"errnil", "handled"})
    if L[f + 1] != "{{$f.GenSkipProcess}}":
        raise XlateError("model.go: final skip processing not understood")

    # repeated-field readers: statements on `progress` / `handled`
    accounted = [T]

    def field_progress(fname, recv):
        s = open(os.path.join(d, fname)).read()
        t, _ = _func_template(s, recv, "GenReadFrom", fname)
        accounted.append(t)
        ls = [l for l in _lines(_canon(t, roles)) if re.search(r"\b(progress|handled)\b", l)]
        return compose([progress_stmt(l) for l in ls])
    res["seq_progress"] = field_progress("fields_sequence.go", "SequenceField")
    res["map_progress"] = field_progress("map_field.go", "MapField")
    # every other template of the generator must leave the loop state alone
    other = []
    for fn in sorted(os.listdir(d)):
        if not fn.endswith(".go") or fn.endswith("_test.go") or fn.startswith("zz_verif"):
            continue
        s = open(os.path.join(d, fn)).read()
        for mm in re.finditer(r"`([^`]*)`", s, re.S):
            t = mm.group(1)
            if t in accounted:
                continue
            for l in _lines(_canon(t, roles)):
                if re.search(r"\b(progress|handled)\b", l) or "handled_{{$f.Name}}" in l:
                    other.append("%s: %s" % (fn, l))
    if other:
        raise XlateError("a field template touches the parse loop's `progress`/`handled` (not translated): " + "; ".join(other[:4]))
    res["other_progress"] = "progress"
    return res


def emit_coq(t):
    o = []
    o.append("(* GENERATED by translators/codec/tmplgen.py from std/encoding/codegen/{model.go,fields_sequence.go,map_field.go} on every run.")
    o.append("   The control skeleton of the ModelParse template, expression by expression.  Do not edit. *)")
    o.append("From Coq Require Import ZArith Bool.")
    o.append("Open Scope Z_scope.")
    o.append("")
    o.append("(* progress := ... *)")
    o.append("Definition t_init : Z := %s." % t["init"])
    o.append("(* outer loop: startPos = reader.Pos(); if <t_end> { break } *)")
    o.append("Definition t_end (startPos length : Z) : bool := %s." % t["end"])
    o.append("(* ordered models: for handled := <t_h0>; <t_ocond>; <t_opost> { *)")
    o.append("Definition t_h0 : bool := %s." % t["h0"])
    o.append("Definition t_ocond (handled : bool) (progress n : Z) : bool := %s." % t["ocond"])
    o.append("Definition t_opost (progress : Z) : Z := %s." % t["opost"])
    o.append("(* unordered models: if handled := <t_uh0>; <t_ucond> { *)")
    o.append("Definition t_uh0 : bool := %s." % t["uh0"])
    o.append("Definition t_ucond (handled : bool) : bool := %s." % t["ucond"])
    o.append("(* case <TypeNum of field i>: if <t_ocase | t_ucase> { handled = <t_case_handled>; handled_<field> = <t_case_mark>; <field reader> } *)")
    o.append("Definition t_ocase (progress i n : Z) : bool := %s." % t["ocase"])
    o.append("Definition t_ucase (progress i n : Z) : bool := %s." % t["ucase"])
    o.append("Definition t_case_handled : bool := %s." % t["case_handled"])
    o.append("Definition t_case_mark : bool := %s." % t["case_mark"])
    o.append("(* default: if <t_reject> { return ErrUnrecognizedField }   with IsCritical = %s *)" % t["critical_text"])
    o.append("Definition t_reject (ignoreCritical : bool) (typ : Z) : bool := %s." % t["reject"])
    o.append("(* default, then: handled = <t_d_handled>; err = reader.Skip(int(l)); progress statements (ordered / unordered) *)")
    o.append("Definition t_d_handled (handled : bool) : bool := %s." % t["d_handled"])
    o.append("Definition t_d_oprogress (progress : Z) : Z := %s." % t["d_oprogress"])
    o.append("Definition t_d_uprogress (progress : Z) : Z := %s." % t["d_uprogress"])
    o.append("(* if <t_nh_guard> { switch progress { case <t_skipcase i>: handled_<field i> = <t_skip_mark>; <skip processing of field i> } } *)")
    o.append("Definition t_nh_guard (errnil handled : bool) : bool := %s." % t["nh_guard"])
    o.append("Definition t_skipcase (i n : Z) : Z := %s." % t["skipcase"])
    o.append("Definition t_skip_mark : bool := %s." % t["skip_mark"])
    o.append("(* if <t_err_guard> { return ErrFailToParse } *)")
    o.append("Definition t_err_guard (errnil handled : bool) : bool := %s." % t["err_guard"])
    o.append("(* after the loop, per field: if <t_fin_guard> { <skip processing> } *)")
    o.append("Definition t_fin_guard (errnil handled : bool) : bool := %s." % t["fin_guard"])
    o.append("(* statements on `progress` inside the field readers: sequence, map, every other kind *)")
    o.append("Definition t_seq_progress (progress : Z) : Z := %s." % t["seq_progress"])
    o.append("Definition t_map_progress (progress : Z) : Z := %s." % t["map_progress"])
    o.append("Definition t_other_progress (progress : Z) : Z := %s." % t["other_progress"])
    return "\n".join(o) + "\n"


if __name__ == "__main__":
    import sys
    print(emit_coq(templates(sys.argv[1] if len(sys.argv) > 1 else "/repo")))
