"""Shared steps of the Codec family checks (C13, C04)."""
import hashlib, json, os, sys
import vlib
sys.path.insert(0, os.path.join(vlib.VERIF, "translators", "codec"))
import codecgen, tmplgen

TRUSTED = ["Coq kernel 8.16.1", "Coq extraction (ExtrOcamlBasic) + OCaml 4.13.1", "runner/Codec/driver.ml",
           "translators/codec (schemadump through the repository's own codegen front end + verif hook, codecgen.py)",
           "harness/codec (reflection-driven generator, recover/watchdog wrappers)", "go1.26 toolchain"]

ASSUMPTIONS = [
    "Coq 8.16.1 kernel; vm_compute only for schemas_wf (decision on the translated schemas) and the non-vacuity Examples",
    "coq/Codec/Model.v is a hand-written interpreter of the templates of std/encoding/codegen (one clause per field class); it is tied to "
    "the generated code of every model by this run's differential trace (bytes, announced length, decode outcome, parsing context)",
    "coq/Codec/GenSchemas.v is regenerated on this run from the definitions files through codegen.Generator.ProcessDecl (hook zz_verif_codec.go)",
    "Go map iteration order is arbitrary: the model encodes map entries in list order, theorems quantify over that order",
    "extraction: ExtrOcamlBasic only; N, Z, positive, nat stay Coq datatypes",
    "io.ReadFull / io.CopyN over ParseReader.Read are modelled as one read of n bytes (readn)",
    "wire domain of the round-trip statement (Spec.wf_value): required natural/fixedUint/time/string fields present; fixedUint values fit their width; "
    "durations are whole non-negative milliseconds below 2^63 ns; no nil element in a sequence or map; a signature value is absent or non-empty (its length is "
    "the encoder input X_estLen, set for nested models too); an Interest name given to the encoder does not end in a ParametersSha256Digest component; map keys "
    "distinct; bytes < 256; type numbers < 2^64; encoding shorter than 2^63 bytes",
]


def rundir(R):
    """Private scratch directory of this process: several `bin/check C04|C13` may run at the same time (other builders
    call C04 too), so nothing mutable is shared between runs. Removed at exit."""
    if getattr(R, "_codec_rundir", None):
        return R._codec_rundir
    import atexit, shutil
    d = os.path.join(R.work, "run-%d" % os.getpid())
    shutil.rmtree(d, ignore_errors=True)
    os.makedirs(d)
    if not os.environ.get("VERIF_CODEC_KEEP"):      # debugging aid: keep the case files and traces of this run
        atexit.register(lambda: shutil.rmtree(d, ignore_errors=True))
    # stale directories of killed runs (older than 2 hours)
    import time
    for n in os.listdir(R.work):
        q = os.path.join(R.work, n)
        if n.startswith("run-") and q != d and os.path.isdir(q) and time.time() - os.path.getmtime(q) > 7200:
            shutil.rmtree(q, ignore_errors=True)
    R._codec_rundir = d
    return d


def translate(R):
    """schemas from the tree -> GenSchemas.v (write if changed) + schemas.json for the harness. Returns pkgs or None."""
    pkgs, err = codecgen.schemas()
    drain_notes(R)
    if pkgs is None:
        R.proof_problems.append("schema translation failed: " + err[-600:])
        return None
    try:
        text = codecgen.emit_coq(pkgs)
    except codecgen.XlateError as e:
        R.proof_problems.append("schema translation: " + str(e))
        return None
    changed = vlib.write_if_changed(os.path.join(vlib.COQ, "Codec", "GenSchemas.v"), text)
    # the generator's templates (control skeleton of ModelParse, progress statements of the repeated-field readers)
    try:
        tm = tmplgen.templates(vlib.REPO)
        tchanged = vlib.write_if_changed(os.path.join(vlib.COQ, "Codec", "GenTemplates.v"), tmplgen.emit_coq(tm))
        R.coverage["templates"] = dict(gen_templates_rewritten=tchanged, translated={k: v for k, v in tm.items()})
        if tchanged:
            R.log("GenTemplates.v rewritten: the generator's ModelParse template differs from the last translated one")
    except (tmplgen.XlateError, OSError) as e:
        # docs/ROBUST_TRANSLATORS.md rule 2: an unrecognised skeleton is not an alarm.  The committed GenTemplates.v stays (the
        # template_* theorems then speak about the last recognised template); the differential run — every generated parser
        # with unknown-element insertion, ordered walks, skip processing — decides about the tree's templates.
        msg = "translator: the ModelParse template skeleton was not recognised (%s); committed GenTemplates.v kept; the differential run decides" % str(e)[:300]
        R.notes.append(msg)
        R.coverage.setdefault("translation_incomplete", []).append("codegen templates: " + str(e)[:300])
        R.coverage["templates"] = dict(recognised=False, reason=str(e)[:300])
        R.log(msg)
    json.dump(pkgs, open(os.path.join(rundir(R), "schemas.json"), "w"))
    nmodels = sum(len(p["models"]) for p in pkgs)
    ngen = sum(len(p["generated_encoders"]) for p in pkgs)
    R.coverage["translated"] = dict(packages=len(pkgs), models_from_definitions=nmodels, encoders_in_generated_sources=ngen,
                                    gen_schemas_rewritten=changed,
                                    per_package={p["dir"]: len(p["models"]) for p in pkgs})
    R.log("translated %d packages, %d models (%d encoders in generated sources)%s" % (len(pkgs), nmodels, ngen, ", GenSchemas.v rewritten" if changed else ""))
    return pkgs


def prove(R):
    """R.prove("Codec"); when the build stops in Tmpl.v, name the template fact that no longer holds."""
    ok = R.prove("Codec")
    if not ok:
        import re
        try:
            log = open(os.path.join(R.work, "coq-make.log")).read()
            m = re.search(r'File "\./Tmpl\.v", line (\d+)', log)
            if m:
                text = open(os.path.join(vlib.COQ, "Codec", "Tmpl.v")).read().split("\n")[:int(m.group(1))]
                names = re.findall(r"(?m)^\s*(?:Lemma|Theorem)\s+([A-Za-z_0-9']+)", "\n".join(text))
                gen = open(os.path.join(vlib.COQ, "Codec", "GenTemplates.v")).read()
                fact = names[-1] if names else "?"
                defn = ""
                mm = re.search(r"(?m)^Definition t_%s\b.*$" % re.escape(fact[2:]), gen) if fact.startswith("f_") else None
                if mm:
                    defn = " — translated from the template: " + mm.group(0)
                msg = ("generator template: %s of coq/Codec/Tmpl.v no longer holds for the translated template "
                       "(the generated parsers are no longer the loop the C13/C04 theorems are about)%s" % (fact, defn))
                R.proof_problems.append(msg)
                R.log(msg)
                R.coverage.setdefault("templates", {})["broken_fact"] = fact
        except OSError:
            pass
    return ok


def build(R, pkgs):
    """extracted runner + Go harness. Returns (runner_exe, harness_exe) or None."""
    ok, exe, log = vlib.extract_build("Codec")
    if not ok:
        R.proof_problems.append("extraction/OCaml build of the Codec model failed")
        R.log(log[-1500:])
        return None
    # keep a private copy: another check of the family may rebuild work/Codec/ml concurrently
    import shutil
    rexe = os.path.join(rundir(R), "runner")
    with vlib.flock("ml-Codec"):
        shutil.copy(exe, rexe)
    hexe = os.path.join(rundir(R), "h.test")
    ok, log = codecgen.build_harness(pkgs, hexe)
    drain_notes(R)
    if not ok:
        R.proof_problems.append("Go harness for the generated codecs no longer builds against the tree: " + log[-600:])
        R.log(log[-2000:])
        return None
    return rexe, hexe


def drain_notes(R):
    while codecgen.WALL_NOTES:
        m = codecgen.WALL_NOTES.pop(0)
        R.notes.append(m); R.log(m)


def run_harness(R, hexe, test, out, env_extra, timeout=1200):
    env = vlib.goenv()
    env.update(VERIF_SCHEMAS=os.path.join(rundir(R), "schemas.json"), VERIF_SEED=str(R.seed), VERIF_OUT=out)
    env.update(env_extra)
    rc, o = codecgen._sh([hexe, "-test.run", "^" + test + "$", "-test.count=1", "-test.timeout=0"], env=env, timeout=timeout, cwd=rundir(R))
    drain_notes(R)
    return rc, o


def run_runner(R, rexe, trace, timeout=1800):
    with open(trace, errors="replace") as f:
        data = f.read()
    rc, out = codecgen._sh([rexe], stdin=data, timeout=timeout)
    drain_notes(R)
    return rc, out, data.split("\n")


def sha(s):
    return hashlib.sha1(s.encode()).hexdigest()
