"""Shared steps of the Codec family checks (C13, C04)."""
import hashlib, json, os, sys
import vlib
sys.path.insert(0, os.path.join(vlib.VERIF, "translators", "codec"))
import codecgen

TRUSTED = ["Coq kernel 8.16.1", "Coq extraction (ExtrOcamlBasic) + OCaml 4.13.1", "runner/Codec/driver.ml",
           "translators/codec (schemadump through the repository's own codegen front end + verif hook, codecgen.py)",
           "harness/codec (reflection-driven generator, recover/watchdog wrappers)", "go1.26 toolchain"]

ASSUMPTIONS = [
    "Coq 8.16.1 kernel; vm_compute only for schemas_wf (decision on the translated schemas) and the non-vacuity Examples",
    "coq/Codec/Model.v is a hand-written interpreter of the templates of std/encoding/codegen (one clause per field class); it is tied to "
    "the generated code of every model by this run's differential trace (bytes, announced length, decode outcome, parsing context)",
    "coq/Codec/GenSchemas.v is regenerated on this run from the definitions files through codegen.Generator.ProcessDecl (hook zz_verif_codec.go)",
    "Go map iteration order is arbitrary: the model encodes map entries in list order, theorems quantify over that order",
    "extraction: ExtrOcamlBasic only; N, Z, positive, nat stay Coq datatypes",
    "io.ReadFull / io.CopyN over ParseReader.Read are modelled as one read of n bytes (readn)",
    "wire domain of the round-trip statement (Spec.wf_value): required natural/fixedUint/time/string fields present; fixedUint values fit their width; "
    "durations are whole non-negative milliseconds below 2^63 ns; no nil element in a sequence or map; a signature value is absent or non-empty (its length is "
    "the encoder input X_estLen, set for nested models too); an Interest name given to the encoder does not end in a ParametersSha256Digest component; map keys "
    "distinct; bytes < 256; type numbers < 2^64; encoding shorter than 2^63 bytes",
]


def rundir(R):
    """Private scratch directory of this process: several `bin/check C04|C13` may run at the same time (other builders
    call C04 too), so nothing mutable is shared between runs. Removed at exit."""
    if getattr(R, "_codec_rundir", None):
        return R._codec_rundir
    import atexit, shutil
    d = os.path.join(R.work, "run-%d" % os.getpid())
    shutil.rmtree(d, ignore_errors=True)
    os.makedirs(d)
    if not os.environ.get("VERIF_CODEC_KEEP"):      # debugging aid: keep the case files and traces of this run
        atexit.register(lambda: shutil.rmtree(d, ignore_errors=True))
    # stale directories of killed runs (older than 2 hours)
    import time
    for n in os.listdir(R.work):
        q = os.path.join(R.work, n)
        if n.startswith("run-") and q != d and os.path.isdir(q) and time.time() - os.path.getmtime(q) > 7200:
            shutil.rmtree(q, ignore_errors=True)
    R._codec_rundir = d
    return d


def translate(R):
    """schemas from the tree -> GenSchemas.v (write if changed) + schemas.json for the harness. Returns pkgs or None."""
    pkgs, err = codecgen.schemas()
    if pkgs is None:
        R.proof_problems.append("schema translation failed: " + err[-600:])
        return None
    try:
        text = codecgen.emit_coq(pkgs)
    except codecgen.XlateError as e:
        R.proof_problems.append("schema translation: " + str(e))
        return None
    changed = vlib.write_if_changed(os.path.join(vlib.COQ, "Codec", "GenSchemas.v"), text)
    json.dump(pkgs, open(os.path.join(rundir(R), "schemas.json"), "w"))
    nmodels = sum(len(p["models"]) for p in pkgs)
    ngen = sum(len(p["generated_encoders"]) for p in pkgs)
    R.coverage["translated"] = dict(packages=len(pkgs), models_from_definitions=nmodels, encoders_in_generated_sources=ngen,
                                    gen_schemas_rewritten=changed,
                                    per_package={p["dir"]: len(p["models"]) for p in pkgs})
    R.log("translated %d packages, %d models (%d encoders in generated sources)%s" % (len(pkgs), nmodels, ngen, ", GenSchemas.v rewritten" if changed else ""))
    return pkgs


def build(R, pkgs):
    """extracted runner + Go harness. Returns (runner_exe, harness_exe) or None."""
    ok, exe, log = vlib.extract_build("Codec")
    if not ok:
        R.proof_problems.append("extraction/OCaml build of the Codec model failed")
        R.log(log[-1500:])
        return None
    # keep a private copy: another check of the family may rebuild work/Codec/ml concurrently
    import shutil
    rexe = os.path.join(rundir(R), "runner")
    with vlib.flock("ml-Codec"):
        shutil.copy(exe, rexe)
    hexe = os.path.join(rundir(R), "h.test")
    ok, log = codecgen.build_harness(pkgs, hexe)
    if not ok:
        R.proof_problems.append("Go harness for the generated codecs no longer builds against the tree: " + log[-600:])
        R.log(log[-2000:])
        return None
    return rexe, hexe


def run_harness(R, hexe, test, out, env_extra, timeout=1200):
    env = vlib.goenv()
    env.update(VERIF_SCHEMAS=os.path.join(rundir(R), "schemas.json"), VERIF_SEED=str(R.seed), VERIF_OUT=out)
    env.update(env_extra)
    rc, o = vlib.sh([hexe, "-test.run", "^" + test + "$", "-test.count=1", "-test.timeout=0"], env=env, timeout=timeout, cwd=rundir(R))
    return rc, o


def run_runner(R, rexe, trace, timeout=1800):
    with open(trace, errors="replace") as f:
        data = f.read()
    rc, out = vlib.sh([rexe], stdin=data, timeout=timeout)
    return rc, out, data.split("\n")


def sha(s):
    return hashlib.sha1(s.encode()).hexdigest()
