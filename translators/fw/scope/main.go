// translators/fw/scope — regenerates coq/Fw/GenScope.v from the Go sources of the repository under verification.
//
// Face scope (Local / NonLocal) is fixed when a transport is constructed. This program reads, with go/parser + go/ast
// (std only), the scope-setting statements of every transport constructor of fw/face and the switch of
// defn.URI.Scope() (fw/defn/uri.go), and writes them as a table of small expressions (Fw/ScopeDefs.v: sexpr):
//
//	SLocal | SNonLocal                    defn.Local / defn.NonLocal
//	SIfLoop a b                           if the remote address parsed from remoteURI is a loopback IP then a else b
//	SUriScope                             remoteURI.Scope()  (evaluated through the translated switch for the URI type)
//	SOther                                anything this translator does not understand (the classification theorem then fails)
//
// A constructor body is interpreted statement by statement for the two places a scope can live: the local variable
// `scope` and the field `t.scope` (set by makeTransportBase's 4th argument or assigned directly).
// usage: go run main.go <repo> <out.v>     (writes only if the content changed; exit 1 if a constructor is missing)
package main

import (
	"fmt"
	"go/ast"
	"go/parser"
	"go/token"
	"os"
	"path/filepath"
	"sort"
	"strings"
)

func die(format string, a ...any) {
	fmt.Fprintf(os.Stderr, "translators/fw/scope: "+format+"\n", a...)
	os.Exit(1)
}

func parse(fset *token.FileSet, path string) *ast.File {
	f, err := parser.ParseFile(fset, path, nil, 0)
	if err != nil {
		die("parse %s: %v", path, err)
	}
	return f
}

func containsIdent(n ast.Node, name string) bool {
	found := false
	ast.Inspect(n, func(x ast.Node) bool {
		if id, ok := x.(*ast.Ident); ok && id.Name == name {
			found = true
		}
		return !found
	})
	return found
}

// selector text like "defn.Local", "t.scope"
func selText(e ast.Expr) string {
	switch v := e.(type) {
	case *ast.Ident:
		return v.Name
	case *ast.SelectorExpr:
		return selText(v.X) + "." + v.Sel.Name
	}
	return ""
}

type interp struct {
	env          map[string]string // "scope", "t.scope" -> sexpr
	ipFromRemote map[string]bool   // variables holding net.ParseIP(<something of the remote URI>)
	remoteVar    string            // name of the remote URI variable ("remoteURI", or "u" inside URI.Scope)
}

func (in *interp) scopeExpr(e ast.Expr) string {
	switch v := e.(type) {
	case *ast.SelectorExpr:
		switch selText(v) {
		case "defn.Local":
			return "SLocal"
		case "defn.NonLocal":
			return "SNonLocal"
		}
	case *ast.Ident:
		switch v.Name {
		case "Local":
			return "SLocal"
		case "NonLocal":
			return "SNonLocal"
		case "scope":
			if s, ok := in.env["scope"]; ok {
				return s
			}
		}
	case *ast.CallExpr:
		if sel, ok := v.Fun.(*ast.SelectorExpr); ok && sel.Sel.Name == "Scope" && len(v.Args) == 0 && selText(sel.X) == in.remoteVar {
			return "SUriScope"
		}
	}
	return "SOther"
}

// is the expression "the remote address is a loopback IP"?  ip.IsLoopback() / ip != nil && ip.IsLoopback() /
// net.ParseIP(<remote>).IsLoopback(), where ip was parsed from the remote URI
func (in *interp) loopbackCond(e ast.Expr) bool {
	switch v := e.(type) {
	case *ast.ParenExpr:
		return in.loopbackCond(v.X)
	case *ast.BinaryExpr:
		if v.Op == token.LAND {
			// (ip != nil) && ip.IsLoopback()
			if b, ok := v.X.(*ast.BinaryExpr); ok && b.Op == token.NEQ && selText(b.Y) == "nil" {
				return in.loopbackCond(v.Y)
			}
		}
	case *ast.CallExpr:
		sel, ok := v.Fun.(*ast.SelectorExpr)
		if !ok || sel.Sel.Name != "IsLoopback" || len(v.Args) != 0 {
			return false
		}
		if id, ok := sel.X.(*ast.Ident); ok {
			return in.ipFromRemote[id.Name]
		}
		if c, ok := sel.X.(*ast.CallExpr); ok && selText(c.Fun) == "net.ParseIP" {
			return containsIdent(c, in.remoteVar)
		}
	}
	return false
}

func copyEnv(m map[string]string) map[string]string {
	c := map[string]string{}
	for k, v := range m {
		c[k] = v
	}
	return c
}

func (in *interp) stmts(list []ast.Stmt) {
	for _, s := range list {
		in.stmt(s)
	}
}

func (in *interp) stmt(s ast.Stmt) {
	switch v := s.(type) {
	case *ast.AssignStmt:
		for i, lhs := range v.Lhs {
			if i >= len(v.Rhs) {
				break
			}
			key := selText(lhs)
			switch key {
			case "scope", "t.scope":
				in.env[key] = in.scopeExpr(v.Rhs[i])
			default:
				if id, ok := lhs.(*ast.Ident); ok {
					if c, ok := v.Rhs[i].(*ast.CallExpr); ok && selText(c.Fun) == "net.ParseIP" {
						in.ipFromRemote[id.Name] = containsIdent(c, in.remoteVar)
					}
				}
			}
		}
	case *ast.ExprStmt:
		if c, ok := v.X.(*ast.CallExpr); ok && selText(c.Fun) == "t.makeTransportBase" && len(c.Args) >= 4 {
			in.env["t.scope"] = in.scopeExpr(c.Args[3])
		}
	case *ast.IfStmt:
		thenI := &interp{env: copyEnv(in.env), ipFromRemote: in.ipFromRemote, remoteVar: in.remoteVar}
		thenI.stmts(v.Body.List)
		elseI := &interp{env: copyEnv(in.env), ipFromRemote: in.ipFromRemote, remoteVar: in.remoteVar}
		if v.Else != nil {
			switch e := v.Else.(type) {
			case *ast.BlockStmt:
				elseI.stmts(e.List)
			default:
				elseI.stmt(e)
			}
		}
		loop := in.loopbackCond(v.Cond)
		for _, key := range []string{"scope", "t.scope"} {
			a, aok := thenI.env[key]
			b, bok := elseI.env[key]
			if !aok && !bok {
				continue
			}
			if a == b {
				in.env[key] = a
			} else if loop && aok && bok {
				in.env[key] = "SIfLoop (" + a + ") (" + b + ")"
			} else {
				in.env[key] = "SOther"
			}
		}
	case *ast.BlockStmt:
		in.stmts(v.List)
	}
}

// the value returned by a statement list of URI.Scope(): `return X` or `if <loopback> { return A }; return B`
func (in *interp) returned(list []ast.Stmt) string {
	for i, s := range list {
		switch v := s.(type) {
		case *ast.ReturnStmt:
			if len(v.Results) == 1 {
				return in.scopeExpr(v.Results[0])
			}
			return "SOther"
		case *ast.IfStmt:
			if in.loopbackCond(v.Cond) && v.Else == nil {
				a := in.returned(v.Body.List)
				b := in.returned(list[i+1:])
				return "SIfLoop (" + a + ") (" + b + ")"
			}
			return "SOther"
		}
	}
	return "SOther"
}

func findFunc(f *ast.File, name string, recv string) *ast.FuncDecl {
	for _, d := range f.Decls {
		fd, ok := d.(*ast.FuncDecl)
		if !ok || fd.Name.Name != name || fd.Body == nil {
			continue
		}
		if recv == "" && fd.Recv == nil {
			return fd
		}
		if recv != "" && fd.Recv != nil && len(fd.Recv.List) == 1 && strings.HasSuffix(selTextType(fd.Recv.List[0].Type), recv) {
			return fd
		}
	}
	return nil
}

func selTextType(e ast.Expr) string {
	if s, ok := e.(*ast.StarExpr); ok {
		return selText(s.X)
	}
	return selText(e)
}

// URI type of the remote URI of a constructor: from defn.Make*FaceURI calls assigned to remoteURI or passed as the first
// argument of makeTransportBase, else from the scheme literals remoteURI.Scheme() is compared with
func remoteURIType(fd *ast.FuncDecl) string {
	byFunc := map[string]string{"MakeTCPFaceURI": "tcpURI", "MakeUDPFaceURI": "udpURI", "MakeUnixFaceURI": "unixURI",
		"MakeFDFaceURI": "fdURI", "MakeInternalFaceURI": "internalURI", "MakeNullFaceURI": "nullURI", "MakeDevFaceURI": "devURI",
		"MakeWebSocketClientFaceURI": "wsclientURI", "MakeWebSocketServerFaceURI": "wsURI"}
	res := ""
	ast.Inspect(fd.Body, func(n ast.Node) bool {
		switch v := n.(type) {
		case *ast.AssignStmt:
			for i, lhs := range v.Lhs {
				if selText(lhs) == "remoteURI" && i < len(v.Rhs) {
					if c, ok := v.Rhs[i].(*ast.CallExpr); ok {
						if t, ok := byFunc[strings.TrimPrefix(selText(c.Fun), "defn.")]; ok {
							res = t
						}
					}
				}
			}
		case *ast.CallExpr:
			if selText(v.Fun) == "t.makeTransportBase" && len(v.Args) >= 1 && res == "" {
				if c, ok := v.Args[0].(*ast.CallExpr); ok {
					if t, ok := byFunc[strings.TrimPrefix(selText(c.Fun), "defn.")]; ok {
						res = t
					}
				}
			}
		case *ast.BinaryExpr:
			if res == "" && (v.Op == token.NEQ || v.Op == token.EQL) {
				if c, ok := v.X.(*ast.CallExpr); ok && selText(c.Fun) == "remoteURI.Scheme" {
					if lit, ok := v.Y.(*ast.BasicLit); ok {
						s := strings.Trim(lit.Value, "\"")
						switch {
						case strings.HasPrefix(s, "tcp"):
							res = "tcpURI"
						case strings.HasPrefix(s, "udp"):
							res = "udpURI"
						case s == "fd":
							res = "fdURI"
						case s == "unix":
							res = "unixURI"
						}
					}
				}
			}
		}
		return true
	})
	if res == "" {
		res = "unknownURI"
	}
	return res
}

func main() {
	if len(os.Args) != 3 {
		die("usage: main <repo> <out.v>")
	}
	repo, out := os.Args[1], os.Args[2]
	fset := token.NewFileSet()

	// URI types in declaration order (iota)
	uri := parse(fset, filepath.Join(repo, "fw/defn/uri.go"))
	var uriTypes []string
	for _, d := range uri.Decls {
		gd, ok := d.(*ast.GenDecl)
		if !ok || gd.Tok != token.CONST {
			continue
		}
		isBlock := false
		for _, sp := range gd.Specs {
			vs := sp.(*ast.ValueSpec)
			if selText(vs.Type) == "URIType" {
				isBlock = true
			}
		}
		if isBlock {
			for _, sp := range gd.Specs {
				for _, n := range sp.(*ast.ValueSpec).Names {
					uriTypes = append(uriTypes, n.Name)
				}
			}
		}
	}
	if len(uriTypes) == 0 {
		die("URIType constants not found in fw/defn/uri.go")
	}
	idx := map[string]int{}
	for i, n := range uriTypes {
		idx[n] = i
	}

	// defn.URI.Scope()
	sc := findFunc(uri, "Scope", "URI")
	if sc == nil {
		die("func (u *URI) Scope not found")
	}
	uin := &interp{env: map[string]string{}, ipFromRemote: map[string]bool{}, remoteVar: "u"}
	cases := map[string]string{}
	def := "SOther"
	for i, s := range sc.Body.List {
		if sw, ok := s.(*ast.SwitchStmt); ok && selText(sw.Tag) == "u.uriType" {
			for _, cc := range sw.Body.List {
				cl := cc.(*ast.CaseClause)
				v := uin.returned(cl.Body)
				for _, e := range cl.List {
					cases[selText(e)] = v
				}
				if cl.List == nil {
					def = v
				}
			}
			if def == "SOther" {
				def = uin.returned(sc.Body.List[i+1:])
			}
		}
	}

	// constructors
	type ctor struct{ id int; name, file, recv string }
	ctors := []ctor{
		{0, "MakeUnicastTCPTransport", "unicast-tcp-transport.go", ""},
		{1, "AcceptUnicastTCPTransport", "unicast-tcp-transport.go", ""},
		{2, "MakeUnicastUDPTransport", "unicast-udp-transport.go", ""},
		{3, "MakeUnixStreamTransport", "unix-stream-transport.go", ""},
		{4, "NewWebSocketTransport", "web-socket-transport.go", ""},
		{5, "MakeInternalTransport", "internal-transport.go", ""},
		{6, "MakeMulticastUDPTransport", "multicast-udp-transport.go", ""},
		{7, "MakeNullTransport", "null-transport.go", ""},
	}
	var b strings.Builder
	b.WriteString("(* Fw/GenScope.v — GENERATED by translators/fw/scope/main.go from fw/face/*-transport.go and fw/defn/uri.go; do not edit. *)\n")
	b.WriteString("From Coq Require Import List NArith.\nFrom Fw Require Import ScopeDefs.\nImport ListNotations.\nOpen Scope N_scope.\n\n")
	b.WriteString("(* URIType constants of fw/defn/uri.go, in declaration order *)\n")
	for i, n := range uriTypes {
		fmt.Fprintf(&b, "Definition %s : N := %d.\n", n, i)
	}
	b.WriteString("\n(* func (u *URI) Scope(): the switch on u.uriType (canonical URIs) and the value after the switch *)\n")
	b.WriteString("Definition uri_scope_cases : list (N * sexpr) :=\n  [")
	keys := make([]string, 0, len(cases))
	for k := range cases {
		if _, ok := idx[k]; !ok {
			die("URI.Scope() has a case %q that is not a URIType constant", k)
		}
		keys = append(keys, k)
	}
	sort.Slice(keys, func(i, j int) bool { return idx[keys[i]] < idx[keys[j]] })
	for i, k := range keys {
		if i > 0 {
			b.WriteString(";\n   ")
		}
		fmt.Fprintf(&b, "(%s, %s)", k, cases[k])
	}
	b.WriteString("].\n")
	fmt.Fprintf(&b, "Definition uri_scope_default : sexpr := %s.\n", def)
	b.WriteString("\n(* (constructor, URI type of its remote URI, the scope it gives the transport) *)\n")
	b.WriteString("Definition ctor_rules : list (N * N * sexpr) :=\n  [")
	for i, c := range ctors {
		f := parse(fset, filepath.Join(repo, "fw/face", c.file))
		fd := findFunc(f, c.name, "")
		if fd == nil {
			die("constructor %s not found in fw/face/%s", c.name, c.file)
		}
		in := &interp{env: map[string]string{}, ipFromRemote: map[string]bool{}, remoteVar: "remoteURI"}
		in.stmts(fd.Body.List)
		rule, ok := in.env["t.scope"]
		if !ok {
			rule = "SOther"
		}
		if i > 0 {
			b.WriteString(";\n   ")
		}
		fmt.Fprintf(&b, "(%d (* %s *), %s, %s)", c.id, c.name, remoteURIType(fd), rule)
	}
	b.WriteString("].\n")
	text := b.String()
	if old, err := os.ReadFile(out); err == nil && string(old) == text {
		return
	}
	if err := os.WriteFile(out, []byte(text), 0o644); err != nil {
		die("write %s: %v", out, err)
	}
	fmt.Println("updated", out)
}
