// translators/fw/scope — CROSS-CHECK of the observed face-scope table (coq/FwScope/GenScope.v is generated from the scopes the real
// transport constructors assign, see translators/fw/scope_table.py): reads, with go/parser + go/ast (std only), the scope-setting
// statements of every transport constructor of fw/face and the switch of defn.URI.Scope(), and prints what they give for a
// loopback / non-loopback remote address:
//
//	ast <constructor id> <constructor> <remote is loopback 0|1> <1 local | 0 non-local | ? not understood>
//
// Nothing is matched by local names (transport variable = whatever makeTransportBase is called on, scope variable = its 4th
// argument, remote URI variable = its 1st argument, IP variable = anything assigned from net.ParseIP of the remote URI).
// Anything not POSITIVELY recognised yields `?`: a statement of a kind this reader does not interpret that mentions the scope
// field / scope variable, or any other method called directly on the transport variable (it could set the scope), makes the
// result unknown. The output is only compared with the observations; `?` or a disagreement is a note, never an alarm.
// usage: go run main.go <repo>
package main

import (
	"fmt"
	"go/ast"
	"go/parser"
	"go/token"
	"os"
	"path/filepath"
	"strings"
)

func die(format string, a ...any) {
	fmt.Fprintf(os.Stderr, "translators/fw/scope: "+format+"\n", a...)
	os.Exit(1)
}

func parse(fset *token.FileSet, path string) *ast.File {
	f, err := parser.ParseFile(fset, path, nil, 0)
	if err != nil {
		die("parse %s: %v", path, err)
	}
	return f
}

func containsIdent(n ast.Node, name string) bool {
	found := false
	ast.Inspect(n, func(x ast.Node) bool {
		if id, ok := x.(*ast.Ident); ok && id.Name == name {
			found = true
		}
		return !found
	})
	return found
}

// selector text like "defn.Local", "t.scope"
func selText(e ast.Expr) string {
	switch v := e.(type) {
	case *ast.Ident:
		return v.Name
	case *ast.SelectorExpr:
		return selText(v.X) + "." + v.Sel.Name
	}
	return ""
}

type interp struct {
	env          map[string]string // "scope" (the local scope variable), "t.scope" (the transport's field) -> sexpr
	ipFromRemote map[string]bool   // variables holding net.ParseIP(<something of the remote URI>)
	remoteVar    string            // name of the remote URI variable (1st argument of makeTransportBase; receiver inside URI.Scope)
	transVar     string            // name of the transport variable makeTransportBase is called on
	scopeVar     string            // name of the local variable passed as the scope argument ("" if none)
}

func (in *interp) sub() *interp {
	return &interp{env: copyEnv(in.env), ipFromRemote: in.ipFromRemote, remoteVar: in.remoteVar, transVar: in.transVar, scopeVar: in.scopeVar}
}

// key of an assignable place: "scope" for the local scope variable, "t.scope" for the transport's scope field
func (in *interp) place(e ast.Expr) string {
	switch v := e.(type) {
	case *ast.Ident:
		if in.scopeVar != "" && v.Name == in.scopeVar {
			return "scope"
		}
	case *ast.SelectorExpr:
		if id, ok := v.X.(*ast.Ident); ok && id.Name == in.transVar && v.Sel.Name == "scope" {
			return "t.scope"
		}
	}
	return ""
}

func (in *interp) scopeExpr(e ast.Expr) string {
	switch v := e.(type) {
	case *ast.SelectorExpr:
		switch v.Sel.Name { // <package>.Local / <package>.NonLocal, whatever the import is called
		case "Local":
			return "SLocal"
		case "NonLocal":
			return "SNonLocal"
		}
	case *ast.Ident:
		switch v.Name {
		case "Local":
			return "SLocal"
		case "NonLocal":
			return "SNonLocal"
		}
		if in.scopeVar != "" && v.Name == in.scopeVar {
			if s, ok := in.env["scope"]; ok {
				return s
			}
		}
	case *ast.CallExpr:
		if sel, ok := v.Fun.(*ast.SelectorExpr); ok && sel.Sel.Name == "Scope" && len(v.Args) == 0 && selText(sel.X) == in.remoteVar {
			return "SUriScope"
		}
	}
	return "SOther"
}

// is the expression "the remote address is a loopback IP"?  ip.IsLoopback() / ip != nil && ip.IsLoopback() /
// net.ParseIP(<remote>).IsLoopback(), where ip was parsed from the remote URI
func (in *interp) loopbackCond(e ast.Expr) bool {
	switch v := e.(type) {
	case *ast.ParenExpr:
		return in.loopbackCond(v.X)
	case *ast.BinaryExpr:
		if v.Op == token.LAND {
			// (ip != nil) && ip.IsLoopback()
			if b, ok := v.X.(*ast.BinaryExpr); ok && b.Op == token.NEQ && selText(b.Y) == "nil" {
				return in.loopbackCond(v.Y)
			}
		}
	case *ast.CallExpr:
		sel, ok := v.Fun.(*ast.SelectorExpr)
		if !ok || sel.Sel.Name != "IsLoopback" || len(v.Args) != 0 {
			return false
		}
		if id, ok := sel.X.(*ast.Ident); ok {
			return in.ipFromRemote[id.Name]
		}
		if c, ok := sel.X.(*ast.CallExpr); ok && selText(c.Fun) == "net.ParseIP" {
			return containsIdent(c, in.remoteVar)
		}
	}
	return false
}

func copyEnv(m map[string]string) map[string]string {
	c := map[string]string{}
	for k, v := range m {
		c[k] = v
	}
	return c
}

func (in *interp) stmts(list []ast.Stmt) {
	for _, s := range list {
		in.stmt(s)
	}
}

func (in *interp) stmt(s ast.Stmt) {
	switch v := s.(type) {
	case *ast.AssignStmt:
		for i, lhs := range v.Lhs {
			if i >= len(v.Rhs) {
				break
			}
			key := in.place(lhs)
			switch key {
			case "scope", "t.scope":
				in.env[key] = in.scopeExpr(v.Rhs[i])
			default:
				if id, ok := lhs.(*ast.Ident); ok {
					if c, ok := v.Rhs[i].(*ast.CallExpr); ok && selText(c.Fun) == "net.ParseIP" {
						in.ipFromRemote[id.Name] = containsIdent(c, in.remoteVar)
					}
				}
			}
		}
	case *ast.DeclStmt:
		// var scope defn.Scope = defn.NonLocal
		if gd, ok := v.Decl.(*ast.GenDecl); ok {
			for _, sp := range gd.Specs {
				if vs, ok := sp.(*ast.ValueSpec); ok {
					for i, n := range vs.Names {
						if in.place(n) == "scope" && i < len(vs.Values) {
							in.env["scope"] = in.scopeExpr(vs.Values[i])
						} else if i < len(vs.Values) {
							if c, ok := vs.Values[i].(*ast.CallExpr); ok && selText(c.Fun) == "net.ParseIP" {
								in.ipFromRemote[n.Name] = containsIdent(c, in.remoteVar)
							}
						}
					}
				}
			}
		}
	case *ast.ExprStmt:
		if c, ok := v.X.(*ast.CallExpr); ok && len(c.Args) >= 4 {
			if sel, ok := c.Fun.(*ast.SelectorExpr); ok && sel.Sel.Name == "makeTransportBase" {
				in.env["t.scope"] = in.scopeExpr(c.Args[3])
			}
		}
	case *ast.IfStmt:
		thenI := in.sub()
		thenI.stmts(v.Body.List)
		elseI := in.sub()
		if v.Else != nil {
			switch e := v.Else.(type) {
			case *ast.BlockStmt:
				elseI.stmts(e.List)
			default:
				elseI.stmt(e)
			}
		}
		loop := in.loopbackCond(v.Cond)
		for _, key := range []string{"scope", "t.scope"} {
			a, aok := thenI.env[key]
			b, bok := elseI.env[key]
			if !aok && !bok {
				continue
			}
			if a == b {
				in.env[key] = a
			} else if loop && aok && bok {
				in.env[key] = "SIfLoop (" + a + ") (" + b + ")"
			} else {
				in.env[key] = "SOther"
			}
		}
	case *ast.BlockStmt:
		in.stmts(v.List)
	case *ast.ReturnStmt:
	default:
		// a statement of a kind not interpreted here: if it could touch the scope, the result is unknown
		if in.touchesScope(s) {
			in.env["t.scope"] = "SOther"
			if in.scopeVar != "" {
				in.env["scope"] = "SOther"
			}
		}
	}
	// whatever the kind: another method called directly on the transport variable could set the scope
	if es, ok := s.(*ast.ExprStmt); ok {
		if c, ok := es.X.(*ast.CallExpr); ok {
			if sel, ok := c.Fun.(*ast.SelectorExpr); ok && sel.Sel.Name != "makeTransportBase" {
				if id, ok := sel.X.(*ast.Ident); ok && id.Name == in.transVar && in.transVar != "" && methodMayTouchScope(sel.Sel.Name) {
					in.env["t.scope"] = "SOther"
				}
			}
		}
	}
}

// all parsed files of package face (to look at the bodies of methods called on the transport)
var pkgParsed []*ast.File

// a method of the package whose body mentions a field called scope (or that cannot be found) may set the scope
func methodMayTouchScope(name string) bool {
	found := false
	for _, f := range pkgParsed {
		for _, d := range f.Decls {
			fd, ok := d.(*ast.FuncDecl)
			if !ok || fd.Recv == nil || fd.Name.Name != name || fd.Body == nil {
				continue
			}
			found = true
			touches := false
			ast.Inspect(fd.Body, func(x ast.Node) bool {
				if sel, ok := x.(*ast.SelectorExpr); ok && sel.Sel.Name == "scope" {
					touches = true
				}
				return !touches
			})
			if touches {
				return true
			}
		}
	}
	return !found
}

func (in *interp) touchesScope(n ast.Node) bool {
	found := false
	ast.Inspect(n, func(x ast.Node) bool {
		switch v := x.(type) {
		case *ast.SelectorExpr:
			if id, ok := v.X.(*ast.Ident); ok && id.Name == in.transVar && v.Sel.Name == "scope" {
				found = true
			}
		case *ast.Ident:
			if in.scopeVar != "" && v.Name == in.scopeVar {
				found = true
			}
		}
		return !found
	})
	return found
}

// the value returned by a statement list of URI.Scope(): `return X` or `if <loopback> { return A }; return B`
func (in *interp) returned(list []ast.Stmt) string {
	for i, s := range list {
		switch v := s.(type) {
		case *ast.ReturnStmt:
			if len(v.Results) == 1 {
				return in.scopeExpr(v.Results[0])
			}
			return "SOther"
		case *ast.IfStmt:
			if in.loopbackCond(v.Cond) && v.Else == nil {
				a := in.returned(v.Body.List)
				b := in.returned(list[i+1:])
				return "SIfLoop (" + a + ") (" + b + ")"
			}
			return "SOther"
		}
	}
	return "SOther"
}

func findFunc(f *ast.File, name string, recv string) *ast.FuncDecl {
	for _, d := range f.Decls {
		fd, ok := d.(*ast.FuncDecl)
		if !ok || fd.Name.Name != name || fd.Body == nil {
			continue
		}
		if recv == "" && fd.Recv == nil {
			return fd
		}
		if recv != "" && fd.Recv != nil && len(fd.Recv.List) == 1 && strings.HasSuffix(selTextType(fd.Recv.List[0].Type), recv) {
			return fd
		}
	}
	return nil
}

func selTextType(e ast.Expr) string {
	if s, ok := e.(*ast.StarExpr); ok {
		return selText(s.X)
	}
	return selText(e)
}

// URI type of the remote URI of a constructor: from defn.Make*FaceURI calls assigned to remoteURI or passed as the first
// argument of makeTransportBase, else from the scheme literals remoteURI.Scheme() is compared with
func remoteURIType(fd *ast.FuncDecl, remoteVar string) string {
	byFunc := map[string]string{"MakeTCPFaceURI": "tcpURI", "MakeUDPFaceURI": "udpURI", "MakeUnixFaceURI": "unixURI",
		"MakeFDFaceURI": "fdURI", "MakeInternalFaceURI": "internalURI", "MakeNullFaceURI": "nullURI", "MakeDevFaceURI": "devURI",
		"MakeWebSocketClientFaceURI": "wsclientURI", "MakeWebSocketServerFaceURI": "wsURI"}
	res := ""
	ast.Inspect(fd.Body, func(n ast.Node) bool {
		switch v := n.(type) {
		case *ast.AssignStmt:
			for i, lhs := range v.Lhs {
				if selText(lhs) == remoteVar && i < len(v.Rhs) {
					if c, ok := v.Rhs[i].(*ast.CallExpr); ok {
						if t, ok := byFunc[strings.TrimPrefix(selText(c.Fun), "defn.")]; ok {
							res = t
						}
					}
				}
			}
		case *ast.CallExpr:
			if sel, ok := v.Fun.(*ast.SelectorExpr); ok && sel.Sel.Name == "makeTransportBase" && len(v.Args) >= 1 && res == "" {
				if c, ok := v.Args[0].(*ast.CallExpr); ok {
					if t, ok := byFunc[strings.TrimPrefix(selText(c.Fun), "defn.")]; ok {
						res = t
					}
				}
			}
		case *ast.BinaryExpr:
			if res == "" && (v.Op == token.NEQ || v.Op == token.EQL) {
				if c, ok := v.X.(*ast.CallExpr); ok && selText(c.Fun) == remoteVar+".Scheme" {
					if lit, ok := v.Y.(*ast.BasicLit); ok {
						s := strings.Trim(lit.Value, "\"")
						switch {
						case strings.HasPrefix(s, "tcp"):
							res = "tcpURI"
						case strings.HasPrefix(s, "udp"):
							res = "udpURI"
						case s == "fd":
							res = "fdURI"
						case s == "unix":
							res = "unixURI"
						}
					}
				}
			}
		}
		return true
	})
	if res == "" {
		res = "unknownURI"
	}
	return res
}

// the makeTransportBase call of a constructor: the transport variable, the remote URI variable, the scope variable
func discover(fd *ast.FuncDecl) (transVar, remoteVar, scopeVar string, found bool) {
	ast.Inspect(fd.Body, func(n ast.Node) bool {
		c, ok := n.(*ast.CallExpr)
		if !ok || found {
			return !found
		}
		sel, ok := c.Fun.(*ast.SelectorExpr)
		if !ok || sel.Sel.Name != "makeTransportBase" || len(c.Args) < 4 {
			return true
		}
		found = true
		transVar = selText(sel.X)
		if id, ok := c.Args[0].(*ast.Ident); ok {
			remoteVar = id.Name
		}
		if id, ok := c.Args[3].(*ast.Ident); ok {
			scopeVar = id.Name
		}
		return false
	})
	if remoteVar == "" {
		remoteVar = "\x00none"
	}
	return
}

// value of a rule for a remote address that is / is not loopback: "1", "0" or "?"
func eval(rule string, loop bool, cases map[string]string, def string, utype string) string {
	rule = strings.TrimSpace(rule)
	switch {
	case rule == "SLocal":
		return "1"
	case rule == "SNonLocal":
		return "0"
	case rule == "SUriScope":
		r, ok := cases[utype]
		if !ok {
			r = def
		}
		if strings.Contains(r, "SUriScope") {
			return "?"
		}
		return eval(r, loop, cases, def, utype)
	case strings.HasPrefix(rule, "SIfLoop ("):
		// SIfLoop (a) (b) with balanced parentheses
		depth, start, parts := 0, -1, []string{}
		for i, ch := range rule {
			if ch == '(' {
				if depth == 0 {
					start = i + 1
				}
				depth++
			} else if ch == ')' {
				depth--
				if depth == 0 {
					parts = append(parts, rule[start:i])
				}
			}
		}
		if len(parts) == 2 {
			if loop {
				return eval(parts[0], loop, cases, def, utype)
			}
			return eval(parts[1], loop, cases, def, utype)
		}
	}
	return "?"
}

func main() {
	if len(os.Args) != 2 {
		die("usage: main <repo>")
	}
	repo := os.Args[1]
	fset := token.NewFileSet()
	uri := parse(fset, filepath.Join(repo, "fw/defn/uri.go"))
	cases := map[string]string{}
	def := "SOther"
	if sc := findFunc(uri, "Scope", "URI"); sc != nil && len(sc.Recv.List[0].Names) == 1 {
		recv := sc.Recv.List[0].Names[0].Name
		uin := &interp{env: map[string]string{}, ipFromRemote: map[string]bool{}, remoteVar: recv}
		for i, s := range sc.Body.List {
			sw, ok := s.(*ast.SwitchStmt)
			if !ok {
				continue
			}
			if tag, ok := sw.Tag.(*ast.SelectorExpr); !ok || selText(tag.X) != recv {
				continue
			}
			for _, cc := range sw.Body.List {
				cl := cc.(*ast.CaseClause)
				v := uin.returned(cl.Body)
				for _, e := range cl.List {
					cases[selText(e)] = v
				}
				if cl.List == nil {
					def = v
				}
			}
			if def == "SOther" {
				def = uin.returned(sc.Body.List[i+1:])
			}
		}
	}
	ctors := []string{"MakeUnicastTCPTransport", "AcceptUnicastTCPTransport", "MakeUnicastUDPTransport", "MakeUnixStreamTransport",
		"NewWebSocketTransport", "MakeInternalTransport", "MakeMulticastUDPTransport", "MakeNullTransport"}
	pkgFiles, _ := filepath.Glob(filepath.Join(repo, "fw/face", "*.go"))
	var parsed []*ast.File
	for _, pf := range pkgFiles {
		if strings.HasSuffix(pf, "_test.go") || strings.Contains(filepath.Base(pf), "zz_verif") {
			continue
		}
		parsed = append(parsed, parse(fset, pf))
	}
	pkgParsed = parsed
	for id, name := range ctors {
		var fd *ast.FuncDecl
		for _, f := range parsed {
			if fd = findFunc(f, name, ""); fd != nil {
				break
			}
		}
		rule, utype := "SOther", "unknownURI"
		if fd != nil {
			if tv, rv, sv, ok := discover(fd); ok {
				in := &interp{env: map[string]string{}, ipFromRemote: map[string]bool{}, remoteVar: rv, transVar: tv, scopeVar: sv}
				in.stmts(fd.Body.List)
				if r, ok := in.env["t.scope"]; ok {
					rule = r
				}
				utype = remoteURIType(fd, rv)
			}
		}
		for _, lb := range []bool{true, false} {
			b := "0"
			if lb {
				b = "1"
			}
			fmt.Printf("ast %d %s %s %s\n", id, name, b, eval(rule, lb, cases, def, utype))
		}
	}
}
