// translators/fw/scope — regenerates coq/Fw/GenScope.v from the Go sources of the repository under verification.
//
// Face scope (Local / NonLocal) is fixed when a transport is constructed. This program reads, with go/parser + go/ast
// (std only), the scope-setting statements of every transport constructor of fw/face and the switch of
// defn.URI.Scope() (fw/defn/uri.go), and writes them as a table of small expressions (Fw/ScopeDefs.v: sexpr):
//
//	SLocal | SNonLocal                    defn.Local / defn.NonLocal
//	SIfLoop a b                           if the remote address parsed from remoteURI is a loopback IP then a else b
//	SUriScope                             remoteURI.Scope()  (evaluated through the translated switch for the URI type)
//	SOther                                anything this translator does not understand (the classification theorem then fails)
//
// A constructor body is interpreted statement by statement for the two places a scope can live: a local variable (whichever
// identifier is passed as the 4th argument of makeTransportBase) and the scope field of the transport (whichever variable
// makeTransportBase is called on). Nothing is matched by local names: the transport variable, the scope variable, the remote URI
// variable (1st argument of makeTransportBase) and the parsed-IP variable (assigned from net.ParseIP of something of the remote
// URI) are all discovered structurally (docs/ROBUST_TRANSLATORS.md).
// A constructor (or the URI switch) this program does not understand keeps the rule of the committed reference
// (coq/Fw/GenScope.reference) and a `note:` line is printed; that is not an alarm: the harness calls the real constructors.
// usage: go run main.go <repo> <reference> <out.v>     (writes only if the content changed)
package main

import (
	"fmt"
	"go/ast"
	"go/parser"
	"go/token"
	"os"
	"path/filepath"
	"sort"
	"strings"
)

func die(format string, a ...any) {
	fmt.Fprintf(os.Stderr, "translators/fw/scope: "+format+"\n", a...)
	os.Exit(1)
}

func parse(fset *token.FileSet, path string) *ast.File {
	f, err := parser.ParseFile(fset, path, nil, 0)
	if err != nil {
		die("parse %s: %v", path, err)
	}
	return f
}

func containsIdent(n ast.Node, name string) bool {
	found := false
	ast.Inspect(n, func(x ast.Node) bool {
		if id, ok := x.(*ast.Ident); ok && id.Name == name {
			found = true
		}
		return !found
	})
	return found
}

// selector text like "defn.Local", "t.scope"
func selText(e ast.Expr) string {
	switch v := e.(type) {
	case *ast.Ident:
		return v.Name
	case *ast.SelectorExpr:
		return selText(v.X) + "." + v.Sel.Name
	}
	return ""
}

type interp struct {
	env          map[string]string // "scope" (the local scope variable), "t.scope" (the transport's field) -> sexpr
	ipFromRemote map[string]bool   // variables holding net.ParseIP(<something of the remote URI>)
	remoteVar    string            // name of the remote URI variable (1st argument of makeTransportBase; receiver inside URI.Scope)
	transVar     string            // name of the transport variable makeTransportBase is called on
	scopeVar     string            // name of the local variable passed as the scope argument ("" if none)
}

func (in *interp) sub() *interp {
	return &interp{env: copyEnv(in.env), ipFromRemote: in.ipFromRemote, remoteVar: in.remoteVar, transVar: in.transVar, scopeVar: in.scopeVar}
}

// key of an assignable place: "scope" for the local scope variable, "t.scope" for the transport's scope field
func (in *interp) place(e ast.Expr) string {
	switch v := e.(type) {
	case *ast.Ident:
		if in.scopeVar != "" && v.Name == in.scopeVar {
			return "scope"
		}
	case *ast.SelectorExpr:
		if id, ok := v.X.(*ast.Ident); ok && id.Name == in.transVar && v.Sel.Name == "scope" {
			return "t.scope"
		}
	}
	return ""
}

func (in *interp) scopeExpr(e ast.Expr) string {
	switch v := e.(type) {
	case *ast.SelectorExpr:
		switch v.Sel.Name { // <package>.Local / <package>.NonLocal, whatever the import is called
		case "Local":
			return "SLocal"
		case "NonLocal":
			return "SNonLocal"
		}
	case *ast.Ident:
		switch v.Name {
		case "Local":
			return "SLocal"
		case "NonLocal":
			return "SNonLocal"
		}
		if in.scopeVar != "" && v.Name == in.scopeVar {
			if s, ok := in.env["scope"]; ok {
				return s
			}
		}
	case *ast.CallExpr:
		if sel, ok := v.Fun.(*ast.SelectorExpr); ok && sel.Sel.Name == "Scope" && len(v.Args) == 0 && selText(sel.X) == in.remoteVar {
			return "SUriScope"
		}
	}
	return "SOther"
}

// is the expression "the remote address is a loopback IP"?  ip.IsLoopback() / ip != nil && ip.IsLoopback() /
// net.ParseIP(<remote>).IsLoopback(), where ip was parsed from the remote URI
func (in *interp) loopbackCond(e ast.Expr) bool {
	switch v := e.(type) {
	case *ast.ParenExpr:
		return in.loopbackCond(v.X)
	case *ast.BinaryExpr:
		if v.Op == token.LAND {
			// (ip != nil) && ip.IsLoopback()
			if b, ok := v.X.(*ast.BinaryExpr); ok && b.Op == token.NEQ && selText(b.Y) == "nil" {
				return in.loopbackCond(v.Y)
			}
		}
	case *ast.CallExpr:
		sel, ok := v.Fun.(*ast.SelectorExpr)
		if !ok || sel.Sel.Name != "IsLoopback" || len(v.Args) != 0 {
			return false
		}
		if id, ok := sel.X.(*ast.Ident); ok {
			return in.ipFromRemote[id.Name]
		}
		if c, ok := sel.X.(*ast.CallExpr); ok && selText(c.Fun) == "net.ParseIP" {
			return containsIdent(c, in.remoteVar)
		}
	}
	return false
}

func copyEnv(m map[string]string) map[string]string {
	c := map[string]string{}
	for k, v := range m {
		c[k] = v
	}
	return c
}

func (in *interp) stmts(list []ast.Stmt) {
	for _, s := range list {
		in.stmt(s)
	}
}

func (in *interp) stmt(s ast.Stmt) {
	switch v := s.(type) {
	case *ast.AssignStmt:
		for i, lhs := range v.Lhs {
			if i >= len(v.Rhs) {
				break
			}
			key := in.place(lhs)
			switch key {
			case "scope", "t.scope":
				in.env[key] = in.scopeExpr(v.Rhs[i])
			default:
				if id, ok := lhs.(*ast.Ident); ok {
					if c, ok := v.Rhs[i].(*ast.CallExpr); ok && selText(c.Fun) == "net.ParseIP" {
						in.ipFromRemote[id.Name] = containsIdent(c, in.remoteVar)
					}
				}
			}
		}
	case *ast.DeclStmt:
		// var scope defn.Scope = defn.NonLocal
		if gd, ok := v.Decl.(*ast.GenDecl); ok {
			for _, sp := range gd.Specs {
				if vs, ok := sp.(*ast.ValueSpec); ok {
					for i, n := range vs.Names {
						if in.place(n) == "scope" && i < len(vs.Values) {
							in.env["scope"] = in.scopeExpr(vs.Values[i])
						} else if i < len(vs.Values) {
							if c, ok := vs.Values[i].(*ast.CallExpr); ok && selText(c.Fun) == "net.ParseIP" {
								in.ipFromRemote[n.Name] = containsIdent(c, in.remoteVar)
							}
						}
					}
				}
			}
		}
	case *ast.ExprStmt:
		if c, ok := v.X.(*ast.CallExpr); ok && len(c.Args) >= 4 {
			if sel, ok := c.Fun.(*ast.SelectorExpr); ok && sel.Sel.Name == "makeTransportBase" {
				in.env["t.scope"] = in.scopeExpr(c.Args[3])
			}
		}
	case *ast.IfStmt:
		thenI := in.sub()
		thenI.stmts(v.Body.List)
		elseI := in.sub()
		if v.Else != nil {
			switch e := v.Else.(type) {
			case *ast.BlockStmt:
				elseI.stmts(e.List)
			default:
				elseI.stmt(e)
			}
		}
		loop := in.loopbackCond(v.Cond)
		for _, key := range []string{"scope", "t.scope"} {
			a, aok := thenI.env[key]
			b, bok := elseI.env[key]
			if !aok && !bok {
				continue
			}
			if a == b {
				in.env[key] = a
			} else if loop && aok && bok {
				in.env[key] = "SIfLoop (" + a + ") (" + b + ")"
			} else {
				in.env[key] = "SOther"
			}
		}
	case *ast.BlockStmt:
		in.stmts(v.List)
	}
}

// the value returned by a statement list of URI.Scope(): `return X` or `if <loopback> { return A }; return B`
func (in *interp) returned(list []ast.Stmt) string {
	for i, s := range list {
		switch v := s.(type) {
		case *ast.ReturnStmt:
			if len(v.Results) == 1 {
				return in.scopeExpr(v.Results[0])
			}
			return "SOther"
		case *ast.IfStmt:
			if in.loopbackCond(v.Cond) && v.Else == nil {
				a := in.returned(v.Body.List)
				b := in.returned(list[i+1:])
				return "SIfLoop (" + a + ") (" + b + ")"
			}
			return "SOther"
		}
	}
	return "SOther"
}

func findFunc(f *ast.File, name string, recv string) *ast.FuncDecl {
	for _, d := range f.Decls {
		fd, ok := d.(*ast.FuncDecl)
		if !ok || fd.Name.Name != name || fd.Body == nil {
			continue
		}
		if recv == "" && fd.Recv == nil {
			return fd
		}
		if recv != "" && fd.Recv != nil && len(fd.Recv.List) == 1 && strings.HasSuffix(selTextType(fd.Recv.List[0].Type), recv) {
			return fd
		}
	}
	return nil
}

func selTextType(e ast.Expr) string {
	if s, ok := e.(*ast.StarExpr); ok {
		return selText(s.X)
	}
	return selText(e)
}

// URI type of the remote URI of a constructor: from defn.Make*FaceURI calls assigned to remoteURI or passed as the first
// argument of makeTransportBase, else from the scheme literals remoteURI.Scheme() is compared with
func remoteURIType(fd *ast.FuncDecl, remoteVar string) string {
	byFunc := map[string]string{"MakeTCPFaceURI": "tcpURI", "MakeUDPFaceURI": "udpURI", "MakeUnixFaceURI": "unixURI",
		"MakeFDFaceURI": "fdURI", "MakeInternalFaceURI": "internalURI", "MakeNullFaceURI": "nullURI", "MakeDevFaceURI": "devURI",
		"MakeWebSocketClientFaceURI": "wsclientURI", "MakeWebSocketServerFaceURI": "wsURI"}
	res := ""
	ast.Inspect(fd.Body, func(n ast.Node) bool {
		switch v := n.(type) {
		case *ast.AssignStmt:
			for i, lhs := range v.Lhs {
				if selText(lhs) == remoteVar && i < len(v.Rhs) {
					if c, ok := v.Rhs[i].(*ast.CallExpr); ok {
						if t, ok := byFunc[strings.TrimPrefix(selText(c.Fun), "defn.")]; ok {
							res = t
						}
					}
				}
			}
		case *ast.CallExpr:
			if sel, ok := v.Fun.(*ast.SelectorExpr); ok && sel.Sel.Name == "makeTransportBase" && len(v.Args) >= 1 && res == "" {
				if c, ok := v.Args[0].(*ast.CallExpr); ok {
					if t, ok := byFunc[strings.TrimPrefix(selText(c.Fun), "defn.")]; ok {
						res = t
					}
				}
			}
		case *ast.BinaryExpr:
			if res == "" && (v.Op == token.NEQ || v.Op == token.EQL) {
				if c, ok := v.X.(*ast.CallExpr); ok && selText(c.Fun) == remoteVar+".Scheme" {
					if lit, ok := v.Y.(*ast.BasicLit); ok {
						s := strings.Trim(lit.Value, "\"")
						switch {
						case strings.HasPrefix(s, "tcp"):
							res = "tcpURI"
						case strings.HasPrefix(s, "udp"):
							res = "udpURI"
						case s == "fd":
							res = "fdURI"
						case s == "unix":
							res = "unixURI"
						}
					}
				}
			}
		}
		return true
	})
	if res == "" {
		res = "unknownURI"
	}
	return res
}

// the makeTransportBase call of a constructor: the transport variable, the remote URI variable, the scope variable
func discover(fd *ast.FuncDecl) (transVar, remoteVar, scopeVar string, found bool) {
	ast.Inspect(fd.Body, func(n ast.Node) bool {
		c, ok := n.(*ast.CallExpr)
		if !ok || found {
			return !found
		}
		sel, ok := c.Fun.(*ast.SelectorExpr)
		if !ok || sel.Sel.Name != "makeTransportBase" || len(c.Args) < 4 {
			return true
		}
		found = true
		transVar = selText(sel.X)
		if id, ok := c.Args[0].(*ast.Ident); ok {
			remoteVar = id.Name
		}
		if id, ok := c.Args[3].(*ast.Ident); ok {
			scopeVar = id.Name
		}
		return false
	})
	if remoteVar == "" {
		remoteVar = "\x00none"
	}
	return
}

type reference struct {
	ctor    map[string][2]string // constructor name -> (uri type, rule)
	cases   map[string]string
	dflt    string
}

func readReference(path string) reference {
	r := reference{ctor: map[string][2]string{}, cases: map[string]string{}}
	b, err := os.ReadFile(path)
	if err != nil {
		return r
	}
	for _, l := range strings.Split(string(b), "\n") {
		f := strings.SplitN(strings.TrimSpace(l), " ", 4)
		switch {
		case len(f) == 4 && f[0] == "ctor":
			r.ctor[f[1]] = [2]string{f[2], f[3]}
		case len(f) >= 3 && f[0] == "uricase":
			r.cases[f[1]] = strings.Join(f[2:], " ")
		case len(f) >= 2 && f[0] == "uridefault":
			r.dflt = strings.Join(f[1:], " ")
		}
	}
	return r
}

func main() {
	if len(os.Args) != 4 {
		die("usage: main <repo> <reference> <out.v>")
	}
	repo, out := os.Args[1], os.Args[3]
	ref := readReference(os.Args[2])
	note := func(format string, a ...any) { fmt.Printf("note: translator: "+format+"; reference kept; the scope harness (real constructors) decides\n", a...) }
	fset := token.NewFileSet()

	// URI types in declaration order (iota)
	uri := parse(fset, filepath.Join(repo, "fw/defn/uri.go"))
	var uriTypes []string
	for _, d := range uri.Decls {
		gd, ok := d.(*ast.GenDecl)
		if !ok || gd.Tok != token.CONST {
			continue
		}
		isBlock := false
		for _, sp := range gd.Specs {
			vs := sp.(*ast.ValueSpec)
			if selText(vs.Type) == "URIType" {
				isBlock = true
			}
		}
		if isBlock {
			for _, sp := range gd.Specs {
				for _, n := range sp.(*ast.ValueSpec).Names {
					uriTypes = append(uriTypes, n.Name)
				}
			}
		}
	}
	if len(uriTypes) == 0 {
		die("URIType constants not found in fw/defn/uri.go")
	}
	idx := map[string]int{}
	for i, n := range uriTypes {
		idx[n] = i
	}

	// defn.URI.Scope(): the switch on the receiver's type field
	cases := map[string]string{}
	def := "SOther"
	if sc := findFunc(uri, "Scope", "URI"); sc != nil && len(sc.Recv.List[0].Names) == 1 {
		recv := sc.Recv.List[0].Names[0].Name
		uin := &interp{env: map[string]string{}, ipFromRemote: map[string]bool{}, remoteVar: recv}
		for i, s := range sc.Body.List {
			sw, ok := s.(*ast.SwitchStmt)
			if !ok {
				continue
			}
			if tag, ok := sw.Tag.(*ast.SelectorExpr); !ok || selText(tag.X) != recv {
				continue
			}
			for _, cc := range sw.Body.List {
				cl := cc.(*ast.CaseClause)
				v := uin.returned(cl.Body)
				for _, e := range cl.List {
					cases[selText(e)] = v
				}
				if cl.List == nil {
					def = v
				}
			}
			if def == "SOther" {
				def = uin.returned(sc.Body.List[i+1:])
			}
		}
	}
	bad := def == "SOther" || len(cases) == 0
	for k, v := range cases {
		if _, ok := idx[k]; !ok || strings.Contains(v, "SOther") {
			bad = true
		}
	}
	if bad && ref.dflt != "" {
		note("defn.URI.Scope() not understood")
		cases, def = ref.cases, ref.dflt
	}

	// constructors
	type ctor struct {
		id         int
		name, file string
	}
	ctors := []ctor{
		{0, "MakeUnicastTCPTransport", "unicast-tcp-transport.go"},
		{1, "AcceptUnicastTCPTransport", "unicast-tcp-transport.go"},
		{2, "MakeUnicastUDPTransport", "unicast-udp-transport.go"},
		{3, "MakeUnixStreamTransport", "unix-stream-transport.go"},
		{4, "NewWebSocketTransport", "web-socket-transport.go"},
		{5, "MakeInternalTransport", "internal-transport.go"},
		{6, "MakeMulticastUDPTransport", "multicast-udp-transport.go"},
		{7, "MakeNullTransport", "null-transport.go"},
	}
	// a constructor may have moved to another file of the package: look in all of them
	pkgFiles, _ := filepath.Glob(filepath.Join(repo, "fw/face", "*.go"))
	var parsed []*ast.File
	for _, pf := range pkgFiles {
		if strings.HasSuffix(pf, "_test.go") || strings.Contains(filepath.Base(pf), "zz_verif") {
			continue
		}
		parsed = append(parsed, parse(fset, pf))
	}
	var b strings.Builder
	b.WriteString("(* Fw/GenScope.v — GENERATED by translators/fw/scope/main.go from fw/face/*-transport.go and fw/defn/uri.go; do not edit. *)\n")
	b.WriteString("From Coq Require Import List NArith.\nFrom Fw Require Import ScopeDefs.\nImport ListNotations.\nOpen Scope N_scope.\n\n")
	b.WriteString("(* URIType constants of fw/defn/uri.go, in declaration order *)\n")
	for i, n := range uriTypes {
		fmt.Fprintf(&b, "Definition %s : N := %d.\n", n, i)
	}
	b.WriteString("\n(* func (u *URI) Scope(): the switch on the URI type (canonical URIs) and the value after the switch *)\n")
	b.WriteString("Definition uri_scope_cases : list (N * sexpr) :=\n  [")
	keys := make([]string, 0, len(cases))
	for k := range cases {
		if _, ok := idx[k]; ok {
			keys = append(keys, k)
		}
	}
	sort.Slice(keys, func(i, j int) bool { return idx[keys[i]] < idx[keys[j]] })
	for i, k := range keys {
		if i > 0 {
			b.WriteString(";\n   ")
		}
		fmt.Fprintf(&b, "(%s, %s)", k, cases[k])
	}
	b.WriteString("].\n")
	fmt.Fprintf(&b, "Definition uri_scope_default : sexpr := %s.\n", def)
	b.WriteString("\n(* (constructor, URI type of its remote URI, the scope it gives the transport) *)\n")
	b.WriteString("Definition ctor_rules : list (N * N * sexpr) :=\n  [")
	for i, c := range ctors {
		var fd *ast.FuncDecl
		for _, f := range parsed {
			if fd = findFunc(f, c.name, ""); fd != nil {
				break
			}
		}
		rule, utype := "SOther", "unknownURI"
		if fd != nil {
			tv, rv, sv, ok := discover(fd)
			if ok {
				in := &interp{env: map[string]string{}, ipFromRemote: map[string]bool{}, remoteVar: rv, transVar: tv, scopeVar: sv}
				in.stmts(fd.Body.List)
				if r, ok := in.env["t.scope"]; ok {
					rule = r
				}
				utype = remoteURIType(fd, rv)
			}
		}
		if _, ok := idx[utype]; !ok {
			utype = "unknownURI"
		}
		if strings.Contains(rule, "SOther") || (strings.Contains(rule, "SUriScope") && utype == "unknownURI") {
			if r, ok := ref.ctor[c.name]; ok {
				note("scope statements of constructor %s not understood", c.name)
				utype, rule = r[0], r[1]
				if _, ok := idx[utype]; !ok {
					utype = "unknownURI"
				}
			}
		}
		if i > 0 {
			b.WriteString(";\n   ")
		}
		fmt.Fprintf(&b, "(%d (* %s *), %s, %s)", c.id, c.name, utype, rule)
	}
	b.WriteString("].\n")
	text := b.String()
	if old, err := os.ReadFile(out); err == nil && string(old) == text {
		return
	}
	if err := os.WriteFile(out, []byte(text), 0o644); err != nil {
		die("write %s: %v", out, err)
	}
	fmt.Println("updated", out)
}
