// CS probe for C14: a Content Store keyed by Name.Hash() must not answer an Interest with Data of a different name.
// Replays the consequence of the hash-input collision found by C14 (fixed in std/encoding Component.HashInto).
package names

import (
	"sync"
	"time"

	"github.com/named-data/ndnd/fw/core"
	"github.com/named-data/ndnd/fw/table"
	enc "github.com/named-data/ndnd/std/encoding"
	"github.com/named-data/ndnd/std/ndn"
	spec "github.com/named-data/ndnd/std/ndn/spec_2022"
	"github.com/named-data/ndnd/std/utils"
)

var cfgOnce sync.Once

func mkData(n enc.Name, content string) (d *spec.Data, raw []byte, ok bool) {
	defer func() {
		if recover() != nil {
			ok = false
		}
	}()
	w, err := spec.Spec{}.MakeData(n, &ndn.DataConfig{ContentType: utils.IdPtr(ndn.ContentTypeBlob), Freshness: utils.IdPtr(10 * time.Second)}, enc.Wire{[]byte(content)}, nil)
	if err != nil {
		return nil, nil, false
	}
	raw = w.Wire.Join()
	pkt, _, err := spec.ReadPacket(enc.NewBufferReader(raw))
	if err != nil || pkt.Data == nil {
		return nil, nil, false
	}
	return pkt.Data, raw, true
}

func mkInterest(n enc.Name) (i *spec.Interest, ok bool) {
	defer func() {
		if recover() != nil {
			ok = false
		}
	}()
	iw, err := spec.Spec{}.MakeInterest(n, &ndn.InterestConfig{}, nil, nil)
	if err != nil {
		return nil, false
	}
	pkt, _, err := spec.ReadPacket(enc.NewBufferReader(iw.Wire.Join()))
	if err != nil || pkt.Interest == nil {
		return nil, false
	}
	return pkt.Interest, true
}

// csProbe inserts Data named x then Data named y into a fresh PIT-CS and looks x up: "miss" or "hit <name of the Data returned>";
// "skip" when the packets cannot be built for these names (digest components, oversize) — that is the packet codec's business
func csProbe(x, y enc.Name) string {
	cfgOnce.Do(func() {
		core.LoadConfig(core.DefaultConfig(), "/tmp")
		table.Configure()
	})
	dx, wx, ok1 := mkData(x, "content-of-x")
	dy, wy, ok2 := mkData(y, "content-of-y")
	interest, ok3 := mkInterest(x)
	if !ok1 || !ok2 || !ok3 || !dx.NameV.Equal(x) || !dy.NameV.Equal(y) || !interest.NameV.Equal(x) {
		return "skip"
	}
	pc := table.NewPitCS(func(table.PitEntry) {})
	pc.InsertData(dx, wx)
	pc.InsertData(dy, wy)
	e := pc.FindMatchingDataFromCS(interest)
	if e == nil {
		return "miss"
	}
	d, _, err := e.Copy()
	if err != nil || d == nil {
		return "miss"
	}
	return "hit " + nameStr(d.NameV)
}

func (e *emitter) cshit(x, y enc.Name) {
	e.count("CSHIT")
	res := guard(func() string { return csProbe(x, y) })
	e.w.WriteString("CSHIT " + nameStr(x) + " " + nameStr(y) + " " + res + "\n")
}
