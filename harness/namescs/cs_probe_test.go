// CS probe for C14: a Content Store keyed by Name.Hash() must not answer an Interest with Data of a different name.
// Replays the consequence of the hash-input collision found by C14 (fixed in std/encoding Component.HashInto).
package namescs

import (
	"bufio"
	"encoding/hex"
	"os"
	"strconv"
	"strings"
	"sync"
	"testing"
	"time"

	"github.com/named-data/ndnd/fw/core"
	"github.com/named-data/ndnd/fw/table"
	enc "github.com/named-data/ndnd/std/encoding"
	"github.com/named-data/ndnd/std/ndn"
	spec "github.com/named-data/ndnd/std/ndn/spec_2022"
	"github.com/named-data/ndnd/std/utils"
)

var cfgOnce sync.Once

func mkData(n enc.Name, content string) (d *spec.Data, raw []byte, ok bool) {
	defer func() {
		if recover() != nil {
			ok = false
		}
	}()
	w, err := spec.Spec{}.MakeData(n, &ndn.DataConfig{ContentType: utils.IdPtr(ndn.ContentTypeBlob), Freshness: utils.IdPtr(10 * time.Second)}, enc.Wire{[]byte(content)}, nil)
	if err != nil {
		return nil, nil, false
	}
	raw = w.Wire.Join()
	pkt, _, err := spec.ReadPacket(enc.NewBufferReader(raw))
	if err != nil || pkt.Data == nil {
		return nil, nil, false
	}
	return pkt.Data, raw, true
}

func mkInterest(n enc.Name) (i *spec.Interest, ok bool) {
	defer func() {
		if recover() != nil {
			ok = false
		}
	}()
	iw, err := spec.Spec{}.MakeInterest(n, &ndn.InterestConfig{}, nil, nil)
	if err != nil {
		return nil, false
	}
	pkt, _, err := spec.ReadPacket(enc.NewBufferReader(iw.Wire.Join()))
	if err != nil || pkt.Interest == nil {
		return nil, false
	}
	return pkt.Interest, true
}

// csProbe inserts Data named x then Data named y into a fresh PIT-CS and looks x up: "miss" or "hit <name of the Data returned>";
// "skip" when the packets cannot be built for these names (digest components, oversize) — that is the packet codec's business
func csProbe(x, y enc.Name) string {
	cfgOnce.Do(func() {
		core.LoadConfig(core.DefaultConfig(), "/tmp")
		table.Configure()
	})
	dx, wx, ok1 := mkData(x, "content-of-x")
	dy, wy, ok2 := mkData(y, "content-of-y")
	interest, ok3 := mkInterest(x)
	if !ok1 || !ok2 || !ok3 || !dx.NameV.Equal(x) || !dy.NameV.Equal(y) || !interest.NameV.Equal(x) {
		return "skip"
	}
	pc := table.NewPitCS(func(table.PitEntry) {})
	pc.InsertData(dx, wx)
	pc.InsertData(dy, wy)
	e := pc.FindMatchingDataFromCS(interest)
	if e == nil {
		return "miss"
	}
	d, _, err := e.Copy()
	if err != nil || d == nil {
		return "miss"
	}
	return "hit " + nameStr(d.NameV)
}

func nameStr(n enc.Name) string {
	if len(n) == 0 {
		return "-"
	}
	parts := make([]string, len(n))
	for i, c := range n {
		parts[i] = strconv.FormatUint(uint64(c.Typ), 10) + ":" + hex.EncodeToString(c.Val)
	}
	return strings.Join(parts, ",")
}

func parseName(s string) enc.Name {
	if s == "-" {
		return enc.Name{}
	}
	parts := strings.Split(s, ",")
	n := make(enc.Name, len(parts))
	for i, p := range parts {
		j := strings.IndexByte(p, ':')
		t, err := strconv.ParseUint(p[:j], 10, 64)
		if err != nil {
			panic(err)
		}
		v, err := hex.DecodeString(p[j+1:])
		if err != nil {
			panic(err)
		}
		n[i] = enc.Component{Typ: enc.TLNum(t), Val: v}
	}
	return n
}

// TestCs: for every line "CSHIT <x> <y> ..." or "CSREQ <x> <y>" of VERIF_OPS write "CSHIT <x> <y> <result>" to VERIF_OUT.
func TestCs(t *testing.T) {
	ops, out := os.Getenv("VERIF_OPS"), os.Getenv("VERIF_OUT")
	if ops == "" || out == "" {
		t.Skip("VERIF_OPS/VERIF_OUT not set")
	}
	in, err := os.Open(ops)
	if err != nil {
		t.Fatal(err)
	}
	defer in.Close()
	f, err := os.Create(out)
	if err != nil {
		t.Fatal(err)
	}
	defer f.Close()
	w := bufio.NewWriter(f)
	defer w.Flush()
	sc := bufio.NewScanner(in)
	sc.Buffer(make([]byte, 1<<20), 1<<26)
	for sc.Scan() {
		fl := strings.Split(strings.TrimSpace(sc.Text()), " ")
		if len(fl) < 3 || (fl[0] != "CSHIT" && fl[0] != "CSREQ") {
			continue
		}
		res := func() (r string) {
			defer func() {
				if recover() != nil {
					r = "panic"
				}
			}()
			return csProbe(parseName(fl[1]), parseName(fl[2]))
		}()
		w.WriteString("CSHIT " + fl[1] + " " + fl[2] + " " + res + "\n")
	}
}
