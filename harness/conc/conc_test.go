// Harness for C16: concurrent RIB / FIB / strategy / face-teardown operations and lookups on the shared tables of
// fw/table, run under the race detector.  Every operation is recorded with an invocation and a response stamp from one
// global atomic counter, together with its result; after all goroutines are done the final tables are observed.  The
// Coq runner (runner/Tables, mode "conc") searches a sequential order of the operations that respects real time
// (response-before-invocation), reproduces every recorded lookup result on the sequential model and ends in the observed
// final tables.
//
// Trace lines:
//   R <round> <impl T|H> <m> <goroutines>
//   U <name> ...                         lookup universe
//   H <goroutine> <inv> <resp> <op...> => <result>
//        ops: reg <name> <face> <origin> <cost> <flags> | unreg <name> <face> <origin> | teardown <face>
//             ins <name> <face> <cost> | rem <name> <face> | sets <name> <s> | uns <name>
//             nh <name> | st <name> | fib | sl | rib           (results: canonical, sorted; "ok" for updates)
//   F nh v|v|...    F st s|s|...    F fib ...    F sl ...    F rib ...      final observation
//   FR <round> <rec|heavy> <goroutines> <n0>      face-table round: stub faces, n0 = the FaceID the next Add must return
//   H <goroutine> <inv> <resp> fadd <tok> => <id> | frem <id> => ok | fget <id> => <tok|->      (rec rounds)
//   A <goroutine> <tok> <id>   D <id>                                                           (heavy rounds)
//   F faces id=tok;...   F dispatch id=tok;...        FaceTable.Get / dispatch.GetFace for every id >= n0 afterwards
//   R g<k> ...                           forced interleaving (see forcedRounds): op1 is parked at the boundary between the RIB
//                                        and the FIB critical section while a complete second RIB operation is attempted
//   X <text>                             anomaly (panic in an operation, watchdog timeout = possible deadlock)
//   E
package conc

import (
	"bufio"
	"fmt"
	"math/rand"
	"os"
	"runtime"
	"sort"
	"strconv"
	"strings"
	"sync"
	"sync/atomic"
	"testing"
	"time"

	"github.com/named-data/ndnd/fw/core"
	"github.com/named-data/ndnd/fw/defn"
	"github.com/named-data/ndnd/fw/dispatch"
	"github.com/named-data/ndnd/fw/face"
	"github.com/named-data/ndnd/fw/fw"
	fwmgmt "github.com/named-data/ndnd/fw/mgmt"
	"github.com/named-data/ndnd/fw/table"
	enc "github.com/named-data/ndnd/std/encoding"
	"github.com/named-data/ndnd/std/ndn"
	spec "github.com/named-data/ndnd/std/ndn/spec_2022"
	"github.com/named-data/ndnd/std/utils"
)

type iname []int

func (n iname) String() string {
	if len(n) == 0 {
		return "/"
	}
	var sb strings.Builder
	for _, c := range n {
		sb.WriteByte('/')
		sb.WriteString(strconv.Itoa(c))
	}
	return sb.String()
}

func (n iname) enc() enc.Name {
	out := make(enc.Name, len(n))
	for i, c := range n {
		out[i] = enc.NewStringComponent(enc.TypeGenericNameComponent, "c"+strconv.Itoa(c))
	}
	return out
}

func unintern(n enc.Name) string {
	in := make(iname, len(n))
	for i, c := range n {
		s := string(c.Val)
		k, err := strconv.Atoi(strings.TrimPrefix(s, "c"))
		if err != nil || !strings.HasPrefix(s, "c") {
			return "?" + n.String()
		}
		in[i] = k
	}
	return in.String()
}

func stratName(s int) enc.Name {
	if s == 0 {
		n, _ := enc.NameFromStr("/localhost/nfd/strategy/best-route/v=1")
		return n
	}
	n, _ := enc.NameFromStr("/localhost/nfd/strategy/s" + strconv.Itoa(s) + "/v=1")
	return n
}

func stratStr(n enc.Name) string {
	if n == nil {
		return "-"
	}
	s := n.String()
	if s == "/localhost/nfd/strategy/best-route/v=1" {
		return "0"
	}
	return strings.TrimSuffix(strings.TrimPrefix(s, "/localhost/nfd/strategy/s"), "/v=1")
}

// nhStr reads every field of the returned next hops (this is where aliasing with table memory shows up as a race)
func nhStr(nhs []*table.FibNextHopEntry) string {
	if len(nhs) == 0 {
		return "-"
	}
	parts := make([]string, len(nhs))
	for i, nh := range nhs {
		parts[i] = strconv.FormatUint(aliasFace(nh.Nexthop), 10) + ":" + strconv.FormatUint(nh.Cost, 10)
	}
	sort.Strings(parts)
	return strings.Join(parts, ",")
}

func joinSorted(items []string) string {
	if len(items) == 0 {
		return "-"
	}
	sort.Strings(items)
	return strings.Join(items, ";")
}

func fibListing() string {
	var items []string
	for _, e := range table.FibStrategyTable.GetAllFIBEntries() {
		items = append(items, unintern(e.Name())+"="+nhStr(e.GetNextHops()))
	}
	return joinSorted(items)
}

func stratListing() string {
	var items []string
	for _, e := range table.FibStrategyTable.GetAllForwardingStrategies() {
		items = append(items, unintern(e.Name())+"="+stratStr(e.GetStrategy()))
	}
	return joinSorted(items)
}

func ribListing() string {
	var items []string
	for _, e := range table.Rib.GetAllEntries() {
		var rs []string
		for _, r := range e.GetRoutes() {
			rs = append(rs, fmt.Sprintf("%d:%d:%d:%d", aliasFace(r.FaceID), r.Origin, r.Cost, r.Flags))
		}
		sort.Strings(rs)
		items = append(items, unintern(e.Name)+"="+strings.Join(rs, ","))
	}
	return joinSorted(items)
}

type op struct {
	kind string
	name iname
	a    []uint64
}

// real faces: in the lifecycle rounds a logical face number of the trace is a real NDNLP link service over an in-memory
// transport; everywhere else face numbers are used as FaceIDs directly (both maps empty)
var (
	faceReal  = map[uint64]uint64{}               // logical -> FaceID
	faceAlias = map[uint64]uint64{}               // FaceID -> logical
	faceTr    = map[uint64]*face.VerifTransport{} // logical -> transport
)

func realFace(l uint64) uint64 {
	if id, ok := faceReal[l]; ok {
		return id
	}
	return l
}

func aliasFace(id uint64) uint64 {
	if l, ok := faceAlias[id]; ok {
		return l
	}
	return id
}

// faceDone: logical face -> closed when the link service's send goroutine (which performs the teardown) has returned
var faceDone = map[uint64]<-chan struct{}{}

func (o op) String() string {
	var sb strings.Builder
	if o.kind == "close" {
		sb.WriteString("teardown") // for the sequential model the end of the transport is a teardown of the face
	} else {
		sb.WriteString(o.kind)
	}
	switch o.kind {
	case "teardown", "close", "fib", "sl", "rib":
	default:
		sb.WriteByte(' ')
		sb.WriteString(o.name.String())
	}
	for _, x := range o.a {
		sb.WriteByte(' ')
		sb.WriteString(strconv.FormatUint(x, 10))
	}
	return sb.String()
}

func (o op) run() string {
	f := table.FibStrategyTable
	switch o.kind {
	case "reg":
		table.Rib.AddEncRoute(o.name.enc(), &table.Route{FaceID: realFace(o.a[0]), Origin: o.a[1], Cost: o.a[2], Flags: o.a[3]})
	case "unreg":
		table.Rib.RemoveRouteEnc(o.name.enc(), realFace(o.a[0]), o.a[1])
	case "teardown":
		face.FaceTable.Remove(realFace(o.a[0])) // management faces/destroy, or the teardown path of a face that is not running
	case "close":
		// the transport ends: the link service's own goroutines run the teardown (runSend -> FaceTable.Remove -> CleanUpFace)
		if t := faceTr[o.a[0]]; t != nil {
			t.Close()
			<-faceDone[o.a[0]] // runSend has returned: FaceTable.Remove and Rib.CleanUpFace are done
			faceTr[o.a[0]] = nil
		}
	case "ins":
		f.InsertNextHopEnc(o.name.enc(), o.a[0], o.a[1])
	case "rem":
		f.RemoveNextHopEnc(o.name.enc(), o.a[0])
	case "sets":
		f.SetStrategyEnc(o.name.enc(), stratName(int(o.a[0])))
	case "uns":
		f.UnSetStrategyEnc(o.name.enc())
	case "nh":
		return nhStr(f.FindNextHopsEnc(o.name.enc()))
	case "st":
		return stratStr(f.FindStrategyEnc(o.name.enc()))
	case "fib":
		return fibListing()
	case "sl":
		return stratListing()
	case "rib":
		return ribListing()
	}
	return "ok"
}

type rec struct {
	g         int
	inv, resp int64
	op        op
	res       string
}

type gen struct{ r *rand.Rand }

func (g *gen) names() []iname {
	// a small family of nested and sibling prefixes so that operations collide
	spine := iname{1 + g.r.Intn(2), 1 + g.r.Intn(2), 1 + g.r.Intn(2), 1 + g.r.Intn(2)}
	out := []iname{{}, spine[:1], spine[:2], spine[:3], spine[:4]}
	out = append(out, iname{spine[0], 3}, iname{3}, append(append(iname{}, spine[:2]...), 3))
	return out
}

var costs = []uint64{0, 1, 5, 10, 1<<64 - 1}
var origins = []uint64{0, 65, 128}

func (g *gen) op(names []iname, readShare int) op {
	n := names[g.r.Intn(len(names))]
	face := uint64(1 + g.r.Intn(3))
	if g.r.Intn(100) < readShare {
		switch g.r.Intn(10) {
		case 0:
			return op{kind: "fib"}
		case 1:
			return op{kind: "sl"}
		case 2:
			return op{kind: "rib"}
		case 3, 4:
			return op{kind: "st", name: n}
		default:
			// look up a name at or below a registered prefix
			if g.r.Intn(2) == 0 {
				n = append(append(iname{}, n...), 4)
			}
			return op{kind: "nh", name: n}
		}
	}
	switch k := g.r.Intn(100); {
	case k < 35:
		return op{"reg", n, []uint64{face, origins[g.r.Intn(len(origins))], costs[g.r.Intn(len(costs))], uint64(g.r.Intn(4))}}
	case k < 55:
		return op{"unreg", n, []uint64{face, origins[g.r.Intn(len(origins))]}}
	case k < 63:
		return op{"teardown", nil, []uint64{face}}
	case k < 78:
		return op{"ins", n, []uint64{face, costs[g.r.Intn(len(costs))]}}
	case k < 86:
		return op{"rem", n, []uint64{face}}
	case k < 95:
		return op{"sets", n, []uint64{uint64(g.r.Intn(3))}}
	default:
		if len(n) == 0 {
			return op{"sets", n, []uint64{uint64(g.r.Intn(3))}}
		}
		return op{"uns", n, nil}
	}
}

// gateFib wraps the FIB handed to the RIB (table.FibStrategyTable is an interface variable): a harness-side delegating
// shim that can park one caller at the entry of ReplaceNextHopsEnc / InsertNextHopEnc / ClearNextHopsEnc, i.e. exactly at the
// boundary between the RIB critical section and the FIB critical section.  No production code is changed.
type gateFib struct {
	table.FibStrategy
	mu      sync.Mutex
	armed   bool
	parked  chan struct{}
	release chan struct{}
}

func (g *gateFib) arm() {
	g.mu.Lock()
	g.armed, g.parked, g.release = true, make(chan struct{}), make(chan struct{})
	g.mu.Unlock()
}

func (g *gateFib) gate() {
	g.mu.Lock()
	if !g.armed {
		g.mu.Unlock()
		return
	}
	g.armed = false
	p, r := g.parked, g.release
	g.mu.Unlock()
	close(p)
	<-r
}

func (g *gateFib) ReplaceNextHopsEnc(u []table.FibNextHopsUpdate) {
	g.gate()
	g.FibStrategy.ReplaceNextHopsEnc(u)
}
func (g *gateFib) InsertNextHopEnc(n enc.Name, nh uint64, c uint64) {
	g.gate()
	g.FibStrategy.InsertNextHopEnc(n, nh, c)
}
func (g *gateFib) ClearNextHopsEnc(n enc.Name) {
	g.gate()
	g.FibStrategy.ClearNextHopsEnc(n)
}

// forcedRounds: deterministic interleavings the scheduler rarely produces.  For every pair (op1, op2) of RIB operations
// (register / unregister / face teardown) on the same, an ancestor or a descendant prefix, and both FIBs: op1 is parked
// when it is about to enter the FIB; op2 is then started and given time to complete.  With the RIB mutex held across the
// FIB installation op2 simply waits (blocked = good) and the round is op1;op2.  If op2 can complete while op1 is parked,
// op1's stale batch is installed after it.  Either way the recorded history goes to the sequential-witness search: the
// final tables must equal op1;op2 or op2;op1 on the C06 model.
func forcedRounds(t *testing.T, w *bufio.Writer) {
	P, A, D := iname{1, 2}, iname{1}, iname{1, 2, 3}
	universe := []iname{{}, A, P, D, {1, 2, 3, 4}, {1, 5}, {1, 2, 6}}
	prologue := []op{
		{"reg", A, []uint64{1, 0, 5, 1}},
		{"reg", P, []uint64{2, 0, 7, 1}},
		{"reg", D, []uint64{3, 0, 9, 0}},
	}
	faceOf := map[string]uint64{A.String(): 1, P.String(): 2, D.String(): 3}
	op1s := []op{
		{"reg", P, []uint64{4, 0, 1, 1}},
		{"unreg", P, []uint64{2, 0}},
		{"teardown", nil, []uint64{2}},
	}
	k := 0
	for _, impl := range []string{"T", "H"} {
		for _, o1 := range op1s {
			for _, X := range []iname{P, A, D} {
				op2s := []op{
					{"reg", X, []uint64{5, 0, 2, 3}},
					{"unreg", X, []uint64{faceOf[X.String()], 0}},
					{"teardown", nil, []uint64{faceOf[X.String()]}},
					{"reg", X, []uint64{faceOf[X.String()], 0, 3, 0}}, // re-registration: cost and flags change
				}
				for _, o2 := range op2s {
					k++
					m := 1 + k%3
					core.GetConfig().Tables.Fib.Hashtable.M = uint16(m)
					if impl == "H" {
						table.CreateFIBTable("hashtable")
					} else {
						table.CreateFIBTable("nametree")
					}
					gf := &gateFib{FibStrategy: table.FibStrategyTable}
					table.FibStrategyTable = gf
					resetRib()
					var clock atomic.Int64
					var recs []rec
					for _, o := range prologue {
						inv := clock.Add(1)
						var res string
						if !bounded(stuckAfter, func() { res = o.run() }) {
							fmt.Fprintf(w, "R g%d %s %d 2\n", k, impl, m)
							for _, r := range recs {
								fmt.Fprintf(w, "H %d %d %d %s => %s\n", r.g, r.inv, r.resp, r.op.String(), r.res)
							}
							fmt.Fprintf(w, "X watchdog: operation [%s] never returned after the history above (a lock is still held: deadlock; %s)\nE\n", o.String(), lastDeadlock)
							w.Flush()
							t.Fatalf("forced round %d: %s never returned", k, o.String())
						}
						recs = append(recs, rec{0, inv, clock.Add(1), o, res})
					}
					gf.arm()
					done1, done2 := make(chan rec, 1), make(chan rec, 1)
					go func() {
						inv := clock.Add(1)
						res := o1.run()
						done1 <- rec{1, inv, clock.Add(1), o1, res}
					}()
					var r1, r2 rec
					got1 := false
				waitParked:
					for {
						select {
						case <-gf.parked:
							break waitParked
						case r1 = <-done1: // op1 never reached the FIB
							got1 = true
							break waitParked
						case <-time.After(stuckAfter):
							if dl, why := confirmDeadlock(); dl {
								fmt.Fprintf(w, "R g%d %s %d 2\nX watchdog: operation [%s] neither reached the FIB nor returned: deadlock (%s)\nE\n", k, impl, m, o1.String(), why)
								w.Flush()
								t.Fatalf("forced round %d: op1 neither reached the FIB nor returned", k)
							}
							stillWaiting()
						}
					}
					parked := !got1
					gf.mu.Lock()
					gf.armed = false // at most op1 is ever parked
					gf.mu.Unlock()
					go func() {
						inv := clock.Add(1)
						res := o2.run()
						done2 <- rec{2, inv, clock.Add(1), o2, res}
					}()
					got2 := false
					select {
					case r2 = <-done2: // op2 ran to completion while op1 was parked between the RIB and the FIB
						got2 = true
					case <-time.After(40 * time.Millisecond): // blocked behind op1: good
					}
					if parked {
						close(gf.release)
					}
					for !got1 || !got2 {
						select {
						case r1 = <-done1:
							got1 = true
						case r2 = <-done2:
							got2 = true
						case <-time.After(stuckAfter):
							if dl, why := confirmDeadlock(); dl {
								fmt.Fprintf(w, "R g%d %s %d 2\nX watchdog: forced interleaving %s | %s did not complete: deadlock (%s)\nE\n", k, impl, m, o1.String(), o2.String(), why)
								w.Flush()
								t.Fatalf("forced round %d did not complete (deadlock)", k)
							}
							stillWaiting()
						}
					}
					recs = append(recs, r1, r2)
					lastOps = []string{o1.String(), o2.String()}
					fmt.Fprintf(w, "R g%d %s %d 2\n", k, impl, m)
					us := make([]string, len(universe))
					for i, n := range universe {
						us[i] = n.String()
					}
					fmt.Fprintf(w, "U %s\n", strings.Join(us, " "))
					for _, r := range recs {
						fmt.Fprintf(w, "H %d %d %d %s => %s\n", r.g, r.inv, r.resp, r.op.String(), r.res)
					}
					fmt.Fprint(w, finalObs(universe))
					fmt.Fprintf(w, "E\n")
				}
			}
		}
	}
}

// ---- the forwarder around the tables: one real forwarding thread and the real management thread (for its
// NLSR readvertiser), started once per test process
var (
	fwThread   *fw.Thread
	mgmtThread *fwmgmt.Thread
)

func startForwarder(t *testing.T) {
	face.Configure()
	fwmgmt.Configure()
	fw.VerifConfigure(1024, 1)
	fwThread = fw.NewThread(0)
	fw.Threads = []*fw.Thread{fwThread}
	dispatch.InitializeFWThreads([]dispatch.FWThread{fwThread})
	table.CreateFIBTable("nametree")
	mgmtThread = fwmgmt.MakeMgmtThread() // Tables.Rib.ReadvertiseNlsr is off in the config: rounds add the readvertiser themselves
	go mgmtThread.VerifRun(func(any) {})
	// Run registers the internal face and then its own FIB entry; after that it only waits on its transport, so the
	// harness may replace the FIB variable between rounds (in the daemon it is set once at start-up)
	nfd, _ := enc.NameFromStr("/localhost/nfd")
	// no deadline decides anything here: the entry is the management thread's last access to the FIB variable, and seeing
	// it (through the FIB's own lock) orders that access before everything the harness does next
	waitEntry := func(n enc.Name) {
		last := time.Now()
		for len(table.FibStrategyTable.FindNextHopsEnc(n)) == 0 {
			if time.Since(last) > stuckAfter {
				stillWaiting()
				last = time.Now()
			}
			time.Sleep(100 * time.Microsecond)
		}
	}
	waitEntry(nfd)
	if fwmgmt.VerifLocalhopEnabled() {
		lh, _ := enc.NameFromStr("/localhop/nfd")
		waitEntry(lh)
	}
}

// stuckAfter: an operation on the tables that has not returned after this long is reported as stuck (deadlock) and the
// remaining rounds are abandoned
const stuckAfter = 4 * time.Second

// lastOps: the operations of the round that just ended (for the report when the RIB turns out to be left locked)
var (
	lastOps  []string
	harnessT *testing.T
	harnessW *bufio.Writer
)

// resetRib empties the RIB between rounds; it needs the RIB mutex, so an operation of the previous round that returned
// with the mutex still held shows up here
func resetRib() {
	if bounded(stuckAfter, table.VerifResetRib) {
		return
	}
	fmt.Fprintf(harnessW, "R reset T 1 1\nX watchdog: the RIB mutex is still held after every operation of the previous round has returned (an operation returned without releasing it); last operations: %s\nE\n", strings.Join(lastOps, " | "))
	harnessW.Flush()
	harnessT.Fatalf("the RIB mutex is still held after the previous round: %v", lastOps)
}

// finalObs reads the final tables (lookups over the universe and the three listings).  It needs the tables' locks: if it
// does not return, an operation of the round returned with a lock still held.
func finalObs(universe []iname) string {
	var out string
	if bounded(stuckAfter, func() {
		nh := make([]string, len(universe))
		st := make([]string, len(universe))
		for i, n := range universe {
			nh[i] = nhStr(table.FibStrategyTable.FindNextHopsEnc(n.enc()))
			st[i] = stratStr(table.FibStrategyTable.FindStrategyEnc(n.enc()))
		}
		out = fmt.Sprintf("F nh %s\nF st %s\nF fib %s\nF sl %s\nF rib %s\n", strings.Join(nh, "|"), strings.Join(st, "|"), fibListing(), stratListing(), ribListing())
	}) {
		return out
	}
	fmt.Fprintf(harnessW, "X watchdog: the final tables cannot be read: a table mutex is still held after every operation of the round has returned (an operation returned without releasing it); operations of the round: %s\nE\n", strings.Join(lastOps, " | "))
	harnessW.Flush()
	harnessT.Fatalf("a table mutex is still held after the round: %v", lastOps)
	return ""
}

// ---- waiting without turning the wall clock into a verdict ----
// A wall-clock limit never produces a failure here.  When something has not happened after stuckAfter the goroutines are
// inspected: a DEADLOCK is reported only if, in two inspections half a second apart, some goroutine inside the forwarder's
// code waits for a mutex while no goroutine inside the forwarder's code is running or runnable (so nobody can ever release
// it).  Otherwise the machine is merely slow and the wait goes on; after hardCap of that the run is abandoned with a note.
const hardCap = 150 * time.Second

func lockWaitState(state string) bool {
	return strings.HasPrefix(state, "sync.Mutex.Lock") || strings.HasPrefix(state, "sync.RWMutex.Lock") ||
		strings.HasPrefix(state, "sync.RWMutex.RLock") || strings.HasPrefix(state, "semacquire")
}

// deadlocked inspects all goroutines once
func deadlocked() (bool, string) {
	buf := make([]byte, 8<<20)
	n := runtime.Stack(buf, true)
	waiting, active := 0, 0
	var sample string
	for gi, g := range strings.Split(string(buf[:n]), "\n\n") {
		if gi == 0 {
			continue // the inspecting goroutine itself (runtime.Stack lists the caller first)
		}
		i, j := strings.Index(g, "["), strings.Index(g, "]")
		if i < 0 || j < i {
			continue
		}
		state := g[i+1 : j]
		if k := strings.Index(state, ","); k >= 0 {
			state = state[:k]
		}
		if !strings.Contains(g, "github.com/named-data/ndnd/fw/") {
			// harness-only goroutine: if it can run, something the forwarder's goroutines wait for may still happen
			if state == "running" || state == "runnable" {
				active++
			}
			continue
		}
		switch {
		case lockWaitState(state):
			waiting++
			if sample == "" {
				lines := strings.Split(g, "\n")
				if len(lines) > 8 {
					lines = lines[:8]
				}
				sample = strings.Join(lines, " | ")
			}
		case state == "running" || state == "runnable" || state == "syscall":
			active++
		}
	}
	return waiting > 0 && active == 0, sample
}

// confirmDeadlock: two inspections half a second apart both show a deadlock
func confirmDeadlock() (bool, string) {
	d1, why := deadlocked()
	if !d1 {
		return false, ""
	}
	time.Sleep(500 * time.Millisecond)
	d2, _ := deadlocked()
	return d2, why
}

var slowTotal time.Duration

// stillWaiting is called each time a wait has lasted another stuckAfter without a deadlock being visible
func stillWaiting() {
	slowTotal += stuckAfter
	if slowTotal > hardCap {
		fmt.Fprintf(harnessW, "N the machine is too slow: waits added up to more than %v although no deadlock is visible; the remaining rounds are abandoned\n", hardCap)
		harnessW.Flush()
		os.Exit(0)
	}
}

// await waits for done; false only for a proven deadlock (see above)
func await(done <-chan struct{}) (bool, string) {
	select {
	case <-done:
		return true, ""
	case <-time.After(stuckAfter):
	}
	start := time.Now()
	for {
		d1, why := deadlocked()
		select {
		case <-done:
			return true, ""
		case <-time.After(500 * time.Millisecond):
		}
		if d1 {
			if d2, _ := deadlocked(); d2 {
				select {
				case <-done:
					return true, ""
				default:
					return false, why
				}
			}
		}
		if time.Since(start) > hardCap {
			fmt.Fprintf(harnessW, "N the machine is too slow: an operation did not finish within %v although no deadlock is visible; the remaining rounds are abandoned\n", hardCap)
			harnessW.Flush()
			os.Exit(0)
		}
	}
}

var lastDeadlock string // where the last proven deadlock waits

// bounded runs f and reports whether it returned; false only for a proven deadlock
func bounded(_ time.Duration, f func()) bool {
	done := make(chan struct{})
	go func() { f(); close(done) }()
	ok, why := await(done)
	if !ok {
		lastDeadlock = why
	}
	return ok
}

// readvertiseRound: client-origin (65) routes with NLSR readvertising on; the same prefix registered on two faces, one
// removed, further registrations and withdrawals -- sequentially and from several goroutines.  Every RIB operation calls
// the readvertiser while holding the RIB mutex: an operation that never returns is a deadlock (watchdog).  Recorded like a
// normal round, so the history is also checked for a sequential witness.
func readvertiseRound(t *testing.T, w *bufio.Writer, round int, impl string, m int, g *gen) {
	table.AddReadvertiser(fwmgmt.NewNlsrReadvertiser(mgmtThread))
	P, Q := iname{1, 2}, iname{1, 3}
	universe := []iname{{}, {1}, P, Q, {1, 2, 4}}
	seq := []op{
		{"reg", P, []uint64{1, 65, 5, 1}},
		{"reg", P, []uint64{2, 65, 7, 1}},
		{"unreg", P, []uint64{1, 65}}, // still advertised through face 2: the withdraw is skipped
		{"reg", Q, []uint64{1, 65, 3, 1}},
		{"unreg", P, []uint64{2, 65}},
		{"teardown", nil, []uint64{1}},
	}
	var clock atomic.Int64
	var mu sync.Mutex
	var recs []rec
	stuck := ""
	do := func(gor int, o op) bool {
		inv := clock.Add(1)
		var res string
		if !bounded(stuckAfter, func() { res = o.run() }) {
			mu.Lock()
			stuck = o.String()
			mu.Unlock()
			return false
		}
		mu.Lock()
		recs = append(recs, rec{gor, inv, clock.Add(1), o, res})
		mu.Unlock()
		return true
	}
	ok := true
	for _, o := range seq {
		if ok = do(0, o); !ok {
			break
		}
	}
	if ok {
		// the same pattern concurrently
		var wg sync.WaitGroup
		for i := 1; i <= 3; i++ {
			wg.Add(1)
			go func(i int) {
				defer wg.Done()
				f := uint64(i)
				for _, o := range []op{{"reg", P, []uint64{f, 65, uint64(i), 1}}, {"reg", Q, []uint64{f, 65, 9, 0}}, {"unreg", P, []uint64{f, 65}}} {
					if !do(i, o) {
						return
					}
				}
			}(i)
		}
		wg.Wait()
	}
	lastOps = lastOps[:0]
	for _, r := range recs {
		lastOps = append(lastOps, r.op.String())
	}
	fmt.Fprintf(w, "R a%d %s %d 4\n", round, impl, m)
	if stuck != "" {
		fmt.Fprintf(w, "X watchdog: RIB operation [%s] with NLSR readvertising on never returned (deadlock: the RIB mutex stays held)\nE\n", stuck)
		w.Flush()
		t.Fatalf("readvertise round %d: operation %s never returned", round, stuck)
	}
	us := make([]string, len(universe))
	for i, n := range universe {
		us[i] = n.String()
	}
	fmt.Fprintf(w, "U %s\n", strings.Join(us, " "))
	for _, r := range recs {
		fmt.Fprintf(w, "H %d %d %d %s => %s\n", r.g, r.inv, r.resp, r.op.String(), r.res)
	}
	fmt.Fprint(w, finalObs(universe))
	fmt.Fprintf(w, "E\n")
}

func mkInterest(name enc.Name, inFace uint64, nonce uint64) *defn.Pkt {
	ei, err := spec.Spec{}.MakeInterest(name, &ndn.InterestConfig{Nonce: utils.IdPtr(nonce), Lifetime: utils.IdPtr(50 * time.Millisecond)}, nil, nil)
	if err != nil {
		panic(err)
	}
	raw := ei.Wire.Join()
	p, _, err := spec.ReadPacket(enc.NewBufferReader(raw))
	if err != nil || p.Interest == nil {
		panic(fmt.Sprint("interest did not parse: ", err))
	}
	return &defn.Pkt{Name: p.Interest.NameV, L3: p, Raw: raw, IncomingFaceID: utils.IdPtr(inFace)}
}

// forwardingRound: the forwarding thread's Interest pipeline (FIB lookup, strategy, send on the next-hop face) races the
// teardown of that very face (an application that registered a prefix on its face, sends Interests under it and exits).
// A panic in the pipeline is what ends the daemon.
func forwardingRound(t *testing.T, w *bufio.Writer, round int, g *gen) {
	table.CreateFIBTable("nametree")
	resetRib()
	panics := map[string]int{}
	var pmu sync.Mutex
	nonce := uint64(round) << 32
	for iter := 0; iter < 60; iter++ {
		app := face.MakeNullLinkService(face.MakeNullTransport())
		face.FaceTable.Add(app)
		id := app.FaceID()
		other := face.MakeNullLinkService(face.MakeNullTransport())
		face.FaceTable.Add(other)
		pfx := iname{7, iter % 5}
		table.Rib.AddEncRoute(pfx.enc(), &table.Route{FaceID: id, Origin: 0, Cost: 1, Flags: 1})
		table.Rib.AddEncRoute(pfx.enc(), &table.Route{FaceID: other.FaceID(), Origin: 0, Cost: 5, Flags: 1})
		var wg sync.WaitGroup
		wg.Add(2)
		go func() { // the forwarding thread
			defer wg.Done()
			for j := 0; j < 25; j++ {
				nonce++
				pkt := mkInterest(append(pfx.enc(), enc.NewStringComponent(enc.TypeGenericNameComponent, fmt.Sprintf("i%d-%d", iter, j))), id, nonce)
				func() {
					defer func() {
						if e := recover(); e != nil {
							pmu.Lock()
							panics[fmt.Sprint(e)]++
							pmu.Unlock()
						}
					}()
					fwThread.VerifProcessIncomingInterest(pkt)
				}()
			}
		}()
		go func() { // the face's goroutine: the transport ended
			defer wg.Done()
			d := time.Duration(g.r.Intn(400)) * time.Microsecond
			time.Sleep(d)
			face.FaceTable.Remove(id)
		}()
		wg.Wait()
		face.FaceTable.Remove(other.FaceID())
	}
	fmt.Fprintf(w, "R w%d T 1 2\n", round)
	for msg, n := range panics {
		fmt.Fprintf(w, "X panic in the forwarding pipeline while the next-hop face was torn down (%d times): %s\n", n, msg)
	}
	fmt.Fprintf(w, "E\n")
}

// unsetRaceRound: strategy unset racing "unset, set, add a next hop" on the same prefix, many times.  Whatever the order,
// the next hop added last by the second goroutine must be there afterwards (an unset only removes the strategy; the entry
// is pruned only when nothing is left).  Only a failing attempt is written out, as a recorded history for the
// sequential-witness search.
func unsetRaceRound(t *testing.T, w *bufio.Writer, round int, impl string, m int) {
	core.GetConfig().Tables.Fib.Hashtable.M = uint16(m)
	if impl == "H" {
		table.CreateFIBTable("hashtable")
	} else {
		table.CreateFIBTable("nametree")
	}
	resetRib()
	f := table.FibStrategyTable
	P := iname{1, 2, 3}
	pn := P.enc()
	type job struct{ start, done chan struct{} }
	var clock atomic.Int64
	var stamps [2][4][2]int64 // goroutine, op index, inv/resp
	work := [2][]op{
		{{kind: "uns", name: P}},
		{{kind: "uns", name: P}, {kind: "sets", name: P, a: []uint64{1}}, {kind: "ins", name: P, a: []uint64{7, 3}}},
	}
	jobs := [2]job{{make(chan struct{}), make(chan struct{})}, {make(chan struct{}), make(chan struct{})}}
	quit := make(chan struct{})
	for gi := 0; gi < 2; gi++ {
		go func(gi int) {
			for {
				select {
				case <-quit:
					return
				case <-jobs[gi].start:
				}
				for k, o := range work[gi] {
					stamps[gi][k][0] = clock.Add(1)
					o.run()
					stamps[gi][k][1] = clock.Add(1)
				}
				jobs[gi].done <- struct{}{}
			}
		}(gi)
	}
	defer close(quit)
	deadline := time.Now().Add(700 * time.Millisecond)
	attempts := 0
	for time.Now().Before(deadline) {
		attempts++
		f.SetStrategyEnc(pn, stratName(2))
		clock.Store(2)
		jobs[0].start <- struct{}{}
		jobs[1].start <- struct{}{}
		for gi := 0; gi < 2; gi++ {
		waitJob:
			for {
				select {
				case <-jobs[gi].done:
					break waitJob
				case <-time.After(stuckAfter):
					if dl, why := confirmDeadlock(); dl {
						fmt.Fprintf(w, "R u%d %s %d 2\nX watchdog: strategy unset / set / insert on one prefix did not return: deadlock (%s)\nE\n", round, impl, m, why)
						w.Flush()
						t.Fatalf("unset race round %d stuck", round)
					}
					stillWaiting()
				}
			}
		}
		if got := nhStr(f.FindNextHopsEnc(pn)); got != "7:3" {
			fmt.Fprintf(w, "R u%d %s %d 2\nU / /1 /1/2 /1/2/3 /1/2/3/4\nH 0 1 2 sets %s 2 => ok\n", round, impl, m, P.String())
			for gi := 0; gi < 2; gi++ {
				for k, o := range work[gi] {
					fmt.Fprintf(w, "H %d %d %d %s => ok\n", gi+1, stamps[gi][k][0], stamps[gi][k][1], o.String())
				}
			}
			fmt.Fprint(w, finalObs([]iname{{}, {1}, {1, 2}, P, {1, 2, 3, 4}}))
			fmt.Fprintf(w, "E\n")
			return
		}
		f.RemoveNextHopEnc(pn, 7)
		f.UnSetStrategyEnc(pn)
	}
	fmt.Fprintf(w, "R u%d %s %d 2\nE\n", round, impl, m)
	_ = attempts
}

// lifecycleRounds: the life of a face as the daemon lives it -- a real NDNLP link service over an in-memory transport,
// started with Run; management faces/destroy takes it out of the tables while its transport keeps running; routes are
// registered on its id before and after; finally the transport ends and the link service's own goroutines tear it down.
// Every order of {register, destroy, register again, unregister} before the final close is enumerated, alone and with a
// second goroutine registering on another face while the teardown runs.  Recorded for the sequential-witness search
// (destroy and close are both "teardown" there: whatever the order, no route of a face survives its last teardown).
func lifecycleRounds(t *testing.T, w *bufio.Writer) {
	P, Q := iname{1, 2}, iname{1, 2, 3}
	universe := []iname{{}, {1}, P, Q, {1, 2, 3, 4}}
	scripts := [][]op{
		{{"reg", P, []uint64{1, 0, 5, 1}}, {"close", nil, []uint64{1}}},
		{{"reg", P, []uint64{1, 0, 5, 1}}, {"teardown", nil, []uint64{1}}, {"reg", Q, []uint64{1, 0, 7, 0}}, {"close", nil, []uint64{1}}},
		{{"teardown", nil, []uint64{1}}, {"reg", P, []uint64{1, 65, 5, 1}}, {"close", nil, []uint64{1}}},
		{{"reg", P, []uint64{1, 0, 5, 1}}, {"reg", Q, []uint64{900002, 0, 1, 0}}, {"teardown", nil, []uint64{1}}, {"reg", P, []uint64{1, 0, 9, 3}}, {"unreg", P, []uint64{1, 0}}, {"reg", Q, []uint64{1, 0, 2, 1}}, {"close", nil, []uint64{1}}},
		{{"reg", P, []uint64{1, 0, 5, 1}}, {"close", nil, []uint64{1}}, {"reg", Q, []uint64{1, 0, 7, 0}}, {"teardown", nil, []uint64{1}}},
	}
	k := 0
	for _, impl := range []string{"T", "H"} {
		for si, script := range scripts {
			for _, withOther := range []bool{false, true} {
				k++
				m := 1 + k%3
				core.GetConfig().Tables.Fib.Hashtable.M = uint16(m)
				if impl == "H" {
					table.CreateFIBTable("hashtable")
				} else {
					table.CreateFIBTable("nametree")
				}
				resetRib()
				tr := face.NewVerifTransport(8800, defn.NonLocal)
				ls := face.MakeNDNLPLinkService(tr, face.MakeNDNLPLinkServiceOptions())
				faceDone = map[uint64]<-chan struct{}{1: face.VerifRunLinkService(ls)}
				faceReal = map[uint64]uint64{1: ls.FaceID()}
				faceAlias = map[uint64]uint64{ls.FaceID(): 1}
				faceTr = map[uint64]*face.VerifTransport{1: tr}
				var clock atomic.Int64
				var mu sync.Mutex
				var recs []rec
				stuck := ""
				do := func(gor int, o op) {
					inv := clock.Add(1)
					var res string
					if !bounded(stuckAfter, func() { res = o.run() }) {
						mu.Lock()
						stuck = o.String()
						mu.Unlock()
						return
					}
					mu.Lock()
					recs = append(recs, rec{gor, inv, clock.Add(1), o, res})
					mu.Unlock()
				}
				for i, o := range script {
					if stuck != "" {
						break
					}
					if withOther && i == len(script)-1 {
						var wg sync.WaitGroup
						wg.Add(1)
						go func() {
							defer wg.Done()
							do(1, op{"reg", iname{1}, []uint64{900003, 0, 4, 1}}) // a face id that cannot collide with a real one
							do(1, op{"nh", Q, nil})
						}()
						do(0, o)
						wg.Wait()
					} else {
						do(0, o)
					}
				}
				lastOps = lastOps[:0]
				for _, r := range recs {
					lastOps = append(lastOps, r.op.String())
				}
				fmt.Fprintf(w, "R f%d-%d %s %d 2\n", k, si, impl, m)
				if stuck != "" {
					fmt.Fprintf(w, "X watchdog: [%s] in the life of a face never returned (deadlock)\nE\n", stuck)
					w.Flush()
					t.Fatalf("lifecycle round %d stuck at %s", k, stuck)
				}
				us := make([]string, len(universe))
				for i, n := range universe {
					us[i] = n.String()
				}
				fmt.Fprintf(w, "U %s\n", strings.Join(us, " "))
				for _, r := range recs {
					fmt.Fprintf(w, "H %d %d %d %s => %s\n", r.g, r.inv, r.resp, r.op.String(), r.res)
				}
				fmt.Fprint(w, finalObs(universe))
				fmt.Fprintf(w, "E\n")
				if faceTr[1] != nil {
					tr.Close()
					<-faceDone[1]
				}
				faceReal, faceAlias, faceTr = map[uint64]uint64{}, map[uint64]uint64{}, map[uint64]*face.VerifTransport{}
			}
		}
	}
}

// bigRound: ONE RIB operation that rewrites many FIB entries (a child-inherit route over n routed children is re-registered
// with cost 1, 2, 3, ...; finally its face is torn down), while readers take whole-table dumps and walk over the children
// with lookups.  Atomicity per RIB operation (guarded_linearizable) means for this single-writer workload: every dump shows
// ONE version on all entries, and every value read lies between the last version completed before the read began and the
// last version started before it ended -- in particular a reader never goes back to an older version.
func bigRound(t *testing.T, w *bufio.Writer, round int, impl string, m int, n int, d time.Duration) {
	core.GetConfig().Tables.Fib.Hashtable.M = uint16(m)
	if impl == "H" {
		table.CreateFIBTable("hashtable")
	} else {
		table.CreateFIBTable("nametree")
	}
	resetRib()
	parent := iname{9}
	kids := make([]enc.Name, n)
	for i := range kids {
		kids[i] = iname{9, 1000 + i}.enc()
		table.Rib.AddEncRoute(kids[i], &table.Route{FaceID: 2, Origin: 0, Cost: 1 << 40, Flags: 0})
	}
	var started, completed atomic.Int64 // version = cost of face 1 on every entry below /9 (0 = not there)
	version := func(nhs []*table.FibNextHopEntry) int64 {
		for _, nh := range nhs {
			if nh.Nexthop == 1 {
				return int64(nh.Cost)
			}
		}
		return 0
	}
	var mu sync.Mutex
	var problems []string
	report := func(s string) {
		mu.Lock()
		if len(problems) < 3 {
			problems = append(problems, s)
		}
		mu.Unlock()
	}
	stop := make(chan struct{})
	var wg sync.WaitGroup
	reader := func(f func()) {
		wg.Add(1)
		go func() {
			defer wg.Done()
			for {
				select {
				case <-stop:
					return
				default:
					f()
				}
			}
		}()
	}
	for i := 0; i < 2; i++ {
		reader(func() { // whole-table dump
			lo := completed.Load()
			hist := map[int64]int{}
			for _, e := range table.FibStrategyTable.GetAllFIBEntries() {
				if len(e.Name()) >= 1 && e.Name()[0].Equal(kids[0][0]) {
					hist[version(e.GetNextHops())]++
				}
			}
			hi := started.Load()
			if len(hist) > 1 {
				report(fmt.Sprintf("one GetAllFIBEntries dump shows %d different versions of one RIB operation's result (version:entries %v)", len(hist), hist))
			}
			for v := range hist {
				if v != 0 && (v < lo || v > hi) {
					report(fmt.Sprintf("dump shows version %d outside [%d,%d]", v, lo, hi))
				}
			}
		})
	}
	for i := 0; i < 2; i++ {
		reader(func() { // a walk over the children: versions must never go back
			last := int64(0)
			for k := 0; k < n; k += 1 + n/64 {
				lo := completed.Load()
				v := version(table.FibStrategyTable.FindNextHopsEnc(kids[k]))
				hi := started.Load()
				if v != 0 && (v < lo || v > hi) {
					report(fmt.Sprintf("lookup under child %d returned version %d outside [%d,%d]", k, v, lo, hi))
				}
				if v != 0 && v < last {
					report(fmt.Sprintf("a reader that had seen version %d later saw version %d (child %d): a partially installed RIB operation", last, v, k))
				}
				if v > last {
					last = v
				}
			}
		})
	}
	stuck := ""
	deadline := time.Now().Add(d)
	for v := int64(1); time.Now().Before(deadline) && stuck == ""; v++ {
		started.Store(v)
		if !bounded(stuckAfter, func() {
			table.Rib.AddEncRoute(parent.enc(), &table.Route{FaceID: 1, Origin: 0, Cost: uint64(v), Flags: 1})
		}) {
			stuck = fmt.Sprintf("reg /9 1 0 %d 1", v)
		}
		completed.Store(v)
	}
	close(stop)
	wg.Wait()
	fmt.Fprintf(w, "R b%d %s %d 5\n", round, impl, m)
	if stuck != "" {
		fmt.Fprintf(w, "X watchdog: [%s] over %d child prefixes never returned (deadlock)\n", stuck, n)
	}
	for _, p := range problems {
		fmt.Fprintf(w, "X one RIB operation over %d prefixes (versions up to %d) was not atomic for a concurrent reader: %s\n", n, started.Load(), p)
	}
	fmt.Fprintf(w, "E\n")
	if stuck != "" {
		w.Flush()
		t.Fatalf("big round stuck")
	}
}

// listingRound: management listings (GetAllFIBEntries, GetAllForwardingStrategies, Rib.GetAllEntries) run beside
// forwarding lookups and updates on prefixes whose next hops are NOT in ascending cost order (unrecorded: race / abort /
// torn-value detection; every value read must be one that was written).
func listingRound(t *testing.T, w *bufio.Writer, round int, impl string) {
	names := []iname{{1}, {1, 2}, {1, 2, 3}, {2}}
	for i, n := range names {
		// costs descending in insertion order, some set directly in the FIB, some through the RIB
		table.FibStrategyTable.InsertNextHopEnc(n.enc(), 1, 30)
		table.FibStrategyTable.InsertNextHopEnc(n.enc(), 2, 20)
		table.FibStrategyTable.InsertNextHopEnc(n.enc(), 3, 10)
		if i%2 == 1 {
			table.Rib.AddEncRoute(n.enc(), &table.Route{FaceID: 1, Origin: 0, Cost: 30, Flags: 1})
			table.Rib.AddEncRoute(n.enc(), &table.Route{FaceID: 2, Origin: 0, Cost: 20, Flags: 1})
			table.Rib.AddEncRoute(n.enc(), &table.Route{FaceID: 3, Origin: 0, Cost: 10, Flags: 0})
		}
	}
	valid := map[uint64]bool{10: true, 20: true, 30: true, 5: true, 40: true}
	var bad atomic.Int64
	var wg sync.WaitGroup
	stop := make(chan struct{})
	run := func(f func(k int)) {
		wg.Add(1)
		go func() {
			defer wg.Done()
			for k := 0; ; k++ {
				select {
				case <-stop:
					return
				default:
				}
				f(k)
			}
		}()
	}
	check := func(nhs []*table.FibNextHopEntry) {
		seen := map[uint64]bool{}
		for _, nh := range nhs {
			if !valid[nh.Cost] || nh.Nexthop < 1 || nh.Nexthop > 3 || seen[nh.Nexthop] {
				bad.Add(1)
			}
			seen[nh.Nexthop] = true
		}
	}
	for i := 0; i < 2; i++ {
		run(func(k int) { // listings
			for _, e := range table.FibStrategyTable.GetAllFIBEntries() {
				check(e.GetNextHops())
			}
			for _, e := range table.FibStrategyTable.GetAllForwardingStrategies() {
				_ = e.GetStrategy()
			}
			for _, e := range table.Rib.GetAllEntries() {
				for _, r := range e.GetRoutes() {
					_ = r.Cost
				}
			}
		})
	}
	for i := 0; i < 3; i++ {
		run(func(k int) { // forwarding lookups
			n := names[k%len(names)]
			check(table.FibStrategyTable.FindNextHopsEnc(append(n.enc(), enc.NewStringComponent(enc.TypeGenericNameComponent, "x"))))
		})
	}
	run(func(k int) { // updates that keep the hops out of cost order
		n := names[k%len(names)]
		costs := []uint64{30, 20, 10, 5, 40}
		if k%3 == 0 {
			table.Rib.AddEncRoute(names[1].enc(), &table.Route{FaceID: uint64(1 + k%3), Origin: 0, Cost: costs[(k/3)%5], Flags: 1})
		} else {
			table.FibStrategyTable.InsertNextHopEnc(n.enc(), uint64(1+k%3), costs[k%5])
		}
	})
	time.Sleep(150 * time.Millisecond)
	close(stop)
	done := make(chan struct{})
	go func() { wg.Wait(); close(done) }()
	if ok, why := await(done); !ok {
		fmt.Fprintf(w, "R l%d %s 1 6\nX watchdog: listing round did not complete: deadlock (%s)\nE\n", round, impl, why)
		w.Flush()
		t.Fatalf("listing round %d did not complete", round)
	}
	fmt.Fprintf(w, "R l%d %s 1 6\n", round, impl)
	if n := bad.Load(); n > 0 {
		fmt.Fprintf(w, "X listing round: %d next-hop values read by a lookup or listing were never written (torn or duplicated record)\n", n)
	}
	fmt.Fprintf(w, "E\n")
}

// faceRound: goroutines register (FaceTable.Add), look up (Get) and tear down (Remove) stub faces concurrently.
func faceRound(w *bufio.Writer, round int, g *gen, heavy bool) {
	mk := func() face.LinkService { return face.MakeNullLinkService(face.MakeNullTransport()) }
	// a sentinel face tells which FaceID comes next
	s0 := mk()
	face.FaceTable.Add(s0)
	n0 := s0.FaceID() + 1
	face.FaceTable.Remove(s0.FaceID())
	ngor := []int{2, 3, 4, 8, 12, 16}[g.r.Intn(6)]
	per := 14 / ngor
	if per < 1 {
		per = 1
	}
	if heavy {
		ngor = 8
		per = 60
	}
	type fop struct {
		kind string
		tok  uint64
		f    face.LinkService
	}
	tokOf := map[face.LinkService]uint64{}
	progs := make([][]fop, ngor)
	tok := uint64(0)
	for i := range progs {
		for k := 0; k < per; k++ {
			switch c := g.r.Intn(10); {
			case c < 6 || k == 0:
				tok++
				f := mk()
				tokOf[f] = tok
				progs[i] = append(progs[i], fop{"fadd", tok, f})
			case c < 8:
				progs[i] = append(progs[i], fop{kind: "frem"})
			default:
				progs[i] = append(progs[i], fop{kind: "fget"})
			}
		}
	}
	tokStr := func(f face.LinkService) string {
		if f == nil {
			return "-"
		}
		if t, ok := tokOf[f]; ok {
			return strconv.FormatUint(t, 10)
		}
		return "?"
	}
	var clock atomic.Int64
	type frec struct {
		inv, resp int64
		text, res string
	}
	recs := make([][]frec, ngor)
	var wg sync.WaitGroup
	start := make(chan struct{})
	for i := 0; i < ngor; i++ {
		wg.Add(1)
		go func(i int) {
			defer wg.Done()
			var mine []uint64 // ids this goroutine was given and has not removed
			<-start
			for _, o := range progs[i] {
				inv := clock.Add(1)
				var text, res string
				switch {
				case o.kind == "fadd":
					face.FaceTable.Add(o.f)
					id := o.f.FaceID()
					mine = append(mine, id)
					text, res = "fadd "+strconv.FormatUint(o.tok, 10), strconv.FormatUint(id, 10)
				case o.kind == "frem" && len(mine) > 0:
					id := mine[0]
					mine = mine[1:]
					face.FaceTable.Remove(id)
					text, res = "frem "+strconv.FormatUint(id, 10), "ok"
				case len(mine) > 0:
					id := mine[len(mine)-1]
					text, res = "fget "+strconv.FormatUint(id, 10), tokStr(face.FaceTable.Get(id))
					_ = len(face.FaceTable.GetAll()) // the snapshot used by status datasets and the expiration handler
				default:
					continue
				}
				resp := clock.Add(1)
				recs[i] = append(recs[i], frec{inv, resp, text, res})
			}
		}(i)
	}
	close(start)
	wg.Wait()
	mode := "rec"
	if heavy {
		mode = "heavy"
	}
	fmt.Fprintf(w, "FR %d %s %d %d\n", round, mode, ngor, n0)
	nadds := 0
	for i, rs := range recs {
		for _, r := range rs {
			if strings.HasPrefix(r.text, "fadd") {
				nadds++
			}
			if !heavy {
				fmt.Fprintf(w, "H %d %d %d %s => %s\n", i, r.inv, r.resp, r.text, r.res)
			} else if strings.HasPrefix(r.text, "fadd ") {
				fmt.Fprintf(w, "A %d %s %s\n", i, strings.TrimPrefix(r.text, "fadd "), r.res)
			} else if strings.HasPrefix(r.text, "frem ") {
				fmt.Fprintf(w, "D %s\n", strings.TrimPrefix(r.text, "frem "))
			}
		}
	}
	var fb, db []string
	for id := n0; id < n0+uint64(nadds)+4; id++ {
		if f := face.FaceTable.Get(id); f != nil {
			fb = append(fb, strconv.FormatUint(id, 10)+"="+tokStr(f))
		}
		if d := dispatch.GetFace(id); d != nil {
			t := "?"
			if ls, ok := d.(face.LinkService); ok {
				t = tokStr(ls)
			}
			db = append(db, strconv.FormatUint(id, 10)+"="+t)
		}
	}
	fmt.Fprintf(w, "F faces %s\nF dispatch %s\nE\n", joinSorted(fb), joinSorted(db))
	// teardown so that the tables do not grow over the run
	for id := n0; id < n0+uint64(nadds)+4; id++ {
		if face.FaceTable.Get(id) != nil {
			face.FaceTable.Remove(id)
		}
	}
}

func TestConc(t *testing.T) {
	out := os.Getenv("VERIF_OUT")
	if out == "" {
		t.Skip("VERIF_OUT not set")
	}
	seed, _ := strconv.ParseInt(os.Getenv("VERIF_SEED"), 10, 64)
	rounds := 200
	if s := os.Getenv("VERIF_N"); s != "" {
		rounds, _ = strconv.Atoi(s)
	}
	budget := 20 * time.Second // wall-clock budget for the stress phase
	if s := os.Getenv("VERIF_SECONDS"); s != "" {
		v, _ := strconv.Atoi(s)
		budget = time.Duration(v) * time.Second
	}
	maxRecorded := 1 << 30 // recorded rounds (the rest only stress for races / aborts / deadlock)
	if s := os.Getenv("VERIF_RECORD"); s != "" {
		maxRecorded, _ = strconv.Atoi(s)
	}
	recorded := 0
	maxOps := 14 // operations per recorded round (the sequential-order search is exponential in the worst case)
	cfg := core.DefaultConfig()
	cfg.Core.LogLevel = "ERROR"
	cfg.Tables.Rib.ReadvertiseNlsr = false
	core.LoadConfig(cfg, "/tmp")
	table.Configure()

	f, err := os.Create(out)
	if err != nil {
		t.Fatal(err)
	}
	defer f.Close()
	w := bufio.NewWriterSize(f, 1<<20)
	defer w.Flush()
	g := &gen{r: rand.New(rand.NewSource(seed))}
	harnessT, harnessW = t, w
	startForwarder(t)
	if os.Getenv("VERIF_NOFORCED") == "" {
		forcedRounds(t, w)
		lifecycleRounds(t, w)
	}
	start := time.Now()
	ms := []int{1, 2, 5, 3}

	for round := 0; round < rounds && time.Since(start) < budget; round++ {
		// non-default configurations take turns: a forwarder with a single forwarding thread still shares its tables
		// with the management thread and the face goroutines
		if round%3 == 0 {
			core.GetConfig().Fw.Threads = 1
		} else {
			core.GetConfig().Fw.Threads = 8
		}
		if round%32 == 13 || round%32 == 29 {
			big := 140
			dur := 150 * time.Millisecond
			if round%32 == 29 {
				big, dur = 1100, 350*time.Millisecond
			}
			bigRound(t, w, round, []string{"T", "H"}[(round/32)%2], ms[(round/32)%len(ms)], big, dur)
			continue
		}
		if round%16 == 7 {
			unsetRaceRound(t, w, round, []string{"H", "T"}[(round/16)%2], ms[(round/16)%len(ms)])
			continue
		}
		if round%5 == 4 {
			// face-table round: recorded small ones and heavy ones alternate
			table.CreateFIBTable("nametree")
			resetRib()
			faceRound(w, round, g, round%10 == 9)
			continue
		}
		impl := "T"
		m := ms[round%len(ms)]
		core.GetConfig().Tables.Fib.Hashtable.M = uint16(m)
		if round%2 == 1 {
			impl = "H"
			table.CreateFIBTable("hashtable")
		} else {
			table.CreateFIBTable("nametree")
		}
		resetRib()
		if round%7 == 6 {
			listingRound(t, w, round, impl)
			continue
		}
		if round%16 == 3 {
			readvertiseRound(t, w, round, impl, m, g)
			continue
		}
		if round%16 == 11 {
			forwardingRound(t, w, round, g)
			continue
		}
		names := g.names()
		ngor := []int{2, 2, 3, 4, 6, 8, 12, 16}[g.r.Intn(8)]
		// unrecorded heavy rounds (every 4th): many more operations per goroutine, only race/crash/deadlock detection
		heavy := round%4 == 3 || recorded >= maxRecorded
		if !heavy {
			recorded++
		}
		per := maxOps / ngor
		if per < 1 {
			per = 1
		}
		if heavy {
			per = 200
		}
		progs := make([][]op, ngor)
		for i := range progs {
			readShare := 40
			if i%3 == 2 {
				readShare = 90 // a forwarding thread: lookups only, mostly
			}
			for k := 0; k < per; k++ {
				progs[i] = append(progs[i], g.op(names, readShare))
			}
		}
		// a prologue so that the tables are not empty
		for k := 0; k < 3; k++ {
			o := g.op(names, 0)
			progs[0] = append([]op{o}, progs[0]...)
		}
		var clock atomic.Int64
		recs := make([][]rec, ngor)
		current := make([]atomic.Value, ngor) // the operation each goroutine is in (for the watchdog's report)
		var wg sync.WaitGroup
		var anomalies sync.Map
		startGate := make(chan struct{})
		for i := 0; i < ngor; i++ {
			wg.Add(1)
			go func(i int) {
				defer wg.Done()
				<-startGate
				for _, o := range progs[i] {
					func() {
						defer func() {
							if e := recover(); e != nil {
								anomalies.Store(fmt.Sprintf("panic in %s: %v", o.String(), e), true)
							}
						}()
						current[i].Store(o.String())
						inv := clock.Add(1)
						res := o.run()
						resp := clock.Add(1)
						current[i].Store("")
						if !heavy {
							recs[i] = append(recs[i], rec{i, inv, resp, o, res})
						}
					}()
				}
			}(i)
		}
		done := make(chan struct{})
		go func() { wg.Wait(); close(done) }()
		close(startGate)
		// progress watchdog: the stamp counter moves with every operation; no movement for stuckAfter = stuck
		last, lastMove := clock.Load(), time.Now()
	wait:
		for {
			select {
			case <-done:
				break wait
			case <-time.After(200 * time.Millisecond):
				if c := clock.Load(); c != last {
					last, lastMove = c, time.Now()
				} else if time.Since(lastMove) > stuckAfter {
					dl, why := confirmDeadlock()
					if !dl {
						stillWaiting()
						lastMove = time.Now()
						continue
					}
					var inflight []string
					for i := range current {
						if v := current[i].Load(); v != nil && v.(string) != "" {
							inflight = append(inflight, fmt.Sprintf("g%d:[%s]", i, v.(string)))
						}
					}
					fmt.Fprintf(w, "R %d %s %d %d\nX watchdog: no operation completed for %v; stuck: %s: deadlock (%s)\nE\n", round, impl, m, ngor, stuckAfter, strings.Join(inflight, " "), why)
					w.Flush()
					t.Fatalf("round %d: operations stuck (deadlock?): %v", round, inflight)
				}
			}
		}
		lastOps = lastOps[:0]
		for _, pr := range progs {
			for _, o := range pr {
				if len(lastOps) < 24 && (o.kind == "reg" || o.kind == "unreg" || o.kind == "teardown") {
					lastOps = append(lastOps, o.String())
				}
			}
		}
		fmt.Fprintf(w, "R %d %s %d %d\n", round, impl, m, ngor)
		us := make([]string, len(names))
		for i, n := range names {
			us[i] = n.String()
		}
		fmt.Fprintf(w, "U %s\n", strings.Join(us, " "))
		anomalies.Range(func(k, _ any) bool { fmt.Fprintf(w, "X %s\n", k.(string)); return true })
		if !heavy {
			for _, rs := range recs {
				for _, r := range rs {
					fmt.Fprintf(w, "H %d %d %d %s => %s\n", r.g, r.inv, r.resp, r.op.String(), r.res)
				}
			}
			fmt.Fprint(w, finalObs(names))
		}
		fmt.Fprintf(w, "E\n")
	}
}
