// gen_test.go — generator of management histories (one PRNG seeded by VERIF_SEED) and the TestTrace entry point.
package mgmt

import (
	"bufio"
	"fmt"
	"math/rand"
	"os"
	"path/filepath"
	"sort"
	"strconv"
	"strings"
	"testing"

	"github.com/named-data/ndnd/fw/defn"
	"github.com/named-data/ndnd/fw/face"
	enc "github.com/named-data/ndnd/std/encoding"
	"github.com/named-data/ndnd/std/ndn"
	mgmt "github.com/named-data/ndnd/std/ndn/mgmt_2022"
	spec "github.com/named-data/ndnd/std/ndn/spec_2022"
	sec "github.com/named-data/ndnd/std/security"
	"github.com/named-data/ndnd/std/utils"
)

func specReadData(app []byte) (*spec.Data, enc.Wire, error) {
	d, c, err := spec.Spec{}.ReadData(enc.NewWireReader(enc.Wire{app}))
	if err != nil {
		return nil, nil, err
	}
	return d.(*spec.Data), c, nil
}

func gen(s string) enc.Component { return enc.NewStringComponent(enc.TypeGenericNameComponent, s) }

type generator struct {
	r     *rand.Rand
	stats map[string]int
	// what the current history has asked for so far (so that removals mostly hit something that exists)
	routes []*mgmt.ControlArgs // rib/register arguments
	hops   []*mgmt.ControlArgs // fib/add-nexthop arguments
	strats []enc.Name          // strategy-choice/set prefixes
	faces  []faceSpec          // the harness faces of the current history (face ids 2..)
}

func (g *generator) pick(xs ...string) string { return xs[g.r.Intn(len(xs))] }
func (g *generator) chance(p float64) bool   { return g.r.Float64() < p }

var boundaryU64 = []uint64{0, 1, 2, 3, 64, 255, 256, 65535, 65536, 1<<32 - 1, 1 << 32, 1<<63 - 1, 1 << 63, 1<<64 - 1}

func (g *generator) u64() uint64 {
	if g.chance(0.6) {
		return uint64(g.r.Intn(12))
	}
	return boundaryU64[g.r.Intn(len(boundaryU64))]
}
func (g *generator) optU64(p float64) *uint64 {
	if g.chance(p) {
		return utils.IdPtr(g.u64())
	}
	return nil
}

var prefixPool = []string{"/", "/a", "/a/b", "/a/b/c", "/a/d", "/e", "/e/f", "/localhost/x", "/localhop/nfd", "/a/b/c/d/e", "/a", "/a/b", "/a/b/c", "/a/b/c/d"}

func (g *generator) prefix() enc.Name {
	n, _ := enc.NameFromStr(prefixPool[g.r.Intn(len(prefixPool))])
	if g.chance(0.05) {
		n = append(n, enc.NewVersionComponent(uint64(g.r.Intn(3))))
	}
	return n
}

var facePool = [][]faceSpec{
	{
		{"udp4://10.0.0.1:6363", "udp4://10.0.0.9:6363", defn.NonLocal, defn.PointToPoint, face.PersistencyPersistent, 1500, true},
		{"fd://7", "unix:///run/nfd/nfd.sock", defn.Local, defn.PointToPoint, face.PersistencyPersistent, 8800, true},
	},
	{
		{"fd://8", "unix:///run/nfd/nfd.sock", defn.Local, defn.PointToPoint, face.PersistencyPersistent, 8800, true},
		{"tcp4://10.0.0.2:6363", "tcp4://10.0.0.9:6363", defn.NonLocal, defn.PointToPoint, face.PersistencyPersistent, 8800, true},
		{"udp6://[fe80::1]:6363", "udp6://[fe80::2]:6363", defn.NonLocal, defn.MultiAccess, face.PersistencyPermanent, 1280, true},
	},
	{
		{"null://", "null://", defn.NonLocal, defn.PointToPoint, face.PersistencyPermanent, 8800, false},
		{"udp4://10.0.0.3:6363", "udp4://10.0.0.9:6363", defn.NonLocal, defn.PointToPoint, face.PersistencyOnDemand, 1500, true},
		{"fd://9", "unix:///run/nfd/nfd.sock", defn.Local, defn.PointToPoint, face.PersistencyPersistent, 8800, true},
		{"fd://10", "unix:///run/nfd/nfd.sock", defn.Local, defn.PointToPoint, face.PersistencyPersistent, 8800, true},
	},
}

// face ids in a world: 1 = internal, 2.. = the harness faces in order
func (g *generator) faceID(nfaces int) uint64 {
	switch g.r.Intn(12) {
	case 0:
		return 0
	case 1:
		return 1
	case 2:
		return uint64(nfaces + 2 + g.r.Intn(3)) // does not exist
	case 3:
		return boundaryU64[8+g.r.Intn(6)]
	default:
		return uint64(2 + g.r.Intn(nfaces))
	}
}

// ---- arrival prefix, module and verb components ----
func (g *generator) top() []enc.Component {
	switch g.r.Intn(64) {
	case 0, 1, 2, 3, 4, 5:
		return []enc.Component{gen("localhop"), gen("nfd")}
	case 6:
		return []enc.Component{gen("localhost"), gen("nfdx")}
	case 7:
		return []enc.Component{gen("localhop"), gen("other")}
	case 8:
		return []enc.Component{gen("localhost")}
	case 9:
		return []enc.Component{enc.NewStringComponent(enc.TypeKeywordNameComponent, "localhost"), gen("nfd")}
	case 10:
		return []enc.Component{gen("localhost"), enc.NewStringComponent(enc.TypeKeywordNameComponent, "nfd")}
	case 11:
		return []enc.Component{gen("Localhost"), gen("nfd")}
	case 12:
		return []enc.Component{gen("a"), gen("b")}
	default:
		return []enc.Component{gen("localhost"), gen("nfd")}
	}
}

func (g *generator) word(s string) enc.Component {
	switch g.r.Intn(60) {
	case 0:
		return enc.NewStringComponent(enc.TypeKeywordNameComponent, s)
	case 1:
		return gen(strings.ToUpper(s))
	case 2:
		return gen(s + "x")
	case 3:
		return gen("")
	case 4:
		return enc.NewVersionComponent(1)
	default:
		return gen(s)
	}
}

var moduleVerbs = map[string][]string{
	"rib":             {"register", "unregister", "announce", "list"},
	"fib":             {"add-nexthop", "remove-nexthop", "list"},
	"strategy-choice": {"set", "unset", "list"},
	"cs":              {"config", "info", "erase", "query"},
	"faces":           {"create", "update", "destroy", "list", "query"},
	"status":          {"general"},
}
var moduleNames = []string{"rib", "rib", "rib", "rib", "fib", "fib", "fib", "strategy-choice", "strategy-choice", "strategy-choice", "cs", "faces", "faces", "faces", "status"}

// verbs that only read are drawn less often than verbs that change something
func (g *generator) verb(module string) string {
	verbs := moduleVerbs[module]
	for {
		v := verbs[g.r.Intn(len(verbs))]
		reads := v == "list" || v == "info" || v == "general" || v == "query" || v == "erase" || v == "announce"
		if !reads || module == "status" || g.chance(0.35) {
			return v
		}
	}
}

// ---- ControlParameters component ----
func (g *generator) paramsComp(args *mgmt.ControlArgs) (enc.Component, string) {
	p := mgmt.ControlParameters{Val: args}
	b := p.Bytes()
	switch g.r.Intn(40) {
	case 0:
		return enc.NewBytesComponent(enc.TypeGenericNameComponent, []byte{}), "empty-params"
	case 1:
		if len(b) > 2 {
			return enc.NewBytesComponent(enc.TypeGenericNameComponent, b[:len(b)-1-g.r.Intn(len(b)-1)]), "truncated-params"
		}
	case 2:
		junk := make([]byte, 1+g.r.Intn(12))
		g.r.Read(junk)
		return enc.NewBytesComponent(enc.TypeGenericNameComponent, junk), "junk-params"
	case 3:
		// an unknown non-critical TLV (0xF0) in front of the fields
		inner := append([]byte{0xf0, 0x01, 0x00}, b[2:]...)
		if len(inner) < 253 {
			return enc.NewBytesComponent(enc.TypeGenericNameComponent, append([]byte{0x68, byte(len(inner))}, inner...)), "unknown-tlv-params"
		}
	case 4:
		// a TLV that is not ControlParameters
		return enc.NewBytesComponent(enc.TypeGenericNameComponent, []byte{0x69, 0x01, 0x05}), "not-controlparameters"
	case 5:
		// carried in a component of another type
		return enc.NewBytesComponent(enc.TypeKeywordNameComponent, b), "params-in-keyword-comp"
	}
	if g.chance(0.5) {
		// encoded by the independent encoder with the protocol's TLV numbers (what nfdc or another library sends)
		return enc.NewBytesComponent(enc.TypeGenericNameComponent, specEncodeParams(args)), "spec-encoded"
	}
	return enc.NewBytesComponent(enc.TypeGenericNameComponent, b), ""
}

func strategyName(s string) enc.Name {
	n, err := enc.NameFromStr(s)
	if err != nil {
		panic(err)
	}
	return n
}

func (g *generator) strategy() (*mgmt.Strategy, string) {
	base := "/localhost/nfd/strategy"
	switch g.r.Intn(20) {
	case 0:
		return &mgmt.Strategy{Name: strategyName(base)}, "strategy-bare-prefix"
	case 1:
		return &mgmt.Strategy{}, "strategy-nil-name"
	case 2:
		return &mgmt.Strategy{Name: strategyName("/localhost/nfd")}, "strategy-short"
	case 3:
		return &mgmt.Strategy{Name: strategyName(base + "/nonexistent")}, "strategy-unknown"
	case 4:
		return &mgmt.Strategy{Name: strategyName(base + "/multicast/v=2")}, "strategy-unknown-version"
	case 5:
		return &mgmt.Strategy{Name: append(strategyName(base+"/multicast"), gen("v1"))}, "strategy-version-wrong-type"
	case 6:
		return &mgmt.Strategy{Name: append(strategyName(base+"/best-route"), enc.NewBytesComponent(enc.TypeVersionNameComponent, []byte{0, 1}))}, "strategy-version-nonminimal"
	case 7:
		return &mgmt.Strategy{Name: append(strategyName(base+"/multicast"), enc.NewBytesComponent(enc.TypeVersionNameComponent, []byte{1, 2, 3}))}, "strategy-version-badnat"
	case 8:
		return &mgmt.Strategy{Name: strategyName(base + "/multicast/v=1/extra")}, "strategy-extra-component"
	case 9:
		return &mgmt.Strategy{Name: strategyName("/localhop/nfd/strategy/multicast")}, "strategy-wrong-prefix"
	case 10:
		return &mgmt.Strategy{Name: append(strategyName(base), enc.NewStringComponent(enc.TypeKeywordNameComponent, "multicast"))}, "strategy-name-wrong-type"
	case 11, 12, 13:
		return &mgmt.Strategy{Name: strategyName(base + "/" + g.pick("multicast", "best-route") + "/v=1")}, ""
	default:
		return &mgmt.Strategy{Name: strategyName(base + "/" + g.pick("multicast", "best-route"))}, ""
	}
}

var mtuPool = []uint64{0, 1, 4, 21, 22, 23, 33, 34, 35, 45, 46, 47, 53, 54, 55, 63, 64, 65, 100, 576, 1500, 8799, 8800, 8801, 1 << 31, 1 << 63, 1<<64 - 1, 1<<63 + 1, 1<<63 - 1, 1 << 63, 1<<64 - 1}

// URIs for faces/create. The first group is refused by the URI checks; the second group are valid unicast URIs: they
// are refused only if they conflict with a face of the world or come with a refused parameter (see runCase: a
// create that would pass every check and open a socket is never sent).
var rejectedURIs = []string{"", "garbage", "null://", "internal://", "udp4://224.0.23.170:56363", "udp://255.255.255.255:6363", "udp4://0.0.0.0:6363",
	"unix:///tmp/verif-no-such.sock", "fd://5", "dev://eth0", "ws://127.0.0.1:9696", "udp6://[ff02::114]:6363", "tcp4://224.0.0.1:6363", "tcp6://[::]:6363",
	"udp4://10.0.0.1:6363", "udp4://10.0.0.3:6363", "tcp4://10.0.0.2:6363", "udp6://[fe80::1]:6363", "udp4://10.1.2.3:6363", "tcp4://10.1.2.3:6363"}

// args builds ControlArgs for module/verb; mostly the fields the verb uses, sometimes none or all.
func (g *generator) args(module, verb string, nfaces int) (*mgmt.ControlArgs, string) {
	a := &mgmt.ControlArgs{}
	label := ""
	withName := func(p float64) {
		if g.chance(p) {
			a.Name = g.prefix()
		} else {
			label = "no-name"
		}
	}
	withFace := func(p float64) {
		if g.chance(p) {
			a.FaceId = utils.IdPtr(g.faceID(nfaces))
		}
	}
	switch module + "/" + verb {
	case "rib/register":
		if len(g.routes) > 0 && g.chance(0.4) {
			// re-register an existing (prefix, face, origin) with a changed cost and/or changed flags (an update in place),
			// including an explicit Flags=0 and the capture flag
			r := g.routes[g.r.Intn(len(g.routes))]
			a.Name, a.FaceId, a.Origin = r.Name, r.FaceId, r.Origin
			a.Cost = utils.IdPtr(uint64(g.r.Intn(12)))
			switch g.r.Intn(5) {
			case 0:
				a.Flags = nil
			default:
				a.Flags = utils.IdPtr(uint64(g.r.Intn(4)))
			}
			label = "rib-update"
			break
		}
		withName(0.93)
		withFace(0.6)
		a.Origin = g.optU64(0.3)
		a.Cost = g.optU64(0.5)
		a.Flags = g.optU64(0.4)
		if g.chance(0.5) {
			a.Flags = g.optU64(0.8)
			if a.Flags != nil {
				*a.Flags = uint64(g.r.Intn(4)) // 0, child-inherit, capture, both
			}
		}
		if g.chance(0.25) {
			a.ExpirationPeriod = utils.IdPtr([]uint64{0, 1, 1000, 3600000, 9223372036854, 9223372036855, 1 << 62, 1<<64 - 1}[g.r.Intn(8)])
		}
	case "rib/unregister":
		if len(g.routes) > 0 && g.chance(0.65) {
			// withdraw a route registered earlier in this history (same prefix, face, origin), sometimes off by one field
			r := g.routes[g.r.Intn(len(g.routes))]
			a.Name, a.FaceId, a.Origin = r.Name, r.FaceId, r.Origin
			switch g.r.Intn(8) {
			case 0:
				a.Origin = g.optU64(1)
			case 1:
				a.FaceId = utils.IdPtr(g.faceID(nfaces))
			}
			break
		}
		withName(0.93)
		withFace(0.6)
		a.Origin = g.optU64(0.3)
	case "fib/add-nexthop":
		withName(0.93)
		withFace(0.6)
		a.Cost = g.optU64(0.5)
	case "fib/remove-nexthop":
		if len(g.hops) > 0 && g.chance(0.65) {
			h := g.hops[g.r.Intn(len(g.hops))]
			a.Name, a.FaceId = h.Name, h.FaceId
			break
		}
		withName(0.93)
		withFace(0.6)
	case "strategy-choice/set":
		withName(0.93)
		if g.chance(0.93) {
			a.Strategy, label = g.strategy()
		} else {
			label = "no-strategy"
		}
	case "strategy-choice/unset":
		if len(g.strats) > 0 && g.chance(0.6) {
			a.Name = g.strats[g.r.Intn(len(g.strats))]
			break
		}
		withName(0.93)
	case "cs/config":
		a.Capacity = g.optU64(0.7)
		if g.chance(0.3) {
			a.Flags = g.optU64(1)
		}
		if g.chance(0.3) {
			a.Mask = g.optU64(1)
		}
	case "faces/update":
		if g.chance(0.4) && len(g.faces) > 0 {
			// ONE update that combines several fields on an existing UDP/TCP face whose persistency can change: all but one field
			// valid, so that a refusal must leave every attribute of the face untouched
			var cands []int
			for i, f := range g.faces {
				if f.ndnlp && (strings.HasPrefix(f.remote, "udp") || strings.HasPrefix(f.remote, "tcp")) {
					cands = append(cands, i)
				}
			}
			if len(cands) > 0 {
				i := cands[g.r.Intn(len(cands))]
				f := g.faces[i]
				a.FaceId = utils.IdPtr(uint64(2 + i))
				other := uint64(face.PersistencyPermanent)
				if f.persistency == face.PersistencyPermanent {
					other = uint64(face.PersistencyPersistent)
				}
				a.FacePersistency = utils.IdPtr(other) // acceptable for udp and tcp, differs from the face's initial one
				a.Flags, a.Mask = utils.IdPtr(uint64(g.r.Intn(8))), utils.IdPtr(uint64(1+g.r.Intn(7)))
				a.BaseCongestionMarkInterval = utils.IdPtr(uint64(1 + g.r.Intn(1000)))
				a.DefaultCongestionThreshold = utils.IdPtr(uint64(1 + g.r.Intn(1000)))
				a.Mtu = utils.IdPtr(uint64(64 + g.r.Intn(3000)))
				switch g.r.Intn(5) {
				case 0, 1:
					a.Mtu = utils.IdPtr(uint64(g.r.Intn(64)))
					label = "combined-update,bad-mtu"
				case 2:
					a.Mask = nil
					label = "combined-update,flags-without-mask"
				case 3:
					if strings.HasPrefix(f.remote, "udp") {
						a.FacePersistency = utils.IdPtr(uint64(face.PersistencyOnDemand))
						label = "combined-update,bad-persistency"
					} else {
						a.Flags = nil
						label = "combined-update,mask-without-flags"
					}
				default:
					label = "combined-update,all-valid"
				}
				break
			}
		}
		withFace(0.75)
		if g.chance(0.5) {
			a.Mtu = utils.IdPtr(mtuPool[g.r.Intn(len(mtuPool))])
			label = "mtu=" + strconv.FormatUint(*a.Mtu, 10)
		}
		if g.chance(0.3) {
			a.FacePersistency = utils.IdPtr(uint64(g.r.Intn(4)))
		}
		if g.chance(0.35) {
			a.Flags = utils.IdPtr(uint64(g.r.Intn(8)))
		}
		if g.chance(0.35) {
			a.Mask = utils.IdPtr(uint64(g.r.Intn(8)))
		}
		a.BaseCongestionMarkInterval = g.optU64(0.2)
		a.DefaultCongestionThreshold = g.optU64(0.2)
	case "faces/destroy":
		withFace(0.9)
	case "faces/create":
		if g.chance(0.9) {
			a.Uri = utils.IdPtr(rejectedURIs[g.r.Intn(len(rejectedURIs))])
		}
		if g.chance(0.3) {
			a.FacePersistency = utils.IdPtr(uint64(g.r.Intn(4)))
		}
		if g.chance(0.3) {
			a.Flags = utils.IdPtr(uint64(g.r.Intn(8)))
		}
		if g.chance(0.3) {
			a.Mask = utils.IdPtr(uint64(g.r.Intn(8)))
		}
		if g.chance(0.3) {
			a.Mtu = utils.IdPtr(mtuPool[g.r.Intn(len(mtuPool))])
		}
		if a.Uri != nil && (*a.Uri == "udp4://10.1.2.3:6363" || *a.Uri == "tcp4://10.1.2.3:6363") && g.chance(0.7) {
			// a valid unicast URI with an MTU below the floor: refused with 406 before a socket is opened
			a.Mtu = utils.IdPtr(mtuPool[g.r.Intn(16)])
			label = "create-small-mtu"
		}
	}
	switch module + "/" + verb {
	case "rib/register":
		g.routes = append(g.routes, a)
	case "fib/add-nexthop":
		g.hops = append(g.hops, a)
	case "strategy-choice/set":
		if a.Name != nil {
			g.strats = append(g.strats, a.Name)
		}
	}
	if module == "cs" && g.chance(0.25) {
		a.Count = utils.IdPtr(uint64(2 + g.r.Intn(9))) // a field cs/config does not use
	}
	// occasionally: every field, or a field that the verb does not use
	if g.chance(0.04) {
		a.Count = utils.IdPtr(g.u64())
		a.LocalUri = utils.IdPtr("udp4://10.0.0.9:6363")
	}
	return a, label
}

func (g *generator) command(nfaces int) opCmd {
	if g.chance(0.02) {
		// an Interest about as long as the internal face's MTU (one very long trailing component). The answer to it is a Data
		// packet under the same name and may not fit a packet at all, so the command chosen is one without table effect
		// (unknown verb): what is checked is that the management loop survives it and answers the next command.
		n := enc.Name{gen("localhost"), gen("nfd"), gen("rib"), gen("verif-no-such-verb")}
		pad := 8600 + g.r.Intn(190) - len(n.Bytes()) - 20
		n = append(n, enc.NewBytesComponent(enc.TypeGenericNameComponent, make([]byte, pad)))
		return opCmd{inFace: g.inFace(nfaces), name: n, label: "rib/verif-no-such-verb,mtu-boundary-interest"}
	}
	if g.chance(0.015) {
		// a Data packet whose name looks like a command
		n := enc.Name{gen("localhost"), gen("nfd"), gen("rib"), gen("register"), gen("x")}
		return opCmd{isData: true, inFace: g.inFace(nfaces), name: n, label: "data-packet"}
	}
	module := moduleNames[g.r.Intn(len(moduleNames))]
	verb := g.verb(module)
	if g.chance(0.03) {
		verb = "frobnicate"
	}
	if g.chance(0.02) {
		module = "nosuchmodule"
	}
	top := g.top()
	name := append(enc.Name{}, top...)
	name = append(name, g.word(module))
	labels := []string{module + "/" + verb}
	if len(top) != 2 || top[0].String() != "localhost" || top[1].String() != "nfd" {
		labels = append(labels, "arrival="+enc.Name(top).String())
	}
	if g.chance(0.02) {
		// name stops after the module
		return opCmd{inFace: g.inFace(nfaces), name: name, label: strings.Join(append(labels, "no-verb"), ",")}
	}
	name = append(name, g.word(verb))
	var app []byte
	isDataset := verb == "list" || verb == "info" || verb == "general"
	switch {
	case verb == "announce":
		switch g.r.Intn(4) {
		case 0: // no application parameters at all; add a generic component so that the length is right
			name = append(name, gen("x"))
			labels = append(labels, "announce-no-digest")
		case 1:
			app = []byte{0x80, 0x01, 0x00}
			labels = append(labels, "announce-not-data")
		default:
			d, err := spec.Spec{}.MakeData(g.prefix(), &ndn.DataConfig{}, enc.Wire{[]byte("x")}, sec.NewSha256Signer())
			if err == nil {
				app = d.Wire.Join()
			}
			labels = append(labels, "announce-data")
		}
	case verb == "query":
		f := &mgmt.FaceQueryFilterValue{}
		if g.chance(0.4) {
			f.FaceId = utils.IdPtr(g.faceID(nfaces))
		}
		if g.chance(0.3) {
			f.UriScheme = utils.IdPtr(g.pick("udp4", "unix", "fd", "internal", "null", "tcp4", "nope"))
		}
		if g.chance(0.2) {
			f.Uri = utils.IdPtr(g.pick("udp4://10.0.0.1:6363", "fd://7", "internal://", "x"))
		}
		if g.chance(0.2) {
			f.LocalUri = utils.IdPtr(g.pick("unix:///run/nfd/nfd.sock", "udp4://10.0.0.9:6363", "x"))
		}
		if g.chance(0.3) {
			f.FaceScope = utils.IdPtr(uint64(g.r.Intn(3)))
		}
		if g.chance(0.2) {
			f.FacePersistency = utils.IdPtr(uint64(g.r.Intn(3)))
		}
		if g.chance(0.2) {
			f.LinkType = utils.IdPtr(uint64(g.r.Intn(3)))
		}
		q := mgmt.FaceQueryFilter{Val: f}
		b := q.Bytes()
		switch g.r.Intn(12) {
		case 0:
			labels = append(labels, "query-no-filter")
		case 1:
			name = append(name, enc.NewBytesComponent(enc.TypeGenericNameComponent, []byte{1, 2, 3}))
			labels = append(labels, "query-junk-filter")
		case 2:
			name = append(name, enc.NewBytesComponent(enc.TypeGenericNameComponent, []byte{}))
			labels = append(labels, "query-empty-filter")
		default:
			name = append(name, enc.NewBytesComponent(enc.TypeGenericNameComponent, b))
		}
	case isDataset:
		if g.chance(0.1) {
			name = append(name, enc.NewVersionComponent(0), enc.NewSegmentComponent(0))
			labels = append(labels, "dataset-with-version")
		}
	default:
		args, l := g.args(module, verb, nfaces)
		if l != "" {
			labels = append(labels, l)
		}
		if g.chance(0.04) {
			labels = append(labels, "no-params-component")
		} else {
			pc, l2 := g.paramsComp(args)
			if l2 != "" {
				labels = append(labels, l2)
			}
			name = append(name, pc)
			if g.chance(0.3) {
				// the remaining components of a signed command Interest (timestamp, nonce, signature info/value)
				name = append(name, gen("t"), gen("n"), gen("si"), gen("sv"))
			}
		}
	}
	return opCmd{inFace: g.inFace(nfaces), name: name, app: app, label: strings.Join(labels, ",")}
}

func (g *generator) inFace(nfaces int) uint64 {
	if g.chance(0.04) {
		return uint64(nfaces + 5)
	}
	return uint64(2 + g.r.Intn(nfaces))
}

func (g *generator) genCase() *caseSpec {
	g.routes, g.hops, g.strats = nil, nil, nil
	cs := &caseSpec{localhop: g.chance(0.4)}
	cs.faces = append([]faceSpec{}, facePool[g.r.Intn(len(facePool))]...)
	g.faces = cs.faces
	n := 6 + g.r.Intn(20)
	readBack := func(m, v string) opCmd {
		return opCmd{inFace: 2, name: enc.Name{gen("localhost"), gen("nfd"), gen(m), gen(v)}, label: m + "/" + v + ",after-rib-change"}
	}
	for i := 0; i < n; i++ {
		c := g.command(len(cs.faces))
		cs.cmds = append(cs.cmds, c)
		if strings.Contains(c.label, "combined-update") {
			cs.cmds = append(cs.cmds, readBack("faces", "list"))
		}
		if strings.Contains(c.label, "rib-update") || (strings.HasPrefix(c.label, "rib/") && g.chance(0.15)) {
			cs.cmds = append(cs.cmds, readBack("fib", "list"))
			if g.chance(0.5) {
				cs.cmds = append(cs.cmds, readBack("rib", "list"))
			}
		}
	}
	// every history ends by reading every table back through the datasets
	for _, mv := range [][2]string{{"rib", "list"}, {"fib", "list"}, {"strategy-choice", "list"}, {"cs", "info"}, {"faces", "list"}, {"status", "general"}} {
		cs.cmds = append(cs.cmds, opCmd{inFace: 2, name: enc.Name{gen("localhost"), gen("nfd"), gen(mv[0]), gen(mv[1])}, label: mv[0] + "/" + mv[1] + ",final"})
	}
	return cs
}

// TestTrace: corpus cases first (VERIF_CORPUS dir), then VERIF_N generated cases; or only the case in VERIF_OPS.
func TestTrace(t *testing.T) {
	seed, _ := strconv.ParseInt(os.Getenv("VERIF_SEED"), 10, 64)
	if seed == 0 {
		seed = 1
	}
	n, _ := strconv.Atoi(os.Getenv("VERIF_N"))
	if n == 0 {
		n = 20
	}
	out := os.Getenv("VERIF_OUT")
	if out == "" {
		out = filepath.Join(os.TempDir(), "mgmt-trace.txt")
	}
	f, err := os.Create(out)
	if err != nil {
		t.Fatal(err)
	}
	defer f.Close()
	bw := bufio.NewWriterSize(f, 1<<20)
	defer bw.Flush()
	emit := func(s string) { bw.WriteString(s); bw.WriteByte('\n') }

	id := 0
	runFile := func(p string) {
		b, err := os.ReadFile(p)
		if err != nil {
			t.Fatal(err)
		}
		cs, err := parseOps(strings.Split(string(b), "\n"))
		if err != nil {
			t.Fatalf("%s: %v", p, err)
		}
		id++
		emit("# file " + filepath.Base(p))
		if err := runCase(id, cs, emit); err != nil {
			t.Fatalf("%s: %v", p, err)
		}
	}
	if ops := os.Getenv("VERIF_OPS"); ops != "" {
		runFile(ops)
		return
	}
	if dir := os.Getenv("VERIF_CORPUS"); dir != "" {
		files, _ := filepath.Glob(filepath.Join(dir, "*.ops"))
		sort.Strings(files)
		for _, p := range files {
			runFile(p)
		}
	}
	g := &generator{r: rand.New(rand.NewSource(seed)), stats: map[string]int{}}
	for i := 0; i < n; i++ {
		id++
		if err := runCase(id, g.genCase(), emit); err != nil {
			t.Fatalf("case %d: %v", id, err)
		}
	}
	fmt.Printf("cases=%d\n", id)
}
