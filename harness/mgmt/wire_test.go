// wire_test.go — an independent encoder/decoder for ControlParameters and ControlResponse driven by the TLV-TYPE numbers of the
// NFD Management protocol (the table of coq/Mgmt/Wire.v, repeated here and compared with it by a theorem on every run). It does
// not use std/ndn/mgmt_2022: commands encoded here are what nfdc or another NDN library would send, and responses are read the
// way such a client reads them, so a renumbering inside the repository's codec shows up as a wrong effect of a concrete command.
package mgmt

import (
	"encoding/binary"
	"fmt"

	enc "github.com/named-data/ndnd/std/encoding"
	mgmt "github.com/named-data/ndnd/std/ndn/mgmt_2022"
)

// protocol numbers (NFD Management protocol); order = canonical field order inside ControlParameters
var wireSpec = []struct {
	name string
	typ  uint64
}{
	{"ControlParameters", 0x68}, {"Name", 0x07}, {"FaceId", 0x69}, {"Uri", 0x72}, {"LocalUri", 0x81}, {"Origin", 0x6f}, {"Cost", 0x6a},
	{"Capacity", 0x83}, {"Count", 0x84}, {"Flags", 0x6c}, {"Mask", 0x70}, {"Strategy", 0x6b}, {"ExpirationPeriod", 0x6d},
	{"FacePersistency", 0x85}, {"BaseCongestionMarkingInterval", 0x87}, {"DefaultCongestionThreshold", 0x88}, {"Mtu", 0x89},
	{"ControlResponse", 0x65}, {"StatusCode", 0x66}, {"StatusText", 0x67},
}

func wt(name string) uint64 {
	for _, e := range wireSpec {
		if e.name == name {
			return e.typ
		}
	}
	panic("no such protocol field " + name)
}

func putVar(b []byte, v uint64) []byte {
	switch {
	case v < 253:
		return append(b, byte(v))
	case v <= 0xffff:
		return append(append(b, 253), byte(v>>8), byte(v))
	case v <= 0xffffffff:
		return append(append(b, 254), byte(v>>24), byte(v>>16), byte(v>>8), byte(v))
	default:
		x := make([]byte, 8)
		binary.BigEndian.PutUint64(x, v)
		return append(append(b, 255), x...)
	}
}
func tlv(typ uint64, val []byte) []byte { return append(putVar(putVar(nil, typ), uint64(len(val))), val...) }
func natBytes(v uint64) []byte {
	switch {
	case v <= 0xff:
		return []byte{byte(v)}
	case v <= 0xffff:
		return []byte{byte(v >> 8), byte(v)}
	case v <= 0xffffffff:
		return []byte{byte(v >> 24), byte(v >> 16), byte(v >> 8), byte(v)}
	default:
		x := make([]byte, 8)
		binary.BigEndian.PutUint64(x, v)
		return x
	}
}
func nameInner(n enc.Name) []byte {
	var b []byte
	for _, c := range n {
		b = append(b, tlv(uint64(c.Typ), c.Val)...)
	}
	return b
}

// specEncodeParams encodes ControlParameters with the protocol's numbers, fields in canonical order.
func specEncodeParams(a *mgmt.ControlArgs) []byte {
	var in []byte
	num := func(name string, p *uint64) {
		if p != nil {
			in = append(in, tlv(wt(name), natBytes(*p))...)
		}
	}
	str := func(name string, p *string) {
		if p != nil {
			in = append(in, tlv(wt(name), []byte(*p))...)
		}
	}
	if a.Name != nil {
		in = append(in, tlv(wt("Name"), nameInner(a.Name))...)
	}
	num("FaceId", a.FaceId)
	str("Uri", a.Uri)
	str("LocalUri", a.LocalUri)
	num("Origin", a.Origin)
	num("Cost", a.Cost)
	num("Capacity", a.Capacity)
	num("Count", a.Count)
	num("Flags", a.Flags)
	num("Mask", a.Mask)
	if a.Strategy != nil {
		var s []byte
		if a.Strategy.Name != nil {
			s = tlv(wt("Name"), nameInner(a.Strategy.Name))
		}
		in = append(in, tlv(wt("Strategy"), s)...)
	}
	num("ExpirationPeriod", a.ExpirationPeriod)
	num("FacePersistency", a.FacePersistency)
	num("BaseCongestionMarkingInterval", a.BaseCongestionMarkInterval)
	num("DefaultCongestionThreshold", a.DefaultCongestionThreshold)
	num("Mtu", a.Mtu)
	return tlv(wt("ControlParameters"), in)
}

// ---- decoding ----
func getVar(b []byte) (uint64, []byte, bool) {
	if len(b) == 0 {
		return 0, nil, false
	}
	switch b[0] {
	case 253:
		if len(b) < 3 {
			return 0, nil, false
		}
		return uint64(binary.BigEndian.Uint16(b[1:])), b[3:], true
	case 254:
		if len(b) < 5 {
			return 0, nil, false
		}
		return uint64(binary.BigEndian.Uint32(b[1:])), b[5:], true
	case 255:
		if len(b) < 9 {
			return 0, nil, false
		}
		return binary.BigEndian.Uint64(b[1:]), b[9:], true
	}
	return uint64(b[0]), b[1:], true
}
func getTLV(b []byte) (typ uint64, val, rest []byte, ok bool) {
	typ, b, ok = getVar(b)
	if !ok {
		return
	}
	var l uint64
	l, b, ok = getVar(b)
	if !ok || uint64(len(b)) < l {
		return 0, nil, nil, false
	}
	return typ, b[:l], b[l:], true
}
func getNat(v []byte) (uint64, bool) {
	switch len(v) {
	case 1:
		return uint64(v[0]), true
	case 2:
		return uint64(binary.BigEndian.Uint16(v)), true
	case 4:
		return uint64(binary.BigEndian.Uint32(v)), true
	case 8:
		return binary.BigEndian.Uint64(v), true
	}
	return 0, false
}
func getName(v []byte) (enc.Name, bool) {
	n := enc.Name{}
	for len(v) > 0 {
		t, val, rest, ok := getTLV(v)
		if !ok {
			return nil, false
		}
		n = append(n, enc.Component{Typ: enc.TLNum(t), Val: append([]byte{}, val...)})
		v = rest
	}
	return n, true
}

// specDecodeArgs reads the fields of a ControlParameters value. strict: exactly the protocol's fields, each at most once, in
// canonical order, well-formed values (what a conforming client sends); anything else returns ok=false.
func specDecodeArgs(in []byte) (*mgmt.ControlArgs, bool) {
	a := &mgmt.ControlArgs{}
	order := map[uint64]int{}
	for i, e := range wireSpec[1:17] {
		order[e.typ] = i
	}
	last := -1
	for len(in) > 0 {
		t, v, rest, ok := getTLV(in)
		if !ok {
			return nil, false
		}
		in = rest
		pos, known := order[t]
		if !known || pos <= last {
			return nil, false
		}
		last = pos
		num := func(dst **uint64) bool {
			x, ok := getNat(v)
			if ok {
				*dst = &x
			}
			return ok
		}
		good := true
		switch t {
		case wt("Name"):
			a.Name, good = getName(v)
		case wt("FaceId"):
			good = num(&a.FaceId)
		case wt("Uri"):
			s := string(v)
			a.Uri = &s
		case wt("LocalUri"):
			s := string(v)
			a.LocalUri = &s
		case wt("Origin"):
			good = num(&a.Origin)
		case wt("Cost"):
			good = num(&a.Cost)
		case wt("Capacity"):
			good = num(&a.Capacity)
		case wt("Count"):
			good = num(&a.Count)
		case wt("Flags"):
			good = num(&a.Flags)
		case wt("Mask"):
			good = num(&a.Mask)
		case wt("Strategy"):
			s := &mgmt.Strategy{}
			if len(v) > 0 {
				t2, v2, r2, ok2 := getTLV(v)
				if !ok2 || t2 != wt("Name") || len(r2) != 0 {
					return nil, false
				}
				s.Name, good = getName(v2)
			}
			a.Strategy = s
		case wt("ExpirationPeriod"):
			good = num(&a.ExpirationPeriod)
		case wt("FacePersistency"):
			good = num(&a.FacePersistency)
		case wt("BaseCongestionMarkingInterval"):
			good = num(&a.BaseCongestionMarkInterval)
		case wt("DefaultCongestionThreshold"):
			good = num(&a.DefaultCongestionThreshold)
		case wt("Mtu"):
			good = num(&a.Mtu)
		}
		if !good {
			return nil, false
		}
	}
	return a, true
}

// specDecodeParams: a component value that is exactly one well-formed ControlParameters TLV.
func specDecodeParams(val []byte) (*mgmt.ControlArgs, bool) {
	t, v, rest, ok := getTLV(val)
	if !ok || t != wt("ControlParameters") || len(rest) != 0 {
		return nil, false
	}
	return specDecodeArgs(v)
}

// specDecodeResponse reads ControlResponse { StatusCode StatusText [ControlParameters] } with the protocol's numbers.
func specDecodeResponse(content []byte) (code uint64, text string, args *mgmt.ControlArgs, err error) {
	t, v, rest, ok := getTLV(content)
	if !ok || t != wt("ControlResponse") || len(rest) != 0 {
		return 0, "", nil, fmt.Errorf("not a ControlResponse")
	}
	t, cv, v, ok := getTLV(v)
	if !ok || t != wt("StatusCode") {
		return 0, "", nil, fmt.Errorf("no StatusCode")
	}
	code, ok = getNat(cv)
	if !ok {
		return 0, "", nil, fmt.Errorf("bad StatusCode")
	}
	t, tv, v, ok := getTLV(v)
	if !ok || t != wt("StatusText") {
		return 0, "", nil, fmt.Errorf("no StatusText")
	}
	text = string(tv)
	args = &mgmt.ControlArgs{}
	if len(v) > 0 {
		a, ok := specDecodeParams(v)
		if !ok {
			return 0, "", nil, fmt.Errorf("body of the ControlResponse is not a well-formed ControlParameters")
		}
		args = a
	}
	return code, text, args, nil
}

// observedWire: the TLV-TYPE numbers the repository's own codec writes, seen by encoding single-field values with it.
func observedWire() map[string]uint64 {
	out := map[string]uint64{}
	u := uint64(1)
	s := "x"
	first := func(a *mgmt.ControlArgs) (uint64, []byte) {
		p := mgmt.ControlParameters{Val: a}
		t, v, _, ok := getTLV(p.Bytes())
		if !ok {
			return 0, nil
		}
		out["ControlParameters"] = t
		t2, v2, _, ok := getTLV(v)
		if !ok {
			return 0, nil
		}
		return t2, v2
	}
	one := func(name string, a *mgmt.ControlArgs) { t, _ := first(a); out[name] = t }
	one("Name", &mgmt.ControlArgs{Name: enc.Name{gen("a")}})
	one("FaceId", &mgmt.ControlArgs{FaceId: &u})
	one("Uri", &mgmt.ControlArgs{Uri: &s})
	one("LocalUri", &mgmt.ControlArgs{LocalUri: &s})
	one("Origin", &mgmt.ControlArgs{Origin: &u})
	one("Cost", &mgmt.ControlArgs{Cost: &u})
	one("Capacity", &mgmt.ControlArgs{Capacity: &u})
	one("Count", &mgmt.ControlArgs{Count: &u})
	one("Flags", &mgmt.ControlArgs{Flags: &u})
	one("Mask", &mgmt.ControlArgs{Mask: &u})
	one("Strategy", &mgmt.ControlArgs{Strategy: &mgmt.Strategy{Name: enc.Name{gen("a")}}})
	one("ExpirationPeriod", &mgmt.ControlArgs{ExpirationPeriod: &u})
	one("FacePersistency", &mgmt.ControlArgs{FacePersistency: &u})
	one("BaseCongestionMarkingInterval", &mgmt.ControlArgs{BaseCongestionMarkInterval: &u})
	one("DefaultCongestionThreshold", &mgmt.ControlArgs{DefaultCongestionThreshold: &u})
	one("Mtu", &mgmt.ControlArgs{Mtu: &u})
	r := mgmt.ControlResponse{Val: &mgmt.ControlResponseVal{StatusCode: 200, StatusText: "OK", Params: &mgmt.ControlArgs{FaceId: &u}}}
	if t, v, _, ok := getTLV(r.Encode().Join()); ok {
		out["ControlResponse"] = t
		if t1, _, rest, ok := getTLV(v); ok {
			out["StatusCode"] = t1
			if t2, _, _, ok := getTLV(rest); ok {
				out["StatusText"] = t2
			}
		}
	}
	return out
}
