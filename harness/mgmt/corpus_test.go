// corpus_test.go — writes the hand-made witness histories of corpus/C17 (run with VERIF_CORPUS_OUT=<dir>).
// Each is the minimal history for one defect found on the pinned tree; TestTrace replays them before generated cases.
package mgmt

import (
	"fmt"
	"os"
	"path/filepath"
	"strings"
	"testing"

	enc "github.com/named-data/ndnd/std/encoding"
	mgmt "github.com/named-data/ndnd/std/ndn/mgmt_2022"
	"github.com/named-data/ndnd/std/utils"
)

func cmdName(top, module, verb string, args *mgmt.ControlArgs) enc.Name {
	n := enc.Name{gen(top), gen("nfd"), gen(module), gen(verb)}
	if args != nil {
		p := mgmt.ControlParameters{Val: args}
		n = append(n, enc.NewBytesComponent(enc.TypeGenericNameComponent, p.Bytes()))
	}
	return n
}

// cmdNameSpec: the same, with the ControlParameters encoded by the independent encoder (protocol TLV numbers)
func cmdNameSpec(top, module, verb string, args *mgmt.ControlArgs) enc.Name {
	return enc.Name{gen(top), gen("nfd"), gen(module), gen(verb), enc.NewBytesComponent(enc.TypeGenericNameComponent, specEncodeParams(args))}
}

func TestCorpusGen(t *testing.T) {
	dir := os.Getenv("VERIF_CORPUS_OUT")
	if dir == "" {
		t.Skip("VERIF_CORPUS_OUT not set")
	}
	ab, _ := enc.NameFromStr("/a/b")
	sp := "/localhost/nfd/strategy"
	u := func(v uint64) *uint64 { return utils.IdPtr(v) }
	list := func(m, v string) opCmd {
		return opCmd{inFace: 3, name: enc.Name{gen("localhost"), gen("nfd"), gen(m), gen(v)}, label: m + "/" + v}
	}
	mk := func(label string, in uint64, n enc.Name) opCmd { return opCmd{inFace: in, name: n, label: label} }
	cases := map[string]*caseSpec{
		"01-strategy-set-bare-prefix": {faces: facePool[0], cmds: []opCmd{
			mk("strategy-choice/set,strategy-bare-prefix", 3, cmdName("localhost", "strategy-choice", "set", &mgmt.ControlArgs{Name: ab, Strategy: &mgmt.Strategy{Name: strategyName(sp)}})),
			list("strategy-choice", "list")}},
		"02-faces-query-empty-filter": {faces: facePool[0], cmds: []opCmd{
			mk("faces/query,query-empty-filter", 3, append(cmdName("localhost", "faces", "query", nil), enc.NewBytesComponent(enc.TypeGenericNameComponent, []byte{}))),
			list("faces", "list")}},
		"03-localhop-disabled-rib-register": {localhop: false, faces: facePool[0], cmds: []opCmd{
			mk("rib/register,arrival=/localhop/nfd", 2, cmdName("localhop", "rib", "register", &mgmt.ControlArgs{Name: ab})),
			list("rib", "list")}},
		"04-localhop-enabled-rib-register": {localhop: true, faces: facePool[0], cmds: []opCmd{
			mk("rib/register,arrival=/localhop/nfd", 2, cmdName("localhop", "rib", "register", &mgmt.ControlArgs{Name: ab})),
			mk("fib/add-nexthop,arrival=/localhop/nfd", 2, cmdName("localhop", "fib", "add-nexthop", &mgmt.ControlArgs{Name: ab})),
			list("rib", "list"), list("fib", "list")}},
		"05-face-update-mtu-too-small": {faces: facePool[0], cmds: []opCmd{
			mk("faces/update,mtu=21", 3, cmdName("localhost", "faces", "update", &mgmt.ControlArgs{FaceId: u(2), Mtu: u(21)})),
			mk("faces/update,mtu=22", 3, cmdName("localhost", "faces", "update", &mgmt.ControlArgs{FaceId: u(2), Mtu: u(22)})),
			mk("faces/update,mtu=0", 3, cmdName("localhost", "faces", "update", &mgmt.ControlArgs{FaceId: u(2), Mtu: u(0)})),
			mk("faces/update,mtu=63", 3, cmdName("localhost", "faces", "update", &mgmt.ControlArgs{Mtu: u(63)})),
			mk("faces/update,mtu=64", 3, cmdName("localhost", "faces", "update", &mgmt.ControlArgs{FaceId: u(2), Mtu: u(64)})),
			list("faces", "list")}},
		"06-strategy-set-extra-component": {faces: facePool[0], cmds: []opCmd{
			mk("strategy-choice/set,strategy-extra-component", 3, cmdName("localhost", "strategy-choice", "set", &mgmt.ControlArgs{Name: ab, Strategy: &mgmt.Strategy{Name: strategyName(sp + "/multicast/v=1/extra")}})),
			list("strategy-choice", "list")}},
		"07-strategy-set-nonminimal-version": {faces: facePool[0], cmds: []opCmd{
			mk("strategy-choice/set,strategy-version-nonminimal", 3, cmdName("localhost", "strategy-choice", "set", &mgmt.ControlArgs{Name: ab,
				Strategy: &mgmt.Strategy{Name: append(strategyName(sp+"/best-route"), enc.NewBytesComponent(enc.TypeVersionNameComponent, []byte{0, 1}))}})),
			list("strategy-choice", "list")}},
		"08-cs-config-capacity-overflow": {faces: facePool[0], cmds: []opCmd{
			mk("cs/config", 3, cmdName("localhost", "cs", "config", &mgmt.ControlArgs{Capacity: u(1 << 63)})),
			mk("cs/config", 3, cmdName("localhost", "cs", "config", &mgmt.ControlArgs{Capacity: u(1<<64 - 1)})),
			mk("cs/config", 3, cmdName("localhost", "cs", "config", &mgmt.ControlArgs{Capacity: u(5)})),
			list("cs", "info")}},
		"09-basic-effects": {faces: facePool[0], cmds: []opCmd{
			mk("rib/register", 3, cmdName("localhost", "rib", "register", &mgmt.ControlArgs{Name: ab})),
			mk("rib/register", 3, cmdName("localhost", "rib", "register", &mgmt.ControlArgs{Name: ab, FaceId: u(2), Cost: u(7), Origin: u(128), Flags: u(2)})),
			mk("rib/register", 3, cmdName("localhost", "rib", "register", &mgmt.ControlArgs{Name: ab, FaceId: u(9)})),
			mk("rib/unregister", 3, cmdName("localhost", "rib", "unregister", &mgmt.ControlArgs{Name: ab})),
			mk("fib/add-nexthop", 3, cmdName("localhost", "fib", "add-nexthop", &mgmt.ControlArgs{Name: ab, Cost: u(3)})),
			mk("fib/remove-nexthop", 3, cmdName("localhost", "fib", "remove-nexthop", &mgmt.ControlArgs{Name: ab})),
			mk("strategy-choice/set", 3, cmdName("localhost", "strategy-choice", "set", &mgmt.ControlArgs{Name: ab, Strategy: &mgmt.Strategy{Name: strategyName(sp + "/multicast")}})),
			mk("strategy-choice/unset", 3, cmdName("localhost", "strategy-choice", "unset", &mgmt.ControlArgs{Name: enc.Name{}})),
			mk("strategy-choice/unset", 3, cmdName("localhost", "strategy-choice", "unset", &mgmt.ControlArgs{Name: ab})),
			list("rib", "list"), list("fib", "list"), list("strategy-choice", "list"), list("cs", "info"), list("faces", "list"), list("status", "general")}},
	}
	cases["11-face-update-mtu-huge"] = &caseSpec{faces: facePool[0], cmds: []opCmd{
		mk("faces/update,mtu=2^63", 3, cmdName("localhost", "faces", "update", &mgmt.ControlArgs{FaceId: u(2), Mtu: u(1 << 63)})),
		list("faces", "list"),
		mk("faces/update,mtu=2^64-1", 3, cmdNameSpec("localhost", "faces", "update", &mgmt.ControlArgs{FaceId: u(2), Mtu: u(1<<64 - 1)})),
		mk("faces/update,mtu=8801", 3, cmdName("localhost", "faces", "update", &mgmt.ControlArgs{Mtu: u(8801)})),
		list("faces", "list")}}
	cases["13-combined-face-update"] = &caseSpec{faces: facePool[0], cmds: []opCmd{
		// valid, different persistency together with an MTU below the floor: refused, and nothing of the face may change
		mk("faces/update,combined-update,bad-mtu", 3, cmdName("localhost", "faces", "update", &mgmt.ControlArgs{FaceId: u(2), FacePersistency: u(2), Mtu: u(10),
			Flags: u(5), Mask: u(5), BaseCongestionMarkInterval: u(7), DefaultCongestionThreshold: u(9)})),
		list("faces", "list"),
		mk("faces/update,combined-update,flags-without-mask", 3, cmdName("localhost", "faces", "update", &mgmt.ControlArgs{FaceId: u(2), FacePersistency: u(2), Mtu: u(1400), Flags: u(5)})),
		mk("faces/update,combined-update,bad-persistency", 3, cmdNameSpec("localhost", "faces", "update", &mgmt.ControlArgs{FaceId: u(2), FacePersistency: u(1), Mtu: u(1400), Flags: u(5), Mask: u(5)})),
		list("faces", "list"),
		mk("faces/update,combined-update,all-valid", 3, cmdName("localhost", "faces", "update", &mgmt.ControlArgs{FaceId: u(2), FacePersistency: u(2), Mtu: u(1400),
			Flags: u(5), Mask: u(5), BaseCongestionMarkInterval: u(7), DefaultCongestionThreshold: u(9)})),
		list("faces", "list")}}
	// Interests around the MTU of the internal face: split by its link service or not, the management loop must survive them
	bnd := &caseSpec{faces: facePool[0]}
	for _, total := range []int{8600, 8700, 8740, 8760, 8770, 8780, 8790, 8795} {
		n := enc.Name{gen("localhost"), gen("nfd"), gen("rib"), gen("verif-no-such-verb")}
		n = append(n, enc.NewBytesComponent(enc.TypeGenericNameComponent, make([]byte, total-len(n.Bytes())-20)))
		bnd.cmds = append(bnd.cmds, mk("rib/verif-no-such-verb,mtu-boundary-interest", 3, n))
	}
	bnd.cmds = append(bnd.cmds, mk("rib/register", 3, cmdName("localhost", "rib", "register", &mgmt.ControlArgs{Name: ab})), list("rib", "list"))
	cases["14-mtu-boundary-interests"] = bnd
	cases["12-protocol-encoded-commands"] = &caseSpec{faces: facePool[0], cmds: []opCmd{
		mk("cs/config,spec-encoded", 3, cmdNameSpec("localhost", "cs", "config", &mgmt.ControlArgs{Capacity: u(5000)})),
		list("cs", "info"),
		mk("cs/config,spec-encoded,count-only", 3, cmdNameSpec("localhost", "cs", "config", &mgmt.ControlArgs{Count: u(7)})),
		list("cs", "info"),
		mk("rib/register,spec-encoded", 3, cmdNameSpec("localhost", "rib", "register", &mgmt.ControlArgs{Name: ab, FaceId: u(2), Origin: u(128), Cost: u(7), Flags: u(2), ExpirationPeriod: u(1000)})),
		mk("fib/add-nexthop,spec-encoded", 3, cmdNameSpec("localhost", "fib", "add-nexthop", &mgmt.ControlArgs{Name: ab, Cost: u(3)})),
		mk("strategy-choice/set,spec-encoded", 3, cmdNameSpec("localhost", "strategy-choice", "set", &mgmt.ControlArgs{Name: ab, Strategy: &mgmt.Strategy{Name: strategyName(sp + "/multicast")}})),
		mk("faces/update,spec-encoded", 3, cmdNameSpec("localhost", "faces", "update", &mgmt.ControlArgs{FaceId: u(2), FacePersistency: u(2), Mtu: u(1400), Flags: u(1), Mask: u(1),
			BaseCongestionMarkInterval: u(5), DefaultCongestionThreshold: u(9)})),
		list("rib", "list"), list("fib", "list"), list("strategy-choice", "list"), list("faces", "list")}}
	// more routes than one 8000-byte segment holds: rib/list and fib/list go unanswered (known finding), nothing crashes
	big := &caseSpec{faces: facePool[0]}
	for i := 0; i < 200; i++ {
		n, _ := enc.NameFromStr(fmt.Sprintf("/big/prefix/number/%04d", i))
		big.cmds = append(big.cmds, mk("rib/register", 3, cmdName("localhost", "rib", "register", &mgmt.ControlArgs{Name: n})))
	}
	big.cmds = append(big.cmds, list("rib", "list"), list("fib", "list"), list("strategy-choice", "list"), list("status", "general"))
	cases["10-large-datasets"] = big
	os.MkdirAll(dir, 0o755)
	for name, cs := range cases {
		if err := os.WriteFile(filepath.Join(dir, name+".ops"), []byte(strings.Join(cs.opsText(), "\n")+"\n"), 0o644); err != nil {
			t.Fatal(err)
		}
	}
}
