// Harness for C17 — the real management Thread (fw/mgmt) driven in-process.
//
// world_test.go: construction of one "world" per history: global tables reset, a fake forwarding thread that
// captures whatever the management thread sends back through its real internal face, recording faces in the
// global face table, and the real Thread.Run loop on its own goroutine (wrapped by the verif hook VerifRun so
// that a handler panic — a daemon crash in production — is observed instead of killing the harness).
package mgmt

import (
	"encoding/binary"
	"fmt"
	"os"
	"runtime"
	"strings"
	"sync"
	"time"

	"github.com/named-data/ndnd/fw/core"
	"github.com/named-data/ndnd/fw/defn"
	"github.com/named-data/ndnd/fw/dispatch"
	"github.com/named-data/ndnd/fw/face"
	"github.com/named-data/ndnd/fw/fw"
	fwmgmt "github.com/named-data/ndnd/fw/mgmt"
	"github.com/named-data/ndnd/fw/table"
	enc "github.com/named-data/ndnd/std/encoding"
	"github.com/named-data/ndnd/std/ndn"
	spec "github.com/named-data/ndnd/std/ndn/spec_2022"
	sec "github.com/named-data/ndnd/std/security"
	"github.com/named-data/ndnd/std/utils"
)

// captured is one Data packet that came out of the management thread through the internal face.
type captured struct {
	name    enc.Name
	content []byte
	token   []byte
	nextHop *uint64
}

// fakeFw stands in for forwarding thread 0: it receives what the internal face's link service dispatches.
type fakeFw struct {
	mu    sync.Mutex
	datas chan captured
	ints  int
}

func (f *fakeFw) String() string { return "verif-fw" }
func (f *fakeFw) QueueData(p *defn.Pkt) {
	c := captured{name: p.L3.Data.NameV.Clone(), content: p.L3.Data.ContentV.Join()}
	if p.PitToken != nil {
		c.token = append([]byte{}, p.PitToken...)
	}
	if p.NextHopFaceID != nil {
		c.nextHop = utils.IdPtr(*p.NextHopFaceID)
	}
	f.datas <- c
}
func (f *fakeFw) QueueInterest(p *defn.Pkt) { f.mu.Lock(); f.ints++; f.mu.Unlock() }
func (f *fakeFw) GetNumPitEntries() int     { return 0 }
func (f *fakeFw) GetNumCsEntries() int      { return 0 }

// faceRec is a harness-created face.
type faceRec struct {
	id   uint64
	ls   face.LinkService
	tr   *face.VerifMgmtTransport
	spec faceSpec
}

// faceSpec describes a face to create on a recording transport.
type faceSpec struct {
	remote, local string // URI strings (decoded with defn.DecodeURIString; "null://", "internal://" built specially)
	scope         defn.Scope
	linkType      defn.LinkType
	persistency   face.Persistency
	mtu           int
	ndnlp         bool
}

type world struct {
	fw       *fakeFw
	thread   *fwmgmt.Thread
	exited   chan any // receives the recovered panic value (nil on normal exit) when Run returns
	internal face.LinkService
	faces    []*faceRec
	seq      uint32
	crashed  any
	dead     bool
	hung     bool // proven by goroutine state (see barrier)

	baseGoroutines int

}

// A real PIT-CS table created once at start-up, as each forwarding thread has one: the Content Store that cs/config must govern.
// (One per process: NewPitCS arms a timer whose goroutine waits for a forwarding thread to read it; it is drained once here.)
var (
	theCS    *table.PitCsTree
	csStored int // distinct Data inserted so far
)

func contentStore() *table.PitCsTree {
	if theCS == nil {
		theCS = table.NewPitCS(func(table.PitEntry) {})
		done := make(chan struct{})
		go func() { <-theCS.UpdateTimer(); close(done) }()
		<-done
	}
	return theCS
}

var configured bool

func mkURI(s string) *defn.URI {
	switch s {
	case "null://":
		return defn.MakeNullFaceURI()
	case "internal://":
		return defn.MakeInternalFaceURI()
	}
	if len(s) > 8 && s[:8] == "ether://" {
		// no constructor for ether URIs in the pinned tree: DecodeURIString yields scheme "unknown"; keep as is
		return defn.DecodeURIString(s)
	}
	return defn.DecodeURIString(s)
}

// newWorld resets every global the management modules touch and starts the real management thread.
func newWorld(allowLocalhop bool, fibAlgo string, faces []faceSpec) (*world, error) {
	cfg := core.DefaultConfig()
	cfg.Core.LogLevel = "FATAL"
	cfg.Mgmt.AllowLocalhop = allowLocalhop
	cfg.Tables.Rib.ReadvertiseNlsr = false
	cfg.Faces.QueueSize = 64
	core.LoadConfig(cfg, "/tmp")
	if !configured {
		core.InitializeLogger(os.DevNull)
		configured = true
	}
	table.Configure()
	face.Configure()
	fwmgmt.Configure()
	fw.NumFwThreads = 0 // cs/info and status/general iterate real fw threads; none exist here
	// RIB: remove every route through the public API (tree prunes itself), then a fresh FIB
	for _, e := range table.Rib.GetAllEntries() {
		rs := append([]*table.Route{}, e.GetRoutes()...)
		for _, r := range rs {
			table.Rib.RemoveRouteEnc(e.Name, r.FaceID, r.Origin)
		}
	}
	table.CreateFIBTable(fibAlgo)
	face.VerifMgmtResetFaceTable()

	contentStore()
	w := &world{fw: &fakeFw{datas: make(chan captured, 256)}, exited: make(chan any, 1), baseGoroutines: runtime.NumGoroutine()}
	dispatch.InitializeFWThreads([]dispatch.FWThread{w.fw})
	w.thread = fwmgmt.MakeMgmtThread()
	go w.thread.VerifRun(func(p any) { w.exited <- p })
	// the internal face appears in the face table as soon as Run has registered it
	// (no deadline: a slow machine only means more waiting; the test binary's own timeout is the last resort)
	for w.internal == nil {
		for _, f := range face.FaceTable.GetAll() {
			if f.RemoteURI().Scheme() == "internal" {
				w.internal = f
			}
		}
		if w.internal == nil {
			time.Sleep(50 * time.Microsecond)
		}
	}
	for _, fs := range faces {
		ls, tr := face.VerifMgmtAddFace(mkURI(fs.remote), mkURI(fs.local), fs.scope, fs.linkType, fs.persistency, fs.mtu, fs.ndnlp)
		w.faces = append(w.faces, &faceRec{id: ls.FaceID(), ls: ls, tr: tr, spec: fs})
	}
	// barrier: once the sentinel is answered Run is past its FIB registrations
	if _, st := w.barrier(); st != "ok" {
		return nil, fmt.Errorf("management thread did not answer the first sentinel: %s", st)
	}
	return w, nil
}

func (w *world) token() []byte {
	w.seq++
	t := make([]byte, 6)
	binary.BigEndian.PutUint16(t, 0) // forwarding thread 0
	binary.BigEndian.PutUint32(t[2:], w.seq)
	return t
}

// inject hands an Interest to the internal face exactly as a forwarding thread does (SendPacket with the PIT token
// and the incoming face id); the internal link service frames it and the management loop receives it.
func (w *world) inject(wire []byte, inFace uint64, tok []byte) error {
	l3, _, err := spec.ReadPacket(enc.NewBufferReader(wire))
	if err != nil || l3.Interest == nil {
		return fmt.Errorf("not an Interest: %v", err)
	}
	pkt := &defn.Pkt{Name: l3.Interest.NameV, L3: l3, Raw: wire, PitToken: tok, IncomingFaceID: utils.IdPtr(inFace)}
	w.internal.SendPacket(dispatch.OutPkt{Pkt: pkt, PitToken: tok, InFace: utils.IdPtr(inFace)})
	return nil
}

func mkInterest(name enc.Name, appParam []byte) ([]byte, enc.Name, error) {
	cfgI := &ndn.InterestConfig{MustBeFresh: true, Nonce: utils.IdPtr(uint64(0x01020304))}
	var ap enc.Wire
	if appParam != nil {
		ap = enc.Wire{appParam}
	}
	ei, err := spec.Spec{}.MakeInterest(name, cfgI, ap, nil)
	if err != nil {
		return nil, nil, err
	}
	return ei.Wire.Join(), ei.FinalName, nil
}

var sentinelName = enc.Name{
	enc.NewStringComponent(enc.TypeGenericNameComponent, "localhost"),
	enc.NewStringComponent(enc.TypeGenericNameComponent, "nfd"),
	enc.NewStringComponent(enc.TypeGenericNameComponent, "verif-sentinel"),
	enc.NewStringComponent(enc.TypeGenericNameComponent, "x"),
}

// barrier sends a command for a module that does not exist (always answered 501 by Run itself) and waits for
// that answer. The management loop is sequential and every queue on the way is FIFO, so everything the
// previously injected commands produced has been captured before the sentinel's answer. Returns the Data
// captured before it and "ok" | "panic" | "hang".
func (w *world) barrier() ([]captured, string) {
	if w.dead {
		return nil, "panic"
	}
	tok := w.token()
	wire, _, err := mkInterest(sentinelName, nil)
	if err != nil {
		return nil, "hang"
	}
	w.inject(wire, 1, tok)
	var got []captured
	// No wall-clock limit decides anything here. Every 2 s without an answer the goroutines are inspected: the sentinel counts as
	// unanswered only if that is PROVEN by state - twice in a row the management loop and the internal face's two goroutines are
	// all blocked (so every queue between them is empty and the sentinel has been consumed) with an identical stack of the
	// management goroutine and nothing captured in between. While anything is runnable or makes progress we keep waiting.
	tick := time.NewTicker(2 * time.Second)
	defer tick.Stop()
	prev := ""
	for {
		select {
		case c := <-w.fw.datas:
			if string(c.token) == string(tok) {
				return got, "ok"
			}
			got = append(got, c)
		case p := <-w.exited:
			w.dead = true
			w.crashed = p
			// drain what was captured before the crash
			for {
				select {
				case c := <-w.fw.datas:
					got = append(got, c)
				default:
					return got, "panic"
				}
			}
		case <-tick.C:
			st := pipelineState()
			if st.blocked && len(w.fw.datas) == 0 && prev != "" && st.mgmtStack == prev {
				w.hung = true
				w.crashed = "management pipeline blocked with the request consumed: " + firstLines(st.mgmtStack, 6)
				return got, "hang"
			}
			if st.blocked && len(w.fw.datas) == 0 {
				prev = st.mgmtStack
			} else {
				prev = ""
			}
		}
	}
}

// pipelineState inspects a dump of all goroutines: the goroutine running Thread.Run and the internal face's runReceive / runSend
// goroutines. blocked = all those present are in a blocked state (chan receive, select, lock, ...), none runnable or running.
type pipeState struct {
	blocked   bool
	mgmtStack string
	present   int
	ids       []string
}

var stackBuf = make([]byte, 1<<20)

// goroutines of a history whose management pipeline was proven blocked: they never end and are ignored from then on
var zombies = map[string]bool{}

func pipelineState() pipeState {
	buf := stackBuf[:runtime.Stack(stackBuf, true)]
	st := pipeState{blocked: true}
	for _, g := range strings.Split(string(buf), "\n\n") {
		isMgmt := strings.Contains(g, "mgmt.(*Thread).Run(")
		isFace := strings.Contains(g, "face.(*InternalTransport).runReceive(") || strings.Contains(g, "face.(*NDNLPLinkService).runSend(") ||
			strings.Contains(g, "face.(*NDNLPLinkService).runReceive(")
		if !isMgmt && !isFace {
			continue
		}
		head := g
		if i := strings.Index(g, "\n"); i >= 0 {
			head = g[:i]
		}
		id := head
		if i := strings.Index(head, " ["); i >= 0 {
			id = head[:i] // "goroutine 42"
		}
		if zombies[id] {
			continue
		}
		st.present++
		st.ids = append(st.ids, id)
		if strings.Contains(head, "[running") || strings.Contains(head, "[runnable") || strings.Contains(head, "[syscall") || strings.Contains(head, "[sleep") {
			st.blocked = false
		}
		if isMgmt {
			// drop the header line (it carries the waiting time) so that two dumps of the same blocked state compare equal
			st.mgmtStack = strings.TrimPrefix(g, head)
		}
	}
	if st.mgmtStack == "" {
		st.blocked = false // the management goroutine is not there (it is reported through w.exited)
	}
	return st
}

func firstLines(s string, n int) string {
	l := strings.Split(strings.TrimSpace(s), "\n")
	if len(l) > n {
		l = l[:n]
	}
	return strings.ReplaceAll(strings.Join(l, " | "), "\t", "")
}

// command injects one Interest and returns the Data it produced (those carrying its token).
func (w *world) command(wire []byte, inFace uint64) ([]captured, string) {
	tok := w.token()
	if err := w.inject(wire, inFace, tok); err != nil {
		return nil, "bad-interest"
	}
	got, st := w.barrier()
	var mine []captured
	for _, c := range got {
		if string(c.token) == string(tok) {
			mine = append(mine, c)
		}
	}
	return mine, st
}

// dataPacket hands a Data packet (not an Interest) to the internal face and returns whatever came back for its token.
func (w *world) dataPacket(name enc.Name, inFace uint64) ([]captured, string) {
	d, err := spec.Spec{}.MakeData(name, &ndn.DataConfig{}, enc.Wire{[]byte("x")}, sec.NewSha256Signer())
	if err != nil {
		return nil, "bad-interest"
	}
	wire := d.Wire.Join()
	l3, _, err := spec.ReadPacket(enc.NewBufferReader(wire))
	if err != nil {
		return nil, "bad-interest"
	}
	tok := w.token()
	pkt := &defn.Pkt{Name: name, L3: l3, Raw: wire, PitToken: tok, IncomingFaceID: utils.IdPtr(inFace)}
	w.internal.SendPacket(dispatch.OutPkt{Pkt: pkt, PitToken: tok, InFace: utils.IdPtr(inFace)})
	got, st := w.barrier()
	var mine []captured
	for _, c := range got {
		if string(c.token) == string(tok) {
			mine = append(mine, c)
		}
	}
	return mine, st
}

// csProbe inserts n fresh Data packets into the real Content Store and returns its size before and after and the capacity management
// reports. A store that obeys the configured capacity then holds min(before + n, capacity) entries (every insertion evicts down
// to the capacity).
func (w *world) csProbe(n int) (before, size, capacity int) {
	cs := contentStore()
	before = cs.CsSize()
	for i := 0; i < n; i++ {
		name, _ := enc.NameFromStr(fmt.Sprintf("/verif/cs/%d", csStored))
		d, err := spec.Spec{}.MakeData(name, &ndn.DataConfig{}, enc.Wire{[]byte("x")}, sec.NewSha256Signer())
		if err != nil {
			continue
		}
		wire := d.Wire.Join()
		if pkt, _, err := spec.ReadPacket(enc.NewBufferReader(wire)); err == nil && pkt.Data != nil {
			cs.InsertData(pkt.Data, wire)
			csStored++
		}
	}
	return before, cs.CsSize(), table.CsCapacity()
}

// close stops the management loop (closing the internal face ends Run) and waits for it.
func (w *world) close() {
	if w.hung {
		// proven blocked: nothing to wait for (this history is reported as a failure anyway); whatever of its pipeline is still
		// there shortly after closing the face is left behind and ignored by later histories
		w.internal.Close()
		time.Sleep(50 * time.Millisecond)
		for _, id := range pipelineState().ids {
			zombies[id] = true
		}
		return
	}
	if !w.dead {
		w.internal.Close()
		<-w.exited // closing the internal face ends Run; no deadline
		w.dead = true
	} else if w.internal != nil {
		// the loop is gone (panic); still close the face so its goroutines end
		w.internal.Close()
	}
	// The internal link service's goroutines unregister the face (FaceTable.Remove -> Rib.CleanUpFace) on their way
	// out; wait until they are gone so that nothing touches the tables while the next world resets them.
	// Decided by state, not by a count or a deadline: wait until no goroutine of the management pipeline exists any more.
	for pipelineState().present > 0 {
		time.Sleep(100 * time.Microsecond)
	}
}

// probeSend pushes a small Interest through the real sendPacket of a harness face: "ok" if at least one frame
// reached the transport, "dead" if none did, "panic:<v>" if sendPacket panicked.
func (w *world) probeSend(fr *faceRec) string {
	if !fr.spec.ndnlp {
		return "ok"
	}
	name := enc.Name{enc.NewStringComponent(enc.TypeGenericNameComponent, "p")}
	wire, _, err := mkInterest(name, nil)
	if err != nil {
		return "dead"
	}
	l3, _, _ := spec.ReadPacket(enc.NewBufferReader(wire))
	before := len(fr.tr.Frames)
	pkt := &defn.Pkt{Name: name, L3: l3, Raw: wire}
	if p := face.VerifMgmtSend(fr.ls, dispatch.OutPkt{Pkt: pkt}); p != nil {
		return fmt.Sprintf("panic:%v", p)
	}
	if len(fr.tr.Frames) > before {
		fr.tr.Frames = fr.tr.Frames[:0]
		return "ok"
	}
	return "dead"
}
