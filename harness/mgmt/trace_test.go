// trace_test.go — case description (ops), execution of a case against the real management thread, and the
// line-oriented trace read by runner/Mgmt/driver.ml (format documented there).
package mgmt

import (
	"encoding/hex"
	"os"
	"fmt"
	"net"
	"sort"
	"strconv"
	"strings"

	"github.com/named-data/ndnd/fw/defn"
	"github.com/named-data/ndnd/fw/face"
	"github.com/named-data/ndnd/fw/table"
	enc "github.com/named-data/ndnd/std/encoding"
	mgmt "github.com/named-data/ndnd/std/ndn/mgmt_2022"
)

// ---- a case = configuration + faces + commands; serialisable as text (VERIF_OPS / corpus) -------------------------
type opCmd struct {
	isData bool // send a Data packet with this name instead of an Interest (Run must drop it)
	inFace uint64
	name   enc.Name // without the ParametersSha256Digest component MakeInterest appends when app != nil
	app    []byte   // ApplicationParameters (nil = none)
	label  string   // generator's description (not part of the semantics)
}

type caseSpec struct {
	localhop bool
	faces    []faceSpec
	cmds     []opCmd
}

func (c *caseSpec) opsText() []string {
	var out []string
	out = append(out, fmt.Sprintf("localhop %d", b2i(c.localhop)))
	for _, f := range c.faces {
		out = append(out, fmt.Sprintf("face %s %s %d %d %d %d %d", f.remote, f.local, int(f.scope), int(f.linkType), uint64(f.persistency), f.mtu, b2i(f.ndnlp)))
	}
	for _, m := range c.cmds {
		app := "-"
		if m.app != nil {
			app = "x" + hex.EncodeToString(m.app)
		}
		lab := strings.ReplaceAll(m.label, " ", "_")
		if lab == "" {
			lab = "-"
		}
		kw := "cmd"
		if m.isData {
			kw = "dat"
		}
		out = append(out, fmt.Sprintf("%s %d %s %s %s", kw, m.inFace, hx(m.name.Bytes()), app, lab))
	}
	return out
}

func parseOps(lines []string) (*caseSpec, error) {
	c := &caseSpec{}
	for _, l := range lines {
		f := strings.Fields(l)
		if len(f) == 0 || strings.HasPrefix(f[0], "#") {
			continue
		}
		switch f[0] {
		case "localhop":
			c.localhop = f[1] == "1"
		case "face":
			if len(f) < 8 {
				return nil, fmt.Errorf("bad face line %q", l)
			}
			sc, _ := strconv.Atoi(f[3])
			lt, _ := strconv.Atoi(f[4])
			ps, _ := strconv.ParseUint(f[5], 10, 64)
			mtu, _ := strconv.Atoi(f[6])
			c.faces = append(c.faces, faceSpec{f[1], f[2], defn.Scope(sc), defn.LinkType(lt), face.Persistency(ps), mtu, f[7] == "1"})
		case "cmd", "dat":
			if len(f) < 4 {
				return nil, fmt.Errorf("bad cmd line %q", l)
			}
			in, _ := strconv.ParseUint(f[1], 10, 64)
			nb, err := hex.DecodeString(unhx(f[2]))
			if err != nil {
				return nil, err
			}
			n, err := enc.NameFromBytes(nb)
			if err != nil {
				return nil, fmt.Errorf("bad name in %q: %v", l, err)
			}
			var app []byte
			if f[3] != "-" {
				app, err = hex.DecodeString(f[3][1:])
				if err != nil {
					return nil, err
				}
			}
			lab := ""
			if len(f) > 4 {
				lab = f[4]
			}
			c.cmds = append(c.cmds, opCmd{isData: f[0] == "dat", inFace: in, name: n, app: app, label: lab})
		default:
			return nil, fmt.Errorf("bad ops line %q", l)
		}
	}
	return c, nil
}

func b2i(b bool) int {
	if b {
		return 1
	}
	return 0
}
func hx(b []byte) string {
	if len(b) == 0 {
		return "-"
	}
	return hex.EncodeToString(b)
}
func unhx(s string) string {
	if s == "-" {
		return ""
	}
	return s
}

// ---- rendering ---------------------------------------------------------------------------------------------------
func nameStr(n enc.Name) string {
	if len(n) == 0 {
		return "-"
	}
	parts := make([]string, len(n))
	for i, c := range n {
		parts[i] = strconv.FormatUint(uint64(c.Typ), 10) + ":" + hex.EncodeToString(c.Val)
	}
	return strings.Join(parts, ",")
}

func optU(p *uint64) string {
	if p == nil {
		return "-"
	}
	return strconv.FormatUint(*p, 10)
}

func joinSorted(items []string, sep string) string {
	if len(items) == 0 {
		return "-"
	}
	sort.Strings(items)
	return strings.Join(items, sep)
}

// scheme numbering shared with the model (Model.v sch_*); other schemes are numbered from 10 per case
type interner struct {
	schemes map[string]uint64
	uris    map[string]uint64
}

func newInterner() *interner {
	return &interner{schemes: map[string]uint64{"null": 0, "internal": 1, "ether": 2, "udp4": 3, "udp6": 4, "unix": 5}, uris: map[string]uint64{}}
}
func (in *interner) scheme(s string) uint64 {
	if v, ok := in.schemes[s]; ok {
		return v
	}
	v := uint64(10 + len(in.schemes))
	in.schemes[s] = v
	return v
}
func (in *interner) uri(s string) uint64 {
	if v, ok := in.uris[s]; ok {
		return v
	}
	v := uint64(1 + len(in.uris))
	in.uris[s] = v
	return v
}

// uriAttr computes, with the real URI code, what the faces/create handler will find out about the Uri field.
func uriAttr(s string) string {
	u := defn.DecodeURIString(s)
	canon := u != nil && u.Canonize() == nil
	scheme := 2
	ip, uni := false, false
	conflict := "-"
	if u != nil {
		switch u.Scheme() {
		case "udp4", "udp6":
			scheme = 0
		case "tcp4", "tcp6":
			scheme = 1
		}
		a := net.ParseIP(u.Path())
		ip = a != nil
		uni = a != nil && (a.IsGlobalUnicast() || a.IsLinkLocalUnicast() || a.IsLoopback())
		if canon {
			if f := face.FaceTable.GetByURI(u); f != nil {
				conflict = strconv.FormatUint(f.FaceID(), 10)
			}
		}
	}
	return fmt.Sprintf("%d.%d.%d.%d.%s", b2i(canon), scheme, b2i(ip), b2i(uni), conflict)
}

// cargsStr renders ControlArgs; withURI: render the Uri attribute (commands) or drop Uri/LocalUri (responses).
func cargsStr(a *mgmt.ControlArgs, withURI bool) string {
	if a == nil {
		return "{}"
	}
	var kv []string
	add := func(k, v string) { kv = append(kv, k+"="+v) }
	if a.Name != nil {
		add("name", nameStr(a.Name))
	}
	if a.FaceId != nil {
		add("face", optU(a.FaceId))
	}
	if a.Uri != nil && withURI {
		add("uri", uriAttr(*a.Uri))
	}
	if a.Origin != nil {
		add("origin", optU(a.Origin))
	}
	if a.Cost != nil {
		add("cost", optU(a.Cost))
	}
	if a.Capacity != nil {
		add("cap", optU(a.Capacity))
	}
	if a.Flags != nil {
		add("flags", optU(a.Flags))
	}
	if a.Mask != nil {
		add("mask", optU(a.Mask))
	}
	if a.Strategy != nil {
		add("strat", nameStr(a.Strategy.Name))
	}
	if a.ExpirationPeriod != nil {
		add("exp", optU(a.ExpirationPeriod))
	}
	if a.FacePersistency != nil {
		add("pers", optU(a.FacePersistency))
	}
	if a.BaseCongestionMarkInterval != nil {
		add("bcong", optU(a.BaseCongestionMarkInterval))
	}
	if a.DefaultCongestionThreshold != nil {
		add("dcong", optU(a.DefaultCongestionThreshold))
	}
	if a.Mtu != nil {
		add("mtu", optU(a.Mtu))
	}
	return "{" + strings.Join(kv, ";") + "}"
}

func routeStr(faceID, origin, cost, flags uint64, exp *uint64) string {
	return fmt.Sprintf("%d.%d.%d.%d.%s", faceID, origin, cost, flags, optU(exp))
}

// ---- reading the real tables back --------------------------------------------------------------------------------
func ribTable() string {
	var es []string
	for _, e := range table.Rib.GetAllEntries() {
		var rs []string
		for _, r := range e.GetRoutes() {
			var exp *uint64
			if r.ExpirationPeriod != nil {
				v := uint64(*r.ExpirationPeriod / 1000000) // same projection as the rib/list dataset (ms)
				exp = &v
			}
			rs = append(rs, routeStr(r.FaceID, r.Origin, r.Cost, r.Flags, exp))
		}
		es = append(es, nameStr(e.Name)+">"+joinSorted(rs, "|"))
	}
	return joinSorted(es, "+")
}

func fibTable() string {
	var es []string
	for _, e := range table.FibStrategyTable.GetAllFIBEntries() {
		var hs []string
		for _, h := range e.GetNextHops() {
			hs = append(hs, fmt.Sprintf("%d.%d", h.Nexthop, h.Cost))
		}
		es = append(es, nameStr(e.Name())+">"+joinSorted(hs, "|"))
	}
	return joinSorted(es, "+")
}

// lookupMismatches: for every FIB entry, a lookup of the entry's own name (FindNextHopsEnc, longest-prefix match) must return
// exactly that entry's next hops - so what the tables list is what forwarding uses.
func lookupMismatches() []string {
	var bad []string
	for _, e := range table.FibStrategyTable.GetAllFIBEntries() {
		var a, b []string
		for _, h := range e.GetNextHops() {
			a = append(a, fmt.Sprintf("%d.%d", h.Nexthop, h.Cost))
		}
		for _, h := range table.FibStrategyTable.FindNextHopsEnc(e.Name()) {
			b = append(b, fmt.Sprintf("%d.%d", h.Nexthop, h.Cost))
		}
		if joinSorted(a, "|") != joinSorted(b, "|") {
			bad = append(bad, nameStr(e.Name())+">"+joinSorted(a, "|")+"!="+joinSorted(b, "|"))
		}
	}
	return bad
}

func stratTable() string {
	var es []string
	for _, e := range table.FibStrategyTable.GetAllForwardingStrategies() {
		es = append(es, nameStr(e.Name())+">"+nameStr(e.GetStrategy()))
	}
	return joinSorted(es, "+")
}

func optBits(o face.NDNLPLinkServiceOptions) int {
	return b2i(o.IsConsumerControlledForwardingEnabled) + 2*b2i(o.IsIncomingFaceIndicationEnabled) + 4*b2i(o.IsLocalCachePolicyEnabled) +
		8*b2i(o.IsCongestionMarkingEnabled) + 16*b2i(o.IsFragmentationEnabled)
}

func faceLine(in *interner, f face.LinkService) string {
	ndnlp, bits := 0, 0
	bc, dc := uint64(0), uint64(0)
	if l, ok := f.(*face.NDNLPLinkService); ok {
		ndnlp = 1
		o := l.Options()
		bits = optBits(o)
		bc, dc = uint64(o.BaseCongestionMarkingInterval.Nanoseconds()), o.DefaultCongestionThresholdBytes
	}
	return fmt.Sprintf("%d.%d.%d.%d.%d.%d.%d.%d.%d.%d.%d.%d.%d", f.FaceID(), in.scheme(f.RemoteURI().Scheme()), in.scheme(f.LocalURI().Scheme()),
		int(f.Scope()), int(f.LinkType()), uint64(f.Persistency()), f.MTU(), ndnlp, bits, bc, dc,
		in.uri(f.RemoteURI().String()), in.uri(f.LocalURI().String()))
}

func facesTable(in *interner) string {
	all := face.FaceTable.GetAll()
	sort.Slice(all, func(i, j int) bool { return all[i].FaceID() < all[j].FaceID() })
	var fs []string
	for _, f := range all {
		fs = append(fs, faceLine(in, f))
	}
	if len(fs) == 0 {
		return "-"
	}
	return strings.Join(fs, "+")
}

// ---- decoding what came back -------------------------------------------------------------------------------------
func lastNum(c enc.Component) string {
	v, _, err := enc.ParseNat(c.Val)
	if err != nil {
		return "?"
	}
	return strconv.FormatUint(uint64(v), 10)
}

func obsLine(in *interner, got []captured, st string, crashed any) string {
	switch st {
	case "panic":
		return "OBS panic " + strings.ReplaceAll(fmt.Sprint(crashed), " ", "_")
	case "hang":
		return "OBS hang"
	case "bad-interest":
		return "OBS badinterest"
	}
	if len(got) == 0 {
		return "OBS none"
	}
	if len(got) > 1 {
		return fmt.Sprintf("OBS multi %d", len(got))
	}
	c := got[0]
	// a ControlResponse is read with the independent decoder (protocol numbers), as a client would
	if code, _, args, err := specDecodeResponse(c.content); err == nil {
		nh := "-"
		if c.nextHop != nil {
			nh = strconv.FormatUint(*c.nextHop, 10)
		}
		return fmt.Sprintf("OBS ctl %d %s %s", code, cargsStr(args, false), nh)
	}
	if r, err := mgmt.ParseControlResponse(enc.NewBufferReader(c.content), true); err == nil && r.Val != nil {
		// only the repository's own parser understands this response
		return fmt.Sprintf("OBS ctlbad %d", r.Val.StatusCode)
	}
	// a status dataset: <prefix>/<module>/<verb>[/<filter>]/v=<version>/seg=0
	n := c.name
	if len(n) < 6 || n[len(n)-2].Typ != enc.TypeVersionNameComponent || n[len(n)-1].Typ != enc.TypeSegmentNameComponent {
		return "OBS unknowndata " + nameStr(n)
	}
	base := n[:len(n)-2]
	ver := lastNum(n[len(n)-2])
	mod, verb := base[2].String(), base[3].String()
	rd := func() enc.ParseReader { return enc.NewBufferReader(c.content) }
	kind, payload := "?", "?"
	switch mod + "/" + verb {
	case "rib/list":
		kind = "rib"
		if len(c.content) == 0 {
			payload = "-"
		} else if d, err := mgmt.ParseRibStatus(rd(), true); err == nil {
			var es []string
			for _, e := range d.Entries {
				var rs []string
				for _, r := range e.Routes {
					rs = append(rs, routeStr(r.FaceId, r.Origin, r.Cost, r.Flags, r.ExpirationPeriod))
				}
				es = append(es, nameStr(e.Name)+">"+joinSorted(rs, "|"))
			}
			payload = joinSorted(es, "+")
		}
	case "fib/list":
		kind = "fib"
		if len(c.content) == 0 {
			payload = "-"
		} else if d, err := mgmt.ParseFibStatus(rd(), true); err == nil {
			var es []string
			for _, e := range d.Entries {
				var hs []string
				for _, h := range e.NextHopRecords {
					hs = append(hs, fmt.Sprintf("%d.%d", h.FaceId, h.Cost))
				}
				es = append(es, nameStr(e.Name)+">"+joinSorted(hs, "|"))
			}
			payload = joinSorted(es, "+")
		}
	case "strategy-choice/list":
		kind = "strat"
		if len(c.content) == 0 {
			payload = "-"
		} else if d, err := mgmt.ParseStrategyChoiceMsg(rd(), true); err == nil {
			var es []string
			for _, e := range d.StrategyChoices {
				s := enc.Name(nil)
				if e.Strategy != nil {
					s = e.Strategy.Name
				}
				es = append(es, nameStr(e.Name)+">"+nameStr(s))
			}
			payload = joinSorted(es, "+")
		}
	case "cs/info":
		kind = "cs"
		if d, err := mgmt.ParseCsInfoMsg(rd(), true); err == nil && d.CsInfo != nil {
			payload = fmt.Sprintf("%d.%d.%d", d.CsInfo.Capacity, d.CsInfo.Flags, d.CsInfo.NCsEntries)
		}
	case "status/general":
		kind = "general"
		if d, err := mgmt.ParseGeneralStatus(rd(), true); err == nil {
			payload = fmt.Sprintf("%d", d.NFibEntries)
		}
	case "faces/list", "faces/query":
		kind = "faces"
		if len(c.content) == 0 {
			payload = "-"
		} else if d, err := mgmt.ParseFaceStatusMsg(rd(), true); err == nil {
			var fs []string
			for _, f := range d.Vals {
				fs = append(fs, fmt.Sprintf("%d.%d.%d.%d.%s.%d.%s.%s", f.FaceId, f.FaceScope, f.FacePersistency, f.LinkType, optU(f.Mtu), f.Flags,
					optU(f.BaseCongestionMarkInterval), optU(f.DefaultCongestionThreshold)))
			}
			payload = joinSorted(fs, "+")
		}
	}
	return fmt.Sprintf("OBS data %s %s %s %s", nameStr(base), ver, kind, payload)
}

// decodeForModel mirrors decodeControlParameters / ParseFaceQueryFilter: what the handler will see in name[4].
func decodeForModel(in *interner, final enc.Name) (pdec string, qdec string) {
	pdec, qdec = "none", "none"
	if len(final) < 5 {
		return
	}
	val := final[4].Val
	if p, err := mgmt.ParseControlParameters(enc.NewBufferReader(val), true); err == nil && p.Val != nil {
		pdec = cargsStr(p.Val, true)
	}
	// A component that is a well-formed ControlParameters by the protocol's numbers means what the independent decoder reads,
	// whatever the repository's parser makes of it (codecDiff reports a disagreement).
	if a, ok := specDecodeParams(val); ok {
		pdec = cargsStr(a, true)
	}
	if q, err := mgmt.ParseFaceQueryFilter(enc.NewBufferReader(val), true); err == nil {
		if q.Val == nil {
			qdec = "nil" // the handler dereferences filterV.Val
		} else {
			f := q.Val
			var kv []string
			add := func(k, v string) { kv = append(kv, k+"="+v) }
			if f.FaceId != nil {
				add("face", optU(f.FaceId))
			}
			if f.UriScheme != nil {
				add("scheme", strconv.FormatUint(in.scheme(*f.UriScheme), 10))
			}
			if f.Uri != nil {
				add("uri", strconv.FormatUint(in.uri(*f.Uri), 10))
			}
			if f.LocalUri != nil {
				add("luri", strconv.FormatUint(in.uri(*f.LocalUri), 10))
			}
			if f.FaceScope != nil {
				add("scope", optU(f.FaceScope))
			}
			if f.FacePersistency != nil {
				add("pers", optU(f.FacePersistency))
			}
			if f.LinkType != nil {
				add("link", optU(f.LinkType))
			}
			qdec = "{" + strings.Join(kv, ";") + "}"
		}
	}
	return
}

// opensSocket: a faces/create under /localhost/nfd whose parameters pass every check of the handler, so that it would go
// on to create a UDP/TCP transport. Sockets are outside the model; such a command is never sent.
func opensSocket(final enc.Name) bool {
	if len(final) < 5 || final[2].String() != "faces" || final[3].String() != "create" {
		return false
	}
	p, err := mgmt.ParseControlParameters(enc.NewBufferReader(final[4].Val), true)
	if err != nil || p.Val == nil || p.Val.Uri == nil {
		return false
	}
	a := p.Val
	attr := strings.Split(uriAttr(*a.Uri), ".")
	if attr[0] != "1" || attr[4] != "-" || attr[1] == "2" || attr[2] != "1" || attr[3] != "1" {
		return false
	}
	if (a.Flags == nil) != (a.Mask == nil) {
		return false
	}
	if a.Mtu != nil && *a.Mtu < 64 {
		return false // refused as too small before any transport is made
	}
	if a.FacePersistency != nil && *a.FacePersistency != uint64(face.PersistencyPersistent) && *a.FacePersistency != uint64(face.PersistencyPermanent) {
		return false
	}
	return true
}

// codecDiff: for a well-formed ControlParameters (protocol numbers, canonical order) the repository's parser must read the same
// fields as the independent decoder. Returns "" or "spec=<..>!impl=<..>".
func codecDiff(final enc.Name) string {
	if len(final) < 5 {
		return ""
	}
	a, ok := specDecodeParams(final[4].Val)
	if !ok {
		return ""
	}
	want := cargsStr(a, false) + countStr(a)
	got := "undecodable"
	if p, err := mgmt.ParseControlParameters(enc.NewBufferReader(final[4].Val), true); err == nil && p.Val != nil {
		got = cargsStr(p.Val, false) + countStr(p.Val)
	}
	if want != got {
		return "spec=" + want + "!impl=" + got
	}
	return ""
}

func countStr(a *mgmt.ControlArgs) string {
	s := ""
	if a.Count != nil {
		s += fmt.Sprintf("+count=%d", *a.Count)
	}
	if a.Uri != nil {
		s += "+uri=" + hex.EncodeToString([]byte(*a.Uri))
	}
	if a.LocalUri != nil {
		s += "+luri=" + hex.EncodeToString([]byte(*a.LocalUri))
	}
	return s
}

// appKind: what rib/announce will find in the ApplicationParameters
func appKind(app []byte) int {
	if len(app) == 0 {
		return 0
	}
	if _, _, err := (specReadData(app)); err != nil {
		return 1
	}
	return 2
}

// Interests longer than this sit at the MTU boundary of the internal face (MaxNDNPacketSize 8800 minus link headers)
const boundaryWire = 8600

// runCase executes one case on a fresh world and appends its trace lines.
func runCase(id int, cs *caseSpec, emit func(string)) error {
	for _, l := range cs.opsText() {
		emit("# " + l)
	}
	algo := os.Getenv("VERIF_FIB")
	if algo == "" {
		algo = "nametree"
	}
	w, err := newWorld(cs.localhop, algo, cs.faces)
	if err != nil {
		return err
	}
	defer w.close()
	in := newInterner()
	emit(fmt.Sprintf("CASE %d %d %d", id, b2i(cs.localhop), w.internal.FaceID()))
	emit(fmt.Sprintf("INIT %s %s %s %d %s", ribTable(), fibTable(), stratTable(), table.CsCapacity(), facesTable(in)))
	for _, m := range cs.cmds {
		if m.isData {
			// not an Interest: the management loop must drop it. For the model this is a packet without a command name.
			emit("CMD " + strconv.FormatUint(m.inFace, 10) + " - none 0 none")
			got, st := w.dataPacket(m.name, m.inFace)
			emit(obsLine(in, got, st, w.crashed))
			emit(fmt.Sprintf("TAB %s %s %s %d %s", ribTable(), fibTable(), stratTable(), table.CsCapacity(), facesTable(in)))
			emit("LIVE -")
			if st == "panic" || st == "hang" {
				break
			}
			continue
		}
		wire, final, err := mkInterest(m.name, m.app)
		if err != nil {
			emit("# skipped (cannot encode): " + m.label)
			continue
		}
		pdec, qdec := decodeForModel(in, final)
		if opensSocket(final) {
			emit("# skipped (faces/create that passes validation would open a socket): " + m.label)
			continue
		}
		cmdLine := fmt.Sprintf("CMD %d %s %s %d %s", m.inFace, nameStr(final), pdec, appKind(m.app), qdec)
		if len(wire) <= boundaryWire {
			emit(cmdLine)
		}
		if d := codecDiff(final); d != "" && len(wire) <= boundaryWire {
			emit("CODECDIFF " + d)
		}
		got, st := w.command(wire, m.inFace)
		if len(wire) > boundaryWire {
			// An Interest at the internal face's MTU boundary: its link service may have to split it, and the internal transport
			// hands fragments to the management loop unassembled, so the command may legitimately never arrive. If nothing came
			// back it is, for the model, a packet that carried no command (no answer, no change); if it was answered it is an
			// ordinary command. Either way the loop must survive it (the barrier after it must be answered).
			if st == "ok" && len(got) == 0 {
				emit(fmt.Sprintf("CMD %d - none 0 none", m.inFace))
			} else {
				emit(cmdLine)
			}
		}
		ol := obsLine(in, got, st, w.crashed)
		emit(ol)
		emit(fmt.Sprintf("TAB %s %s %s %d %s", ribTable(), fibTable(), stratTable(), table.CsCapacity(), facesTable(in)))
		if strings.HasPrefix(ol, "OBS ctl 200 ") && len(final) > 3 && final[2].String() == "cs" && final[3].String() == "config" {
			// the effect of an accepted cs/config, not its echo: the real Content Store (created at start-up) must now hold
			// min(entries before + inserted, configured capacity) entries after further insertions
			before, size, capacity := w.csProbe(12)
			want := before + 12
			if capacity < want {
				want = capacity
			}
			emit(fmt.Sprintf("CSPROBE size=%d want=%d before=%d capacity=%d", size, want, before, capacity))
		}
		if bad := lookupMismatches(); len(bad) > 0 {
			emit("LPMBAD " + strings.Join(bad, "+"))
		}
		var lv []string
		for _, f := range w.faces {
			if face.FaceTable.Get(f.id) == nil {
				continue // destroyed
			}
			lv = append(lv, fmt.Sprintf("%d=%s", f.id, strings.ReplaceAll(w.probeSend(f), " ", "_")))
		}
		if len(lv) == 0 {
			emit("LIVE -")
		} else {
			emit("LIVE " + strings.Join(lv, ","))
		}
		if st == "panic" || st == "hang" {
			break // the daemon is gone; the rest of the history is void
		}
	}
	emit("END")
	return nil
}
