// Package objecth: harness for C15 (std/object): Produce segmentation, the two stores, the segment fetcher
// state machine (driven step by step through verif hooks) and end-to-end consume over a lossy relay.
// Every random choice comes from one PRNG seeded by VERIF_SEED. Traces are line-oriented text (see runner/Object/driver.ml).
package objecth

import (
	"bufio"
	"encoding/hex"
	"fmt"
	"math/rand"
	"os"
	"strconv"
	"strings"

	enc "github.com/named-data/ndnd/std/encoding"
)

func envInt(k string, d int) int {
	if v := os.Getenv(k); v != "" {
		if n, err := strconv.Atoi(v); err == nil {
			return n
		}
	}
	return d
}

func hx(b []byte) string {
	if len(b) == 0 {
		return "-"
	}
	return hex.EncodeToString(b)
}

func compStr(c enc.Component) string {
	return strconv.FormatUint(uint64(c.Typ), 10) + ":" + hex.EncodeToString(c.Val)
}

func nameStr(n enc.Name) string {
	if len(n) == 0 {
		return "-"
	}
	parts := make([]string, len(n))
	for i, c := range n {
		parts[i] = compStr(c)
	}
	return strings.Join(parts, ",")
}

func wireStr(w enc.Wire) string {
	if len(w) == 0 {
		return "~"
	}
	parts := make([]string, len(w))
	for i, b := range w {
		parts[i] = hx(b)
	}
	return strings.Join(parts, "|")
}

type out struct {
	f *os.File
	w *bufio.Writer
}

func newOut() *out {
	p := os.Getenv("VERIF_OUT")
	if p == "" {
		p = os.DevNull
	}
	f, err := os.Create(p)
	if err != nil {
		panic(err)
	}
	return &out{f: f, w: bufio.NewWriterSize(f, 1<<20)}
}
func (o *out) pf(format string, a ...any) { fmt.Fprintf(o.w, format, a...) }
func (o *out) flush()                      { o.w.Flush() }
func (o *out) close()                      { o.w.Flush(); o.f.Close() }

func newRand() *rand.Rand {
	return rand.New(rand.NewSource(int64(envInt("VERIF_SEED", 1))))
}

// workDir is where bolt files are created (never /tmp): VERIF_WORK, else the directory of VERIF_OUT, else ".".
func workDir() string {
	if d := os.Getenv("VERIF_WORK"); d != "" {
		return d
	}
	if p := os.Getenv("VERIF_OUT"); p != "" {
		if i := strings.LastIndex(p, "/"); i > 0 {
			return p[:i]
		}
	}
	return "."
}

var genericVals = []string{"a", "b", "obj", "file.bin", "x"}

func genName(r *rand.Rand) enc.Name {
	n := 1 + r.Intn(3)
	name := make(enc.Name, 0, n)
	for i := 0; i < n; i++ {
		name = append(name, enc.NewStringComponent(enc.TypeGenericNameComponent, genericVals[r.Intn(len(genericVals))]))
	}
	return name
}

// withSpare returns a copy of name whose backing array has `spare` unused slots after len.
func withSpare(name enc.Name, spare int) enc.Name {
	n := make(enc.Name, len(name), len(name)+spare)
	copy(n, name)
	return n
}

var boundaryVersions = []uint64{0, 1, 2, 255, 256, 257, 65535, 65536, 1<<32 - 1, 1 << 32, 1<<63 - 1, 1 << 63, 1<<64 - 1}

func genVersion(r *rand.Rand) uint64 {
	switch r.Intn(4) {
	case 0:
		return boundaryVersions[r.Intn(len(boundaryVersions))]
	case 1:
		return uint64(r.Intn(70000))
	default:
		return uint64(r.Int63())
	}
}

func genContent(r *rand.Rand, size int) []byte {
	b := make([]byte, size)
	// position-dependent pattern with a random salt: a misplaced, duplicated or reordered range is visible
	salt := r.Intn(256)
	for i := range b {
		b[i] = byte((i*131 + (i>>8)*7 + (i>>16)*3 + salt) & 0xff)
	}
	return b
}

const segSize = 8000 // only used to aim generated sizes at boundaries; the model takes the constant from the source

func genSize(r *rand.Rand, maxSegs int) int {
	switch r.Intn(10) {
	case 0:
		return 1 + r.Intn(3)
	case 1, 2, 3, 4, 5:
		k := r.Intn(maxSegs + 1)
		d := r.Intn(5) - 2
		s := k*segSize + d
		if s <= 0 {
			s = 1 + r.Intn(2)
		}
		return s
	default:
		return 1 + r.Intn(maxSegs*segSize)
	}
}

// genSplit cuts content into buffers: single, 8192-byte reads (putchunks), random cuts, 1-byte buffers around the
// segment boundaries, optionally with empty buffers (also trailing).
func genSplit(r *rand.Rand, content []byte) (enc.Wire, string) {
	var w enc.Wire
	mode := r.Intn(6)
	kind := ""
	cutAt := func(cuts []int) {
		prev := 0
		for _, c := range cuts {
			if c > prev && c <= len(content) {
				w = append(w, content[prev:c])
				prev = c
			}
		}
		if prev < len(content) {
			w = append(w, content[prev:])
		}
	}
	switch mode {
	case 0:
		kind = "single"
		w = enc.Wire{content}
	case 1:
		kind = "read8192"
		var cuts []int
		for c := 8192; c < len(content); c += 8192 {
			cuts = append(cuts, c)
		}
		cutAt(cuts)
	case 2:
		kind = "atsegs"
		var cuts []int
		for c := segSize; c < len(content); c += segSize {
			cuts = append(cuts, c)
		}
		cutAt(cuts)
	case 3:
		kind = "nearsegs"
		var cuts []int
		for c := segSize; c < len(content)+3; c += segSize {
			for d := -2; d <= 2; d++ {
				if r.Intn(2) == 0 {
					cuts = append(cuts, c+d)
				}
			}
		}
		cutAt(cuts)
	default:
		kind = "random"
		n := r.Intn(8)
		cs := make([]int, n)
		for i := range cs {
			cs[i] = r.Intn(len(content) + 1)
		}
		// sort
		for i := range cs {
			for j := i + 1; j < len(cs); j++ {
				if cs[j] < cs[i] {
					cs[i], cs[j] = cs[j], cs[i]
				}
			}
		}
		cutAt(cs)
	}
	if r.Intn(4) == 0 {
		kind += "+empty"
		k := 1 + r.Intn(3)
		for i := 0; i < k; i++ {
			pos := r.Intn(len(w) + 1)
			if r.Intn(3) == 0 {
				pos = len(w)
			}
			w = append(w[:pos], append(enc.Wire{[]byte{}}, w[pos:]...)...)
		}
	}
	return w, kind
}
