package objecth

import (
	"fmt"
	"math/rand"
	"os"
	"strings"
	"testing"
	"time"

	enc "github.com/named-data/ndnd/std/encoding"
	"github.com/named-data/ndnd/std/engine/basic"
	"github.com/named-data/ndnd/std/ndn"
	rdr "github.com/named-data/ndnd/std/ndn/rdr_2024"
	spec "github.com/named-data/ndnd/std/ndn/spec_2022"
	"github.com/named-data/ndnd/std/object"
	sec "github.com/named-data/ndnd/std/security"
	"github.com/named-data/ndnd/std/utils"
)

// ---------------------------------------------------------------------------------------------
// Level A: the consumer state machine driven step by step. The client's run goroutine is NOT started; the harness
// decides which channel Client.run would have served next (hook VerifStep) and when the engine reports the outcome
// of which expressed Interest (a fake ndn.Engine that only records Express calls). After every event the full
// bookkeeping (window, segment count, completion, slots filled, fetcher queue, round-robin index, outstanding
// count, queue lengths, pending Interests) is dumped.
//   FETCH
//   EV consume <name> <every|atend>
//   EV run <out|segin|fetch|check>
//   EV result <xid> data <name> <content> <fb|none> <meta name|none> | timeout | nack | error | other
//   CB <sid> <complete> <errcode|-> <progress> <max|-> <chunk|none>
//   ST q=<out>,<segin>,<fetch>,<check> f=<sids>/<rr>/<outstanding> p=<xid:name;...> s=<per stream ...>
//   END
// ---------------------------------------------------------------------------------------------

type pendingX struct {
	failed bool // Express returned an error for it: it never left, it can only time out
	xid  int
	name enc.Name
	cfg  ndn.InterestConfig
	cb   ndn.ExpressCallbackFunc
}

type fakeEngine struct {
	timer   ndn.Timer
	pending []*pendingX
	nextX   int
	// send-fault injection: Express returns an error for the Interests chosen by failSend, but — like basic.Engine, which
	// inserts the PIT entry before face.Send — the Interest stays pending and will still time out later
	failSend func(name enc.Name) bool
	sendErrs []int
	nonces   []string // one line per expressed Interest: express id, name, nonce in the encoded packet
}

func (e *fakeEngine) EngineTrait() ndn.Engine                                  { return e }
func (e *fakeEngine) Spec() ndn.Spec                                            { return spec.Spec{} }
func (e *fakeEngine) Timer() ndn.Timer                                          { return e.timer }
func (e *fakeEngine) Start() error                                              { return nil }
func (e *fakeEngine) Stop() error                                               { return nil }
func (e *fakeEngine) IsRunning() bool                                           { return true }
func (e *fakeEngine) AttachHandler(enc.Name, ndn.InterestHandler) error         { return nil }
func (e *fakeEngine) DetachHandler(enc.Name) error                              { return nil }
func (e *fakeEngine) RegisterRoute(enc.Name) error                              { return nil }
func (e *fakeEngine) UnregisterRoute(enc.Name) error                            { return nil }
func (e *fakeEngine) ExecMgmtCmd(string, string, any) error                     { return nil }
func (e *fakeEngine) Express(i *ndn.EncodedInterest, cb ndn.ExpressCallbackFunc) error {
	// the Interest name is read from the encoded packet, i.e. what would really be sent
	pkt, _, err := spec.ReadPacket(enc.NewWireReader(i.Wire))
	if err != nil || pkt.Interest == nil {
		panic("fake engine: Interest does not parse")
	}
	p := &pendingX{xid: e.nextX, name: pkt.Interest.Name().Clone(), cfg: *i.Config, cb: cb}
	// the nonce that is really in the packet
	nonce := "none"
	if n := pkt.Interest.Nonce(); n != nil {
		nonce = fmt.Sprint(*n)
	}
	e.nonces = append(e.nonces, fmt.Sprintf("NONCE %d %s %s", p.xid, nameStr(p.name), nonce))
	e.nextX++
	e.pending = append(e.pending, p)
	if e.failSend != nil && e.failSend(p.name) {
		e.sendErrs = append(e.sendErrs, p.xid)
		p.failed = true
		return fmt.Errorf("write unix: broken pipe")
	}
	return nil
}

func (e *fakeEngine) take(xid int) *pendingX {
	for i, p := range e.pending {
		if p.xid == xid {
			e.pending = append(e.pending[:i], e.pending[i+1:]...)
			return p
		}
	}
	return nil
}

var errCodes = []struct {
	prefix string
	code   int
}{
	{"consume: name cannot be empty", 1},
	{"consume: metadata does not have version component", 2},
	{"consume: fetch failed with error", 3},
	{"consume: fetch failed with result", 4},
	{"consume: failed to parse object metadata", 5},
	{"consume: no FinalBlockId in object", 6},
	{"consume: invalid FinalBlockId type", 7},
	{"consume: invalid FinalBlockId=", 8},
	{"consume: invalid segment number type", 9},
	{"consume: invalid segment number=", 10},
	{"consume: empty data segment", 11},
}

func errCode(err error) string {
	if err == nil {
		return "-"
	}
	for _, e := range errCodes {
		if strings.HasPrefix(err.Error(), e.prefix) {
			return fmt.Sprint(e.code)
		}
	}
	return "99"
}

// makeData builds a real Data packet and parses it back, as the engine would hand it to a callback.
func makeData(name enc.Name, content []byte, fb *enc.Component) ndn.Data {
	cfg := &ndn.DataConfig{ContentType: utils.IdPtr(ndn.ContentTypeBlob), FinalBlockID: fb}
	d, err := spec.Spec{}.MakeData(name, cfg, enc.Wire{content}, sec.NewSha256Signer())
	if err != nil {
		panic(err)
	}
	pkt, _, err := spec.ReadPacket(enc.NewBufferReader(d.Wire.Join()))
	if err != nil || pkt.Data == nil {
		panic("makeData: does not parse")
	}
	return pkt.Data
}

type fetchCase struct {
	// misbehaving producer: 1 no FinalBlockId on the first segment; 2 FinalBlockId of another component type;
	// 3..7 FinalBlockId = 1e8, 2^32, 2^63-1, 2^63, 2^64-1 (rejected segment counts, int overflow); 8 FinalBlockId that
	// changes between segments; 9 FinalBlockId smaller than a segment delivered later; 10 metadata naming a version
	// that does not exist
	bad     int
	starved *pubObject
	o       *out
	eng     *fakeEngine
	cli     *object.Client
	states  []*object.ConsumeState
	pols    []string
	objects map[string]*pubObject // by versioned name string
	r       *rand.Rand
}

type pubObject struct {
	base enc.Name // versioned name
	segs [][]byte
}

func (fc *fetchCase) sidOf(st *object.ConsumeState) int {
	for i, s := range fc.states {
		if s == st {
			return i
		}
	}
	return -1
}

func (fc *fetchCase) callback(sid int) object.ConsumeCallback {
	return func(st *object.ConsumeState) bool {
		complete := 0
		if st.IsComplete() {
			complete = 1
		}
		prog := st.Progress()
		max := "-"
		if st.Error() == nil && st.ProgressMax() >= 0 {
			max = fmt.Sprint(st.ProgressMax())
		}
		chunk := "none"
		if fc.pols[sid] == "every" || st.IsComplete() {
			chunk = hx(st.Content())
		}
		fc.o.pf("CB %d %d %s %d %s %s\n", sid, complete, errCode(st.Error()), prog, max, chunk)
		return true
	}
}

func (fc *fetchCase) dump() {
	qo, qs, qf, qc := fc.cli.VerifQueues()
	streams, rr, outst, _ := fc.cli.VerifFetcher()
	sids := make([]string, len(streams))
	for i, s := range streams {
		sids[i] = fmt.Sprint(fc.sidOf(s))
	}
	pend := make([]string, len(fc.eng.pending))
	for i, p := range fc.eng.pending {
		cbp := 0
		if p.cfg.CanBePrefix {
			cbp = 1
		}
		pend[i] = fmt.Sprintf("%d:%s:%d", p.xid, nameStr(p.name), cbp)
	}
	ss := make([]string, len(fc.states))
	for i, s := range fc.states {
		v := s.VerifState()
		have := make([]byte, len(v.Have))
		for j, h := range v.Have {
			if h {
				have[j] = '1'
			} else {
				have[j] = '0'
			}
		}
		cnt := fmt.Sprint(v.SegCnt)
		if v.Err != nil {
			cnt = "x" // after an error the segment count is not meaningful (it may hold a rejected value)
		}
		c := 0
		if v.Complete {
			c = 1
		}
		ss[i] = fmt.Sprintf("%d,%d,%d,%s,%d,%s,[%s],%s", v.Wnd[0], v.Wnd[1], v.Wnd[2], cnt, c, errCode(v.Err), string(have), nameStr(v.FetchName))
	}
	fc.o.pf("ST q=%d,%d,%d,%d f=%s/%d/%d p=%s s=%s\n", qo, qs, qf, qc, strings.Join(sids, "."), rr, outst,
		strings.Join(pend, ";"), strings.Join(ss, " "))
}

// guarded runs f (one step of the code under test). No wall-clock limit decides anything: the step is reported as stuck
// only when that is proven by state (see watchdog_test.go) — 10 s of the process's own CPU time inside this one step, or
// two identical all-blocked goroutine dumps with no CPU use in between. Otherwise the watchdog keeps waiting.
func (fc *fetchCase) guarded(what string, f func()) {
	done := make(chan struct{})
	go func() {
		w := newStuckWatch(10 * time.Second)
		for {
			select {
			case <-done:
				return
			case <-time.After(500 * time.Millisecond):
			}
			if why := w.proven(); why != "" {
				fc.o.pf("HANG %s %s\n", what, strings.ReplaceAll(why, " ", "_"))
				fc.o.pf("END\n")
				fc.o.close()
				fmt.Fprintln(os.Stderr, "HANG in", what, why)
				os.Exit(0)
			}
		}
	}()
	f()
	close(done)
}

func TestFetchTrace(t *testing.T) {
	r := newRand()
	n := envInt("VERIF_N", 30)
	o := newOut()
	defer o.close()
	for i := 0; i < n; i++ {
		starve := i%6 == 1
		fc := runFetchCaseOpt{starve: starve, sendFault: i%6 == 3, bigSegs: 0}
		if i%6 == 5 {
			fc.badProducer = (i/6)%10 + 1 // every misbehaviour of the producer in turn
		}
		if i%20 == 2 {
			fc.bigSegs = 70 // more segments than any plausible queue capacity below the window
		} else if i%20 == 12 {
			fc.bigSegs = 120
		}
		fc.adversarial = !starve && !fc.sendFault && fc.bigSegs == 0 && fc.badProducer == 0 && r.Intn(8) == 0
		runFetchCase(o, r, fc)
	}
}

func resultLine(xid int, kind string, d ndn.Data, meta string) string {
	if kind != "data" {
		return fmt.Sprintf("EV result %d %s", xid, kind)
	}
	fb := "none"
	if f := d.FinalBlockID(); f != nil {
		fb = compStr(*f)
	}
	return fmt.Sprintf("EV result %d data %s %s %s %s", xid, nameStr(d.Name()), hx(d.Content().Join()), fb, meta)
}

// starve: two consumers on one client; the first one's object is large enough to fill the shared window and then every one
// of its remaining segments is lost on every transmission; the second consumer is started while the window is full.
type runFetchCaseOpt struct {
	adversarial, starve, sendFault bool
	badProducer                    int // 0 = honest; 1.. = see badFinalBlock / deliver
	bigSegs                        int
}

func runFetchCase(o *out, r *rand.Rand, opt runFetchCaseOpt) {
	adversarial, starve := opt.adversarial, opt.starve
	fc := &fetchCase{o: o, eng: &fakeEngine{timer: basic.NewTimer()}, objects: map[string]*pubObject{}, r: r}
	fc.cli = object.NewClient(fc.eng, object.NewMemoryStore())
	o.pf("FETCH\n")
	// published objects: small segment payloads (the fetcher never looks at sizes), 1..25 segments
	nobj := 1 + r.Intn(3)
	if starve {
		nobj = 2
	}
	var objs []*pubObject
	for i := 0; i < nobj; i++ {
		base := append(genName(r), enc.NewVersionComponent(genVersion(r)))
		nseg := 1 + r.Intn(4)
		if r.Intn(3) == 0 {
			nseg = 8 + r.Intn(18)
		}
		if opt.bigSegs > 0 && i == 0 {
			nseg = opt.bigSegs
		}
		if opt.badProducer > 0 && i == 0 {
			nseg = 6 + r.Intn(4)
		}
		if starve && i == 0 {
			nseg = 12 + r.Intn(10)
			base = append(enc.Name{enc.NewStringComponent(enc.TypeGenericNameComponent, "starved")}, base...)
		}
		po := &pubObject{base: base}
		for s := 0; s < nseg; s++ {
			l := 1 + r.Intn(3)
			b := make([]byte, l)
			for j := range b {
				b[j] = byte(16*s + j + i)
			}
			po.segs = append(po.segs, b)
		}
		fc.objects[base.String()] = po
		objs = append(objs, po)
	}
	for _, po := range objs {
		segs := make(enc.Wire, len(po.segs))
		for i, b := range po.segs {
			segs[i] = b
		}
		o.pf("OBJ %s %s\n", nameStr(po.base), wireStr(segs))
	}
	lossy := r.Intn(3) == 0
	maxConsumes := 1 + r.Intn(3)
	if starve {
		lossy = false
		maxConsumes = 2
		fc.starved = objs[0]
	}
	if opt.bigSegs > 0 {
		lossy = false
	}
	if opt.badProducer > 0 {
		lossy = false
		fc.bad = opt.badProducer
	}
	if opt.sendFault {
		// the face refuses to send chosen Interests: the metadata Interest, the first segment, or one mid-stream;
		// for the first `budget` attempts (transient) or always (permanent)
		target := r.Intn(3)
		budget := 1 + r.Intn(2)
		if r.Intn(2) == 0 {
			budget = 1 << 30
		}
		midSeg := uint64(1 + r.Intn(3))
		fc.eng.failSend = func(name enc.Name) bool {
			last := name[len(name)-1]
			hit := false
			switch target {
			case 0:
				hit = last.Typ == enc.TypeKeywordNameComponent
			case 1:
				hit = last.Typ == enc.TypeSegmentNameComponent && last.NumberVal() == 0
			default:
				hit = last.Typ == enc.TypeSegmentNameComponent && last.NumberVal() == midSeg
			}
			if hit && budget > 0 {
				budget--
				return true
			}
			return false
		}
	}
	consumes := 0
	steps := 0
	for steps < 4000 {
		steps++
		qo, qs, qf, qc := fc.cli.VerifQueues()
		// enabled events
		type ev struct {
			kind string
			arg  int
		}
		var evs []ev
		_, _, outstanding, window := fc.cli.VerifFetcher()
		if consumes < maxConsumes && (!starve || consumes == 0 || outstanding >= window) {
			w := 1
			if consumes == 0 {
				w = 6
			}
			for i := 0; i < w; i++ {
				evs = append(evs, ev{"consume", 0})
			}
		}
		if qo > 0 {
			evs = append(evs, ev{"out", 0}, ev{"out", 0})
		}
		if qs > 0 {
			evs = append(evs, ev{"segin", 0}, ev{"segin", 0})
		}
		if qf > 0 {
			evs = append(evs, ev{"fetch", 0}, ev{"fetch", 0})
		}
		if qc > 0 {
			evs = append(evs, ev{"check", 0}, ev{"check", 0})
		}
		for _, p := range fc.eng.pending {
			evs = append(evs, ev{"result", p.xid})
		}
		if len(evs) == 0 || (consumes >= maxConsumes && len(evs) == 0) {
			break
		}
		// stop once every queue is empty, nothing is pending and all consumers were started
		if qo+qs+qf+qc == 0 && len(fc.eng.pending) == 0 && consumes >= maxConsumes {
			break
		}
		e := evs[r.Intn(len(evs))]
		switch e.kind {
		case "consume":
			po := objs[r.Intn(len(objs))]
			var nm enc.Name
			pick := r.Intn(6)
			if starve {
				po = objs[consumes]
				pick = 0
			}
			if fc.bad > 0 {
				po = objs[0]
				pick = 0
				if fc.bad == 10 {
					pick = 3
				}
			}
			switch pick {
			case 0, 1, 2:
				nm = po.base // versioned
			case 3, 4:
				nm = po.base[:len(po.base)-1] // by object name: metadata first
			default:
				if adversarial && r.Intn(2) == 0 {
					nm = enc.Name{}
				} else {
					nm = append(genName(r), enc.NewVersionComponent(3)) // nothing published under it
				}
			}
			spare := 0
			if r.Intn(2) == 0 {
				spare = 1 + r.Intn(3)
			}
			nm = withSpare(nm, spare)
			pol := "every"
			if r.Intn(3) == 0 {
				pol = "atend"
			}
			sid := len(fc.states)
			fc.pols = append(fc.pols, pol)
			fc.states = append(fc.states, nil)
			o.pf("EV consume %s %s\n", nameStr(nm), pol)
			var st *object.ConsumeState
			// the callback may fire inside VerifConsume (empty name): register the state lazily by pointer
			cb := fc.callback(sid)
			st = fc.cli.VerifConsume(nm, func(s *object.ConsumeState) bool {
				fc.states[sid] = s
				return cb(s)
			})
			fc.states[sid] = st
			consumes++
		case "out":
			o.pf("EV run out\n")
			fc.cli.VerifStep(object.VerifChanOut)
			for _, l := range fc.eng.nonces {
				o.pf("%s\n", l)
			}
			fc.eng.nonces = nil
			for _, x := range fc.eng.sendErrs {
				o.pf("SENDERR %d\n", x) // Express returned an error; the Interest stays pending (engine semantics)
			}
			fc.eng.sendErrs = nil
		case "segin":
			o.pf("EV run segin\n")
			fc.cli.VerifStep(object.VerifChanSegIn)
		case "fetch":
			o.pf("EV run fetch\n")
			fc.cli.VerifStep(object.VerifChanFetch)
		case "check":
			o.pf("EV run check\n")
			o.flush()
			fc.guarded("doCheck", func() { fc.cli.VerifStep(object.VerifChanCheck) })
		case "result":
			p := fc.eng.take(e.arg)
			fc.deliver(p, lossy, adversarial)
		}
		fc.dump()
	}
	// the implementation's own view at the end: nothing queued, nothing pending, every consumer started
	qo, qs, qf, qc := fc.cli.VerifQueues()
	quiet := 0
	if qo+qs+qf+qc == 0 && len(fc.eng.pending) == 0 && consumes >= maxConsumes {
		quiet = 1
	}
	o.pf("QUIET %d\n", quiet)
	o.pf("END\n")
}

// deliver reports an outcome for the pending Interest p: what an honest producer holding the published objects
// would answer, a loss (timeout / nack), or — in adversarial cases — a malformed reply.
func (fc *fetchCase) deliver(p *pendingX, lossy, adversarial bool) {
	r := fc.r
	o := fc.o
	lossP := 0
	if lossy {
		lossP = 30
	}
	x := r.Intn(100)
	if p.failed {
		x, lossP = 0, 100 // never sent: the pending entry can only time out
	}
	if x < lossP {
		kind := "timeout"
		res := ndn.InterestResultTimeout
		if r.Intn(4) == 0 {
			kind, res = "nack", ndn.InterestResultNack
		}
		o.pf("%s\n", resultLine(p.xid, kind, nil, ""))
		p.cb(ndn.ExpressCallbackArgs{Result: res})
		return
	}
	if adversarial && r.Intn(12) == 0 {
		switch r.Intn(2) {
		case 0:
			o.pf("%s\n", resultLine(p.xid, "error", nil, ""))
			p.cb(ndn.ExpressCallbackArgs{Result: ndn.InterestResultError, Error: fmt.Errorf("injected")})
		default:
			o.pf("%s\n", resultLine(p.xid, "other", nil, ""))
			p.cb(ndn.ExpressCallbackArgs{Result: ndn.InterestResultUnverified})
		}
		return
	}
	name := p.name
	last := name[len(name)-1]
	// metadata Interest?
	if last.Typ == enc.TypeKeywordNameComponent && string(last.Val) == "metadata" {
		objName := name[:len(name)-1]
		// newest published version under objName
		var best *pubObject
		for _, po := range fc.objects {
			if po.base[:len(po.base)-1].Equal(objName) {
				if best == nil || po.base[len(po.base)-1].NumberVal() > best.base[len(best.base)-1].NumberVal() {
					best = po
				}
			}
		}
		if best == nil {
			o.pf("%s\n", resultLine(p.xid, "timeout", nil, ""))
			p.cb(ndn.ExpressCallbackArgs{Result: ndn.InterestResultTimeout})
			return
		}
		fb := enc.NewSegmentComponent(uint64(len(best.segs) - 1))
		inner := best.base
		var content []byte
		metaStr := ""
		if fc.bad == 10 {
			inner = append(append(enc.Name{}, objName...), enc.NewVersionComponent(best.base[len(best.base)-1].NumberVal()+12345))
		}
		if adversarial && r.Intn(3) == 0 {
			switch r.Intn(3) {
			case 0: // does not parse
				content = []byte{0x07, 0x05, 0x01}
				metaStr = "none"
			case 1: // names something without a version
				inner = objName
			default: // empty name
				inner = enc.Name{}
			}
		}
		if metaStr == "" {
			md := rdr.MetaData{Name: inner, FinalBlockID: fb.Bytes()}
			content = md.Encode().Join()
			// what the client will see after parsing
			parsed, err := rdr.ParseMetaData(enc.NewBufferReader(content), false)
			if err != nil {
				metaStr = "none"
			} else {
				metaStr = nameStr(parsed.Name)
			}
		}
		dn := append(append(enc.Name{}, name...), best.base[len(best.base)-1], enc.NewSegmentComponent(0))
		d := makeData(dn, content, &fb)
		o.pf("%s\n", resultLine(p.xid, "data", d, metaStr))
		p.cb(ndn.ExpressCallbackArgs{Result: ndn.InterestResultData, Data: d})
		return
	}
	// segment Interest
	if last.Typ == enc.TypeSegmentNameComponent && len(name) >= 2 {
		po := fc.objects[name[:len(name)-1].String()]
		k := int(last.NumberVal())
		if po != nil && po == fc.starved && k >= 1 {
			o.pf("%s\n", resultLine(p.xid, "timeout", nil, ""))
			p.cb(ndn.ExpressCallbackArgs{Result: ndn.InterestResultTimeout})
			return
		}
		if po != nil && k < len(po.segs) {
			fb := enc.NewSegmentComponent(uint64(len(po.segs) - 1))
			fbp := &fb
			content := po.segs[k]
			dn := name
			switch {
			case fc.bad == 1 && k == 0:
				fbp = nil
			case fc.bad == 2 && k == 0:
				f2 := enc.NewVersionComponent(uint64(len(po.segs) - 1))
				fbp = &f2
			case fc.bad >= 3 && fc.bad <= 7 && k == 0:
				f2 := enc.NewSegmentComponent([]uint64{100000000, 1 << 32, 1<<63 - 1, 1 << 63, 1<<64 - 1}[fc.bad-3])
				fbp = &f2
			case fc.bad == 8 && k > 0:
				f2 := enc.NewSegmentComponent(uint64((k * 7) % 11)) // differs from segment to segment; only the first counts
				fbp = &f2
			case fc.bad == 9:
				f2 := enc.NewSegmentComponent(2) // claims 3 segments
				fbp = &f2
				if k == 1 {
					dn = append(append(enc.Name{}, name[:len(name)-1]...), enc.NewSegmentComponent(4)) // beyond the claimed count
				}
			}
			if adversarial && r.Intn(4) == 0 {
				switch r.Intn(6) {
				case 0:
					fbp = nil
				case 1:
					f2 := enc.NewVersionComponent(3)
					fbp = &f2
				case 2:
					// rejected values only: 99999999 (= maxObjectSeg segments) is accepted and allocates 1e8 slots
					vals := []uint64{100000000, 100000001, 1 << 62, 1<<63 - 1, 1 << 63, 1<<64 - 1}
					f2 := enc.NewSegmentComponent(vals[r.Intn(len(vals))])
					fbp = &f2
				case 3:
					content = []byte{}
				case 4:
					dn = append(append(enc.Name{}, name[:len(name)-1]...), enc.NewSegmentComponent(uint64(len(po.segs)+r.Intn(3))))
				default:
					dn = append(append(enc.Name{}, name[:len(name)-1]...), enc.NewVersionComponent(1))
				}
			}
			d := makeData(dn, content, fbp)
			o.pf("%s\n", resultLine(p.xid, "data", d, "none"))
			p.cb(ndn.ExpressCallbackArgs{Result: ndn.InterestResultData, Data: d})
			return
		}
	}
	// nothing published under that name: the Interest times out
	o.pf("%s\n", resultLine(p.xid, "timeout", nil, ""))
	p.cb(ndn.ExpressCallbackArgs{Result: ndn.InterestResultTimeout})
}
