package objecth

import (
	"regexp"
	"runtime"
	"strings"
	"syscall"
	"time"
)

// No wall-clock limit decides a verdict. A step of the code under test is declared stuck only when that is PROVEN by state,
// independent of how slow or busy the machine is:
//   - spinning: the process itself has burnt `cpuBound` of CPU TIME (not wall time) since the step began — the steps watched
//     here need micro- to milliseconds of CPU, and nothing else runs in the process;
//   - blocked: two goroutine dumps taken >= 2 s apart are identical, contain no goroutine that is running, runnable, in a
//     system call or waiting for I/O (other than the watchdog itself), and the process used no CPU in between.
// Otherwise the watchdog just keeps waiting.

func procCPU() time.Duration {
	var ru syscall.Rusage
	if err := syscall.Getrusage(syscall.RUSAGE_SELF, &ru); err != nil {
		return 0
	}
	return time.Duration(ru.Utime.Nano() + ru.Stime.Nano())
}

var reGoHeader = regexp.MustCompile(`(?m)^goroutine (\d+) \[([^\]]*)\]:$`)
var reMinutes = regexp.MustCompile(`, \d+ minutes`)
var reAddr = regexp.MustCompile(`0x[0-9a-f]+|\+0x[0-9a-f]+`)

// goroutineSnapshot returns a normalised dump of all goroutines except the caller, and whether any of them could still
// make progress on its own (running, runnable, in a system call, waiting for I/O, GC work).
func goroutineSnapshot() (string, bool) {
	buf := make([]byte, 1<<20)
	n := runtime.Stack(buf, true)
	blocks := strings.Split(string(buf[:n]), "\n\n")
	var keep []string
	active := false
	for i, b := range blocks {
		if i == 0 {
			continue // the calling goroutine (running)
		}
		m := reGoHeader.FindStringSubmatch(b)
		if m == nil {
			continue
		}
		if strings.Contains(b, "os/signal.loop") || strings.Contains(b, "runtime.ensureSigM") {
			continue
		}
		state := m[2]
		for _, s := range []string{"running", "runnable", "syscall", "IO wait", "GC ", "finalizer wait", "trace reader"} {
			if strings.HasPrefix(state, s) && s != "finalizer wait" {
				active = true
			}
		}
		keep = append(keep, reAddr.ReplaceAllString(reMinutes.ReplaceAllString(b, ""), ""))
	}
	return strings.Join(keep, "\n\n"), active
}

// stuckWatch is polled by a watchdog; it returns a non-empty reason once the step that began at construction time is
// proven stuck.
type stuckWatch struct {
	cpu0     time.Duration
	cpuBound time.Duration
	lastDump string
	lastCPU  time.Duration
	lastAt   time.Time
}

func newStuckWatch(cpuBound time.Duration) *stuckWatch {
	return &stuckWatch{cpu0: procCPU(), cpuBound: cpuBound}
}

func (w *stuckWatch) proven() string {
	cpu := procCPU()
	if cpu-w.cpu0 >= w.cpuBound {
		return "spinning: the process burnt " + (cpu - w.cpu0).Round(time.Second).String() + " of CPU time inside this one step"
	}
	if time.Since(w.lastAt) < 2*time.Second {
		return ""
	}
	dump, active := goroutineSnapshot()
	defer func() { w.lastDump, w.lastCPU, w.lastAt = dump, cpu, time.Now() }()
	if active || w.lastDump == "" || dump != w.lastDump || cpu-w.lastCPU > 20*time.Millisecond {
		if active {
			dump = "" // not a candidate
		}
		return ""
	}
	// first blocked goroutine of the code under test, for the report
	where := ""
	for _, l := range strings.Split(dump, "\n") {
		if strings.Contains(l, "ndnd/std/object.") {
			where = strings.TrimSpace(l)
			break
		}
	}
	return "blocked: every goroutine is waiting (two identical dumps 2 s apart, no CPU used, nothing runnable or in I/O); in " + where
}
