package objecth

import (
	"bufio"
	"encoding/hex"
	"os"
	"strconv"
	"strings"
	"testing"

	enc "github.com/named-data/ndnd/std/encoding"
	"github.com/named-data/ndnd/std/engine/basic"
	"github.com/named-data/ndnd/std/ndn"
	"github.com/named-data/ndnd/std/object"
)

// TestReplayOps re-executes exactly the operations of ONE recorded case (file VERIF_OPS: the trace lines of the case)
// on the current implementation and writes a fresh trace to VERIF_OUT. Supported: PRODUCE, STORE and FETCH cases.

func unhx(s string) []byte {
	if s == "-" {
		return []byte{}
	}
	b, err := hex.DecodeString(s)
	if err != nil {
		panic(err)
	}
	return b
}

func parseComp(s string) enc.Component {
	i := strings.Index(s, ":")
	t, _ := strconv.ParseUint(s[:i], 10, 64)
	v, _ := hex.DecodeString(s[i+1:])
	return enc.Component{Typ: enc.TLNum(t), Val: v}
}

func parseName(s string) enc.Name {
	if s == "-" {
		return enc.Name{}
	}
	parts := strings.Split(s, ",")
	n := make(enc.Name, len(parts))
	for i, p := range parts {
		n[i] = parseComp(p)
	}
	return n
}

func parseWire(s string) enc.Wire {
	if s == "~" {
		return enc.Wire{}
	}
	parts := strings.Split(s, "|")
	w := make(enc.Wire, len(parts))
	for i, p := range parts {
		w[i] = unhx(p)
	}
	return w
}

func TestReplayOps(t *testing.T) {
	path := os.Getenv("VERIF_OPS")
	if path == "" {
		t.Skip("VERIF_OPS not set")
	}
	f, err := os.Open(path)
	if err != nil {
		t.Fatal(err)
	}
	defer f.Close()
	var lines []string
	sc := bufio.NewScanner(f)
	sc.Buffer(make([]byte, 1<<20), 1<<28)
	for sc.Scan() {
		lines = append(lines, sc.Text())
	}
	if len(lines) == 0 {
		t.Fatal("empty case")
	}
	o := newOut()
	defer o.close()
	switch strings.Fields(lines[0])[0] {
	case "PRODUCE":
		fl := strings.Split(lines[0], " ")
		ver, _ := strconv.ParseUint(fl[3], 10, 64)
		spare, _ := strconv.Atoi(fl[5])
		runProduceCase(o, produceEngine(), fl[1], parseName(fl[2]), spare, parseWire(fl[6]), fl[4] == "1", ver)
	case "STORE":
		replayStore(o, lines)
	case "FETCH":
		replayFetch(o, lines)
	default:
		t.Fatalf("unsupported case kind %q", lines[0])
	}
}

func replayStore(o *out, lines []string) {
	m := newStore("m")
	b := newStore("b")
	defer m.close()
	defer b.close()
	o.pf("STORE\n")
	var held []heldWire
	for i, l := range lines[1:] {
		fl := strings.Split(l, " ")
		switch fl[0] {
		case "PUT":
			ver, _ := strconv.ParseUint(fl[2], 10, 64)
			o.pf("%s\n", l)
			m.st.Put(parseName(fl[1]), ver, unhx(fl[3]))
			b.st.Put(parseName(fl[1]), ver, unhx(fl[3]))
		case "GET":
			nm := parseName(fl[1])
			wm, _ := m.st.Get(nm, fl[2] == "1")
			wb, _ := b.st.Get(nm, fl[2] == "1")
			o.pf("GET %s %s %s %s\n", fl[1], fl[2], optHex(wm), optHex(wb))
			if wb != nil {
				held = append(held, heldWire{got: wb, want: append([]byte(nil), wb...), op: i})
			}
		case "REMOVE":
			o.pf("%s\n", l)
			m.st.Remove(parseName(fl[1]), fl[2] == "1")
			b.st.Remove(parseName(fl[1]), fl[2] == "1")
			recheckHeld(o, held, "Remove")
		case "PUTRAW":
			o.pf("%s\n", l)
			b.bolt.VerifPutRaw(parseName(fl[1]), unhx(fl[2]))
		case "REMOVEM":
			o.pf("%s\n", l)
			m.st.Remove(parseName(fl[1]), fl[2] == "1")
		case "BEGIN":
			o.pf("BEGIN\n")
			m.st.Begin()
			b.st.Begin()
		case "COMMIT":
			o.pf("COMMIT\n")
			m.st.Commit()
			b.st.Commit()
			recheckHeld(o, held, "Commit")
		case "ROLLBACK":
			o.pf("ROLLBACK\n")
			m.st.Rollback()
			b.st.Rollback()
		case "DUMP":
			dumpStores(o, m, b)
		}
	}
	o.pf("END\n")
}

func replayFetch(o *out, lines []string) {
	fc := &fetchCase{o: o, eng: &fakeEngine{timer: basic.NewTimer()}, objects: map[string]*pubObject{}}
	fc.cli = object.NewClient(fc.eng, object.NewMemoryStore())
	o.pf("FETCH\n")
	for _, l := range lines[1:] {
		fl := strings.Split(l, " ")
		switch fl[0] {
		case "OBJ":
			o.pf("%s\n", l)
		case "EV":
			o.pf("%s\n", l)
			switch fl[1] {
			case "consume":
				sid := len(fc.states)
				fc.pols = append(fc.pols, fl[3])
				fc.states = append(fc.states, nil)
				cb := fc.callback(sid)
				st := fc.cli.VerifConsume(parseName(fl[2]), func(s *object.ConsumeState) bool {
					fc.states[sid] = s
					return cb(s)
				})
				fc.states[sid] = st
			case "run":
				switch fl[2] {
				case "out":
					fc.cli.VerifStep(object.VerifChanOut)
					for _, l := range fc.eng.nonces {
						o.pf("%s\n", l)
					}
					fc.eng.nonces = nil
				case "segin":
					fc.cli.VerifStep(object.VerifChanSegIn)
				case "fetch":
					fc.cli.VerifStep(object.VerifChanFetch)
				case "check":
					o.flush()
					fc.guarded("doCheck", func() { fc.cli.VerifStep(object.VerifChanCheck) })
				}
			case "result":
				xid, _ := strconv.Atoi(fl[2])
				p := fc.eng.take(xid)
				if p == nil {
					o.pf("BAD replay: no pending Interest %d\n", xid)
					continue
				}
				switch fl[3] {
				case "timeout":
					p.cb(ndn.ExpressCallbackArgs{Result: ndn.InterestResultTimeout})
				case "nack":
					p.cb(ndn.ExpressCallbackArgs{Result: ndn.InterestResultNack})
				case "error":
					p.cb(ndn.ExpressCallbackArgs{Result: ndn.InterestResultError})
				case "other":
					p.cb(ndn.ExpressCallbackArgs{Result: ndn.InterestResultUnverified})
				case "data":
					var fb *enc.Component
					if fl[6] != "none" {
						c := parseComp(fl[6])
						fb = &c
					}
					d := makeData(parseName(fl[4]), unhx(fl[5]), fb)
					p.cb(ndn.ExpressCallbackArgs{Result: ndn.InterestResultData, Data: d})
				}
			}
			fc.dump()
		}
	}
	qo, qs, qf, qc := fc.cli.VerifQueues()
	quiet := 0
	if qo+qs+qf+qc == 0 && len(fc.eng.pending) == 0 {
		quiet = 1
	}
	o.pf("QUIET %d\n", quiet)
	o.pf("END\n")
}
