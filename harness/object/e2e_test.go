package objecth

import (
	"bytes"
	"fmt"
	"math/rand"
	"runtime/debug"
	"sync"
	"os"
	"sync/atomic"
	"testing"
	"testing/synctest"
	"time"

	enc "github.com/named-data/ndnd/std/encoding"
	"github.com/named-data/ndnd/std/engine"
	"github.com/named-data/ndnd/std/ndn"
	spec "github.com/named-data/ndnd/std/ndn/spec_2022"
	"github.com/named-data/ndnd/std/object"
	rdr "github.com/named-data/ndnd/std/ndn/rdr_2024"
	sec "github.com/named-data/ndnd/std/security"
	"github.com/named-data/ndnd/std/utils"
)

// ---------------------------------------------------------------------------------------------
// Level B: two real object.Clients (producer with a memory or bolt store, consumer), each on a real basic engine,
// joined by a harness-owned in-memory face pair whose relay delays (hence reorders), duplicates and drops packets.
// Everything runs inside a testing/synctest bubble: Interest lifetimes and retransmission timers are virtual time.
//   E2E <store>
//   PUB <name> <version> <content>
//   REM <name> <version>                      producer removed that version (segments and metadata packet)
//   CONSUME <name> <every|atend> <loss mode> <dropped> <late> <duplicated>
//   CB <n> <complete> <errcode|-> <progress> <max|-> <chunk|none>     callbacks of that consumer, in order
//   LATE <n>                                  callbacks seen after the completion (must be 0)
//   END
// ---------------------------------------------------------------------------------------------

type relay struct {
	mu      sync.Mutex
	r       *rand.Rand
	mode    string // "none", "budget" (losses within the retry budget), "blackhole" (one name is never answered)
	drops   map[string]int
	seq     int
	dropped int
	late    int
	dups    int
	victim  string
	stale   int    // a queued packet no longer had the bytes it had when it was sent
	faults  int    // a queued reply could not be read any more (its memory was unmapped)
	// forwarder-like duplicate suppression (what any NDN forwarder on the path does: pending-entry nonce check and dead
	// nonce list): an Interest whose (name, nonce) was seen within the last 6 s of virtual time is dropped
	forwarder bool
	seenNonce map[string]time.Time
	nonceDrops int
	// send-fault injection (mode "sendfault"): the consumer's face refuses to send chosen Interests (Send returns an error)
	sfTarget int // 0 metadata Interest, 1 first segment, 2 a mid-stream segment
	sfBudget int // number of refusals left (huge = permanent)
	sendErrs int
	starve  string // name prefix (String form): segment Interests >= 1 under it are always lost
}

type relayFace struct {
	rl      *relay
	peer    *relayFace
	running atomic.Bool
	onPkt   func(r enc.ParseReader) error
	onError func(err error) error
}

func (f *relayFace) Open() error       { f.running.Store(true); return nil }
func (f *relayFace) Close() error      { f.running.Store(false); return nil }
func (f *relayFace) IsRunning() bool   { return f.running.Load() }
func (f *relayFace) IsLocal() bool     { return true }
func (f *relayFace) SetCallback(onPkt func(r enc.ParseReader) error, onError func(err error) error) {
	f.onPkt, f.onError = onPkt, onError
}

// pktName returns "I:<name>" or "D:<name>" of a bare Interest/Data packet.
func pktName(b []byte) (kind string, name enc.Name) {
	pkt, _, err := spec.ReadPacket(enc.NewBufferReader(b))
	if err != nil {
		return "?", nil
	}
	if pkt.Interest != nil {
		return "I", pkt.Interest.Name()
	}
	if pkt.Data != nil {
		return "D", pkt.Data.Name()
	}
	return "?", nil
}

func (f *relayFace) Send(pkt enc.Wire) error {
	b := pkt.Join()                  // NOT a copy for a single-buffer wire: the sender's buffer stays queued here
	sent := append([]byte(nil), b...) // what was sent
	rl := f.rl
	rl.mu.Lock()
	kind, name := pktName(b)
	key := name.String()
	if kind == "D" && len(name) >= 3 && isMetaName(name) {
		key = name[:len(name)-2].String() // the metadata Interest is a prefix of the Data name
	}
	if rl.mode == "sendfault" && kind == "I" && len(name) > 0 && rl.sfBudget > 0 {
		last := name[len(name)-1]
		hit := false
		switch rl.sfTarget {
		case 0:
			hit = last.Typ == enc.TypeKeywordNameComponent
		case 1:
			hit = last.Typ == enc.TypeSegmentNameComponent && last.NumberVal() == 0
		default:
			hit = last.Typ == enc.TypeSegmentNameComponent && last.NumberVal() == 1
		}
		if hit {
			rl.sfBudget--
			rl.sendErrs++
			rl.mu.Unlock()
			return fmt.Errorf("write unix: broken pipe")
		}
	}
	if rl.forwarder && kind == "I" {
		pkt, _, err := spec.ReadPacket(enc.NewBufferReader(b))
		if err == nil && pkt.Interest != nil && pkt.Interest.Nonce() != nil {
			k := fmt.Sprintf("%s#%d", key, *pkt.Interest.Nonce())
			now := time.Now() // virtual
			if t0, ok := rl.seenNonce[k]; ok && now.Sub(t0) < 6*time.Second {
				rl.nonceDrops++
				rl.mu.Unlock()
				return nil // looped / duplicate Interest: silently dropped, exactly like a forwarder
			}
			rl.seenNonce[k] = now
		}
	}
	var delays []time.Duration
	rl.seq++
	jitter := time.Duration(rl.r.Intn(40000))*time.Microsecond + time.Duration(rl.seq)*time.Nanosecond
	base := time.Millisecond + jitter
	switch rl.mode {
	case "sendfault":
		delays = []time.Duration{base}
	case "starve":
		lost := false
		if kind == "I" && len(name) >= 2 && name[len(name)-1].Typ == enc.TypeSegmentNameComponent &&
			name[len(name)-1].NumberVal() >= 1 && name[:len(name)-1].String() == rl.starve {
			lost = true
			rl.dropped++
		}
		if !lost {
			delays = []time.Duration{base}
		}
	case "none":
		delays = []time.Duration{base}
	case "budget":
		x := rl.r.Intn(100)
		switch {
		case x < 18 && rl.drops[key] < 3:
			rl.drops[key]++ // lost: this attempt times out at the consumer
			rl.dropped++
		case x < 26 && rl.drops[key] < 3:
			rl.drops[key]++ // arrives only after the consumer has retransmitted
			rl.late++
			delays = []time.Duration{5*time.Second + jitter}
		case x < 36:
			rl.dups++
			delays = []time.Duration{base, base + time.Duration(rl.r.Intn(30))*time.Millisecond + time.Microsecond}
		default:
			delays = []time.Duration{base}
		}
	case "blackhole":
		if kind == "I" && rl.victim == "" && len(name) > 0 && name[len(name)-1].Typ == enc.TypeSegmentNameComponent && rl.r.Intn(3) == 0 {
			rl.victim = key
		}
		if key == rl.victim {
			rl.dropped++
		} else {
			delays = []time.Duration{base}
		}
	}
	rl.mu.Unlock()
	peer := f.peer
	for _, d := range delays {
		time.AfterFunc(d, func() {
			// the relay keeps the buffer the sender handed over (Wire.Join does not copy a single-buffer wire), like a
			// face with a send queue: if that memory is gone when the packet is finally delivered, record it
			defer func() {
				if e := recover(); e != nil {
					rl.mu.Lock()
					rl.faults++
					rl.mu.Unlock()
				}
			}()
			debug.SetPanicOnFault(true)
			if !bytes.Equal(b, sent) {
				rl.mu.Lock()
				rl.stale++
				rl.mu.Unlock()
			}
			if peer.running.Load() && peer.onPkt != nil {
				peer.onPkt(enc.NewBufferReader(b))
			}
		})
	}
	return nil
}

// what the current end-to-end case is doing (for the watchdog's report)
var e2eNow sync.Mutex
var e2eDoing string

func doing(format string, a ...any) {
	e2eNow.Lock()
	e2eDoing = fmt.Sprintf(format, a...)
	e2eNow.Unlock()
}

type cbObs struct {
	complete int
	err      string
	progress int
	max      string
	chunk    string
}

func TestE2ETrace(t *testing.T) {
	r := newRand()
	n := envInt("VERIF_N", 12)
	o := newOut()
	defer o.close()
	// progress watchdog outside the synctest bubbles. No wall-clock limit decides anything (a busy machine or slow disk only
	// means more waiting): a case is reported as stuck only when that is proven by state (watchdog_test.go) — 60 s of the
	// process's own CPU time without a finished case (a case needs milliseconds of CPU), or two identical all-blocked
	// goroutine dumps with nothing runnable, nothing in a system call or I/O, and no CPU use in between.
	var progress atomic.Int64
	stopWatch := make(chan struct{})
	go func() {
		last := int64(-1)
		w := newStuckWatch(60 * time.Second)
		for {
			select {
			case <-stopWatch:
				return
			case <-time.After(500 * time.Millisecond):
			}
			if p := progress.Load(); p != last {
				last = p
				w = newStuckWatch(60 * time.Second)
				continue
			}
			if why := w.proven(); why != "" {
				e2eNow.Lock()
				what := e2eDoing
				e2eNow.Unlock()
				o.pf("HANG case %d is stuck (%s) while: %s\n", last+1, why, what)
				o.pf("END\n")
				o.close()
				fmt.Fprintln(os.Stderr, "HANG in e2e case", last+1, why, what)
				os.Exit(0)
			}
		}
	}()
	for i := 0; i < n; i++ {
		seed := r.Int63()
		synctest.Test(t, func(t *testing.T) {
			runE2ECase(t, o, rand.New(rand.NewSource(seed)))
		})
		o.flush()
		progress.Add(1)
	}
	close(stopWatch)
}

func runE2ECase(t *testing.T, o *out, r *rand.Rand) {
	kind := "m"
	if r.Intn(2) == 0 {
		kind = "b"
	}
	st := newStore(kind)
	defer st.close()
	// the relay draws from its OWN generator (seeded from the case's), used only under rl.mu: the case generator `r` is used
	// by this goroutine while packets are in flight (e.g. filler publishing), Send runs on other goroutines
	rl := &relay{r: rand.New(rand.NewSource(r.Int63())), drops: map[string]int{}}
	fp := &relayFace{rl: rl}
	fc := &relayFace{rl: rl}
	fp.peer, fc.peer = fc, fp
	engP := engine.NewBasicEngine(fp)
	engC := engine.NewBasicEngine(fc)
	if err := engP.Start(); err != nil {
		t.Fatal(err)
	}
	if err := engC.Start(); err != nil {
		t.Fatal(err)
	}
	prod := object.NewClient(engP, st.st)
	cons := object.NewClient(engC, object.NewMemoryStore())
	if err := prod.Start(); err != nil {
		t.Fatal(err)
	}
	if err := cons.Start(); err != nil {
		t.Fatal(err)
	}
	o.pf("E2E %s\n", kind)

	name := genName(r)
	nver := 1 + r.Intn(5)
	var versions []uint64
	seen := map[uint64]bool{}
	for len(versions) < nver {
		var v uint64
		switch r.Intn(3) {
		case 0:
			v = []uint64{0, 1, 254, 255, 256, 257, 65535, 65536}[r.Intn(8)]
		case 1:
			v = uint64(r.Intn(1000))
		default:
			v = genVersion(r)
		}
		if !seen[v] {
			seen[v] = true
			versions = append(versions, v)
		}
	}
	published := map[uint64]bool{}
	for _, v := range versions {
		size := genSize(r, 3)
		content := genContent(r, size)
		w, _ := genSplit(r, content)
		vv := v
		ret, err := prod.Produce(object.ProduceArgs{Name: withSpare(name, r.Intn(4)), Content: append(enc.Wire{}, w...), Version: &vv})
		if err != nil || len(ret) != len(name)+1 {
			o.pf("BAD produce %v %s\n", err, nameStr(ret))
		}
		o.pf("PUB %s %d %s\n", nameStr(name), v, hx(content))
		published[v] = true
	}

	nconsume := 1 + r.Intn(2)
	for ci := 0; ci < nconsume; ci++ {
		// now and then the producer withdraws the newest version first
		if ci > 0 && r.Intn(2) == 0 {
			var newest uint64
			have := false
			for v := range published {
				if !have || v > newest {
					newest, have = v, true
				}
			}
			if have {
				base := append(append(enc.Name{}, name...), enc.NewVersionComponent(newest))
				meta := append(append(enc.Name{}, name...), enc.NewStringComponent(enc.TypeKeywordNameComponent, "metadata"), enc.NewVersionComponent(newest))
				if err := st.st.Remove(base, true); err != nil {
					o.pf("BAD remove %v\n", err)
				}
				if err := st.st.Remove(meta, true); err != nil {
					o.pf("BAD remove %v\n", err)
				}
				delete(published, newest)
				o.pf("REM %s %d\n", nameStr(name), newest)
			}
		}
		rl.mu.Lock()
		switch x := r.Intn(12); {
		case x < 3:
			rl.mode = "none"
		case x < 9:
			rl.mode = "budget"
		case x < 10:
			rl.mode = "blackhole"
		default:
			rl.mode = "sendfault"
			rl.sfTarget = r.Intn(3)
			rl.sfBudget = 1 + r.Intn(2)
			if r.Intn(2) == 0 {
				rl.sfBudget = 1 << 30
			}
			rl.sendErrs = 0
		}
		rl.drops = map[string]int{}
		rl.dropped, rl.late, rl.dups, rl.victim = 0, 0, 0, ""
		rl.forwarder = r.Intn(2) == 0
		rl.seenNonce = map[string]time.Time{}
		rl.nonceDrops = 0
		mode := rl.mode
		rl.mu.Unlock()

		cname := name
		if r.Intn(3) == 0 {
			v := versions[r.Intn(len(versions))]
			cname = append(append(enc.Name{}, name...), enc.NewVersionComponent(v))
		}
		cname = withSpare(cname, r.Intn(4))
		pol := "every"
		if r.Intn(3) == 0 {
			pol = "atend"
		}
		doing("consumer of %s waiting for its completion (relay mode %s, store %s)", cname, mode, kind)
		var mu sync.Mutex
		var obs []cbObs
		done := make(chan struct{}, 64)
		cons.Consume(cname, func(s *object.ConsumeState) bool {
			ob := cbObs{progress: s.Progress(), max: "-", chunk: "none", err: errCode(s.Error())}
			if s.IsComplete() {
				ob.complete = 1
			}
			if s.Error() == nil && s.ProgressMax() >= 0 {
				ob.max = fmt.Sprint(s.ProgressMax())
			}
			if pol == "every" || s.IsComplete() {
				ob.chunk = hx(s.Content())
			}
			mu.Lock()
			obs = append(obs, ob)
			mu.Unlock()
			if ob.complete == 1 {
				done <- struct{}{}
			}
			return true
		})
		// while replies are queued in the relay, the producer keeps publishing (other objects): with the on-disk store the
		// file grows and pages are reused underneath wires that were handed out earlier
		if kind == "b" && r.Intn(2) == 0 {
			filler := append(append(enc.Name{}, name...), enc.NewStringComponent(enc.TypeGenericNameComponent, "filler"))
			for k := 0; k < 3; k++ {
				time.Sleep(2 * time.Millisecond)
				fv := uint64(1000*ci + k + 1)
				prod.Produce(object.ProduceArgs{Name: filler, Content: enc.Wire{genContent(r, 40000+r.Intn(200000))}, Version: &fv})
			}
			if r.Intn(2) == 0 {
				st.st.Remove(filler, true)
			}
		}
		select {
		case <-done:
		case <-time.After(30 * time.Minute): // virtual time
		}
		rl.mu.Lock()
		if rl.nonceDrops > 0 {
			o.pf("BAD relay: %d retransmitted Interests carried a (name, nonce) already seen within 6 s: a forwarder on the path drops them as duplicates\n", rl.nonceDrops)
			rl.nonceDrops = 0
		}
		if rl.stale > 0 {
			o.pf("BAD relay: %d queued packets had changed between Send and delivery (the sender's buffer was overwritten)\n", rl.stale)
			rl.stale = 0
		}
		if rl.faults > 0 {
			o.pf("BAD relay: %d queued replies could not be read when they were finally delivered (their memory was unmapped)\n", rl.faults)
			rl.faults = 0
		}
		rl.mu.Unlock()
		mu.Lock()
		nAtDone := len(obs)
		mu.Unlock()
		time.Sleep(60 * time.Second) // virtual: anything still in flight is delivered or times out
		rl.mu.Lock()
		o.pf("CONSUME %s %s %s %d %d %d\n", nameStr(cname), pol, mode, rl.dropped+rl.sendErrs, rl.late, rl.dups)
		rl.sendErrs = 0
		rl.mu.Unlock()
		mu.Lock()
		for i, ob := range obs {
			o.pf("CB %d %d %s %d %s %s\n", i, ob.complete, ob.err, ob.progress, ob.max, ob.chunk)
		}
		o.pf("LATE %d\n", len(obs)-nAtDone)
		mu.Unlock()
	}
	if r.Intn(3) == 0 {
		runE2EConcurrent(o, r, rl, prod, cons, name)
	}
	if r.Intn(3) == 0 {
		runE2EBadProducer(o, r, rl, st, cons, name)
	}
	o.pf("END\n")
	o.flush()
	doing("stopping the consumer client (its run loop must take the stop signal)")
	cons.Stop()
	prod.Stop()
	engC.Stop()
	engP.Stop()
	_ = ndn.ContentTypeBlob
}

// runE2EConcurrent: two consumers at once on ONE client. Consumer A fetches an object of 12+ segments whose segments 1..
// are lost on every transmission: its Interests fill the shared fetch window, then it fails when the retries run out.
// Consumer B asks for a small object while the window is full; it must still get its completion.
func runE2EConcurrent(o *out, r *rand.Rand, rl *relay, prod, cons *object.Client, name enc.Name) {
	bigName := append(append(enc.Name{}, name...), enc.NewStringComponent(enc.TypeGenericNameComponent, "big"))
	smallName := append(append(enc.Name{}, name...), enc.NewStringComponent(enc.TypeGenericNameComponent, "small"))
	bigVer, smallVer := uint64(7), uint64(9)
	big := genContent(r, 11*segSize+1+r.Intn(3*segSize))
	small := genContent(r, 1+r.Intn(2*segSize))
	if _, err := prod.Produce(object.ProduceArgs{Name: bigName, Content: enc.Wire{append([]byte{}, big...)}, Version: &bigVer}); err != nil {
		o.pf("BAD produce %v\n", err)
	}
	if _, err := prod.Produce(object.ProduceArgs{Name: smallName, Content: enc.Wire{append([]byte{}, small...)}, Version: &smallVer}); err != nil {
		o.pf("BAD produce %v\n", err)
	}
	o.pf("PUB %s %d %s\n", nameStr(bigName), bigVer, hx(big))
	o.pf("PUB %s %d %s\n", nameStr(smallName), smallVer, hx(small))
	bigV := append(append(enc.Name{}, bigName...), enc.NewVersionComponent(bigVer))
	rl.mu.Lock()
	rl.mode = "starve"
	rl.starve = bigV.String()
	rl.drops = map[string]int{}
	rl.dropped, rl.late, rl.dups, rl.victim = 0, 0, 0, ""
	rl.mu.Unlock()

	type consumer struct {
		name enc.Name
		mu   sync.Mutex
		obs  []cbObs
		done chan struct{}
	}
	mk := func(nm enc.Name) *consumer { return &consumer{name: nm, done: make(chan struct{}, 64)} }
	start := func(c *consumer) {
		cons.Consume(c.name, func(s *object.ConsumeState) bool {
			ob := cbObs{progress: s.Progress(), max: "-", chunk: hx(s.Content()), err: errCode(s.Error())}
			if s.IsComplete() {
				ob.complete = 1
			}
			if s.Error() == nil && s.ProgressMax() >= 0 {
				ob.max = fmt.Sprint(s.ProgressMax())
			}
			c.mu.Lock()
			c.obs = append(c.obs, ob)
			c.mu.Unlock()
			if ob.complete == 1 {
				c.done <- struct{}{}
			}
			return true
		})
	}
	doing("two concurrent consumers: %s (starved) and %s", bigV, smallName)
	a, b := mk(bigV), mk(smallName)
	start(a)
	time.Sleep(500 * time.Millisecond) // virtual: A's first segment is in and its Interests occupy the window
	start(b)
	deadline := time.After(30 * time.Minute) // virtual; far beyond the retry budget (4 transmissions x 4 s)
	for _, c := range []*consumer{a, b} {
		select {
		case <-c.done:
		case <-deadline:
		}
	}
	time.Sleep(60 * time.Second)
	rl.mu.Lock()
	dropped := rl.dropped
	rl.mode = "none"
	rl.mu.Unlock()
	for i, c := range []*consumer{a, b} {
		mode, d := "blackhole", dropped
		if i == 1 {
			mode, d = "concurrent", 0
		}
		o.pf("CONSUME %s every %s %d 0 0\n", nameStr(c.name), mode, d)
		c.mu.Lock()
		for j, ob := range c.obs {
			o.pf("CB %d %d %s %d %s %s\n", j, ob.complete, ob.err, ob.progress, ob.max, ob.chunk)
		}
		c.mu.Unlock()
		o.pf("LATE 0\n")
	}
}

// runE2EBadProducer: the producer's store holds packets no honest Produce would write — a first segment without
// FinalBlockId, with a FinalBlockId of another component type, with a FinalBlockId that is rejected as a segment count
// (1e8, 2^32, 2^63-1, 2^63, 2^64-1), or a metadata packet naming a version that does not exist. The consumer must report
// exactly one completion, an error, and nothing after it.
func runE2EBadProducer(o *out, r *rand.Rand, rl *relay, st *storeUnder, cons *object.Client, name enc.Name) {
	kind := r.Intn(8)
	obj := append(append(enc.Name{}, name...), enc.NewStringComponent(enc.TypeGenericNameComponent, fmt.Sprintf("bad%d", kind)))
	ver := uint64(3)
	base := append(append(enc.Name{}, obj...), enc.NewVersionComponent(ver))
	signer := sec.NewSha256Signer()
	put := func(nm enc.Name, content []byte, fb *enc.Component) {
		cfg := &ndn.DataConfig{ContentType: utils.IdPtr(ndn.ContentTypeBlob), FinalBlockID: fb}
		d, err := spec.Spec{}.MakeData(nm, cfg, enc.Wire{content}, signer)
		if err != nil {
			o.pf("BAD makedata %v\n", err)
			return
		}
		st.st.Put(nm, ver, d.Wire.Join())
	}
	seg0 := append(append(enc.Name{}, base...), enc.NewSegmentComponent(0))
	var fb *enc.Component
	cname := base
	switch kind {
	case 0:
		fb = nil
	case 1:
		c := enc.NewVersionComponent(0)
		fb = &c
	case 2, 3, 4, 5, 6:
		c := enc.NewSegmentComponent([]uint64{100000000, 1 << 32, 1<<63 - 1, 1 << 63, 1<<64 - 1}[kind-2])
		fb = &c
	default:
		// metadata packet that names a version nobody published
		c := enc.NewSegmentComponent(0)
		fb = &c
		ghost := append(append(enc.Name{}, obj...), enc.NewVersionComponent(ver+777))
		md := rdr.MetaData{Name: ghost, FinalBlockID: c.Bytes()}
		mname := append(append(enc.Name{}, obj...), enc.NewStringComponent(enc.TypeKeywordNameComponent, "metadata"),
			enc.NewVersionComponent(ver+777), enc.NewSegmentComponent(0))
		put(mname, md.Encode().Join(), fb)
		cname = obj
	}
	if kind < 7 {
		put(seg0, []byte{1, 2, 3}, fb)
	}
	rl.mu.Lock()
	rl.mode = "none"
	rl.forwarder = false
	rl.mu.Unlock()
	doing("consumer of %s against a misbehaving producer (kind %d)", cname, kind)
	var mu sync.Mutex
	var obs []cbObs
	done := make(chan struct{}, 64)
	cons.Consume(cname, func(s *object.ConsumeState) bool {
		ob := cbObs{progress: s.Progress(), max: "-", chunk: hx(s.Content()), err: errCode(s.Error())}
		if s.IsComplete() {
			ob.complete = 1
		}
		mu.Lock()
		obs = append(obs, ob)
		mu.Unlock()
		if ob.complete == 1 {
			done <- struct{}{}
		}
		return true
	})
	select {
	case <-done:
	case <-time.After(30 * time.Minute):
	}
	mu.Lock()
	nAtDone := len(obs)
	mu.Unlock()
	time.Sleep(60 * time.Second)
	// nothing is published under that name as far as the oracle is concerned: exactly one completion, with an error
	o.pf("CONSUME %s every badproducer%d 0 0 0\n", nameStr(cname), kind)
	mu.Lock()
	for i, ob := range obs {
		o.pf("CB %d %d %s %d %s %s\n", i, ob.complete, ob.err, ob.progress, ob.max, ob.chunk)
	}
	o.pf("LATE %d\n", len(obs)-nAtDone)
	mu.Unlock()
}
