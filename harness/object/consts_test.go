package objecth

import (
	"fmt"
	"testing"

	enc "github.com/named-data/ndnd/std/encoding"
	"github.com/named-data/ndnd/std/engine/basic"
	"github.com/named-data/ndnd/std/ndn"
	"github.com/named-data/ndnd/std/object"
)

// TestConsts writes "CONST <name> <value>" lines: the constants the Coq models depend on, obtained from the compiler
// (package-level constants through the hook, exported constants directly) or by behavioural probes (values buried in
// function bodies): never by matching source text. An item that cannot be determined is simply not printed.
func TestConsts(t *testing.T) {
	o := newOut()
	defer o.close()
	for k, v := range object.VerifConsts() {
		o.pf("CONST %s %d\n", k, v)
	}
	o.pf("CONST typSegment %d\n", uint64(enc.TypeSegmentNameComponent))
	o.pf("CONST typVersion %d\n", uint64(enc.TypeVersionNameComponent))
	o.pf("CONST typKeyword %d\n", uint64(enc.TypeKeywordNameComponent))

	// fetch window: the field of a freshly built fetcher
	{
		cli := object.NewClient(&fakeEngine{timer: basic.NewTimer()}, object.NewMemoryStore())
		_, _, _, w := cli.VerifFetcher()
		o.pf("CONST fetchWindow %d\n", w)
	}
	// retries of a segment Interest: time it out until the failure reaches the fetcher; count the transmissions
	probeRetries := func(name enc.Name, meta bool) int {
		eng := &fakeEngine{timer: basic.NewTimer()}
		cli := object.NewClient(eng, object.NewMemoryStore())
		done := false
		cli.VerifConsume(name, func(s *object.ConsumeState) bool { done = s.IsComplete(); return true })
		if !meta {
			cli.VerifStep(object.VerifChanFetch)
			cli.VerifStep(object.VerifChanCheck)
		}
		tx := 0
		for i := 0; i < 10000 && !done; i++ {
			cli.VerifStep(object.VerifChanOut)
			if len(eng.pending) == 0 {
				// nothing expressed: the failure is on its way to the fetcher
				if !cli.VerifStep(object.VerifChanSegIn) {
					break
				}
				continue
			}
			p := eng.take(eng.pending[0].xid)
			tx++
			p.cb(ndn.ExpressCallbackArgs{Result: ndn.InterestResultTimeout})
		}
		if !done || tx == 0 {
			return -1
		}
		return tx - 1
	}
	vname := enc.Name{enc.NewStringComponent(enc.TypeGenericNameComponent, "probe"), enc.NewVersionComponent(1)}
	if r := probeRetries(vname, false); r >= 0 {
		o.pf("CONST segRetries %d\n", r)
	}
	if r := probeRetries(vname[:1], true); r >= 0 {
		o.pf("CONST metaRetries %d\n", r)
	}
	// bolt prefix scan cap: store N versions of one object, see which one the prefix query returns
	for n := 2048; n <= 40000; n *= 2 {
		b := newStore("b")
		prefix := enc.Name{enc.NewStringComponent(enc.TypeGenericNameComponent, "cap")}
		for i := 1; i <= n; i++ {
			if i%512 == 1 {
				b.st.Begin()
			}
			b.st.Put(append(append(enc.Name{}, prefix...), enc.NewVersionComponent(uint64(i))), uint64(i), []byte(fmt.Sprint(i)))
			if i%512 == 0 || i == n {
				b.st.Commit()
			}
		}
		w, _ := b.st.Get(prefix, true)
		b.close()
		var got int
		fmt.Sscan(string(w), &got)
		if got > 0 && got < n {
			o.pf("CONST boltIterCap %d\n", got+1)
			break
		}
	}
}
