package objecth

import (
	"fmt"
	"math/rand"
	"os"
	"path/filepath"
	"sort"
	"testing"
	"testing/synctest"
	"time"

	enc "github.com/named-data/ndnd/std/encoding"
	"github.com/named-data/ndnd/std/engine"
	"github.com/named-data/ndnd/std/engine/dummy"
	"github.com/named-data/ndnd/std/ndn"
	rdr "github.com/named-data/ndnd/std/ndn/rdr_2024"
	spec "github.com/named-data/ndnd/std/ndn/spec_2022"
	"github.com/named-data/ndnd/std/object"
)

// storeUnder wraps the two store implementations for the harness.
type storeUnder struct {
	kind string // "m" or "b"
	st   ndn.Store
	mem  *object.MemoryStore
	bolt *object.BoltStore
	path string
}

var boltSeq int

func newStore(kind string) *storeUnder {
	if kind == "m" {
		m := object.NewMemoryStore()
		return &storeUnder{kind: kind, st: m, mem: m}
	}
	boltSeq++
	p := filepath.Join(workDir(), fmt.Sprintf("bolt-%d-%d.db", os.Getpid(), boltSeq))
	os.Remove(p)
	b, err := object.NewBoltStore(p)
	if err != nil {
		panic(err)
	}
	return &storeUnder{kind: kind, st: b, bolt: b, path: p}
}

func (s *storeUnder) close() {
	if s.bolt != nil {
		s.bolt.Close()
		os.Remove(s.path)
	}
}

type storedPkt struct {
	key  string // encoded name (hex) for sorting
	name enc.Name
	ver  uint64
	wire []byte
}

// committed returns every stored (name, version, wire) of the committed state, sorted by encoded name.
func (s *storeUnder) committed() []storedPkt {
	var res []storedPkt
	if s.mem != nil {
		root, _, _ := s.mem.VerifDump()
		for _, n := range root {
			if n.HasWire {
				res = append(res, storedPkt{key: string(n.Path.Bytes()), name: n.Path, ver: n.Version, wire: n.Wire})
			}
		}
	} else {
		keys, vals := s.bolt.VerifDump()
		for i, k := range keys {
			// key = concatenated components; wrap in a Name TLV to parse it back
			buf := append(tlnum(7), tlnum(uint64(len(k)))...)
			buf = append(buf, k...)
			nm, err := enc.NameFromBytes(buf)
			if err != nil {
				panic(fmt.Sprintf("bolt key does not parse as name components: %x", k))
			}
			v := vals[i]
			var ver uint64
			for _, b := range v[:8] {
				ver = ver<<8 | uint64(b)
			}
			res = append(res, storedPkt{key: string(nm.Bytes()), name: nm, ver: ver, wire: v[8:]})
		}
	}
	sort.Slice(res, func(i, j int) bool { return res[i].key < res[j].key })
	return res
}

func tlnum(v uint64) []byte {
	b := make([]byte, 9)
	n := enc.TLNum(v).EncodeInto(b)
	return b[:n]
}

func isMetaName(n enc.Name) bool {
	if len(n) < 3 {
		return false
	}
	c := n[len(n)-3]
	return c.Typ == enc.TypeKeywordNameComponent && string(c.Val) == "metadata"
}

// writePkts prints one PKT/MET line per stored packet: decoded Data name must equal the store key.
func writePkts(o *out, pkts []storedPkt) {
	for _, p := range pkts {
		pkt, _, err := spec.ReadPacket(enc.NewBufferReader(p.wire))
		if err != nil || pkt.Data == nil {
			o.pf("BAD %s %d %s\n", nameStr(p.name), p.ver, hx(p.wire))
			continue
		}
		d := pkt.Data
		fb := "none"
		if f := d.FinalBlockID(); f != nil {
			fb = compStr(*f)
		}
		keyEq := 0
		if d.Name().Equal(p.name) {
			keyEq = 1
		}
		if isMetaName(p.name) {
			md, err := rdr.ParseMetaData(enc.NewWireReader(d.Content()), false)
			if err == nil {
				o.pf("MET %s %d %d %s %s %s\n", nameStr(p.name), keyEq, p.ver, fb, nameStr(md.Name), hx(md.FinalBlockID))
				continue
			}
		}
		o.pf("PKT %s %d %d %s %s\n", nameStr(p.name), keyEq, p.ver, fb, hx(d.Content().Join()))
	}
}

func produceEngine() ndn.Engine {
	face := dummy.NewDummyFace()
	eng := engine.NewBasicEngine(face)
	if err := eng.Start(); err != nil {
		panic(err)
	}
	return eng
}

// TestProduceTrace: one case = a fresh store, one Produce call, dump of everything stored.
//   PRODUCE <store> <name> <version> <explicit 0|1> <spare> <buffers>
//   RET <name> | RET err
//   PKT/MET ... (sorted by encoded name)
//   END
// failingStore fails the k-th Put ("disk full"): Produce must report the error; the object must not become
// consumable by name (the metadata packet is written last).
type failingStore struct {
	ndn.Store
	left int
}

func (f *failingStore) Put(name enc.Name, version uint64, wire []byte) error {
	if f.left == 0 {
		return fmt.Errorf("injected: no space left on device")
	}
	f.left--
	return f.Store.Put(name, version, wire)
}

func runProduceFailCase(o *out, eng ndn.Engine, r *rand.Rand) {
	mem := object.NewMemoryStore()
	nseg := 2 + r.Intn(3)
	fs := &failingStore{Store: mem, left: r.Intn(nseg + 1)} // fails on a segment or on the metadata packet
	cli := object.NewClient(eng, fs)
	name := genName(r)
	v := uint64(5)
	_, err := cli.Produce(object.ProduceArgs{Name: name, Content: enc.Wire{genContent(r, (nseg-1)*segSize+1)}, Version: &v})
	meta, _ := mem.Get(append(append(enc.Name{}, name...), enc.NewStringComponent(enc.TypeKeywordNameComponent, "metadata")), true)
	verdict := "ok"
	if err == nil {
		verdict = "bad:no-error-returned"
	} else if meta != nil {
		verdict = "bad:metadata-published-although-produce-failed"
	}
	o.pf("PFAIL %s failing-put=%d segments=%d\n", verdict, fs.left, nseg)
}

func TestProduceTrace(t *testing.T) {
	r := newRand()
	n := envInt("VERIF_N", 40)
	o := newOut()
	defer o.close()
	eng := produceEngine()
	for i := 0; i < 4; i++ {
		runProduceFailCase(o, eng, r)
	}
	for i := 0; i < n; i++ {
		kind := "m"
		if r.Intn(3) == 0 {
			kind = "b"
		}
		name := genName(r)
		spare := r.Intn(5)
		if r.Intn(2) == 0 {
			spare = 0
		}
		size := genSize(r, 4)
		if r.Intn(25) == 0 {
			size = 0
		}
		content := genContent(r, size)
		var w enc.Wire
		if size == 0 {
			switch r.Intn(3) {
			case 0:
				w = enc.Wire{}
			case 1:
				w = enc.Wire{[]byte{}}
			default:
				w = enc.Wire{[]byte{}, []byte{}}
			}
		} else {
			w, _ = genSplit(r, content)
		}
		explicit := r.Intn(5) != 0
		ver := genVersion(r)
		runProduceCase(o, eng, kind, name, spare, w, explicit, ver)
	}
}

func runProduceCase(o *out, eng ndn.Engine, kind string, name enc.Name, spare int, w enc.Wire, explicit bool, ver uint64) {
	synctest.Test(&testing.T{}, func(_ *testing.T) {})
	st := newStore(kind)
	defer st.close()
	cli := object.NewClient(eng, st.st)
	args := object.ProduceArgs{Name: withSpare(name, spare)}
	// Produce consumes (and clears) the caller's Wire: hand it a copy of the outer slice
	args.Content = append(enc.Wire{}, w...)
	expl := 0
	if explicit {
		v := ver
		args.Version = &v
		expl = 1
	}
	before := time.Now().UnixNano()
	ret, err := cli.Produce(args)
	after := time.Now().UnixNano()
	if !explicit {
		// default version = unix time in ns at the call: recover it from the returned name and check the bracket
		ver = 0
		if err == nil && len(ret) > 0 {
			ver = ret[len(ret)-1].NumberVal()
			if int64(ver) < before || int64(ver) > after {
				o.pf("BAD default version %d outside [%d,%d]\n", ver, before, after)
			}
		}
	}
	o.pf("PRODUCE %s %s %d %d %d %s\n", kind, nameStr(name), ver, expl, spare, wireStr(w))
	if err != nil {
		o.pf("RET err\n")
	} else {
		o.pf("RET %s\n", nameStr(ret))
	}
	writePkts(o, st.committed())
	o.pf("END\n")
}
