package objecth

import (
	"bytes"
	"fmt"
	"runtime/debug"
	"math/rand"
	"sort"
	"strings"
	"testing"

	enc "github.com/named-data/ndnd/std/encoding"
)

// ---------------------------------------------------------------------------------------------
// Store-level differential runs: the same Put/Get/Remove/transaction history is applied to a MemoryStore and a
// BoltStore; every Get result and periodic white-box dumps of both are written to the trace.
//   STORE
//   PUT <name> <ver> <wire> | REMOVE <name> <0|1> | BEGIN | COMMIT | ROLLBACK
//   GET <name> <0|1> <mem result hex|nil> <bolt result hex|nil>
//   DUMP <mem nodes ; separated, sorted> <bolt key=value , separated, cursor order>
//   END
// ---------------------------------------------------------------------------------------------

type nameUniverse struct {
	comps []enc.Component
	names []enc.Name
}

func genUniverse(r *rand.Rand) *nameUniverse {
	u := &nameUniverse{}
	pool := []enc.Component{
		enc.NewStringComponent(enc.TypeGenericNameComponent, "a"),
		enc.NewStringComponent(enc.TypeGenericNameComponent, "b"),
		enc.NewStringComponent(enc.TypeGenericNameComponent, "ab"),
		enc.NewStringComponent(enc.TypeGenericNameComponent, ""),
		enc.NewStringComponent(enc.TypeKeywordNameComponent, "metadata"),
		enc.NewVersionComponent(0), enc.NewVersionComponent(1), enc.NewVersionComponent(255), enc.NewVersionComponent(256),
		enc.NewVersionComponent(65535), enc.NewVersionComponent(65536), enc.NewVersionComponent(1 << 32),
		enc.NewSegmentComponent(0), enc.NewSegmentComponent(1), enc.NewSegmentComponent(255), enc.NewSegmentComponent(256),
		enc.NewBytesComponent(enc.TypeGenericNameComponent, []byte{0x08, 0x01, 0x61}), // looks like an encoded component
		enc.NewBytesComponent(enc.TypeGenericNameComponent, []byte{0xff}),
		enc.NewBytesComponent(enc.TypeGenericNameComponent, []byte{0x00}),
		enc.NewBytesComponent(enc.TypeVersionNameComponent, []byte{0x00, 0x01}), // non-shortest forms of v=1, seg=0
		enc.NewBytesComponent(enc.TypeSegmentNameComponent, []byte{0x00, 0x00}),
		enc.NewBytesComponent(enc.TypeVersionNameComponent, []byte{}),
	}
	// a boundary-sized value now and then (TLV length 252/253)
	if r.Intn(4) == 0 {
		pool = append(pool, enc.NewBytesComponent(enc.TypeGenericNameComponent, make([]byte, 252+r.Intn(3))))
	}
	k := 3 + r.Intn(5)
	for i := 0; i < k; i++ {
		u.comps = append(u.comps, pool[r.Intn(len(pool))])
	}
	// NOTE: the memory store used to key its trie by Component.String(), which is not injective on non-shortest numeric
	// components (v=5 for 05 and 00 05); the universe contains such pairs on purpose.
	return u
}

func (u *nameUniverse) name(r *rand.Rand) enc.Name {
	// reuse an earlier name (or a prefix / extension of one) most of the time
	if len(u.names) > 0 && r.Intn(10) < 6 {
		n := u.names[r.Intn(len(u.names))]
		switch r.Intn(4) {
		case 0:
			if len(n) > 0 {
				return n[:r.Intn(len(n)+1)]
			}
		case 1:
			return append(append(enc.Name{}, n...), u.comps[r.Intn(len(u.comps))])
		}
		return n
	}
	d := r.Intn(5)
	n := make(enc.Name, 0, d)
	for i := 0; i < d; i++ {
		n = append(n, u.comps[r.Intn(len(u.comps))])
	}
	u.names = append(u.names, n)
	return n
}

func optHex(b []byte) string {
	if b == nil {
		return "nil"
	}
	return hx(b)
}

func dumpStores(o *out, m, b *storeUnder) {
	root, _, _ := m.mem.VerifDump()
	items := make([]string, 0, len(root))
	for _, n := range root {
		w := "nil"
		if n.HasWire {
			w = hx(n.Wire)
		}
		nil01 := 0
		if n.ChildrenNil {
			nil01 = 1
		}
		items = append(items, fmt.Sprintf("%s!%s!%d!%d!%d", nameStr(n.Path), w, n.Version, n.NumChildren, nil01))
	}
	sort.Strings(items)
	keys, vals := b.bolt.VerifDump()
	kv := make([]string, len(keys))
	for i := range keys {
		kv[i] = hx(keys[i]) + "=" + hx(vals[i])
	}
	bs := strings.Join(kv, ",")
	if bs == "" {
		bs = "~"
	}
	o.pf("DUMP %s %s\n", strings.Join(items, ";"), bs)
}

// runStoreCapCase: more versions of one object than the bolt prefix scan is willing to look at (store_bolt.go gives up
// after `iter` keys): VERIF_BOLT_CAP+200 metadata packets /many/32=metadata/v=<i>/seg=0, then the consumer's query.
func runStoreCapCase(o *out, ncap int) {
	m := newStore("m")
	b := newStore("b")
	defer m.close()
	defer b.close()
	o.pf("STORE\n")
	prefix := enc.Name{enc.NewStringComponent(enc.TypeGenericNameComponent, "many"),
		enc.NewStringComponent(enc.TypeKeywordNameComponent, "metadata")}
	n := ncap + 200
	for i := 1; i <= n; i++ {
		if i%100 == 1 {
			o.pf("BEGIN\n")
			m.st.Begin()
			b.st.Begin()
		}
		nm := append(append(enc.Name{}, prefix...), enc.NewVersionComponent(uint64(i)), enc.NewSegmentComponent(0))
		wire := []byte{byte(i >> 8), byte(i), 0xcc}
		o.pf("PUT %s %d %s\n", nameStr(nm), i, hx(wire))
		m.st.Put(nm, uint64(i), wire)
		b.st.Put(nm, uint64(i), wire)
		if i%100 == 0 || i == n {
			o.pf("COMMIT\n")
			m.st.Commit()
			b.st.Commit()
		}
	}
	wm, _ := m.st.Get(prefix, true)
	wb, _ := b.st.Get(prefix, true)
	o.pf("GET %s 1 %s %s\n", nameStr(prefix), optHex(wm), optHex(wb))
	o.pf("END\n")
}

// runStoreHeldCase: wires returned by Get stay in use while the store is written to — enough later writes to make
// the bolt file grow (its memory map is replaced) and to reuse the pages freed by removals.
func runStoreHeldCase(o *out, r *rand.Rand) {
	m := newStore("m")
	b := newStore("b")
	defer m.close()
	defer b.close()
	o.pf("STORE\n")
	mk := func(i int) enc.Name {
		return enc.Name{enc.NewStringComponent(enc.TypeGenericNameComponent, "held"), enc.NewVersionComponent(uint64(i)), enc.NewSegmentComponent(0)}
	}
	wireOf := func(i, size int) []byte {
		w := make([]byte, size)
		for j := range w {
			w[j] = byte(i*31 + j)
		}
		return w
	}
	put := func(i, size int) {
		w := wireOf(i, size)
		o.pf("PUT %s %d %s\n", nameStr(mk(i)), i, hx(w))
		m.st.Put(mk(i), uint64(i), w)
		b.st.Put(mk(i), uint64(i), w)
	}
	o.pf("BEGIN\n")
	m.st.Begin()
	b.st.Begin()
	for i := 1; i <= 40; i++ {
		put(i, 1500)
	}
	o.pf("COMMIT\n")
	m.st.Commit()
	b.st.Commit()
	var held []heldWire
	for i := 1; i <= 40; i += 3 {
		wm, _ := m.st.Get(mk(i), false)
		wb, _ := b.st.Get(mk(i), false)
		o.pf("GET %s 0 %s %s\n", nameStr(mk(i)), optHex(wm), optHex(wb))
		if wb != nil {
			held = append(held, heldWire{got: wb, want: append([]byte(nil), wb...), op: i})
		}
	}
	o.flush()
	// free pages, then reuse them
	for i := 1; i <= 40; i++ {
		o.pf("REMOVE %s 0\n", nameStr(mk(i)))
		m.st.Remove(mk(i), false)
		b.st.Remove(mk(i), false)
	}
	recheckHeld(o, held, "removals")
	for round := 0; round < 6; round++ {
		o.pf("BEGIN\n")
		m.st.Begin()
		b.st.Begin()
		for i := 100 + round*40; i < 140+round*40; i++ {
			put(i, 1500+round*700) // later rounds make the file grow
		}
		o.pf("COMMIT\n")
		m.st.Commit()
		b.st.Commit()
		o.flush()
		recheckHeld(o, held, fmt.Sprintf("commit of round %d", round))
	}
	o.pf("END\n")
}

// runStoreRawCase: the bucket also holds values that Put never wrote (shorter than the 8-byte version header): the prefix
// scan must skip them ("if len(v) < 8 { continue }") and still answer with the newest real packet.
func runStoreRawCase(o *out) {
	m := newStore("m")
	b := newStore("b")
	defer m.close()
	defer b.close()
	o.pf("STORE\n")
	prefix := enc.Name{enc.NewStringComponent(enc.TypeGenericNameComponent, "raw")}
	nm := func(i uint64) enc.Name { return append(append(enc.Name{}, prefix...), enc.NewVersionComponent(i)) }
	put := func(i uint64) {
		w := []byte{0xaa, byte(i)}
		o.pf("PUT %s %d %s\n", nameStr(nm(i)), i, hx(w))
		m.st.Put(nm(i), i, w)
		b.st.Put(nm(i), i, w)
	}
	put(3)
	for _, i := range []uint64{1, 5, 9} { // foreign short values before, between and after the real ones
		raw := make([]byte, int(i)%8)
		o.pf("PUTRAW %s %s\n", nameStr(nm(i)), hx(raw))
		if err := b.bolt.VerifPutRaw(nm(i), raw); err != nil {
			o.pf("BAD putraw %v\n", err)
		}
	}
	put(7)
	wm, _ := m.st.Get(prefix, true)
	wb, _ := b.st.Get(prefix, true)
	o.pf("GET %s 1 %s %s\n", nameStr(prefix), optHex(wm), optHex(wb))
	o.pf("END\n")
}

func TestStoreTrace(t *testing.T) {
	r := newRand()
	n := envInt("VERIF_N", 40)
	o := newOut()
	defer o.close()
	if c := envInt("VERIF_BOLT_CAP", 0); c > 0 {
		runStoreCapCase(o, c)
	}
	runStoreHeldCase(o, r)
	runStoreRawCase(o)
	for i := 0; i < n; i++ {
		runStoreCase(o, r, 10+r.Intn(60))
	}
}

// heldWire is a wire returned by BoltStore.Get that the caller keeps using (a reply queued in a face, a packet held
// by the application): `got` is the returned slice itself, `want` a private copy taken at once.
type heldWire struct {
	got, want []byte
	op        int
}

// recheckHeld compares every held wire with its copy AFTER later writes; a fault while reading is caught.
func recheckHeld(o *out, held []heldWire, after string) {
	defer func() {
		if e := recover(); e != nil {
			o.pf("STALE fault reading a wire returned by an earlier bolt Get, after %s: %v\n", after, e)
			o.flush()
		}
	}()
	debug.SetPanicOnFault(true)
	for _, h := range held {
		if !bytes.Equal(h.got, h.want) {
			o.pf("STALE changed wire returned by bolt Get at op %d, after %s: was %s now %s\n", h.op, after, hx(h.want[:min(len(h.want), 16)]), hx(h.got[:min(len(h.got), 16)]))
			return
		}
	}
}

func runStoreCase(o *out, r *rand.Rand, nops int) {
	m := newStore("m")
	b := newStore("b")
	var held []heldWire
	defer m.close()
	defer b.close()
	u := genUniverse(r)
	o.pf("STORE\n")
	inTx := false
	wireNo := 0
	smallVers := r.Intn(2) == 0
	for k := 0; k < nops; k++ {
		x := r.Intn(100)
		switch {
		case x < 40:
			nm := u.name(r)
			if len(nm) == 0 {
				continue // a Data name is never empty (bolt rejects the empty key, the memory store would use the root)
			}
			var ver uint64
			if smallVers {
				ver = uint64(r.Intn(4))
			} else {
				ver = genVersion(r)
			}
			wireNo++
			wire := []byte{byte(wireNo >> 8), byte(wireNo), byte(r.Intn(256))}
			o.pf("PUT %s %d %s\n", nameStr(nm), ver, hx(wire))
			if err := m.st.Put(nm, ver, wire); err != nil {
				o.pf("BAD mem put %v\n", err)
			}
			if err := b.st.Put(nm, ver, wire); err != nil {
				o.pf("BAD bolt put %v\n", err)
			}
			if !inTx {
				recheckHeld(o, held, "Put")
			}
		case x < 72:
			nm := u.name(r)
			p := r.Intn(2)
			wm, e1 := m.st.Get(nm, p == 1)
			wb, e2 := b.st.Get(nm, p == 1)
			if e1 != nil || e2 != nil {
				o.pf("BAD get %v %v\n", e1, e2)
			}
			o.pf("GET %s %d %s %s\n", nameStr(nm), p, optHex(wm), optHex(wb))
			if wb != nil {
				held = append(held, heldWire{got: wb, want: append([]byte(nil), wb...), op: k})
			}
		case x < 87:
			if inTx {
				// std/ndn/store.go: transactions are for Put only, Remove acts on the committed state. BoltStore.Remove
				// opens its own write transaction and blocks forever while one is open (probed), so inside a bracket the
				// Remove goes to the memory store only.
				nm := u.name(r)
				p := r.Intn(2)
				o.pf("REMOVEM %s %d\n", nameStr(nm), p)
				if err := m.st.Remove(nm, p == 1); err != nil {
					o.pf("BAD mem remove %v\n", err)
				}
				continue
			}
			nm := u.name(r)
			p := r.Intn(2)
			o.pf("REMOVE %s %d\n", nameStr(nm), p)
			if err := m.st.Remove(nm, p == 1); err != nil {
				o.pf("BAD mem remove %v\n", err)
			}
			if err := b.st.Remove(nm, p == 1); err != nil {
				o.pf("BAD bolt remove %v\n", err)
			}
			recheckHeld(o, held, "Remove")
		case x < 93:
			if !inTx {
				o.pf("BEGIN\n")
				m.st.Begin()
				b.st.Begin()
				inTx = true
			} else if r.Intn(4) == 0 {
				o.pf("ROLLBACK\n")
				m.st.Rollback()
				b.st.Rollback()
				inTx = false
			} else {
				o.pf("COMMIT\n")
				m.st.Commit()
				b.st.Commit()
				inTx = false
				recheckHeld(o, held, "Commit")
			}
		default:
			dumpStores(o, m, b)
		}
	}
	if inTx {
		o.pf("COMMIT\n")
		m.st.Commit()
		b.st.Commit()
	}
	dumpStores(o, m, b)
	o.pf("END\n")
}
