// Harness for C05 / C06 / C08 (tables part): drives the two FIB-strategy tables of fw/table (through the public
// table.FibStrategy interface) and table.Rib on generated operation histories and writes a trace for the Coq runner
// (runner/Tables/driver.ml).  Names are lists of interned component numbers; "/1/2" = components c1,c2; "/" = root.
//
// Trace lines:
//   C <case> <m> <kind> <impls>          kind fib (impls "TH": same ops on name tree and hash table) | rib (impls "T" or "H")
//   U <name> <name> ...                  lookup universe of the case
//   O ins <name> <face> <cost> | clr <name> | rem <name> <face> | sets <name> <strat> | uns <name>
//   O reg <name> <face> <origin> <cost> <flags> | unreg <name> <face> <origin> | cleanup <face>
//   <T|H> nh v|v|...                     FindNextHopsEnc for every universe name, v = f:c,f:c in table order or "-"
//   <T|H> st s|s|...                     FindStrategyEnc (interned number or "-")
//   <T|H> fib name=nh;...                GetAllFIBEntries sorted by name          <T|H> sl name=s;...  strategies
//   T nodes name=nh=strat;...            white-box: every tree node               T pfx name;...  fibPrefixes side map
//   H real name=nh=strat;...  H virt name=md;...  H vn name=n1,n2;...             white-box hash-table dumps
//   <T|H> rib name=f:o:c:fl,..;...       Rib.GetAllEntries        <T|H> rnodes name=named=routes;...  white-box RIB nodes
//   X <text>                             implementation-side anomaly (panic, hash collision, name field mismatch)
//   E                                    end of case
package tables

import (
	"bufio"
	"fmt"
	"math/rand"
	"os"
	"sort"
	"strconv"
	"strings"
	"testing"
	"time"

	"github.com/named-data/ndnd/fw/core"
	"github.com/named-data/ndnd/fw/defn"
	"github.com/named-data/ndnd/fw/face"
	"github.com/named-data/ndnd/fw/table"
	enc "github.com/named-data/ndnd/std/encoding"
)

// ---------------------------------------------------------------- interning
type iname []int

func (n iname) String() string {
	if len(n) == 0 {
		return "/"
	}
	var sb strings.Builder
	for _, c := range n {
		sb.WriteByte('/')
		sb.WriteString(strconv.Itoa(c))
	}
	return sb.String()
}

func parseIName(s string) iname {
	if s == "/" || s == "" {
		return iname{}
	}
	parts := strings.Split(strings.TrimPrefix(s, "/"), "/")
	n := make(iname, len(parts))
	for i, p := range parts {
		n[i], _ = strconv.Atoi(p)
	}
	return n
}

// ---- special components.  Ordinary component k is the generic component "c<k>"; the numbers below stand for components
// chosen at the boundaries of the encodings the tables' keys go through (hash input, Name.Bytes(), Name.String()):
//   61..69   same-print / typed siblings: segment 5 as 05 / 00 05 / 00 00 00 05, the other numeric conventions, generic
//   91..96   very long values (65535, 65536, 65537, 70000 bytes; 95/96 = 65535/65536 differing from 91/92 in the last byte)
//   101..112 value lengths 249..254 (component TLV and whole-name lengths around 253), two siblings per length that differ
//            only in the last byte;  113..118 component types 252, 253, 254, two values each
var special = map[int]enc.Component{}
var specialKey = map[string]int{}

func compKey(c enc.Component) string { return strconv.FormatUint(uint64(c.Typ), 10) + "|" + string(c.Val) }

func filled(n int, last byte) []byte {
	v := make([]byte, n)
	for i := range v {
		v[i] = byte('a' + i%7)
	}
	if n > 0 {
		v[n-1] = last
	}
	return v
}

func init() {
	add := func(k int, typ enc.TLNum, val []byte) {
		c := enc.Component{Typ: typ, Val: val}
		special[k] = c
		specialKey[compKey(c)] = k
	}
	add(61, 50, []byte{5})
	add(62, 50, []byte{0, 5})
	add(63, 50, []byte{0, 0, 0, 5})
	add(64, 52, []byte{5})
	add(65, 54, []byte{5})
	add(66, 56, []byte{5})
	add(67, 58, []byte{5})
	add(68, 8, []byte{5})
	add(69, 52, []byte{0, 5})
	for i, n := range []int{65535, 65536, 65537, 70000} {
		add(91+i, enc.TypeGenericNameComponent, filled(n, 'x'))
	}
	add(95, enc.TypeGenericNameComponent, filled(65535, 'y'))
	add(96, enc.TypeGenericNameComponent, filled(65536, 'y'))
	for i, n := range []int{249, 250, 251, 252, 253, 254} {
		add(101+2*i, enc.TypeGenericNameComponent, filled(n, 'x'))
		add(102+2*i, enc.TypeGenericNameComponent, filled(n, 'y'))
	}
	for i, t := range []enc.TLNum{252, 253, 254} {
		add(113+2*i, t, []byte("t"))
		add(114+2*i, t, []byte("u"))
	}
}

func isLong(k int) bool { return k >= 91 && k <= 96 }

func comp(k int) enc.Component {
	if c, ok := special[k]; ok {
		return enc.Component{Typ: c.Typ, Val: append([]byte{}, c.Val...)}
	}
	return enc.NewStringComponent(enc.TypeGenericNameComponent, "c"+strconv.Itoa(k))
}

func (n iname) enc() enc.Name {
	out := make(enc.Name, len(n))
	for i, c := range n {
		out[i] = comp(c)
	}
	return out
}

// encVia builds the name the way real callers obtain names: "" by construction, "s" through enc.NameFromStr of its URI,
// "b" through enc.NameFromBytes of its wire encoding (as a decoded ControlParameters name).  "s" is only used for names of
// ordinary components (the URI of a non-canonical numeric component does not parse back to the same component).
func (n iname) encVia(via string) enc.Name {
	built := n.enc()
	switch via {
	case "s":
		for _, k := range n {
			if _, sp := special[k]; sp {
				return built
			}
		}
		if p, err := enc.NameFromStr(built.String()); err == nil {
			return p
		}
	case "b":
		if p, err := enc.NameFromBytes(built.Bytes()); err == nil {
			return p
		}
	}
	return built
}

// splitVia separates "/1/2~s" into the name and the representation marker
func splitVia(s string) (string, string) {
	if i := strings.IndexByte(s, '~'); i >= 0 {
		return s[:i], s[i+1:]
	}
	return s, ""
}

func unintern(n enc.Name) string {
	in := make(iname, len(n))
	for i, c := range n {
		if k, ok := specialKey[compKey(c)]; ok {
			in[i] = k
			continue
		}
		s := string(c.Val)
		if c.Typ != enc.TypeGenericNameComponent || !strings.HasPrefix(s, "c") {
			return "?" + fmt.Sprintf("typ %d, %d-byte component", c.Typ, len(c.Val))
		}
		k, err := strconv.Atoi(s[1:])
		if err != nil {
			return "?" + n.String()
		}
		in[i] = k
	}
	return in.String()
}

func stratName(s int) enc.Name {
	if s == 0 {
		n, _ := enc.NameFromStr("/localhost/nfd/strategy/best-route/v=1")
		return n
	}
	n, _ := enc.NameFromStr("/localhost/nfd/strategy/s" + strconv.Itoa(s) + "/v=1")
	return n
}

func stratStr(n enc.Name) string {
	if n == nil {
		return "-"
	}
	s := n.String()
	if s == "/localhost/nfd/strategy/best-route/v=1" {
		return "0"
	}
	if strings.HasPrefix(s, "/localhost/nfd/strategy/s") && strings.HasSuffix(s, "/v=1") {
		return strings.TrimSuffix(strings.TrimPrefix(s, "/localhost/nfd/strategy/s"), "/v=1")
	}
	return "?" + s
}

// ---------------------------------------------------------------- faces
// RIB histories use the REAL face table (fw/face/table.go is an anchor of C06): a logical face number of the trace is a
// stub face registered with face.FaceTable.Add; "cleanup f" is face.FaceTable.Remove(id) (face table, dispatch table,
// Rib.CleanUpFace) -- also a second time for a face that is already gone but got routes registered in between.
type faceMapT struct {
	real    map[uint64]uint64 // logical -> FaceID
	logical map[uint64]uint64 // FaceID -> logical
	tr      map[uint64]*face.VerifTransport
	done    map[uint64]<-chan struct{} // closed when the link service's send goroutine (teardown) has returned
}

var curFaces *faceMapT

func newFaceMap() *faceMapT {
	return &faceMapT{real: map[uint64]uint64{}, logical: map[uint64]uint64{}, tr: map[uint64]*face.VerifTransport{}, done: map[uint64]<-chan struct{}{}}
}

// id: the FaceID of a logical face; the face is a real NDNLP link service over an in-memory transport, started with
// Run (face table registration, receive and send goroutines) the first time it is mentioned
func (m *faceMapT) id(logical uint64) uint64 {
	if id, ok := m.real[logical]; ok {
		return id
	}
	t := face.NewVerifTransport(8800, defn.NonLocal)
	l := face.MakeNDNLPLinkService(t, face.MakeNDNLPLinkServiceOptions())
	m.done[logical] = face.VerifRunLinkService(l) // Run(nil) plus a completion signal of the send goroutine
	m.real[logical] = l.FaceID()
	m.logical[l.FaceID()] = logical
	m.tr[logical] = t
	return l.FaceID()
}


// closeFace: the transport ends; the link service's own goroutines tear the face down (runSend -> FaceTable.Remove ->
// Rib.CleanUpFace).  Returns when runSend has returned (signalled by the hook that started the link service): no
// wall-clock limit is involved.
func (m *faceMapT) closeFace(logical uint64) {
	m.id(logical)
	t := m.tr[logical]
	if t == nil {
		return
	}
	t.Close()
	<-m.done[logical]
	m.tr[logical] = nil
}

func (m *faceMapT) release() {
	for l, id := range m.real {
		if face.FaceTable.Get(id) != nil {
			face.FaceTable.Remove(id)
		}
		if m.tr[l] != nil {
			m.closeFace(l)
		}
	}
}

// faceNo prints a FaceID as the logical number of the trace
func faceNo(id uint64) uint64 {
	if curFaces != nil {
		if l, ok := curFaces.logical[id]; ok {
			return l
		}
	}
	return id
}

// ---------------------------------------------------------------- cases
type op struct {
	kind string
	name iname
	a    []uint64 // numeric arguments
	text string   // rep: the batch "name=f:c,f:c;name=-;..."
	via  string   // how the name is obtained (see encVia)
}

func (o op) ename() enc.Name { return o.name.encVia(o.via) }

func (o op) String() string {
	if o.kind == "rep" {
		return "rep " + o.text
	}
	var sb strings.Builder
	sb.WriteString(o.kind)
	if o.kind != "cleanup" {
		sb.WriteByte(' ')
		sb.WriteString(o.name.String())
		if o.via != "" {
			sb.WriteString("~" + o.via)
		}
	}
	for _, x := range o.a {
		sb.WriteByte(' ')
		sb.WriteString(strconv.FormatUint(x, 10))
	}
	return sb.String()
}

type tcase struct {
	id       string
	m        int
	kind     string // fib | rib
	impls    string
	universe []iname
	ops      []op
}

func parseOp(fields []string) op {
	o := op{kind: fields[0]}
	if o.kind == "rep" && len(fields) > 1 {
		o.text = fields[1]
		return o
	}
	rest := fields[1:]
	if o.kind != "cleanup" && len(rest) > 0 {
		nm, via := splitVia(rest[0])
		o.name, o.via = parseIName(nm), via
		rest = rest[1:]
	}
	for _, f := range rest {
		x, _ := strconv.ParseUint(f, 10, 64)
		o.a = append(o.a, x)
	}
	return o
}

// readCases parses a file of C/U/O lines (the op part of a trace); other lines are ignored.
func readCases(path string) ([]*tcase, error) {
	f, err := os.Open(path)
	if err != nil {
		return nil, err
	}
	defer f.Close()
	var cases []*tcase
	var cur *tcase
	sc := bufio.NewScanner(f)
	sc.Buffer(make([]byte, 1<<20), 1<<26)
	for sc.Scan() {
		fields := strings.Fields(sc.Text())
		if len(fields) == 0 {
			continue
		}
		switch fields[0] {
		case "C":
			if len(fields) < 5 {
				continue
			}
			m, _ := strconv.Atoi(fields[2])
			cur = &tcase{id: fields[1], m: m, kind: fields[3], impls: fields[4]}
			cases = append(cases, cur)
		case "U":
			if cur != nil {
				for _, s := range fields[1:] {
					cur.universe = append(cur.universe, parseIName(s))
				}
			}
		case "O":
			if cur != nil && len(fields) >= 2 {
				cur.ops = append(cur.ops, parseOp(fields[1:]))
			}
		}
	}
	return cases, sc.Err()
}

// ---------------------------------------------------------------- observation
func nhStr(nhs []*table.FibNextHopEntry) string {
	if len(nhs) == 0 {
		return "-"
	}
	parts := make([]string, len(nhs))
	for i, nh := range nhs {
		parts[i] = strconv.FormatUint(faceNo(nh.Nexthop), 10) + ":" + strconv.FormatUint(nh.Cost, 10)
	}
	return strings.Join(parts, ",")
}

func vnhStr(nhs []table.VerifNextHop) string {
	if len(nhs) == 0 {
		return "-"
	}
	parts := make([]string, len(nhs))
	for i, nh := range nhs {
		parts[i] = strconv.FormatUint(faceNo(nh.Face), 10) + ":" + strconv.FormatUint(nh.Cost, 10)
	}
	return strings.Join(parts, ",")
}

func joinSorted(items []string) string {
	if len(items) == 0 {
		return "-"
	}
	sort.Strings(items)
	return strings.Join(items, ";")
}

type obsCtx struct {
	w     *bufio.Writer
	c     *tcase
	label string
	fib   table.FibStrategy
	hash  map[uint64]string // hash -> interned name, for every prefix of a universe/op name
	rot   int               // rotates the representation used for each universe name from lookup round to lookup round
}

func (x *obsCtx) anomaly(format string, a ...any) {
	fmt.Fprintf(x.w, "X %s %s\n", x.label, fmt.Sprintf(format, a...))
}

func (x *obsCtx) lookups() {
	x.rot++
	nh := make([]string, len(x.c.universe))
	st := make([]string, len(x.c.universe))
	for i, n := range x.c.universe {
		en := n.encVia([]string{"", "s", "b"}[(i+x.rot)%3])
		nh[i] = nhStr(x.fib.FindNextHopsEnc(en))
		st[i] = stratStr(x.fib.FindStrategyEnc(en))
	}
	fmt.Fprintf(x.w, "%s nh %s\n", x.label, strings.Join(nh, "|"))
	fmt.Fprintf(x.w, "%s st %s\n", x.label, strings.Join(st, "|"))
}

func (x *obsCtx) listings() {
	var items []string
	for _, e := range x.fib.GetAllFIBEntries() {
		items = append(items, unintern(e.Name())+"="+nhStr(e.GetNextHops()))
	}
	fmt.Fprintf(x.w, "%s fib %s\n", x.label, joinSorted(items))
	items = nil
	for _, e := range x.fib.GetAllForwardingStrategies() {
		items = append(items, unintern(e.Name())+"="+stratStr(e.GetStrategy()))
	}
	fmt.Fprintf(x.w, "%s sl %s\n", x.label, joinSorted(items))
}

func (x *obsCtx) resolve(h uint64) string {
	if s, ok := x.hash[h]; ok {
		return s
	}
	return "?h" + strconv.FormatUint(h, 16)
}

func (x *obsCtx) structure() {
	if x.label == "T" {
		var items []string
		for _, n := range table.VerifFibTreeNodes() {
			if !n.NameOK {
				x.anomaly("tree node %s carries a different name field", unintern(n.Path))
			}
			if (len(n.NextHops) > 0 || n.Strategy != nil) && !n.HasName {
				x.anomaly("tree node %s has payload but no name", unintern(n.Path))
			}
			items = append(items, unintern(n.Path)+"="+vnhStr(n.NextHops)+"="+stratStr(n.Strategy))
		}
		fmt.Fprintf(x.w, "T nodes %s\n", joinSorted(items))
		items = nil
		paths, attached := table.VerifFibTreePrefixes()
		for i, p := range paths {
			s := unintern(p)
			if !attached[i] {
				s += "!detached"
			}
			items = append(items, s)
		}
		fmt.Fprintf(x.w, "T pfx %s\n", joinSorted(items))
		return
	}
	m, realT, virt, vn, ok := table.VerifFibHashTables()
	if !ok {
		return
	}
	if m != x.c.m {
		x.anomaly("hash table m=%d, case m=%d", m, x.c.m)
	}
	var items []string
	for _, n := range realT {
		if !n.NameOK {
			x.anomaly("real entry %s stored under a key that is not its name hash", unintern(n.Path))
		}
		items = append(items, unintern(n.Path)+"="+vnhStr(n.NextHops)+"="+stratStr(n.Strategy))
	}
	fmt.Fprintf(x.w, "H real %s\n", joinSorted(items))
	items = nil
	for k, md := range virt {
		items = append(items, x.resolve(k)+"="+strconv.Itoa(md))
	}
	fmt.Fprintf(x.w, "H virt %s\n", joinSorted(items))
	items = nil
	for k, set := range vn {
		var names []string
		for nb, l := range set {
			nm, err := enc.NameFromBytes([]byte(nb))
			s := "?bytes"
			if err == nil {
				s = unintern(nm)
				if len(nm) != l {
					x.anomaly("virtual name set of %s records length %d for %s", x.resolve(k), l, s)
				}
			}
			names = append(names, s)
		}
		sort.Strings(names)
		items = append(items, x.resolve(k)+"="+strings.Join(names, ","))
	}
	fmt.Fprintf(x.w, "H vn %s\n", joinSorted(items))
}

func routeStr(face, origin, cost, flags uint64) string {
	return fmt.Sprintf("%d:%d:%d:%d", face, origin, cost, flags)
}

func (x *obsCtx) ribObs() {
	var items []string
	for _, e := range table.Rib.GetAllEntries() {
		var rs []string
		for _, r := range e.GetRoutes() {
			rs = append(rs, routeStr(faceNo(r.FaceID), r.Origin, r.Cost, r.Flags))
		}
		sort.Strings(rs)
		items = append(items, unintern(e.Name)+"="+strings.Join(rs, ","))
	}
	fmt.Fprintf(x.w, "%s rib %s\n", x.label, joinSorted(items))
	items = nil
	for _, n := range table.VerifRibNodes() {
		if !n.NameOK {
			x.anomaly("rib node %s carries a different Name", unintern(n.Path))
		}
		var rs []string
		for _, r := range n.Routes {
			rs = append(rs, routeStr(faceNo(r.Face), r.Origin, r.Cost, r.Flags))
		}
		named := "0"
		if n.HasName {
			named = "1"
		}
		r := "-"
		if len(rs) > 0 {
			r = strings.Join(rs, ",") // table order
		}
		items = append(items, unintern(n.Path)+"="+named+"="+r)
	}
	fmt.Fprintf(x.w, "%s rnodes %s\n", x.label, joinSorted(items))
}

// ---------------------------------------------------------------- running a case
func newFib(kind string, m int) table.FibStrategy {
	core.GetConfig().Tables.Fib.Hashtable.M = uint16(m)
	table.CreateFIBTable(kind)
	return table.FibStrategyTable
}

func applyFib(f table.FibStrategy, o op) {
	n := o.ename()
	switch o.kind {
	case "ins":
		f.InsertNextHopEnc(n, o.a[0], o.a[1])
	case "clr":
		f.ClearNextHopsEnc(n)
	case "rem":
		f.RemoveNextHopEnc(n, o.a[0])
	case "sets":
		f.SetStrategyEnc(n, stratName(int(o.a[0])))
	case "uns":
		f.UnSetStrategyEnc(n)
	case "rep":
		var updates []table.FibNextHopsUpdate
		for _, item := range strings.Split(o.text, ";") {
			kv := strings.SplitN(item, "=", 2)
			nm, via := splitVia(kv[0])
			u := table.FibNextHopsUpdate{Name: parseIName(nm).encVia(via)}
			if len(kv) == 2 && kv[1] != "-" {
				for _, h := range strings.Split(kv[1], ",") {
					fc := strings.SplitN(h, ":", 2)
					face, _ := strconv.ParseUint(fc[0], 10, 64)
					cost, _ := strconv.ParseUint(fc[1], 10, 64)
					u.NextHops = append(u.NextHops, table.FibNextHopEntry{Nexthop: face, Cost: cost})
				}
			}
			updates = append(updates, u)
		}
		f.ReplaceNextHopsEnc(updates)
	}
}

func applyRib(o op) {
	switch o.kind {
	case "sets", "uns": // strategy choice made directly on the FIB the RIB writes to
		applyFib(table.FibStrategyTable, o)
	case "reg":
		table.Rib.AddEncRoute(o.ename(), &table.Route{FaceID: curFaces.id(o.a[0]), Origin: o.a[1], Cost: o.a[2], Flags: o.a[3]})
	case "unreg":
		table.Rib.RemoveRouteEnc(o.ename(), curFaces.id(o.a[0]), o.a[1])
	case "cleanup":
		if len(o.a) > 1 && o.a[1] == 1 && curFaces.tr[o.a[0]] != nil {
			curFaces.closeFace(o.a[0]) // the transport ends: teardown by the face's own goroutines
		} else {
			face.FaceTable.Remove(curFaces.id(o.a[0])) // management faces/destroy: out of the tables, transport still running
		}
	}
}

func guarded(x *obsCtx, what string, f func()) {
	defer func() {
		if e := recover(); e != nil {
			x.anomaly("panic in %s: %v", what, e)
		}
	}()
	f()
}

// caseBudget: wall-clock budget of one history; a slow implementation is reported as slow instead of hanging the check
var caseBudget = 4 * time.Second

// slowSeen: a history ran over its budget; no further histories with very long components are generated in this run
var slowSeen bool

func runCase(w *bufio.Writer, c *tcase) {
	started := time.Now()
	defer func() {
		if d := time.Since(started); d > caseBudget {
			slowSeen = true
			// a wall-clock budget never decides a verdict: this is a note for the evidence, not an anomaly
			fmt.Fprintf(w, "N slow: the history %s (%d operations) took %v, budget %v; the rest of it was skipped\n", c.id, len(c.ops), d.Round(time.Millisecond), caseBudget)
		}
	}()
	fmt.Fprintf(w, "C %s %d %s %s\n", c.id, c.m, c.kind, c.impls)
	us := make([]string, len(c.universe))
	for i, n := range c.universe {
		us[i] = n.String()
	}
	fmt.Fprintf(w, "U %s\n", strings.Join(us, " "))
	// hash -> name map over every prefix of every name in the case; collisions are reported
	hash := map[uint64]string{}
	addHash := func(n iname) {
		for k := 0; k <= len(n); k++ {
			p := n[:k]
			h := p.enc().Hash()
			if old, ok := hash[h]; ok && old != p.String() {
				fmt.Fprintf(w, "X - hash collision between %s and %s\n", old, p.String())
			}
			hash[h] = p.String()
		}
	}
	for _, n := range c.universe {
		addHash(n)
	}
	for _, o := range c.ops {
		addHash(o.name)
		if o.kind == "rep" {
			for _, item := range strings.Split(o.text, ";") {
				nm, _ := splitVia(strings.SplitN(item, "=", 2)[0])
				addHash(parseIName(nm))
			}
		}
	}
	var ctxs []*obsCtx
	if c.kind == "fib" {
		for _, l := range c.impls {
			x := &obsCtx{w: w, c: c, label: string(l), hash: hash}
			if l == 'T' {
				x.fib = newFib("nametree", c.m)
			} else {
				x.fib = newFib("hashtable", c.m)
			}
			ctxs = append(ctxs, x)
		}
	} else {
		x := &obsCtx{w: w, c: c, label: c.impls, hash: hash}
		if c.impls == "T" {
			x.fib = newFib("nametree", c.m)
		} else {
			x.fib = newFib("hashtable", c.m)
		}
		table.VerifResetRib()
		curFaces = newFaceMap()
		defer func() { curFaces.release(); curFaces = nil }()
		ctxs = append(ctxs, x)
	}
	for _, o := range c.ops {
		if time.Since(started) > caseBudget {
			break // reported as slow by the deferred check
		}
		fmt.Fprintf(w, "O %s\n", o.String())
		for _, x := range ctxs {
			// the tree's dump hook reads the package global
			table.FibStrategyTable = x.fib
			guarded(x, o.String(), func() {
				if c.kind == "fib" {
					applyFib(x.fib, o)
				} else {
					applyRib(o)
				}
			})
			guarded(x, "observe", func() {
				x.lookups()
				x.listings()
				x.structure()
				if c.kind == "rib" {
					x.ribObs()
				}
			})
		}
	}
	fmt.Fprintf(w, "E\n")
}

// ---------------------------------------------------------------- generators
type gen struct{ r *rand.Rand }

func (g *gen) pick(xs []uint64) uint64 { return xs[g.r.Intn(len(xs))] }

// prefixes: a family of nested and sibling names of depth 0..6 sharing long prefixes
func (g *gen) prefixes() []iname {
	alpha := 2 + g.r.Intn(2)
	spine := make(iname, 6)
	for i := range spine {
		spine[i] = 1 + g.r.Intn(alpha)
	}
	seen := map[string]bool{}
	var out []iname
	add := func(n iname) {
		if len(n) > 7 {
			return
		}
		if !seen[n.String()] {
			seen[n.String()] = true
			out = append(out, append(iname{}, n...))
		}
	}
	add(iname{})
	k := 4 + g.r.Intn(6)
	for i := 0; i < k; i++ {
		switch g.r.Intn(4) {
		case 0, 1: // a prefix of the spine
			add(spine[:g.r.Intn(7)])
		case 2: // a sibling branching off the spine
			d := g.r.Intn(6)
			n := append(iname{}, spine[:d]...)
			n = append(n, 1+g.r.Intn(alpha+1))
			for g.r.Intn(2) == 0 && len(n) < 6 {
				n = append(n, 1+g.r.Intn(alpha))
			}
			add(n)
		case 3: // extend an existing one
			b := out[g.r.Intn(len(out))]
			n := append(append(iname{}, b...), 1+g.r.Intn(alpha))
			add(n)
		}
	}
	return out
}

// universe: the prefixes, their parents, and extensions by one or two components
func (g *gen) universe(pfx []iname) []iname {
	seen := map[string]bool{}
	var out []iname
	add := func(n iname) {
		if !seen[n.String()] && len(out) < 28 {
			seen[n.String()] = true
			out = append(out, append(iname{}, n...))
		}
	}
	add(iname{})
	for _, p := range pfx {
		add(p)
	}
	for _, p := range pfx {
		if len(p) > 0 {
			add(p[:len(p)-1])
		}
		e := append(append(iname{}, p...), 1+g.r.Intn(3))
		add(e)
		if g.r.Intn(2) == 0 {
			add(append(append(iname{}, e...), 1+g.r.Intn(3)))
		}
	}
	return out
}

var costs = []uint64{0, 1, 1, 5, 10, 10, 200, 1<<64 - 1}

// withLong: some of the prefixes get a very long component (in the middle or at the end), next to their short siblings
func (g *gen) withLong(pfx []iname) []iname {
	out := append([]iname{}, pfx...)
	for j := 0; j < 3; j++ {
		b := pfx[g.r.Intn(len(pfx))]
		if len(b) >= 6 {
			continue
		}
		n := append(iname{}, b...)
		n = append(n, 91+g.r.Intn(6))
		out = append(out, n)
		if g.r.Intn(2) == 0 {
			out = append(out, append(append(iname{}, n...), 1+g.r.Intn(2)))
		}
		if g.r.Intn(2) == 0 { // the same position with another long component of a neighbouring length
			n2 := append(append(iname{}, b...), 91+g.r.Intn(6))
			out = append(out, n2)
		}
	}
	return out
}

// withBoundary: under one parent, siblings whose value length / type / whole-name length sit at the encoding boundaries
// (around 253), pairs differing only in the last byte
func (g *gen) withBoundary(pfx []iname) []iname {
	out := append([]iname{}, pfx...)
	for j := 0; j < 2; j++ {
		b := pfx[g.r.Intn(len(pfx))]
		if len(b) >= 6 {
			continue
		}
		k0 := 101 + 2*g.r.Intn(9) // a sibling pair
		for _, k := range []int{k0, k0 + 1, 101 + g.r.Intn(18)} {
			n := append(append(iname{}, b...), k)
			out = append(out, n)
			if g.r.Intn(3) == 0 {
				out = append(out, append(append(iname{}, n...), 1+g.r.Intn(2)))
			}
		}
	}
	return out
}

var vias = []string{"", "", "s", "b"}

func (g *gen) via() string { return vias[g.r.Intn(len(vias))] }

// withTyped: under one parent, siblings that differ only in component type or in the byte form of the same number
func (g *gen) withTyped(pfx []iname) []iname {
	out := append([]iname{}, pfx...)
	for j := 0; j < 2; j++ {
		b := pfx[g.r.Intn(len(pfx))]
		if len(b) >= 6 {
			continue
		}
		ks := g.r.Perm(9)[:3+g.r.Intn(3)]
		for _, k := range ks {
			n := append(append(iname{}, b...), 61+k)
			out = append(out, n)
			if g.r.Intn(3) == 0 {
				out = append(out, append(append(iname{}, n...), 1+g.r.Intn(2)))
			}
		}
	}
	return out
}

func (g *gen) fibCase(id string, m int) *tcase {
	pfx := g.prefixes()
	long := false
	switch g.r.Intn(12) {
	case 0:
		if !slowSeen {
			pfx, long = g.withLong(pfx), true
		}
	case 1, 2, 3:
		pfx = g.withTyped(pfx)
	case 4, 5:
		pfx = g.withBoundary(pfx)
	}
	c := &tcase{id: id, m: m, kind: "fib", impls: "TH", universe: g.universe(pfx)}
	nops := 10 + g.r.Intn(51)
	if long {
		nops = 8 + g.r.Intn(8) // very long components make every operation expensive: short histories
	}
	unsetRoot := g.r.Intn(10) == 0 // adversarial stream: the root strategy may be unset
	for i := 0; i < nops; i++ {
		var n iname
		if g.r.Intn(5) != 0 {
			n = pfx[g.r.Intn(len(pfx))]
		} else {
			n = c.universe[g.r.Intn(len(c.universe))]
		}
		face := uint64(1 + g.r.Intn(4))
		switch k := g.r.Intn(100); {
		case k < 8: // a batch: several prefixes, an emptied one before others
			var items []string
			nb := 1 + g.r.Intn(4)
			for j := 0; j < nb; j++ {
				bn := pfx[g.r.Intn(len(pfx))]
				hops := "-"
				if nh := g.r.Intn(4); nh > 0 && !(j == 0 && nb > 1 && g.r.Intn(2) == 0) {
					var hs []string
					for _, fperm := range g.r.Perm(4)[:nh] {
						hs = append(hs, fmt.Sprintf("%d:%d", fperm+1, g.pick(costs)))
					}
					hops = strings.Join(hs, ",")
				}
				bv := bn.String()
				if v := g.via(); v != "" {
					bv += "~" + v
				}
				items = append(items, bv+"="+hops)
			}
			c.ops = append(c.ops, op{kind: "rep", text: strings.Join(items, ";")})
		case k < 35:
			c.ops = append(c.ops, op{via: g.via(), kind: "ins", name: n, a: []uint64{face, g.pick(costs)}})
		case k < 55:
			c.ops = append(c.ops, op{via: g.via(), kind: "rem", name: n, a: []uint64{face}})
		case k < 65:
			c.ops = append(c.ops, op{via: g.via(), kind: "clr", name: n, a: nil})
		case k < 82:
			c.ops = append(c.ops, op{via: g.via(), kind: "sets", name: n, a: []uint64{uint64(g.r.Intn(4))}})
		default:
			if len(n) == 0 && !unsetRoot {
				continue
			}
			c.ops = append(c.ops, op{via: g.via(), kind: "uns", name: n, a: nil})
		}
	}
	return c
}

var origins = []uint64{0, 0, 65, 128, 255}

func (g *gen) ribCase(id string, m int, impl string) *tcase {
	pfx := g.prefixes()
	switch g.r.Intn(8) {
	case 0, 1:
		pfx = g.withTyped(pfx)
	case 2:
		pfx = g.withBoundary(pfx)
	}
	c := &tcase{id: id, m: m, kind: "rib", impls: impl, universe: g.universe(pfx)}
	type reg struct {
		n            iname
		face, origin uint64
	}
	var live []reg
	var stratNames []iname
	add := func(n iname, face, origin, cost, flags uint64) {
		c.ops = append(c.ops, op{via: g.via(), kind: "reg", name: n, a: []uint64{face, origin, cost, flags}})
		live = append(live, reg{n, face, origin})
	}
	// one history in three starts from a nested chain: child-inherit routes above, a CAPTURE-ONLY (flags = 2) or other
	// route in the middle, own routes below -- and then takes routes away again, middle ones first
	if g.r.Intn(3) == 0 {
		var chain []iname
		for _, p := range pfx {
			ok := true
			for _, q := range chain {
				if !(len(q) < len(p) && iname(p[:len(q)]).String() == q.String()) {
					ok = false
				}
			}
			if ok && (len(chain) == 0 || len(p) > len(chain[len(chain)-1])) {
				chain = append(chain, p)
			}
		}
		if len(chain) >= 3 {
			top, mid, low := chain[0], chain[len(chain)/2], chain[len(chain)-1]
			add(top, 1, 0, g.pick(costs), 1)
			add(mid, 2, 0, g.pick(costs), []uint64{2, 2, 2, 3, 0}[g.r.Intn(5)])
			add(low, 3, 0, g.pick(costs), uint64(g.r.Intn(2)))
			if g.r.Intn(2) == 0 {
				add(mid, 4, 65, g.pick(costs), 1)
			}
			c.ops = append(c.ops, op{via: g.via(), kind: "unreg", name: mid, a: []uint64{2, 0}})
		}
	}
	nops := 6 + g.r.Intn(35)
	for i := 0; i < nops; i++ {
		n := pfx[g.r.Intn(len(pfx))]
		face := uint64(1 + g.r.Intn(4))
		origin := g.pick(origins)
		if len(live) > 0 && g.r.Intn(8) == 0 {
			// strategy choice on a (mostly routeless) prefix below a routed one; it must not change any route lookup
			b := live[g.r.Intn(len(live))].n
			sn := append(append(iname{}, b...), 1+g.r.Intn(3))
			if g.r.Intn(3) == 0 {
				sn = append(sn, 1+g.r.Intn(2))
			}
			if g.r.Intn(2) == 0 {
				c.ops = append(c.ops, op{via: g.via(), kind: "sets", name: sn, a: []uint64{uint64(g.r.Intn(4))}})
				stratNames = append(stratNames, sn)
			} else if len(stratNames) > 0 {
				c.ops = append(c.ops, op{via: g.via(), kind: "uns", name: stratNames[g.r.Intn(len(stratNames))], a: nil})
			}
			continue
		}
		switch k := g.r.Intn(100); {
		case k < 50:
			add(n, face, origin, g.pick(costs), uint64(g.r.Intn(4)))
		case k < 88:
			if len(live) > 0 && g.r.Intn(5) != 0 { // mostly a route that is (or was) registered
				r := live[g.r.Intn(len(live))]
				n, face, origin = r.n, r.face, r.origin
			}
			c.ops = append(c.ops, op{via: g.via(), kind: "unreg", name: n, a: []uint64{face, origin}})
		default:
			c.ops = append(c.ops, op{kind: "cleanup", name: nil, a: []uint64{face}})
		}
	}
	// the last operation that names a face, if it is a cleanup, is in one case of two the transport closing (the face's
	// own goroutines tear it down) -- typically after an earlier destroy and registrations in between
	lastUse := map[uint64]int{}
	for i, o := range c.ops {
		if (o.kind == "reg" || o.kind == "unreg" || o.kind == "cleanup") && len(o.a) > 0 {
			lastUse[o.a[0]] = i
		}
	}
	for f, i := range lastUse {
		if c.ops[i].kind == "cleanup" && (f+uint64(len(c.ops)))%2 == 0 {
			c.ops[i].a = []uint64{f, 1}
		}
	}
	return c
}

// ---------------------------------------------------------------- entry point
func TestTrace(t *testing.T) {
	out := os.Getenv("VERIF_OUT")
	if out == "" {
		t.Skip("VERIF_OUT not set")
	}
	seed, _ := strconv.ParseInt(os.Getenv("VERIF_SEED"), 10, 64)
	ncases := 100
	if s := os.Getenv("VERIF_N"); s != "" {
		ncases, _ = strconv.Atoi(s)
	}
	kind := os.Getenv("VERIF_KIND") // fib | rib
	if kind == "" {
		kind = "fib"
	}
	ms := []int{1, 2, 3}
	if s := os.Getenv("VERIF_MS"); s != "" {
		ms = nil
		for _, p := range strings.Split(s, ",") {
			v, _ := strconv.Atoi(p)
			if v >= 1 {
				ms = append(ms, v)
			}
		}
	}
	core.LoadConfig(core.DefaultConfig(), "/tmp")
	core.GetConfig().Core.LogLevel = "ERROR"
	table.Configure()

	f, err := os.Create(out)
	if err != nil {
		t.Fatal(err)
	}
	defer f.Close()
	w := bufio.NewWriterSize(f, 1<<20)
	defer w.Flush()

	// replayed cases first (corpus files and/or VERIF_OPS), then generated ones
	for _, p := range strings.Split(os.Getenv("VERIF_OPS"), ":") {
		if p == "" {
			continue
		}
		cases, err := readCases(p)
		if err != nil {
			t.Fatalf("cannot read %s: %v", p, err)
		}
		for _, c := range cases {
			if c.kind == kind || os.Getenv("VERIF_KIND") == "" {
				runCase(w, c)
			}
		}
	}
	g := &gen{r: rand.New(rand.NewSource(seed))}
	for i := 0; i < ncases; i++ {
		m := ms[i%len(ms)]
		if kind == "fib" {
			runCase(w, g.fibCase("g"+strconv.Itoa(i), m))
		} else {
			// the same history against both FIB implementations
			c := g.ribCase("g"+strconv.Itoa(i)+"T", m, "T")
			runCase(w, c)
			c2 := *c
			c2.id = "g" + strconv.Itoa(i) + "H"
			c2.impls = "H"
			runCase(w, &c2)
		}
	}
}
