// Harness for C11 (stream framing) and the stream part of C04: drives the real fw/face readTlvStream with a
// scripted io.Reader (chosen chunk sizes) and writes a trace for the Coq runner (runner/Face/driver.ml).
//
// Trace / corpus format (one case):
//
//	CASE <id> <kind>
//	S <hex>            stream bytes (several S lines are concatenated)
//	R <items>          read schedule: "k" (a Read returning at most k bytes), "k*n" (n such reads), "!" (a Read returning 0 bytes
//	                   and an error that ignoreError accepts).  After the schedule the reader returns io.EOF.
//	B <lens>           lengths of the generated blocks ("-" for adversarial streams without a block structure)
//	I <result> <consumed>   implementation: ok | err:toomuch | err:other | panic | spin ; bytes consumed from the scripted reader
//	F <len>:<md5/8> ...     frames handed to onFrame, in order (several F lines)
//	END
package facelp

import (
	"bufio"
	"crypto/md5"
	"encoding/hex"
	"errors"
	"fmt"
	"io"
	"math/rand"
	"os"
	"path/filepath"
	"sort"
	"strconv"
	"strings"
	"testing"

	"github.com/named-data/ndnd/fw/face"
	enc "github.com/named-data/ndnd/std/encoding"
)

type schedItem struct {
	k    int  // requested size
	n    int  // repeat
	ign  bool // ignorable error, no data
	fail bool // a Read that fails with an error that is neither EOF nor ignorable: readTlvStream returns it
}

type streamCase struct {
	id     string
	kind   string
	stream []byte
	sched  []schedItem
	blocks []int // nil: no block structure
}

var errSpin = errors.New("verif: zero-length Read (the framer would spin)")
var errIgn = errors.New("verif: ignorable error")
var errOther = errors.New("verif: connection reset")

type spinSentinel struct{}

// scriptedReader returns min(k, len(p), remaining) bytes per Read following the schedule; EOF when the schedule ends.
type scriptedReader struct {
	data     []byte
	pos      int
	sched    []schedItem
	si, sn   int
	zeroBufs int
}

func (r *scriptedReader) Read(p []byte) (int, error) {
	if len(p) == 0 {
		// a Read into an empty slice: a socket returns (0, nil) at once.  The framer gets that answer; if it keeps asking
		// (nothing it does between two such reads frees any space) the iteration bound turns the spin into a verdict.
		r.zeroBufs++
		if r.zeroBufs > 1000 {
			return 0, errSpin
		}
		return 0, nil
	}
	r.zeroBufs = 0
	for r.si < len(r.sched) && r.sn >= r.sched[r.si].n {
		r.si++
		r.sn = 0
	}
	if r.si >= len(r.sched) {
		return 0, io.EOF
	}
	it := r.sched[r.si]
	r.sn++
	if it.fail {
		return 0, errOther
	}
	n := it.k
	if n > len(p) {
		n = len(p)
	}
	if n > len(r.data)-r.pos {
		n = len(r.data) - r.pos
	}
	copy(p, r.data[r.pos:r.pos+n])
	r.pos += n
	if it.ign {
		return n, errIgn // io.Reader permits n > 0 together with an error; k = 0 is the plain failing read ("k!" in the schedule)
	}
	return n, nil
}

type streamResult struct {
	res      string
	consumed int
	frames   []string // "<len>:<md5/8>"
	raw      [][]byte // kept only when keepRaw
}

func frameSig(b []byte) string {
	s := md5.Sum(b)
	return strconv.Itoa(len(b)) + ":" + hex.EncodeToString(s[:4])
}

func runStreamImpl(c *streamCase, keepRaw bool) (res streamResult) {
	rd := &scriptedReader{data: c.stream, sched: c.sched}
	empties := 0
	defer func() {
		res.consumed = rd.pos
		if p := recover(); p != nil {
			if _, ok := p.(spinSentinel); ok {
				res.res = "spin"
			} else {
				res.res = "panic"
			}
		}
	}()
	err := face.VerifReadTlvStream(rd, func(b []byte) {
		if len(b) == 0 {
			empties++
			if empties > 8 {
				panic(spinSentinel{})
			}
		}
		res.frames = append(res.frames, frameSig(b))
		if keepRaw {
			res.raw = append(res.raw, append([]byte{}, b...))
		}
	}, func(e error) bool { return e == errIgn })
	switch {
	case err == nil:
		res.res = "ok"
	case err == errSpin:
		res.res = "spin"
	case strings.Contains(err.Error(), "too much data") || strings.Contains(err.Error(), "maximum packet size"):
		res.res = "err:toomuch"
	default:
		res.res = "err:other"
	}
	return
}

// ---------------------------------------------------------------------------------------------------------------
// generators

func tlnum(v uint64) []byte {
	b := make([]byte, enc.TLNum(v).EncodingLength())
	enc.TLNum(v).EncodeInto(b)
	return b
}

var blockTypes = []uint64{5, 6, 100, 0x64, 7, 0xfc, 0xfd, 0xfe, 0xff, 0x100, 0x320, 0xffff, 0x10000, 0xffffffff, 0x100000000, 1<<64 - 1}

// mkBlock builds a minimal-form TLV block of total size `total` (>= 2, <= 8800 if possible) with type t.
func mkBlockTotal(r *rand.Rand, t uint64, total int) []byte {
	tb := tlnum(t)
	if total < len(tb)+1 {
		total = len(tb) + 1
	}
	// choose vlen so that len(tb)+len(L)+vlen == total (may be off by the L form change: adjust)
	vlen := total - len(tb) - 1
	if vlen > 252 {
		vlen = total - len(tb) - 3
		if vlen < 253 { // totals for which no exact value length exists: fall back to the nearest
			vlen = 253
		}
	}
	return mkBlock(r, t, vlen)
}

func mkBlock(r *rand.Rand, t uint64, vlen int) []byte {
	b := append([]byte{}, tlnum(t)...)
	b = append(b, tlnum(uint64(vlen))...)
	v := make([]byte, vlen)
	switch r.Intn(4) {
	case 0:
		r.Read(v)
	case 1:
		for i := range v {
			v[i] = []byte{0xfd, 0xfe, 0xff, 0x00, 0x05, 0x06}[r.Intn(6)]
		}
	case 2:
		for i := range v {
			v[i] = byte(i)
		}
	default:
		for i := range v {
			v[i] = byte(r.Intn(7))
		}
	}
	return append(b, v...)
}

var boundaryTotals = []int{2, 3, 4, 254, 255, 256, 257, 258, 259, 260, 1500, 8787, 8788, 8795, 8796, 8797, 8798, 8799, 8800}

// pickTotal: mostly small totals (2..maxSmall); with probability rare/1000 a boundary or uniformly chosen total up to 8800.
func pickTotal(r *rand.Rand, maxSmall int, rare int) int {
	x := r.Intn(1000)
	switch {
	case x < rare/2:
		return boundaryTotals[r.Intn(len(boundaryTotals))]
	case x < rare:
		return 2 + r.Intn(8799)
	case x < rare+60:
		return []int{2, 3, 4, 254, 255, 256, 257, 258, 259, 260}[r.Intn(10)]
	default:
		return 2 + r.Intn(maxSmall)
	}
}

func genBlocks(r *rand.Rand, minBytes, maxSmall int, rare int) (stream []byte, lens []int) {
	for len(stream) < minBytes {
		t := blockTypes[r.Intn(len(blockTypes))]
		total := pickTotal(r, maxSmall, rare)
		b := mkBlockTotal(r, t, total)
		if len(b) > 8800 {
			continue
		}
		stream = append(stream, b...)
		lens = append(lens, len(b))
	}
	return
}

// cutSchedule ends reads at interesting places of each block: inside T, between T and L, inside L, one before the end, at the end.
func cutSchedule(r *rand.Rand, stream []byte, lens []int) []schedItem {
	var cuts []int
	off := 0
	for _, l := range lens {
		cand := []int{1, 2, 3, 4, 5, 9, 10, 11, l - 1, l}
		n := 1 + r.Intn(3)
		var cs []int
		for i := 0; i < n; i++ {
			c := cand[r.Intn(len(cand))]
			if c >= 1 && c <= l {
				cs = append(cs, off+c)
			}
		}
		sort.Ints(cs)
		cuts = append(cuts, cs...)
		off += l
	}
	cuts = append(cuts, len(stream))
	var s []schedItem
	prev := 0
	for _, c := range cuts {
		if c > prev {
			s = append(s, schedItem{k: c - prev, n: 1})
			prev = c
		}
		if r.Intn(9) == 0 {
			s = append(s, schedItem{k: 0, n: 1})
		}
		if r.Intn(13) == 0 {
			s = append(s, schedItem{ign: true, n: 1})
		}
	}
	return s
}

var readSizes = []int{1, 1, 2, 3, 7, 64, 100, 1000, 1460, 4096, 8799, 8800, 8801, 20000, 65536, 281600, 1 << 20}

func randSchedule(r *rand.Rand, total int) []schedItem {
	var s []schedItem
	sum := 0
	for sum < total {
		k := readSizes[r.Intn(len(readSizes))]
		n := 1 + r.Intn(4)
		if k <= 7 {
			n = 1 + r.Intn(300)
		}
		s = append(s, schedItem{k: k, n: n})
		sum += k * n
		if r.Intn(10) == 0 {
			s = append(s, schedItem{k: 0, n: 1 + r.Intn(2)})
		}
		if r.Intn(15) == 0 {
			s = append(s, schedItem{ign: true, n: 1})
		}
	}
	// the reader may deliver fewer bytes than requested when the buffer is short of space: add slack
	s = append(s, schedItem{k: 1 << 20, n: 8 + total/200000})
	return s
}

// genAligned: block boundaries steered exactly onto the end of the receive buffer (its size is probed on the running framer):
// equal-sized blocks whose size divides the buffer size, one block - or a whole number of blocks - per Read, more than one buffer
// of them, so that at some Read the buffer is full to the last byte with NOTHING pending; variants with 1..3 bytes pending at that
// moment (the first Read delivers 1..3 extra bytes and all later reads stay shifted).
func genAligned(r *rand.Rand, idx int) *streamCase {
	c := &streamCase{id: fmt.Sprintf("wfA%d", idx), kind: "wf-aligned"}
	buf, ok := probeRecvBufSize()
	if !ok {
		buf = 32 * 8800
	}
	var divs []int
	for s := 2; s <= 8800; s++ {
		if buf%s == 0 {
			divs = append(divs, s)
		}
	}
	size := divs[len(divs)-1] // the maximum packet size when the buffer is a whole number of packets
	if idx%3 != 0 {
		size = divs[len(divs)/3+r.Intn(len(divs)-len(divs)/3)] // not the tiny ones: the replay cost grows with the number of reads
	}
	n := buf/size + 3 + r.Intn(5)
	for i := 0; i < n; i++ {
		b := mkBlockTotal(r, 6, size)
		if len(b) != size { // sizes 254..256 have no exact encoding: fall back to two blocks filling the slot
			b = append(mkBlockTotal(r, 6, size-3), byte(5), 1, byte(i))
		}
		c.stream = append(c.stream, b...)
		c.blocks = append(c.blocks, len(b)) // recomputed from the bytes by refSplit when the case is written
	}
	per := 1
	if idx%4 == 1 && size*4 <= 8800 {
		per = 1 + r.Intn(4)
	}
	shift := []int{0, 0, 1, 2, 3}[idx%5]
	c.sched = []schedItem{{k: size*per + shift, n: 1}, {k: size * per, n: n/per + 2}, {k: 1 << 20, n: 2}}
	return c
}

// genIgnFull: failing reads (ignorable error) that carry as much data as fits fill the receive buffer to the last byte with
// nothing parsed; the next Read gets an empty slice (a socket answers (0, nil)), the framer parses what it holds and frees the
// buffer; more of the same, then successful reads to the end.  Block sizes random (the buffer end falls inside a block) or the
// maximum packet size (the buffer holds a whole number of unparsed blocks).
func genIgnFull(r *rand.Rand, idx int) *streamCase {
	c := &streamCase{id: fmt.Sprintf("wfF%d", idx), kind: "wf-ign-full"}
	buf, ok := probeRecvBufSize()
	if !ok {
		buf = 32 * 8800
	}
	if idx%2 == 0 {
		for len(c.stream) < buf+buf/2 {
			b := mkBlockTotal(r, 6, 8800)
			c.stream = append(c.stream, b...)
			c.blocks = append(c.blocks, len(b))
		}
	} else {
		c.stream, c.blocks = genBlocks(r, buf+buf/2+r.Intn(buf), 1500, 150)
	}
	c.sched = []schedItem{{k: r.Intn(3000), n: 1}, {ign: true, k: 1 << 20, n: 1 + r.Intn(3)}, {ign: true, k: 1 + r.Intn(9000), n: r.Intn(3)},
		{ign: true, k: 1 << 20, n: r.Intn(2)}, {k: 1 << 20, n: 4}}
	return c
}

func genWellFormed(r *rand.Rand, idx int, long bool) *streamCase {
	c := &streamCase{id: fmt.Sprintf("wf%d", idx)}
	if long {
		c.id = fmt.Sprintf("wfL%d", idx)
		switch idx % 3 {
		case 0: // one byte at a time over > 600 KB: mostly small blocks, a few maximal ones
			c.kind = "wf-long-1byte"
			c.stream, c.blocks = genBlocks(r, 620000, 160, 1)
			c.sched = []schedItem{{k: 1, n: len(c.stream)}}
		case 1: // every read fills the whole free space: many blocks per read, buffer wraps at once
			c.kind = "wf-long-fill"
			c.stream, c.blocks = genBlocks(r, 900000, 1500, 150)
			c.sched = []schedItem{{k: 1 << 20, n: 16 + len(c.stream)/100000}}
		default:
			c.kind = "wf-long-rand"
			c.stream, c.blocks = genBlocks(r, 640000, 700, 60)
			c.sched = randSchedule(r, len(c.stream))
		}
		return c
	}
	defer func() {
		// half of the streams end in an empty-valued (2-byte) block: the last thing the framer sees before EOF
		if c.blocks != nil && c.kind != "wf-partial" && r.Intn(2) == 0 {
			c.stream = append(c.stream, byte(1+r.Intn(250)), 0)
			c.blocks = append(c.blocks, 2)
			if c.kind == "wf-1byte" {
				c.sched = []schedItem{{k: 1, n: len(c.stream)}}
			} else {
				c.sched = append(c.sched, schedItem{k: 2, n: 1})
			}
		}
	}()
	if idx%7 == 3 { // data arriving together with an ignorable error (UDP-style ignoreError), always followed by a successful read
		c.kind = "wf-ign-data"
		c.stream, c.blocks = genBlocks(r, 300+r.Intn(20000), 400, 20)
		sum := 0
		for sum < len(c.stream) {
			k := 1 + r.Intn(700)
			if r.Intn(3) == 0 {
				c.sched = append(c.sched, schedItem{ign: true, k: k, n: 1}, schedItem{k: r.Intn(50), n: 1})
			} else {
				c.sched = append(c.sched, schedItem{k: k, n: 1})
			}
			sum += k
		}
		c.sched = append(c.sched, schedItem{k: 1 << 20, n: 2})
		return c
	}
	if idx%5 == 4 { // mostly empty-valued blocks, one byte per read, the observation stops at an arbitrary point (pause)
		c.kind = "wf-tiny-pause"
		n := 20 + r.Intn(200)
		for i := 0; i < n; i++ {
			if r.Intn(4) == 0 {
				c.stream = append(c.stream, byte(1+r.Intn(250)), 1, byte(r.Intn(256)))
				c.blocks = append(c.blocks, 3)
			} else {
				c.stream = append(c.stream, byte(1+r.Intn(250)), 0)
				c.blocks = append(c.blocks, 2)
			}
		}
		c.sched = []schedItem{{k: 1, n: 1 + r.Intn(len(c.stream))}, {k: 0, n: 2}}
		return c
	}
	switch idx % 4 {
	case 0:
		c.kind = "wf-cuts"
		c.stream, c.blocks = genBlocks(r, 200+r.Intn(3000), 40, 8)
		c.sched = cutSchedule(r, c.stream, c.blocks)
	case 1:
		c.kind = "wf-1byte"
		c.stream, c.blocks = genBlocks(r, 100+r.Intn(6000), 300, 6)
		c.sched = []schedItem{{k: 1, n: len(c.stream)}}
	case 2:
		c.kind = "wf-rand"
		c.stream, c.blocks = genBlocks(r, 100+r.Intn(60000), 600, 40)
		c.sched = randSchedule(r, len(c.stream))
	default: // partial consumption: the schedule stops inside the stream (unbounded stream, finite observation)
		c.kind = "wf-partial"
		c.stream, c.blocks = genBlocks(r, 100+r.Intn(30000), 500, 30)
		c.sched = []schedItem{{k: 1 + r.Intn(50), n: 1 + r.Intn(200)}, {k: 1 + r.Intn(9000), n: r.Intn(3)}}
		if r.Intn(2) == 0 { // the connection breaks: a Read fails with a real error
			c.sched = append(c.sched, schedItem{fail: true, n: 1})
		}
	}
	return c
}

func u64be(v uint64) []byte {
	return []byte{byte(v >> 56), byte(v >> 48), byte(v >> 40), byte(v >> 32), byte(v >> 24), byte(v >> 16), byte(v >> 8), byte(v)}
}

var hugeLens = []uint64{1 << 63, 1<<63 + 5, 1<<64 - 1, 1<<64 - 2, 1<<64 - 9, 1<<64 - 10, 1<<64 - 11, 1<<64 - 12, 1<<64 - 18, 1<<63 - 1, 1<<63 - 10, 1<<63 - 11, 1 << 62, 1 << 47, 1 << 32, 65536, 8801, 8798, 8799, 8800, 9000, 70000}

func genAdversarial(r *rand.Rand, idx int) *streamCase {
	c := &streamCase{id: fmt.Sprintf("adv%d", idx)}
	good := func(n int) []byte {
		s, _ := genBlocks(r, n, 200, 4)
		return s
	}
	k := idx % 8
	if (k == 2 || k == 7) && idx%32 >= 8 { // the two buffer-sized kinds are expensive to replay: one in four rounds
		k = []int{0, 1, 3, 6}[r.Intn(4)]
	}
	switch k {
	case 0: // huge length values (int conversion)
		c.kind = "adv-hugelen"
		l := hugeLens[r.Intn(len(hugeLens))]
		t := blockTypes[r.Intn(len(blockTypes))]
		c.stream = append(good(r.Intn(300)), tlnum(t)...)
		if r.Intn(3) == 0 { // non-minimal 9-byte form of the length
			c.stream = append(c.stream, 0xff)
			c.stream = append(c.stream, u64be(l)...)
		} else {
			c.stream = append(c.stream, tlnum(l)...)
		}
		c.stream = append(c.stream, good(50+r.Intn(20000))...)
		c.sched = randSchedule(r, len(c.stream))
	case 1: // a block slightly larger than the maximum packet size, arriving in one read or in pieces
		c.kind = "adv-oversize"
		tot := 8801 + r.Intn(14)
		if r.Intn(3) == 0 {
			tot = 8801 + r.Intn(60000)
		}
		b := mkBlock(r, 6, tot-4)
		c.stream = append(good(r.Intn(300)), b...)
		c.stream = append(c.stream, good(100+r.Intn(9000))...)
		if r.Intn(2) == 0 {
			c.sched = []schedItem{{k: 1 << 20, n: 4}}
		} else {
			c.sched = []schedItem{{k: 1 + r.Intn(3000), n: 40 + len(c.stream)}}
		}
	case 2: // exact fill: the buffer ends exactly inside a block that is not complete
		c.kind = "adv-exactfill"
		for i := 0; i < 31; i++ {
			c.stream = append(c.stream, mkBlockTotal(r, 6, 8800)...)
		}
		tot := 8801 + r.Intn(12)
		b := mkBlock(r, 6, tot-4)
		c.stream = append(c.stream, b...)
		c.stream = append(c.stream, good(3000)...)
		c.sched = []schedItem{{k: 1 << 20, n: 6}}
	case 3: // non-minimal T / L forms
		c.kind = "adv-nonminimal"
		c.stream = good(r.Intn(200))
		v := make([]byte, 1+r.Intn(40))
		r.Read(v)
		switch r.Intn(3) {
		case 0:
			c.stream = append(c.stream, 0xfd, 0x00, 0x06, byte(len(v)))
		case 1:
			c.stream = append(c.stream, 0x06, 0xfd, 0x00, byte(len(v)))
		default:
			c.stream = append(c.stream, 0x06, 0xfe, 0x00, 0x00, 0x00, byte(len(v)))
		}
		c.stream = append(c.stream, v...)
		c.stream = append(c.stream, good(100+r.Intn(2000))...)
		c.sched = randSchedule(r, len(c.stream))
	case 4: // random bytes
		c.kind = "adv-random"
		c.stream = make([]byte, 1+r.Intn(40000))
		r.Read(c.stream)
		c.sched = randSchedule(r, len(c.stream))
	case 5: // bytes biased to TL heads
		c.kind = "adv-heads"
		c.stream = make([]byte, 1+r.Intn(30000))
		for i := range c.stream {
			c.stream[i] = []byte{0xfd, 0xfe, 0xff, 0, 1, 2, 5, 6, 0x64, 0x22, 0x80, 0xfc}[r.Intn(12)]
		}
		c.sched = randSchedule(r, len(c.stream))
	case 6: // truncated valid stream, one byte reads
		c.kind = "adv-truncated"
		s := good(200 + r.Intn(5000))
		c.stream = s[:len(s)-1-r.Intn(len(s)/2)]
		c.sched = []schedItem{{k: 1 + r.Intn(3), n: len(c.stream) + 3}}
	default: // huge length after many bytes so that offsets are large, fill reads
		c.kind = "adv-hugelen-deep"
		c.stream = good(100000 + r.Intn(250000))
		c.stream = append(c.stream, 0x06)
		c.stream = append(c.stream, tlnum(hugeLens[r.Intn(len(hugeLens))])...)
		c.stream = append(c.stream, good(20000)...)
		c.sched = []schedItem{{k: 1 << 20, n: 10}}
	}
	return c
}

// ---------------------------------------------------------------------------------------------------------------
// trace I/O

func schedString(s []schedItem) string {
	parts := make([]string, 0, len(s))
	for _, it := range s {
		switch {
		case it.fail:
			parts = append(parts, "X")
		case it.ign:
			for i := 0; i < it.n; i++ {
				if it.k > 0 {
					parts = append(parts, strconv.Itoa(it.k)+"!")
				} else {
					parts = append(parts, "!")
				}
			}
		case it.n == 1:
			parts = append(parts, strconv.Itoa(it.k))
		case it.n > 1:
			parts = append(parts, strconv.Itoa(it.k)+"*"+strconv.Itoa(it.n))
		}
	}
	if len(parts) == 0 {
		return "-"
	}
	return strings.Join(parts, " ")
}

func parseSched(s string) []schedItem {
	var res []schedItem
	for _, f := range strings.Fields(s) {
		if f == "-" {
			continue
		}
		if f == "X" {
			res = append(res, schedItem{fail: true, n: 1})
			continue
		}
		if strings.HasSuffix(f, "!") {
			k, _ := strconv.Atoi(strings.TrimSuffix(f, "!"))
			res = append(res, schedItem{ign: true, k: k, n: 1})
			continue
		}
		k, n := f, "1"
		if i := strings.IndexByte(f, '*'); i >= 0 {
			k, n = f[:i], f[i+1:]
		}
		ki, _ := strconv.Atoi(k)
		ni, _ := strconv.Atoi(n)
		res = append(res, schedItem{k: ki, n: ni})
	}
	return res
}

// refSplit is the harness's own reference splitter: the lengths of the TLV blocks (shortest-form or not: T and L are read as
// variable-size numbers) that the byte stream consists of; ok = the stream is a whole number of blocks.
func refSplit(s []byte) (lens []int, ok bool) {
	num := func(p []byte) (uint64, int) {
		if len(p) == 0 {
			return 0, 0
		}
		n := 1
		switch p[0] {
		case 253:
			n = 3
		case 254:
			n = 5
		case 255:
			n = 9
		}
		if len(p) < n {
			return 0, 0
		}
		if n == 1 {
			return uint64(p[0]), 1
		}
		var v uint64
		for _, b := range p[1:n] {
			v = v<<8 | uint64(b)
		}
		return v, n
	}
	for pos := 0; pos < len(s); {
		_, tn := num(s[pos:])
		if tn == 0 {
			return lens, false
		}
		l, ln := num(s[pos+tn:])
		if ln == 0 || l > uint64(len(s)-pos-tn-ln) {
			return lens, false
		}
		tot := tn + ln + int(l)
		lens = append(lens, tot)
		pos += tot
	}
	return lens, true
}

func writeCaseInput(w *bufio.Writer, c *streamCase) {
	if c.blocks != nil {
		// the expected blocks are those of the bytes actually sent (reference splitter), never the generator's bookkeeping.
		// A stream may end inside a block on purpose (pause / truncation kinds): then the list covers the complete blocks, and the
		// generator's list is kept only if it describes more than those (a truncated last block it wants the runner to know of).
		lens, whole := refSplit(c.stream)
		sum := func(l []int) (t int) {
			for _, x := range l {
				t += x
			}
			return
		}
		if whole || sum(lens) == sum(c.blocks) {
			c.blocks = append([]int{}, lens...)
		}
	}
	fmt.Fprintf(w, "CASE %s %s\n", c.id, c.kind)
	const chunk = 20000
	if len(c.stream) == 0 {
		fmt.Fprintf(w, "S -\n")
	}
	for i := 0; i < len(c.stream); i += chunk {
		j := i + chunk
		if j > len(c.stream) {
			j = len(c.stream)
		}
		fmt.Fprintf(w, "S %s\n", hex.EncodeToString(c.stream[i:j]))
	}
	fmt.Fprintf(w, "R %s\n", schedString(c.sched))
	if c.blocks == nil {
		fmt.Fprintf(w, "B -\n")
	} else {
		fmt.Fprintf(w, "B")
		for _, l := range c.blocks {
			fmt.Fprintf(w, " %d", l)
		}
		fmt.Fprintf(w, "\n")
	}
}

func writeCaseResult(w *bufio.Writer, res *streamResult) {
	fmt.Fprintf(w, "I %s %d\n", res.res, res.consumed)
	for i := 0; i < len(res.frames); i += 400 {
		j := i + 400
		if j > len(res.frames) {
			j = len(res.frames)
		}
		fmt.Fprintf(w, "F %s\n", strings.Join(res.frames[i:j], " "))
	}
	fmt.Fprintf(w, "END\n")
}

// readCases parses corpus / replay files (CASE, S, R, B lines; other lines ignored).
func readCases(path string) ([]*streamCase, error) {
	f, err := os.Open(path)
	if err != nil {
		return nil, err
	}
	defer f.Close()
	var res []*streamCase
	var cur *streamCase
	sc := bufio.NewScanner(f)
	sc.Buffer(make([]byte, 1<<20), 1<<26)
	for sc.Scan() {
		line := sc.Text()
		fs := strings.SplitN(line, " ", 2)
		arg := ""
		if len(fs) > 1 {
			arg = fs[1]
		}
		switch fs[0] {
		case "CASE":
			p := strings.Fields(arg)
			cur = &streamCase{id: p[0]}
			if len(p) > 1 {
				cur.kind = p[1]
			}
			res = append(res, cur)
		case "S":
			if cur != nil && arg != "-" {
				b, err := hex.DecodeString(strings.TrimSpace(arg))
				if err != nil {
					return nil, err
				}
				cur.stream = append(cur.stream, b...)
			}
		case "R":
			if cur != nil {
				cur.sched = parseSched(arg)
			}
		case "B":
			if cur != nil && strings.TrimSpace(arg) != "-" {
				cur.blocks = []int{}
				for _, x := range strings.Fields(arg) {
					v, _ := strconv.Atoi(x)
					cur.blocks = append(cur.blocks, v)
				}
			}
		}
	}
	return res, sc.Err()
}

func envInt(name string, def int) int {
	if v, err := strconv.Atoi(os.Getenv(name)); err == nil {
		return v
	}
	return def
}

// TestStreamTrace: VERIF_OUT trace path; VERIF_SEED; VERIF_N short cases; VERIF_LONG long cases;
// VERIF_KINDS "wf", "adv", "wf,adv" or "aligned"; VERIF_CORPUS directory of *.case files replayed first; VERIF_OPS a single case file.
func TestStreamTrace(t *testing.T) {
	out := os.Getenv("VERIF_OUT")
	if out == "" {
		t.Skip("VERIF_OUT not set")
	}
	seed := int64(envInt("VERIF_SEED", 1))
	n := envInt("VERIF_N", 40)
	nlong := envInt("VERIF_LONG", 3)
	kinds := os.Getenv("VERIF_KINDS")
	if kinds == "" {
		kinds = "wf"
	}
	f, err := os.Create(out)
	if err != nil {
		t.Fatal(err)
	}
	defer f.Close()
	w := bufio.NewWriterSize(f, 1<<20)
	defer w.Flush()
	fmt.Fprintf(w, "# seed=%d n=%d long=%d kinds=%s\n", seed, n, nlong, kinds)

	var cases []*streamCase
	if ops := os.Getenv("VERIF_OPS"); ops != "" {
		cs, err := readCases(ops)
		if err != nil {
			t.Fatal(err)
		}
		cases = cs
	} else {
		if dir := os.Getenv("VERIF_CORPUS"); dir != "" {
			files, _ := filepath.Glob(filepath.Join(dir, "*.case"))
			sort.Strings(files)
			for _, p := range files {
				cs, err := readCases(p)
				if err != nil {
					t.Fatalf("corpus %s: %v", p, err)
				}
				for _, c := range cs {
					want := strings.HasPrefix(c.kind, "adv") && strings.Contains(kinds, "adv") ||
						!strings.HasPrefix(c.kind, "adv") && strings.Contains(kinds, "wf")
					if want {
						c.id = "corpus-" + c.id
						cases = append(cases, c)
					}
				}
			}
		}
		r := rand.New(rand.NewSource(seed))
		if kinds == "aligned" { // the buffer-aligned generator alone (VERIF_LONG+2 cases)
			for i := 0; i < 2+nlong; i++ {
				cases = append(cases, genAligned(r, i))
			}
		}
		if strings.Contains(kinds, "wf") {
			for i := 0; i < nlong; i++ {
				cases = append(cases, genWellFormed(r, i, true))
			}
			for i := 0; i < 2+nlong; i++ {
				cases = append(cases, genAligned(r, i))
			}
			for i := 0; i < 1+nlong/2; i++ {
				cases = append(cases, genIgnFull(r, i))
			}
			for i := 0; i < n; i++ {
				cases = append(cases, genWellFormed(r, i, false))
			}
		}
		if strings.Contains(kinds, "adv") {
			for i := 0; i < n; i++ {
				cases = append(cases, genAdversarial(r, i))
			}
			if !strings.Contains(kinds, "wf") { // "never spins": block boundaries exactly on the end of the buffer
				for i := 0; i < 2; i++ {
					cases = append(cases, genAligned(r, 3*i))
				}
			}
		}
	}
	for _, c := range cases {
		writeCaseInput(w, c)
		w.Flush() // input on disk before the call: a hard crash still leaves its replay
		res := runStreamImpl(c, false)
		writeCaseResult(w, &res)
	}
}
