// Harness for C10 (fragmentation / reassembly) and the link-layer part of C04: drives the real
// NDNLPLinkService.sendPacket on an in-memory transport, feeds the captured (or crafted) frames to a peer link service
// whose dispatch goes to recording forwarding threads, and writes a trace for runner/Face (mode lp).
//
// Trace format (one case; byte strings in hex, "-" = absent/empty):
//
//	LPCASE <id> <kind> nthreads=<n> local=<0|1> reasm=<0|1> ccf=<0|1> lcp=<0|1>
//	SEND mtu=<m> frag=<0|1> ifi=<0|1> seq=<dec> tok=<hex> inface=<dec> mark=<dec> [hist=fi,fi,..] wire=<hex>      (real sendPacket;
//	     hist: the sender is constructed with the first option pair and SetOptions is called for each further one;
//	     keep=1: sent by the link service of the previous SEND of the case (seq = that service's own counter))
//	SENDZ mtu=.. frag=.. ifi=.. seq=.. tok=.. inface=.. mark=.. n=<len>                            (wire = pattern(n): byte i = i*7+n mod 251)
//	  FR <hex> | FO <hex>     frame accepted / refused (larger than the MTU) by the transport   (after SEND)
//	  FZ <len>:<md5/8> ... | OZ <len>:<md5/8> ...  [FR <hex> ... for a sample]                     (after SENDZ)
//	  NS <dec>                sender's nextSequence afterwards;   SP  = the sender panicked
//	RECV <frame hex>                                                                           (real handleIncomingFrame)
//	  DEC <decode>            spec.ReadPacket of the frame as seen by the harness: E | P <i> <d> <lp>
//	  AL <bytes>              heap bytes allocated during the call (runtime.MemStats.TotalAlloc delta)
//	  DL <thread> <I|D> <raw> <tok> <mark> <nexthop> <cachepolicy>     packet queued to a forwarding thread
//	  ST <nInInterests> <nInData> <store>     store = "-" or base:len,len,..;base:..  (sorted by base)
//	  RP                      the receiver panicked (the case ends)
//	END
package facelp

import (
	"bufio"
	"encoding/hex"
	"fmt"
	"math/rand"
	"os"
	"runtime"
	"sort"
	"strconv"
	"strings"
	"testing"
	"time"

	"github.com/named-data/ndnd/fw/core"
	defn "github.com/named-data/ndnd/fw/defn"
	"github.com/named-data/ndnd/fw/dispatch"
	"github.com/named-data/ndnd/fw/face"
	"github.com/named-data/ndnd/fw/fw"
	"github.com/named-data/ndnd/fw/table"
	enc "github.com/named-data/ndnd/std/encoding"
	"github.com/named-data/ndnd/std/log"
	"github.com/named-data/ndnd/std/ndn"
	spec "github.com/named-data/ndnd/std/ndn/spec_2022"
	sec "github.com/named-data/ndnd/std/security"
	"github.com/named-data/ndnd/std/utils"
)

func hx(b []byte) string {
	if len(b) == 0 {
		return "-"
	}
	return hex.EncodeToString(b)
}
func optU(p *uint64) string {
	if p == nil {
		return "-"
	}
	return strconv.FormatUint(*p, 10)
}
func b01(b bool) string {
	if b {
		return "1"
	}
	return "0"
}

// ------------------------------------------------------------------------------------------------ recording threads

type delivered struct {
	thread int
	kind   string
	pkt    *defn.Pkt
}
type recThread struct {
	id  int
	log *[]delivered
}

func (t *recThread) String() string            { return "rec" + strconv.Itoa(t.id) }
func (t *recThread) QueueData(p *defn.Pkt)     { *t.log = append(*t.log, delivered{t.id, "D", p}) }
func (t *recThread) QueueInterest(p *defn.Pkt) { *t.log = append(*t.log, delivered{t.id, "I", p}) }
func (t *recThread) GetNumPitEntries() int     { return 0 }
func (t *recThread) GetNumCsEntries() int      { return 0 }

var dlog []delivered

func setThreads(n int) {
	ts := make([]dispatch.FWThread, n)
	for i := range ts {
		ts[i] = &recThread{id: i, log: &dlog}
	}
	dispatch.InitializeFWThreads(ts)
	fw.Threads = make([]*fw.Thread, n)
}

var lpInit = false

func lpSetup() {
	if lpInit {
		return
	}
	lpInit = true
	core.LoadConfig(core.DefaultConfig(), "/tmp")
	log.SetLevel(log.FatalLevel)
	// the forwarder's tables: a face that goes down is removed from the face table, which cleans up RIB and FIB
	table.Configure()
	table.CreateFIBTable("nametree")
}

// ------------------------------------------------------------------------------------------------ decode as seen by the harness

func l3Info(name enc.Name, data bool) string {
	s := strconv.Itoa(fw.HashNameToFwThread(name))
	if data {
		s += ":"
		for _, b := range fw.HashNameToAllPrefixFwThreads(name) {
			s += b01(b)
		}
	}
	return s
}

func decodeStr(b []byte) (res string) {
	defer func() {
		if p := recover(); p != nil {
			res = "PANIC"
		}
	}()
	c := make([]byte, len(b))
	copy(c, b)
	p, _, err := spec.ReadPacket(enc.NewBufferReader(c))
	if err != nil {
		return "E"
	}
	i, d, lp := "-", "-", "-"
	if p.Interest != nil {
		i = l3Info(p.Interest.NameV, false)
	}
	if p.Data != nil {
		d = l3Info(p.Data.NameV, true)
	}
	if p.LpPacket != nil {
		L := p.LpPacket
		cp := "-"
		if L.CachePolicy != nil {
			cp = strconv.FormatUint(L.CachePolicy.CachePolicyType, 10)
		}
		fr := "-"
		if L.Fragment != nil {
			fr = "=" + hex.EncodeToString(L.Fragment.Join())
		}
		if len(L.Fragment) == 0 && L.Fragment != nil {
			fr = "-" // a non-nil wire with no segment: the link service treats it as IDLE
		}
		lp = strings.Join([]string{optU(L.Sequence), optU(L.FragIndex), optU(L.FragCount), hx(L.PitToken), optU(L.IncomingFaceId),
			optU(L.NextHopFaceId), cp, optU(L.CongestionMark), fr}, ",")
	}
	return "P " + i + " " + d + " " + lp
}

// ------------------------------------------------------------------------------------------------ case description

type lpOp struct {
	kind   string // SEND, SENDZ, RECV
	mtu    int
	frag   bool
	ifi    bool
	seq    uint64
	tok    []byte
	inface *uint64
	mark   *uint64
	wire   []byte   // SEND
	n      int      // SENDZ
	hist   []string // option history of the sending link service: "fi" items (fragmentation, incoming-face indication):
	// constructed with the first, SetOptions for each further one; the last equals (frag, ifi). nil = constructed with (frag, ifi)
	own   bool   // SEND: the link service itself decides to mark congestion (marking enabled, send queue above the threshold, interval elapsed)
	keep  bool   // SEND: on the link service (and transport) of the previous SEND of the case; seq is then the service's own counter
	frame []byte // RECV
	// filled when a SEND is executed with capture
	frames [][]byte
}

type lpCase struct {
	id       string
	kind     string
	nthreads int
	local    bool
	reasm    bool
	ccf      bool
	lcp      bool
	rx       string // how frames reach the receiver: "direct" (one datagram buffer, overwritten after every call) or "stream" (real readTlvStream)
	ops      []*lpOp
	// ops generated lazily after sends: a function that produces RECV ops from the frames captured so far
	after func(c *lpCase, r *rand.Rand) []*lpOp
	// order of the RECV ops produced by after: "message.frame" items (written to the trace as an ORDER line so that a
	// replay regenerates the frames from the current sender instead of re-feeding recorded bytes)
	order []string
}

func patternWire(n int) []byte {
	b := make([]byte, n)
	for i := range b {
		b[i] = byte((i*7 + n) % 251)
	}
	return b
}

func sigList(fs [][]byte) string {
	if len(fs) == 0 {
		return "-"
	}
	p := make([]string, len(fs))
	for i, f := range fs {
		p[i] = frameSig(f)
	}
	return strings.Join(p, " ")
}

func storeStr(l *face.NDNLPLinkService) string {
	st := face.VerifPartialStore(l)
	if len(st) == 0 {
		return "-"
	}
	parts := make([]string, len(st))
	for i, e := range st {
		ls := make([]string, len(e.Slots))
		for j, x := range e.Slots {
			ls[j] = strconv.Itoa(x)
		}
		parts[i] = strconv.FormatUint(e.Base, 10) + ":" + strings.Join(ls, ",")
	}
	return strings.Join(parts, ";")
}

func opHeader(o *lpOp) string {
	// the PIT token comes in three shapes: nil ("-"), empty but non-nil ("e": what the forwarder passes for Data whose downstream
	// Interest carried no token), non-empty (hex)
	tk := hx(o.tok)
	if o.tok != nil && len(o.tok) == 0 {
		tk = "e"
	}
	h := fmt.Sprintf("mtu=%d frag=%s ifi=%s seq=%d tok=%s inface=%s mark=%s", o.mtu, b01(o.frag), b01(o.ifi), o.seq, tk, optU(o.inface), optU(o.mark))
	if len(o.hist) > 0 {
		h += " hist=" + strings.Join(o.hist, ",")
	}
	if o.keep {
		h += " keep=1"
	}
	if o.own {
		h += " own=1"
	}
	return h
}

// senderOptions builds the options for one step of an option history; the flags that do not concern the send path vary
// with the step the way management faces/update sets them (local fields as a group, congestion marking).
func senderOptions(item string, step int) face.NDNLPLinkServiceOptions {
	op := face.MakeNDNLPLinkServiceOptions()
	op.IsFragmentationEnabled = item[0] == '1'
	op.IsIncomingFaceIndicationEnabled = item[1] == '1'
	op.IsConsumerControlledForwardingEnabled = item[1] == '1'
	op.IsLocalCachePolicyEnabled = item[1] == '1'
	op.IsCongestionMarkingEnabled = step%2 == 1
	return op
}

// runLpCase executes the case on the real code and writes the trace.
func runLpCase(w *bufio.Writer, c *lpCase, r *rand.Rand) {
	lpSetup()
	setThreads(c.nthreads)
	if c.rx == "" {
		c.rx = []string{"direct", "direct", "stream"}[r.Intn(3)]
	}
	fmt.Fprintf(w, "LPCASE %s %s nthreads=%d local=%s reasm=%s ccf=%s lcp=%s rx=%s\n", c.id, c.kind, c.nthreads, b01(c.local), b01(c.reasm), b01(c.ccf), b01(c.lcp), c.rx)
	scope := defn.NonLocal
	if c.local {
		scope = defn.Local
	}
	rt := face.NewVerifTransport(defn.MaxNDNPacketSize, scope)
	ropts := face.MakeNDNLPLinkServiceOptions()
	ropts.IsReassemblyEnabled = c.reasm
	ropts.IsConsumerControlledForwardingEnabled = c.ccf
	ropts.IsLocalCachePolicyEnabled = c.lcp
	rcv := face.VerifMakeLinkService(rt, ropts, 77)

	ops := c.ops
	var held []recvRec
	var prevSnd *face.NDNLPLinkService
	var prevSt *face.VerifTransport
	for k := 0; k < len(ops); k++ {
		o := ops[k]
		switch o.kind {
		case "SEND", "SENDZ":
			st := face.NewVerifTransport(o.mtu, defn.NonLocal)
			var snd *face.NDNLPLinkService
			if o.keep && prevSnd != nil {
				// the same link service sends packet after packet (what a face does): nothing of an earlier packet may stay behind
				snd, st = prevSnd, prevSt
				st.Reset()
				if snd.MTU() != o.mtu {
					snd.SetMTU(o.mtu) // LinkService.SetMTU: what management faces/update calls
				}
				o.seq = face.VerifNextSequence(snd)
			} else if len(o.hist) == 0 {
				sopts := face.MakeNDNLPLinkServiceOptions()
				sopts.IsFragmentationEnabled = o.frag
				sopts.IsIncomingFaceIndicationEnabled = o.ifi
				snd = face.VerifMakeLinkService(st, sopts, 55)
			} else {
				// a link service that lives through option changes (management faces/update -> SetOptions)
				snd = face.VerifMakeLinkService(st, senderOptions(o.hist[0], 0), 55)
				for k, it := range o.hist[1:] {
					snd.SetOptions(senderOptions(it, k+1))
				}
			}
			if o.own {
				// congestion: marking switched on, threshold and interval 0, a non-empty send queue, and one small packet already
				// sent (the link looks at the queue only after more than the threshold has gone out): the link marks this packet itself
				face.VerifSetCongestionMarking(true)
				op := snd.Options()
				op.IsCongestionMarkingEnabled = true
				op.DefaultCongestionThresholdBytes = 0
				op.BaseCongestionMarkingInterval = 0
				snd.SetOptions(op)
				st.QueueSize = 1 << 20
				func() {
					defer func() { recover() }()
					face.VerifSendPacket(snd, dispatch.OutPkt{Pkt: &defn.Pkt{Raw: []byte{5, 3, 7, 1, 8}, L3: &spec.Packet{}}})
				}()
				st.Reset()
			}
			if !(o.keep && snd == prevSnd) {
				face.VerifSetNextSequence(snd, o.seq)
			}
			prevSnd, prevSt = snd, st
			wire := o.wire
			if o.kind == "SENDZ" {
				wire = patternWire(o.n)
				fmt.Fprintf(w, "SENDZ %s n=%d\n", opHeader(o), o.n)
			} else {
				fmt.Fprintf(w, "SEND %s wire=%s\n", opHeader(o), hx(wire))
			}
			w.Flush()
			pkt := &defn.Pkt{Raw: wire, L3: &spec.Packet{}, CongestionMark: o.mark}
			panicked := false
			func() {
				defer func() {
					if p := recover(); p != nil {
						panicked = true
					}
				}()
				face.VerifSendPacket(snd, dispatch.OutPkt{Pkt: pkt, PitToken: o.tok, InFace: o.inface})
			}()
			if o.own {
				face.VerifSetCongestionMarking(false)
				st.QueueSize = 0
			}
			if o.kind == "SENDZ" {
				fmt.Fprintf(w, "FZ %s\nOZ %s\n", sigList(st.Frames), sigList(st.Dropped))
				// the frames themselves for the smaller packets and a sample of the large ones: the runner's peer reassembles them
				// (projected observables: the split the implementation chose is followed, not prescribed)
				if len(st.Dropped) == 0 && (o.n <= 2500 || k%4 == 0) {
					for _, f := range st.Frames {
						fmt.Fprintf(w, "FR %s\n", hx(f))
					}
				}
			} else {
				for _, f := range st.Frames {
					fmt.Fprintf(w, "FR %s\n", hx(f))
				}
				for _, f := range st.Dropped {
					fmt.Fprintf(w, "FO %s\n", hx(f))
				}
			}
			if panicked {
				fmt.Fprintf(w, "SP\n")
			} else {
				fmt.Fprintf(w, "NS %d\n", face.VerifNextSequence(snd))
			}
			o.frames = st.Frames
		case "RECV":
			// the maximal run of consecutive RECV ops is delivered the way the transports do it: through ONE receive buffer
			j := k
			var frames [][]byte
			for j < len(ops) && ops[j].kind == "RECV" {
				frames = append(frames, ops[j].frame)
				j++
			}
			for _, f := range frames {
				fmt.Fprintf(w, "PRE %s\n", hx(f)) // input on disk before the calls (a hard crash still leaves it)
			}
			w.Flush()
			recs := recvBatch(rcv, frames, c.rx == "stream", r)
			held = append(held, recs...)
			for _, rec := range recs {
				fmt.Fprintf(w, "RECV %s\nDEC %s\nAL %d\n", hx(rec.frame), rec.dec, rec.al)
				// formatted now, i.e. after the receive buffer has been reused for every later frame of the run
				for _, d := range rec.dl {
					fmt.Fprintf(w, "DL %d %s %s %s %s %s %s\n", d.thread, d.kind, hx(d.pkt.Raw), hx(d.pkt.PitToken), optU(d.pkt.CongestionMark),
						optU(d.pkt.NextHopFaceID), optU(d.pkt.CachePolicy))
				}
				if rec.panicked {
					fmt.Fprintf(w, "RP\n")
					writeHeld(w, held)
					fmt.Fprintf(w, "END\n")
					return
				}
				fmt.Fprintf(w, "ST %s\n", rec.st)
			}
			k = j - 1
		}
		if k == len(ops)-1 && c.after != nil {
			more := c.after(c, r)
			c.after = nil
			if len(c.order) > 0 {
				fmt.Fprintf(w, "ORDER %s\n", strings.Join(c.order, " "))
			}
			ops = append(ops, more...)
		}
	}
	writeHeld(w, held)
	fmt.Fprintf(w, "END\n")
}

// recvRec is what one handleIncomingFrame call did; the delivered packets are HELD (pointers), as the forwarding threads hold them.
type recvRec struct {
	frame    []byte
	dec      string
	al       uint64
	dl       []delivered
	snap     [][]byte // copy of each delivered packet's bytes taken inside the call's aftermath, before the buffer is reused
	names    []string // name of each delivered packet, from the snapshot
	st       string
	panicked bool
}

func l3Name(raw []byte) string {
	p, _, err := spec.ReadPacket(enc.NewBufferReader(append([]byte{}, raw...)))
	if err != nil {
		return "?"
	}
	if p.Interest != nil {
		return p.Interest.NameV.String()
	}
	if p.Data != nil {
		return p.Data.NameV.String()
	}
	return "?"
}

// wellFormedBlock: a minimal-form TLV of 2..MaxNDNPacketSize bytes that is exactly the slice (what readTlvStream frames as one block)
func wellFormedBlock(f []byte) bool {
	if len(f) < 2 || len(f) > defn.MaxNDNPacketSize {
		return false
	}
	rd := enc.NewBufferReader(f)
	t, err := enc.ReadTLNum(rd)
	if err != nil {
		return false
	}
	l, err := enc.ReadTLNum(rd)
	if err != nil || uint64(l) > defn.MaxNDNPacketSize {
		return false
	}
	return rd.Pos() == t.EncodingLength()+l.EncodingLength() && rd.Pos()+int(l) == len(f)
}

// recvBatch feeds the frames to the link service through ONE reused receive buffer:
//
//	stream mode (all frames well-formed blocks): the real readTlvStream with a scripted reader, one or two frames per Read, so
//	              that every Read overwrites the bytes of the frames before it (as on a TCP / Unix / UDP face);
//	otherwise  : a single datagram buffer, overwritten as soon as handleIncomingFrame has returned.
func recvBatch(rcv *face.NDNLPLinkService, frames [][]byte, viaStream bool, r *rand.Rand) []recvRec {
	var recs []recvRec
	one := func(buf []byte, orig []byte) (rec recvRec) {
		rec.frame = orig
		rec.dec = decodeStr(orig)
		dlog = dlog[:0]
		var m0, m1 runtime.MemStats
		runtime.ReadMemStats(&m0)
		func() {
			defer func() {
				if p := recover(); p != nil {
					rec.panicked = true
				}
			}()
			face.VerifHandleIncomingFrame(rcv, buf)
		}()
		runtime.ReadMemStats(&m1)
		rec.al = m1.TotalAlloc - m0.TotalAlloc
		rec.dl = append([]delivered{}, dlog...)
		for _, d := range rec.dl {
			c := append([]byte{}, d.pkt.Raw...)
			rec.snap = append(rec.snap, c)
			rec.names = append(rec.names, l3Name(c))
		}
		cn := face.VerifCounters(rcv)
		rec.st = fmt.Sprintf("%d %d %s", cn[0], cn[1], storeStr(rcv))
		return rec
	}
	if viaStream {
		ok := len(frames) > 0
		for _, f := range frames {
			ok = ok && wellFormedBlock(f)
		}
		if ok {
			var stream []byte
			var sched []schedItem
			for i := 0; i < len(frames); i++ {
				n := len(frames[i])
				stream = append(stream, frames[i]...)
				if i+1 < len(frames) && r.Intn(4) == 0 { // two frames in one Read
					i++
					n += len(frames[i])
					stream = append(stream, frames[i]...)
				}
				sched = append(sched, schedItem{k: n, n: 1})
			}
			rd := &scriptedReader{data: stream, sched: sched}
			idx := 0
			func() {
				defer func() { recover() }()
				face.VerifReadTlvStream(rd, func(b []byte) {
					if idx >= len(frames) {
						return
					}
					rec := one(b, frames[idx])
					idx++
					recs = append(recs, rec)
					if rec.panicked {
						panic("stop")
					}
				}, nil)
			}()
			return recs
		}
	}
	rxbuf := make([]byte, defn.MaxNDNPacketSize+64)
	for _, f := range frames {
		if len(f) > len(rxbuf) {
			rxbuf = make([]byte, len(f))
		}
		n := copy(rxbuf, f)
		rec := one(rxbuf[:n], f)
		for i := range rxbuf { // the next datagram arrives
			rxbuf[i] = 0xa5
		}
		recs = append(recs, rec)
		if rec.panicked {
			break
		}
	}
	return recs
}

// writeHeld: at the end of the history, what the forwarding threads hold must still be what was delivered.
func writeHeld(w *bufio.Writer, held []recvRec) {
	rawChanged, nameChanged, n := 0, 0, 0
	for _, rec := range held {
		for i, d := range rec.dl {
			n++
			if string(d.pkt.Raw) != string(rec.snap[i]) {
				rawChanged++
			}
			if d.pkt.Name != nil && d.pkt.Name.String() != rec.names[i] {
				nameChanged++
			}
		}
	}
	// the parsed view handed to the forwarding thread must be a view of pkt.Raw itself: the thread decrements the HopLimit through
	// Interest.HopLimitV and the outgoing face sends pkt.Raw.  Mutate through the view, re-parse Raw, compare.
	viewChecked, viewDetached := 0, 0
	for _, rec := range held {
		for _, d := range rec.dl {
			if d.pkt.L3 == nil || d.pkt.L3.Interest == nil || d.pkt.L3.Interest.HopLimitV == nil {
				continue
			}
			viewChecked++
			*d.pkt.L3.Interest.HopLimitV -= 1
			want := *d.pkt.L3.Interest.HopLimitV
			p, _, err := spec.ReadPacket(enc.NewBufferReader(append([]byte{}, d.pkt.Raw...)))
			if err != nil || p.Interest == nil || p.Interest.HopLimitV == nil || *p.Interest.HopLimitV != want {
				viewDetached++
			}
		}
	}
	fmt.Fprintf(w, "HC %d %d %d %d %d\n", n, rawChanged, nameChanged, viewChecked, viewDetached)
}

// ------------------------------------------------------------------------------------------------ packets

var signer = sec.NewSha256Signer()

func randName(r *rand.Rand) enc.Name {
	n := enc.Name{}
	k := 1 + r.Intn(4)
	for i := 0; i < k; i++ {
		v := make([]byte, 1+r.Intn(6))
		for j := range v {
			v[j] = byte('a' + r.Intn(4))
		}
		n = append(n, enc.NewBytesComponent(enc.TypeGenericNameComponent, v))
	}
	return n
}

// mkSpecialPacket: network packets at the value-shape boundaries of names: the empty name "/" (07 00), zero-length components,
// a name that fills almost the whole packet, many one-byte components - as Data and as Interest.
func mkSpecialPacket(r *rand.Rand) []byte {
	var name enc.Name
	switch r.Intn(5) {
	case 0:
		name = enc.Name{}
	case 1:
		name = enc.Name{enc.NewBytesComponent(enc.TypeGenericNameComponent, []byte{})}
	case 2:
		name = enc.Name{enc.NewBytesComponent(enc.TypeGenericNameComponent, []byte{}), enc.NewBytesComponent(enc.TypeGenericNameComponent, []byte("a")),
			enc.NewBytesComponent(enc.TypeGenericNameComponent, []byte{})}
	case 3:
		big := make([]byte, 2000+r.Intn(6000))
		for i := range big {
			big[i] = byte('a' + i%26)
		}
		name = enc.Name{enc.NewBytesComponent(enc.TypeGenericNameComponent, []byte("big")), enc.NewBytesComponent(enc.TypeGenericNameComponent, big)}
	default:
		for i := 0; i < 300+r.Intn(1500); i++ {
			name = append(name, enc.NewBytesComponent(enc.TypeGenericNameComponent, []byte{byte('a' + i%26)}))
		}
	}
	if r.Intn(3) == 0 {
		lt := 4 * time.Second
		i, err := spec.Spec{}.MakeInterest(name, &ndn.InterestConfig{Nonce: utils.IdPtr(r.Uint64() >> 32), Lifetime: &lt, CanBePrefix: true}, nil, nil)
		if err == nil && len(i.Wire.Join()) <= defn.MaxNDNPacketSize {
			return i.Wire.Join()
		}
	}
	d, err := spec.Spec{}.MakeData(name, &ndn.DataConfig{ContentType: utils.IdPtr(ndn.ContentTypeBlob)}, enc.Wire{[]byte("x")}, signer)
	if err != nil || len(d.Wire.Join()) > defn.MaxNDNPacketSize {
		return mkData(r, 200)
	}
	return d.Wire.Join()
}

// mkData makes a valid Data packet whose encoded size is as close as possible to target (exact when reachable).
func mkData(r *rand.Rand, target int) []byte {
	name := randName(r)
	clen := 0
	var wire []byte
	for iter := 0; iter < 8; iter++ {
		content := make([]byte, clen)
		r.Read(content)
		d, err := spec.Spec{}.MakeData(name, &ndn.DataConfig{ContentType: utils.IdPtr(ndn.ContentTypeBlob)}, enc.Wire{content}, signer)
		if err != nil {
			panic(err)
		}
		wire = d.Wire.Join()
		if len(wire) == target {
			break
		}
		clen += target - len(wire)
		if clen < 0 {
			clen = 0
			if iter > 0 {
				break
			}
		}
	}
	return wire
}

func mkInterest(r *rand.Rand) []byte {
	return mkInterestSized(r, 0)
}

// mkInterestSized makes a valid Interest with a HopLimit, padded with a long name component to about target bytes (0 = small).
func mkInterestSized(r *rand.Rand, target int) []byte {
	base := randName(r)
	lt := 4 * time.Second
	hl := uint(1 + r.Intn(200))
	nonce := utils.IdPtr(r.Uint64() >> 32)
	fresh := r.Intn(2) == 0
	pad := -1
	var wire []byte
	for iter := 0; iter < 8; iter++ {
		name := base
		if pad >= 0 {
			p := make([]byte, pad)
			for i := range p {
				p[i] = byte('a' + i%26)
			}
			name = append(append(enc.Name{}, base...), enc.NewBytesComponent(enc.TypeGenericNameComponent, p))
		}
		i, err := spec.Spec{}.MakeInterest(name, &ndn.InterestConfig{Nonce: nonce, Lifetime: &lt, MustBeFresh: fresh, HopLimit: &hl}, nil, nil)
		if err != nil {
			panic(err)
		}
		wire = i.Wire.Join()
		if target == 0 || len(wire) == target {
			break
		}
		if pad < 0 {
			pad = 0
		}
		pad += target - len(wire)
		if pad < 0 {
			break
		}
	}
	return wire
}

var lpMTUs = []int{128, 255, 256, 1500, 8800}
var lpMTUsThorough = []int{128, 129, 200, 255, 256, 257, 300, 576, 1280, 1500, 4000, 8800}

func pickToken(r *rand.Rand, nthreads int) []byte {
	switch r.Intn(6) {
	case 0:
		if r.Intn(2) == 0 {
			return []byte{} // absent, but not nil
		}
		return nil
	case 1, 2: // the forwarder's own format: uint16 thread + uint32
		t := make([]byte, 6)
		r.Read(t)
		th := r.Intn(nthreads)
		t[0], t[1] = byte(th>>8), byte(th)
		return t
	case 3:
		t := make([]byte, 32)
		r.Read(t)
		return t
	case 4:
		t := make([]byte, 1+r.Intn(5))
		r.Read(t)
		return t
	default:
		t := make([]byte, 7+r.Intn(25))
		r.Read(t)
		return t
	}
}

func pickOptU(r *rand.Rand) *uint64 {
	switch r.Intn(7) {
	case 0, 1, 2:
		return nil
	case 3:
		return utils.IdPtr(uint64(r.Intn(2)))
	case 4:
		return utils.IdPtr(uint64(256 + r.Intn(65000)))
	case 5:
		return utils.IdPtr(uint64(1)<<32 + uint64(r.Intn(1000)))
	default:
		return utils.IdPtr(uint64(r.Intn(256)))
	}
}

var seqStarts = []uint64{0, 1, 1000, 1<<32 - 1, 1<<63 - 2, 1<<64 - 1, 1<<64 - 2, 1<<64 - 3, 1<<64 - 200}

// boundarySizes returns packet sizes around every boundary of the fragmentation arithmetic for this MTU.
func boundarySizes(mtu int) []int {
	var res []int
	add := func(x int) {
		if x >= 30 && x <= 8800 {
			res = append(res, x)
		}
	}
	for _, base := range []int{mtu, 2 * mtu, 3 * mtu, 253, 256, 65536} {
		for d := -70; d <= 4; d++ {
			add(base + d)
		}
	}
	for _, x := range []int{30, 31, 40, 100, 252, 253, 254, 255, 256, 257, 8700, 8790, 8796, 8799, 8800} {
		add(x)
	}
	return res
}

// genPermCase: up to three messages sent on one face, all frames delivered to the peer in a random interleaving.
func genPermCase(r *rand.Rand, idx int, thorough bool) *lpCase {
	mtus := lpMTUs
	if thorough {
		mtus = lpMTUsThorough
	}
	c := &lpCase{id: fmt.Sprintf("perm%d", idx), kind: "c10-perm", nthreads: 1 + r.Intn(4), local: r.Intn(4) == 0, reasm: true,
		ccf: r.Intn(2) == 0, lcp: r.Intn(2) == 0}
	mtu := mtus[r.Intn(len(mtus))]
	nmsg := 1 + r.Intn(3)
	seq := seqStarts[r.Intn(len(seqStarts))]
	frag := r.Intn(8) != 0
	ifi := r.Intn(3) == 0
	sizes := boundarySizes(mtu)
	for m := 0; m < nmsg; m++ {
		var wire []byte
		if r.Intn(7) == 0 {
			wire = mkSpecialPacket(r)
		} else if r.Intn(4) == 0 { // Interests with a HopLimit, one to three fragments on the small MTUs
			if mtu <= 256 && r.Intn(3) != 0 {
				wire = mkInterestSized(r, mtu/2+r.Intn(2*mtu))
			} else {
				wire = mkInterest(r)
			}
		} else {
			target := sizes[r.Intn(len(sizes))]
			if r.Intn(4) == 0 {
				target = 30 + r.Intn(8771)
			}
			if mtu <= 256 && r.Intn(3) != 0 { // keep the number of fragments moderate most of the time
				target = 30 + r.Intn(6*mtu)
			}
			wire = mkData(r, target)
		}
		o := &lpOp{kind: "SEND", mtu: mtu, frag: frag, ifi: ifi, seq: seq, tok: pickToken(r, c.nthreads), mark: pickOptU(r), wire: wire}
		if r.Intn(2) == 0 {
			o.inface = utils.IdPtr(uint64(r.Intn(70000)))
		}
		if r.Intn(4) == 0 {
			o.hist = randHist(r, frag, ifi)
		}
		if r.Intn(5) == 0 {
			o.own = true
		}
		c.ops = append(c.ops, o)
		seq += 400 // more than any packet needs (<= 275 fragments); wraps like the real counter
	}
	c.after = func(c *lpCase, r *rand.Rand) []*lpOp {
		type ref struct{ m, i int }
		var all []ref
		var per [][][]byte
		for _, o := range c.ops {
			if o.kind == "SEND" {
				per = append(per, o.frames)
			}
		}
		switch r.Intn(4) {
		case 0: // in order, message by message
			for m, fs := range per {
				for i := range fs {
					all = append(all, ref{m, i})
				}
			}
		case 1: // every message reversed, round-robin interleaving
			for i := 0; ; i++ {
				any := false
				for m, fs := range per {
					if i < len(fs) {
						all = append(all, ref{m, len(fs) - 1 - i})
						any = true
					}
				}
				if !any {
					break
				}
			}
		default:
			for m, fs := range per {
				for i := range fs {
					all = append(all, ref{m, i})
				}
			}
			r.Shuffle(len(all), func(i, j int) { all[i], all[j] = all[j], all[i] })
		}
		res := make([]*lpOp, len(all))
		for k, x := range all {
			res[k] = &lpOp{kind: "RECV", frame: per[x.m][x.i]}
			c.order = append(c.order, fmt.Sprintf("%d.%d", x.m, x.i))
		}
		return res
	}
	return c
}

var optItems = []string{"00", "01", "10", "11"}

// randHist returns an option history of 2..4 steps ending in (frag, ifi).
func randHist(r *rand.Rand, frag, ifi bool) []string {
	n := 1 + r.Intn(3)
	h := make([]string, 0, n+1)
	for i := 0; i < n; i++ {
		h = append(h, optItems[r.Intn(4)])
	}
	return append(h, b01(frag)+b01(ifi))
}

var histSeqs = []uint64{0, 255, 256, 65535, 65536, 1<<32 - 1, 1 << 32, 1<<32 + 7, 1<<63 - 1, 1<<64 - 1, 1<<64 - 3}

// genHistCase: a link service constructed with options A, changed by SetOptions (every pair of flag settings, incl.
// fragmentation off -> on and incoming-face indication off -> on), sequence counter near 2^32 / 2^64, then
// boundary-sized packets; the frames go to the peer in a random order.
func genHistCase(r *rand.Rand, idx int, thorough bool) *lpCase {
	mtus := lpMTUs
	if thorough {
		mtus = lpMTUsThorough
	}
	c := &lpCase{id: fmt.Sprintf("hist%d", idx), kind: "c10-perm", nthreads: 1 + r.Intn(3), reasm: true, ccf: r.Intn(2) == 0, lcp: r.Intn(2) == 0}
	mtu := mtus[r.Intn(len(mtus))]
	from := optItems[idx%4]
	to := optItems[(idx/4)%4]
	hist := []string{from, to}
	if idx%5 == 4 { // a longer history ending in the same options
		hist = []string{optItems[r.Intn(4)], from, to}
	}
	frag, ifi := to[0] == '1', to[1] == '1'
	sizes := boundarySizes(mtu)
	seq := histSeqs[r.Intn(len(histSeqs))]
	nmsg := 1 + r.Intn(2)
	for m := 0; m < nmsg; m++ {
		target := sizes[r.Intn(len(sizes))]
		if r.Intn(3) == 0 {
			target = 2*mtu + r.Intn(3*mtu)
		}
		if target > 8800 {
			target = 8800 - r.Intn(50)
		}
		o := &lpOp{kind: "SEND", mtu: mtu, frag: frag, ifi: ifi, seq: seq, tok: pickToken(r, c.nthreads), mark: pickOptU(r), wire: mkData(r, target), hist: hist, own: r.Intn(4) == 0}
		if r.Intn(4) != 0 {
			o.inface = utils.IdPtr([]uint64{1, 255, 256, 70000, 1 << 32, 1<<64 - 1}[r.Intn(6)])
		}
		c.ops = append(c.ops, o)
		seq += 400
	}
	c.after = func(c *lpCase, r *rand.Rand) []*lpOp {
		type ref struct{ m, i int }
		var all []ref
		var per [][][]byte
		for _, o := range c.ops {
			if o.kind == "SEND" {
				per = append(per, o.frames)
			}
		}
		for m, fs := range per {
			for i := range fs {
				all = append(all, ref{m, i})
			}
		}
		r.Shuffle(len(all), func(i, j int) { all[i], all[j] = all[j], all[i] })
		res := make([]*lpOp, len(all))
		for k, x := range all {
			res[k] = &lpOp{kind: "RECV", frame: per[x.m][x.i]}
			c.order = append(c.order, fmt.Sprintf("%d.%d", x.m, x.i))
		}
		return res
	}
	return c
}

// exactFit returns the largest packet size whose unfragmented LpPacket with these header fields is at most mtu bytes.
func exactFit(mtu int, tok []byte, inface, mark *uint64) int {
	for n := mtu; n > 0; n-- {
		lp := &spec.LpPacket{Fragment: enc.Wire{make([]byte, n)}, IncomingFaceId: inface, CongestionMark: mark}
		if len(tok) > 0 {
			lp.PitToken = tok
		}
		if len(encodeLp(lp)) <= mtu {
			return n
		}
	}
	return 0
}

// genVaryCase: ONE link service sends packet after packet with varying sets of header fields - a field present, then absent;
// token lengths shrinking 32 -> 6 -> 1 -> none; mark set -> unset; incoming-face id set -> unset - mostly unfragmented, some
// exactly filling the MTU (a stale field of the previous packet would make them oversize), some fragmented in between.
// The peer gets all frames in order; every delivered (bytes, token, mark) is compared with what was sent.
func genVaryCase(r *rand.Rand, idx int) *lpCase {
	c := &lpCase{id: fmt.Sprintf("vary%d", idx), kind: "c10-perm", nthreads: 1 + idx%3, reasm: true}
	mtu := []int{256, 1500, 8800, 400}[idx%4]
	if idx%2 == 1 {
		mtu = 8800 // created at the maximum, lowered later
	}
	ifi := idx%2 == 0
	toks := [][]byte{make([]byte, 32), {0, 0, 9, 8, 7, 6}, {0x42}, nil, {0, 0, 1, 1, 1, 1}, nil, make([]byte, 20), nil}
	marks := []*uint64{utils.IdPtr(uint64(1)), nil, utils.IdPtr(uint64(70000)), nil, nil, utils.IdPtr(uint64(0)), nil, nil}
	infaces := []*uint64{utils.IdPtr(uint64(300)), utils.IdPtr(uint64(1) << 40), nil, nil, utils.IdPtr(uint64(7)), nil, nil, nil}
	rot := r.Intn(8)
	n := 5 + r.Intn(4)
	for k := 0; k < n; k++ {
		j := (k + rot) % 8
		tok, mark, inface := toks[j], marks[(j+idx)%8], infaces[(j+2*idx)%8]
		if len(tok) > 6 {
			tok = append([]byte{}, tok...)
			r.Read(tok)
		}
		if tok == nil && r.Intn(2) == 0 {
			tok = []byte{}
		}
		if !ifi {
			inface = nil
		}
		var size int
		switch r.Intn(4) {
		case 0: // at the one-frame limit for the fields of THIS packet: limit-2 .. limit+2
			size = exactFit(mtu, tok, inface, mark) - 2 + r.Intn(5)
		case 1: // fragmented
			size = mtu + 50 + r.Intn(mtu)
		default:
			size = 90 + r.Intn(100)
		}
		if size > 8800 {
			size = 8800
		}
		if size < 90 {
			size = 90
		}
		c.ops = append(c.ops, &lpOp{kind: "SEND", mtu: mtu, frag: idx%5 != 4, ifi: ifi, seq: seqStarts[idx%len(seqStarts)], tok: tok, mark: mark, inface: inface,
			wire: mkData(r, size), keep: k > 0})
		// SetMTU between packets (faces/update with Mtu): the next packet is sized for the NEW MTU - often between the old and
		// the new one, so that a stale MTU shows as an oversize frame (lowered) or as a needlessly split packet (raised)
		if idx%2 == 1 && r.Intn(2) == 0 {
			mtu = []int{8800, 1500, 400, 256, 128, 1000, 4000}[r.Intn(7)]
		}
	}
	c.after = func(c *lpCase, r *rand.Rand) []*lpOp {
		var res []*lpOp
		m := 0
		for _, o := range c.ops {
			if o.kind == "SEND" {
				for i, f := range o.frames {
					res = append(res, &lpOp{kind: "RECV", frame: f})
					c.order = append(c.order, fmt.Sprintf("%d.%d", m, i))
				}
				m++
			}
		}
		return res
	}
	return c
}

// genBigCase: a near-maximum packet (8179..8800 bytes) on one of the smallest MTUs with the header fields that shrink the
// per-fragment payload most (32-byte token, congestion mark, incoming-face id): the largest fragment counts a sender can
// produce (up to ~200); all frames go to the peer in random order.
func genBigCase(r *rand.Rand, idx int) *lpCase {
	c := &lpCase{id: fmt.Sprintf("big%d", idx), kind: "c10-perm", nthreads: 1, reasm: true}
	mtu := []int{128, 129, 140, 157, 128, 135}[idx%6]
	size := []int{8800, 8799, 8179, 8500, 8790, 8300}[idx%6] - r.Intn(3)
	o := &lpOp{kind: "SEND", mtu: mtu, frag: true, ifi: idx%2 == 0, seq: seqStarts[r.Intn(len(seqStarts))], wire: mkData(r, size)}
	switch idx % 3 {
	case 0:
		o.tok = make([]byte, 32)
		r.Read(o.tok)
		o.mark = utils.IdPtr(uint64(1))
		o.inface = utils.IdPtr(uint64(1<<64 - 1))
	case 1:
		o.tok = []byte{0, 0, 1, 2, 3, 4}
		o.mark = utils.IdPtr(uint64(300))
	default:
		o.inface = utils.IdPtr(uint64(70000))
	}
	c.ops = append(c.ops, o)
	c.after = func(c *lpCase, r *rand.Rand) []*lpOp {
		fs := c.ops[0].frames
		idxs := r.Perm(len(fs))
		res := make([]*lpOp, len(fs))
		for k, i := range idxs {
			res[k] = &lpOp{kind: "RECV", frame: fs[i]}
			c.order = append(c.order, fmt.Sprintf("0.%d", i))
		}
		return res
	}
	return c
}

// genDispatchCase: the same Data (and an Interest) sent with every kind of PIT token - of our own format naming each
// existing thread, naming thread ids that do not exist (count, count+1, 0xffff), foreign formats (1..5, 7..32 bytes), none -
// unfragmented and fragmented, to a peer with 1 or several forwarding threads.  Checked after every frame: deliveries on ALL
// recording threads (exactly once; own-format token => only the named thread; invalid id => none).
func genDispatchCase(r *rand.Rand, idx int) *lpCase {
	nthreads := []int{1, 2, 3, 8}[idx%4]
	c := &lpCase{id: fmt.Sprintf("disp%d", idx), kind: "c10-dispatch", nthreads: nthreads, local: idx%3 == 0, reasm: true}
	setThreads(nthreads)
	mtu := []int{128, 1500}[(idx/4)%2]
	var toks [][]byte
	for th := 0; th < nthreads; th++ {
		toks = append(toks, []byte{byte(th >> 8), byte(th), byte(r.Intn(256)), byte(r.Intn(256)), 7, 7})
	}
	for _, th := range []int{nthreads, nthreads + 1, 255, 256, 0xffff} {
		toks = append(toks, []byte{byte(th >> 8), byte(th), 1, 2, 3, 4})
	}
	toks = append(toks, nil, []byte{0}, []byte{0, 0, 1, 2, 3}, []byte{0, 0, 1, 2, 3, 4, 5}, make([]byte, 32))
	seq := uint64(r.Intn(1000))
	for _, tok := range toks {
		wire := mkData(r, 100+r.Intn(500))
		if r.Intn(6) == 0 {
			wire = mkInterest(r)
		}
		c.ops = append(c.ops, &lpOp{kind: "SEND", mtu: mtu, frag: true, seq: seq, tok: tok, mark: pickOptU(r), wire: wire})
		seq += 400
	}
	c.after = func(c *lpCase, r *rand.Rand) []*lpOp {
		type ref struct{ m, i int }
		var all []ref
		var per [][][]byte
		for _, o := range c.ops {
			if o.kind == "SEND" {
				per = append(per, o.frames)
			}
		}
		for m, fs := range per {
			for i := range fs {
				all = append(all, ref{m, i})
			}
		}
		if r.Intn(2) == 0 {
			r.Shuffle(len(all), func(i, j int) { all[i], all[j] = all[j], all[i] })
		}
		res := make([]*lpOp, len(all))
		for k, x := range all {
			res[k] = &lpOp{kind: "RECV", frame: per[x.m][x.i]}
			c.order = append(c.order, fmt.Sprintf("%d.%d", x.m, x.i))
		}
		return res
	}
	return c
}

// genAllPermCases: a fixed set of messages (2 or 3, two to three fragments each, at most maxFrames frames in total) and
// one case per permutation of all their frames: every arrival order, not a sample.
func genAllPermCases(r *rand.Rand, idx int, maxFrames int) []*lpCase {
	mtu := []int{128, 256, 1500}[idx%3]
	nmsg := 2 + idx%2
	if maxFrames < 6 {
		nmsg = 2
	}
	// 6-byte token, no mark, no incoming-face indication: one frame up to mtu-16 bytes, mtu-34 payload bytes per fragment
	var sends []*lpOp
	for m := 0; m < nmsg; m++ {
		nf := 2
		if m == 0 && nmsg == 2 && maxFrames >= 5 {
			nf = 3
		}
		lo, hi := mtu-8, 2*(mtu-34)-2
		if nf == 3 {
			lo, hi = 2*(mtu-34)+4, 3*(mtu-34)-2
		}
		wire := mkData(r, lo+r.Intn(hi-lo+1))
		tok := []byte{0, byte(m % 2), 9, 9, 9, byte(m)}
		sends = append(sends, &lpOp{kind: "SEND", mtu: mtu, frag: true, ifi: false, seq: uint64(1<<64-2) + uint64(400*m), tok: tok, wire: wire})
	}
	// number of frames is known only after sending: probe once
	probe := &lpCase{id: "probe", kind: "c10-allperm", nthreads: 2, reasm: true}
	for _, o := range sends {
		cp := *o
		probe.ops = append(probe.ops, &cp)
	}
	var sink strings.Builder
	pw := bufio.NewWriter(&sink)
	runLpCase(pw, probe, r)
	type ref struct{ m, i int }
	var refs []ref
	for m, o := range probe.ops {
		for i := range o.frames {
			refs = append(refs, ref{m, i})
		}
	}
	if len(refs) > maxFrames || len(refs) < 2 {
		return nil
	}
	var res []*lpCase
	var perm func(k int)
	cur := make([]ref, len(refs))
	copy(cur, refs)
	count := 0
	perm = func(k int) {
		if k == len(cur) {
			order := make([]string, len(cur))
			for i, x := range cur {
				order[i] = fmt.Sprintf("%d.%d", x.m, x.i)
			}
			c := &lpCase{id: fmt.Sprintf("allperm%d-%d", idx, count), kind: "c10-perm", nthreads: 2, reasm: true}
			count++
			for _, o := range sends {
				cp := *o
				c.ops = append(c.ops, &cp)
			}
			c.after = func(c *lpCase, r *rand.Rand) []*lpOp {
				var per [][][]byte
				for _, o := range c.ops {
					if o.kind == "SEND" {
						per = append(per, o.frames)
					}
				}
				var out []*lpOp
				for _, it := range order {
					var m, i int
					fmt.Sscanf(it, "%d.%d", &m, &i)
					if m < len(per) && i < len(per[m]) {
						out = append(out, &lpOp{kind: "RECV", frame: per[m][i]})
						c.order = append(c.order, it)
					}
				}
				return out
			}
			res = append(res, c)
			return
		}
		for j := k; j < len(cur); j++ {
			cur[k], cur[j] = cur[j], cur[k]
			perm(k + 1)
			cur[k], cur[j] = cur[j], cur[k]
		}
	}
	perm(0)
	return res
}

// genSweepCase: frame lengths for a range of packet sizes (pattern payload, send side only).
func genSweepCase(r *rand.Rand, idx int, mtu int, sizes []int) *lpCase {
	c := &lpCase{id: fmt.Sprintf("sweep%d", idx), kind: "c10-sweep", nthreads: 1, reasm: true}
	frag := idx%7 != 3
	ifi := idx%3 == 1
	var tok []byte
	switch idx % 4 {
	case 1:
		tok = []byte{0, 0, 1, 2, 3, 4}
	case 2:
		tok = make([]byte, 32)
	case 3:
		tok = []byte{} // empty but non-nil: must be treated exactly like no token
	}
	var mark, inface *uint64
	if idx%5 >= 3 {
		mark = utils.IdPtr(uint64(idx % 3 * 300))
	}
	if idx%2 == 0 {
		inface = utils.IdPtr(uint64(1000 + idx))
	}
	var hist []string
	if idx%2 == 1 { // the link service got its options through SetOptions; sequence numbers need 8 bytes
		hist = []string{optItems[(idx/2)%4], b01(frag) + b01(ifi)}
	}
	for _, n := range sizes {
		seq := uint64(n)
		if hist != nil {
			seq += 1 << 32
		}
		c.ops = append(c.ops, &lpOp{kind: "SENDZ", mtu: mtu, frag: frag, ifi: ifi, seq: seq, tok: tok, inface: inface, mark: mark, n: n, hist: hist, own: idx%3 == 2})
	}
	return c
}

// ------------------------------------------------------------------------------------------------ adversarial frame sequences (C04)

func encodeLp(lp *spec.LpPacket) []byte {
	pkt := &spec.Packet{LpPacket: lp}
	e := spec.PacketEncoder{}
	e.Init(pkt)
	w := e.Encode(pkt)
	if w == nil {
		return nil
	}
	return w.Join()
}

var advNums = []uint64{0, 1, 2, 3, 4, 5, 7, 255, 256, 274, 275, 276, 277, 400, 65535, 65536, 1 << 20, 1<<32 - 1, 1 << 32, 1 << 47, 1<<63 - 1, 1 << 63, 1<<64 - 2, 1<<64 - 1}

func pickAdvNum(r *rand.Rand) *uint64 {
	if r.Intn(10) == 0 {
		return nil
	}
	if r.Intn(2) == 0 {
		return utils.IdPtr(uint64(r.Intn(6)))
	}
	return utils.IdPtr(advNums[r.Intn(len(advNums))])
}

func mutateFrame(r *rand.Rand, f []byte) []byte {
	g := append([]byte{}, f...)
	if len(g) == 0 {
		return g
	}
	switch r.Intn(6) {
	case 0: // truncate
		return g[:r.Intn(len(g))]
	case 1: // flip a bit in the header area
		i := r.Intn(min(len(g), 40))
		g[i] ^= 1 << uint(r.Intn(8))
	case 2: // overwrite a byte with a TL head value
		i := r.Intn(min(len(g), 40))
		g[i] = []byte{0xfd, 0xfe, 0xff, 0, 0x50, 0x51, 0x52, 0x53, 0x62, 0x64, 5, 6}[r.Intn(12)]
	case 3: // append garbage
		extra := make([]byte, 1+r.Intn(12))
		r.Read(extra)
		g = append(g, extra...)
	case 4: // random byte anywhere
		g[r.Intn(len(g))] = byte(r.Intn(256))
	default: // drop a byte
		i := r.Intn(len(g))
		g = append(g[:i], g[i+1:]...)
	}
	return g
}

// handcrafted network-layer packets at the edges of the Interest/Data checks (each is fed bare, LP-wrapped and split)
var edgeL3 = [][]byte{
	{0x05, 0x05, 0x07, 0x00, 0x24, 0x01, 0x00}, // Interest, empty name, ApplicationParameters
	{0x05, 0x02, 0x07, 0x00},                   // Interest, empty name
	{0x05, 0x00},                               // Interest without name
	{0x06, 0x02, 0x07, 0x00},                   // Data, empty name
	{0x06, 0x00},                               // Data without name
	{0x05, 0x08, 0x07, 0x03, 0x08, 0x01, 0x61, 0x24, 0x01, 0x00},             // parameters, no digest component
	{0x05, 0x0a, 0x07, 0x05, 0x08, 0x01, 0x61, 0x02, 0x00, 0x24, 0x01, 0x00}, // empty digest component
	{0x05, 0x07, 0x07, 0x03, 0x08, 0x01, 0x61, 0x0a, 0x00},                   // empty nonce
	{0x05, 0x09, 0x07, 0x03, 0x08, 0x01, 0x61, 0x2c, 0x00, 0x2e, 0x00},       // signed Interest pieces without parameters
	{0x06, 0x07, 0x07, 0x03, 0x08, 0x01, 0x61, 0x16, 0x00},                   // Data, empty SignatureInfo
	{0x05, 0x05, 0x07, 0x03, 0x08, 0x01, 0x61, 0x06, 0x02, 0x07, 0x00},       // Interest followed by a Data in one frame
	{0x64, 0x06, 0xfd, 0x03, 0x20, 0x00, 0x50, 0x00},                         // Nack header, empty fragment
}

// soupL3 builds an Interest- or Data-typed TLV from a random selection of (possibly empty or odd) fields.
func soupL3(r *rand.Rand) []byte {
	nameOpts := [][]byte{{0x07, 0x00}, {0x07, 0x03, 0x08, 0x01, 0x61}, {0x07, 0x02, 0x08, 0x00}, {0x07, 0x05, 0x08, 0x01, 0x61, 0x02, 0x00},
		append([]byte{0x07, 0x25, 0x08, 0x01, 0x61, 0x02, 0x20}, make([]byte, 32)...), {0x07, 0x04, 0x01, 0x02, 0xff, 0xff}}
	var body []byte
	if r.Intn(8) != 0 {
		body = append(body, nameOpts[r.Intn(len(nameOpts))]...)
	}
	var fields [][]byte
	if r.Intn(2) == 0 {
		fields = [][]byte{{0x21, 0x00}, {0x12, 0x00}, {0x1e, 0x00}, {0x0a, 0x04, 1, 2, 3, 4}, {0x0a, 0x00}, {0x0c, 0x01, 0x10}, {0x0c, 0x00}, {0x22, 0x01, 0x05}, {0x22, 0x00},
			{0x24, 0x01, 0x00}, {0x24, 0x00}, {0x2c, 0x03, 0x1b, 0x01, 0x00}, {0x2c, 0x00}, {0x2e, 0x00}, {0x2e, 0x02, 1, 2}}
		n := r.Intn(5)
		for i := 0; i < n; i++ {
			body = append(body, fields[r.Intn(len(fields))]...)
		}
		return append([]byte{0x05, byte(len(body))}, body...)
	}
	fields = [][]byte{{0x14, 0x00}, {0x14, 0x03, 0x18, 0x01, 0x00}, {0x14, 0x02, 0x1a, 0x00}, {0x15, 0x00}, {0x15, 0x02, 7, 7}, {0x16, 0x00}, {0x16, 0x03, 0x1b, 0x01, 0x00},
		{0x17, 0x00}, {0x17, 0x20}, {0x17, 0x02, 1, 2}}
	n := r.Intn(5)
	for i := 0; i < n; i++ {
		body = append(body, fields[r.Intn(len(fields))]...)
	}
	return append([]byte{0x06, byte(len(body))}, body...)
}

func genAdvLpCase(r *rand.Rand, idx int) *lpCase {
	c := &lpCase{id: fmt.Sprintf("advlp%d", idx), kind: "adv-frames", nthreads: 1 + r.Intn(4), local: r.Intn(3) == 0, reasm: r.Intn(6) != 0,
		ccf: r.Intn(2) == 0, lcp: r.Intn(2) == 0}
	setThreads(c.nthreads)
	nops := 4 + r.Intn(24)
	data := mkData(r, 60+r.Intn(300))
	interest := mkInterest(r)
	pieces := func(w []byte, k int) [][]byte {
		var res [][]byte
		sz := (len(w) + k - 1) / k
		for i := 0; i < len(w); i += sz {
			j := i + sz
			if j > len(w) {
				j = len(w)
			}
			res = append(res, w[i:j])
		}
		return res
	}
	bases := []uint64{0, 5, 1000, 1<<64 - 2, uint64(r.Intn(50))}
	var prev [][]byte
	for k := 0; k < nops; k++ {
		var f []byte
		switch r.Intn(16) {
		case 14, 15: // PIT tokens of every length (the decoder accepts any; NDNLPv2 says 1..32), valid inner packet or undecodable fragment
			tl := []int{0, 1, 31, 32, 33, 64, 255, 1000}[r.Intn(8)]
			tok := make([]byte, tl)
			r.Read(tok)
			var w []byte
			switch r.Intn(4) {
			case 0:
				w = interest
			case 1:
				w = []byte{0x06, 0x03, 0xff, 0xff, 0xff} // not a packet
			default:
				w = data
			}
			lp := &spec.LpPacket{PitToken: tok, Fragment: enc.Wire{w}}
			if r.Intn(3) == 0 { // as the last fragment of a two-fragment message
				h := len(w) / 2
				base := uint64(7000 + 10*k)
				f0 := encodeLp(&spec.LpPacket{Sequence: utils.IdPtr(base), FragIndex: utils.IdPtr(uint64(0)), FragCount: utils.IdPtr(uint64(2)), Fragment: enc.Wire{w[:h]}})
				prev = append(prev, f0)
				c.ops = append(c.ops, &lpOp{kind: "RECV", frame: f0})
				lp = &spec.LpPacket{Sequence: utils.IdPtr(base + 1), FragIndex: utils.IdPtr(uint64(1)), FragCount: utils.IdPtr(uint64(2)), PitToken: tok, Fragment: enc.Wire{w[h:]}}
			}
			f = encodeLp(lp)
		case 12, 13: // network-layer packets at the edges of the Interest/Data checks: bare, LP-wrapped, or as two fragments
			var w []byte
			if r.Intn(3) == 0 {
				w = edgeL3[r.Intn(len(edgeL3))]
			} else {
				w = soupL3(r)
			}
			switch r.Intn(4) {
			case 0:
				f = w
			case 1:
				f = encodeLp(&spec.LpPacket{Fragment: enc.Wire{w}, PitToken: pickToken(r, c.nthreads)})
			case 2:
				f = encodeLp(&spec.LpPacket{Fragment: enc.Wire{w}})
			default:
				if len(w) >= 2 {
					h := len(w) / 2
					base := uint64(5000 + 10*k)
					f0 := encodeLp(&spec.LpPacket{Sequence: utils.IdPtr(base), FragIndex: utils.IdPtr(uint64(0)), FragCount: utils.IdPtr(uint64(2)), Fragment: enc.Wire{w[:h]}})
					prev = append(prev, f0)
					c.ops = append(c.ops, &lpOp{kind: "RECV", frame: f0})
					f = encodeLp(&spec.LpPacket{Sequence: utils.IdPtr(base + 1), FragIndex: utils.IdPtr(uint64(1)), FragCount: utils.IdPtr(uint64(2)), Fragment: enc.Wire{w[h:]}})
				} else {
					f = w
				}
			}
		case 0, 1, 2: // a fragment frame with arbitrary numbers
			lp := &spec.LpPacket{Sequence: pickAdvNum(r), FragIndex: pickAdvNum(r), FragCount: pickAdvNum(r)}
			if lp.Sequence != nil && r.Intn(2) == 0 {
				lp.Sequence = utils.IdPtr(bases[r.Intn(len(bases))] + uint64(r.Intn(4)))
			}
			pl := pieces(data, 1+r.Intn(4))
			lp.Fragment = enc.Wire{pl[r.Intn(len(pl))]}
			if r.Intn(3) == 0 {
				lp.PitToken = pickToken(r, c.nthreads)
			}
			f = encodeLp(lp)
		case 3, 4: // a consistent fragment of a small message (so that some messages complete), possibly duplicated / wrong count
			n := 2 + r.Intn(3)
			w := data
			if r.Intn(3) == 0 {
				w = interest
			}
			pl := pieces(w, n)
			i := r.Intn(len(pl))
			base := bases[r.Intn(len(bases))]
			cnt := uint64(len(pl))
			if r.Intn(8) == 0 {
				cnt += uint64(r.Intn(3))
			}
			lp := &spec.LpPacket{Sequence: utils.IdPtr(base + uint64(i)), FragIndex: utils.IdPtr(uint64(i)), FragCount: utils.IdPtr(cnt), Fragment: enc.Wire{pl[i]}}
			if r.Intn(2) == 0 {
				lp.CongestionMark = pickOptU(r)
			}
			if r.Intn(2) == 0 {
				lp.PitToken = pickToken(r, c.nthreads)
			}
			if r.Intn(4) == 0 {
				lp.NextHopFaceId = pickOptU(r)
			}
			if r.Intn(4) == 0 {
				lp.CachePolicy = &spec.CachePolicy{CachePolicyType: uint64(r.Intn(3))}
			}
			f = encodeLp(lp)
		case 5: // whole packet in one LP frame with a 6-byte token naming a thread around the thread count
			t := make([]byte, 6)
			r.Read(t)
			th := []int{0, c.nthreads - 1, c.nthreads, c.nthreads + 1, 0xffff, 256}[r.Intn(6)]
			t[0], t[1] = byte(th>>8), byte(th)
			w := data
			if r.Intn(4) == 0 {
				w = interest
			}
			f = encodeLp(&spec.LpPacket{PitToken: t, Fragment: enc.Wire{w}})
		case 6: // bare packet
			if r.Intn(2) == 0 {
				f = data
			} else {
				f = interest
			}
		case 7: // mutation of an earlier frame
			if len(prev) > 0 {
				f = mutateFrame(r, prev[r.Intn(len(prev))])
			} else {
				f = mutateFrame(r, data)
			}
		case 8: // random bytes
			f = make([]byte, r.Intn(60))
			r.Read(f)
		case 9: // LP frame without fragment (IDLE), with empty fragment, nested LP, fragmentation fields without sequence
			switch r.Intn(6) {
			case 4, 5: // IDLE LpPacket (no Fragment; with and without other headers) in one frame with a network packet: ReadPacket
				// accepts the frame because of the packet, the link service then sees an LpPacket without fragment
				idle := []byte{0x64, 0x00}
				if r.Intn(2) == 0 {
					idle = append([]byte{0x64, 0x0d}, 0x51, 0x08, 0, 0, 0, 0, 0, 0, 0, 9, 0x62, 0x01, 0x07)
				}
				w := interest
				if r.Intn(2) == 0 {
					w = data
				}
				if r.Intn(2) == 0 {
					f = append(append([]byte{}, w...), idle...)
				} else {
					f = append(append([]byte{}, idle...), w...)
				}
			case 0:
				f = []byte{0x64, 0x00}
			case 1:
				f = []byte{0x64, 0x02, 0x50, 0x00}
			case 2:
				in := encodeLp(&spec.LpPacket{Fragment: enc.Wire{data}})
				f = encodeLp(&spec.LpPacket{Fragment: enc.Wire{in}})
			default:
				f = encodeLp(&spec.LpPacket{FragIndex: pickAdvNum(r), FragCount: pickAdvNum(r), Fragment: enc.Wire{data}})
			}
		case 10: // handcrafted huge lengths inside the LP header
			hl := tlnum(hugeLens[r.Intn(len(hugeLens))])
			ty := []byte{0x51, 0x52, 0x53, 0x62, 0x50, 0x54, 0xfd, 0x03, 0x20}[r.Intn(7)]
			in := append([]byte{ty}, hl...)
			in = append(in, data[:r.Intn(20)]...)
			f = append([]byte{0x64}, tlnum(uint64(len(in)))...)
			f = append(f, in...)
		default: // duplicate of an earlier frame
			if len(prev) > 0 {
				f = prev[r.Intn(len(prev))]
			} else {
				f = data
			}
		}
		if f == nil {
			f = []byte{}
		}
		prev = append(prev, f)
		c.ops = append(c.ops, &lpOp{kind: "RECV", frame: f})
	}
	return c
}

// ------------------------------------------------------------------------------------------------ corpus / replay input

func parseKV(fields []string) map[string]string {
	m := map[string]string{}
	for _, f := range fields {
		if i := strings.IndexByte(f, '='); i > 0 {
			m[f[:i]] = f[i+1:]
		}
	}
	return m
}
func unhx(s string) []byte {
	if s == "-" || s == "" || s == "e" {
		return nil
	}
	b, err := hex.DecodeString(s)
	if err != nil {
		panic(err)
	}
	return b
}
func unoptU(s string) *uint64 {
	if s == "-" || s == "" {
		return nil
	}
	v, err := strconv.ParseUint(s, 10, 64)
	if err != nil {
		panic(err)
	}
	return &v
}

// readLpCases parses LPCASE / SEND / SENDZ / RECV lines (observation lines are ignored).
func readLpCases(path string) ([]*lpCase, error) {
	f, err := os.Open(path)
	if err != nil {
		return nil, err
	}
	defer f.Close()
	var res []*lpCase
	var cur *lpCase
	sc := bufio.NewScanner(f)
	sc.Buffer(make([]byte, 1<<20), 1<<26)
	for sc.Scan() {
		fs := strings.Fields(sc.Text())
		if len(fs) == 0 {
			continue
		}
		switch fs[0] {
		case "LPCASE":
			kv := parseKV(fs[3:])
			n, _ := strconv.Atoi(kv["nthreads"])
			cur = &lpCase{id: fs[1], kind: fs[2], nthreads: n, local: kv["local"] == "1", reasm: kv["reasm"] == "1", ccf: kv["ccf"] == "1", lcp: kv["lcp"] == "1", rx: kv["rx"]}
			res = append(res, cur)
		case "SEND", "SENDZ":
			kv := parseKV(fs[1:])
			mtu, _ := strconv.Atoi(kv["mtu"])
			seq, _ := strconv.ParseUint(kv["seq"], 10, 64)
			o := &lpOp{kind: fs[0], mtu: mtu, frag: kv["frag"] == "1", ifi: kv["ifi"] == "1", seq: seq, tok: unhx(kv["tok"]), inface: unoptU(kv["inface"]), mark: unoptU(kv["mark"])}
			if kv["tok"] == "e" {
				o.tok = []byte{}
			}
			if h, ok := kv["hist"]; ok && h != "" && h != "-" {
				o.hist = strings.Split(h, ",")
			}
			o.keep = kv["keep"] == "1"
			o.own = kv["own"] == "1"
			if fs[0] == "SEND" {
				o.wire = unhx(kv["wire"])
			} else {
				o.n, _ = strconv.Atoi(kv["n"])
			}
			cur.ops = append(cur.ops, o)
		case "ORDER":
			// regenerate the frames from the sends of this run, in the recorded order; recorded RECV lines are skipped
			order := append([]string{}, fs[1:]...)
			cc := cur
			cc.order = nil
			cc.after = func(c *lpCase, r *rand.Rand) []*lpOp {
				var per [][][]byte
				for _, o := range c.ops {
					if o.kind == "SEND" {
						per = append(per, o.frames)
					}
				}
				var res []*lpOp
				for _, it := range order {
					var m, i int
					if _, err := fmt.Sscanf(it, "%d.%d", &m, &i); err == nil && m < len(per) && i < len(per[m]) {
						res = append(res, &lpOp{kind: "RECV", frame: per[m][i]})
						c.order = append(c.order, it)
					}
				}
				return res
			}
		case "RECV":
			if cur.after != nil {
				continue
			}
			fr := "-"
			if len(fs) > 1 {
				fr = fs[1]
			}
			cur.ops = append(cur.ops, &lpOp{kind: "RECV", frame: unhx(fr)})
		}
	}
	return res, sc.Err()
}

// TestLpTrace: VERIF_OUT, VERIF_SEED, VERIF_N (perm cases), VERIF_ADV (adversarial cases), VERIF_SWEEP ("quick" | "full" | ""),
// VERIF_CORPUS (directory with *.lpcase), VERIF_OPS (one file), VERIF_TIER.
func TestLpTrace(t *testing.T) {
	out := os.Getenv("VERIF_OUT")
	if out == "" {
		t.Skip("VERIF_OUT not set")
	}
	lpSetup()
	seed := int64(envInt("VERIF_SEED", 1))
	nperm := envInt("VERIF_N", 60)
	nadv := envInt("VERIF_ADV", 0)
	sweep := os.Getenv("VERIF_SWEEP")
	thorough := os.Getenv("VERIF_TIER") == "thorough"
	fo, err := os.Create(out)
	if err != nil {
		t.Fatal(err)
	}
	defer fo.Close()
	w := bufio.NewWriterSize(fo, 1<<20)
	defer w.Flush()
	fmt.Fprintf(w, "# seed=%d perm=%d adv=%d sweep=%s\n", seed, nperm, nadv, sweep)
	r := rand.New(rand.NewSource(seed*7919 + 13))
	var cases []*lpCase
	if ops := os.Getenv("VERIF_OPS"); ops != "" {
		cases, err = readLpCases(ops)
		if err != nil {
			t.Fatal(err)
		}
	} else {
		if dir := os.Getenv("VERIF_CORPUS"); dir != "" {
			ents, _ := os.ReadDir(dir)
			var names []string
			for _, e := range ents {
				if strings.HasSuffix(e.Name(), ".lpcase") {
					names = append(names, e.Name())
				}
			}
			sort.Strings(names)
			for _, n := range names {
				cs, err := readLpCases(dir + "/" + n)
				if err != nil {
					t.Fatalf("corpus %s: %v", n, err)
				}
				for _, c := range cs {
					c.id = "corpus-" + c.id
				}
				cases = append(cases, cs...)
			}
		}
		for i := 0; i < nperm; i++ {
			cases = append(cases, genPermCase(r, i, thorough))
		}
		// option histories (SetOptions) : every (from, to) pair of flag settings several times
		if nperm > 0 {
			nh := 48
			if thorough {
				nh = 1600
			}
			for i := 0; i < nh; i++ {
				cases = append(cases, genHistCase(r, i, thorough))
			}
		}
		// one link service, packet after packet with varying header-field sets
		if nperm > 0 {
			nv := 12
			if thorough {
				nv = 400
			}
			for i := 0; i < nv; i++ {
				cases = append(cases, genVaryCase(r, i))
			}
		}
		// near-maximum packets on the smallest MTUs: the sender's largest fragment counts against the receiver's bound
		if nperm > 0 {
			nb := 4
			if thorough {
				nb = 120
			}
			for i := 0; i < nb; i++ {
				cases = append(cases, genBigCase(r, i))
			}
		}
		// PIT token kinds x thread counts (exactly-once dispatch)
		if nperm > 0 {
			nd := 8
			if thorough {
				nd = 200
			}
			for i := 0; i < nd; i++ {
				cases = append(cases, genDispatchCase(r, i))
			}
		}
		// every permutation of the frames of a small set of messages
		if nperm > 0 {
			if thorough {
				for i := 0; i < 6; i++ {
					cases = append(cases, genAllPermCases(r, i, 6)...)
				}
			} else {
				cases = append(cases, genAllPermCases(r, 0, 4)...)
			}
		}
		switch sweep {
		case "quick": // sizes around every boundary for the five MTUs
			for i, mtu := range lpMTUs {
				for v := 0; v < 3; v++ {
					cases = append(cases, genSweepCase(r, i*3+v, mtu, boundarySizes(mtu)))
				}
			}
		case "full": // every size 1..8800 for twelve MTUs
			all := make([]int, 8800)
			for i := range all {
				all[i] = i + 1
			}
			for i, mtu := range lpMTUsThorough {
				cases = append(cases, genSweepCase(r, i, mtu, all))
			}
		}
		for i := 0; i < nadv; i++ {
			cases = append(cases, genAdvLpCase(r, i))
		}
	}
	for _, c := range cases {
		runLpCase(w, c, r)
		w.Flush()
	}
}

// TestClassify: VERIF_IN lines "<nthreads> <hex>" -> VERIF_OUT lines "<nthreads> <hex> <decode>" (spec.ReadPacket as in decodeStr).
func TestClassify(t *testing.T) {
	in, out := os.Getenv("VERIF_IN"), os.Getenv("VERIF_OUT")
	if in == "" || out == "" {
		t.Skip("VERIF_IN / VERIF_OUT not set")
	}
	lpSetup()
	fi, err := os.Open(in)
	if err != nil {
		t.Fatal(err)
	}
	defer fi.Close()
	fo, err := os.Create(out)
	if err != nil {
		t.Fatal(err)
	}
	defer fo.Close()
	w := bufio.NewWriterSize(fo, 1<<20)
	defer w.Flush()
	sc := bufio.NewScanner(fi)
	sc.Buffer(make([]byte, 1<<20), 1<<26)
	cur := -1
	for sc.Scan() {
		fs := strings.Fields(sc.Text())
		if len(fs) != 2 {
			continue
		}
		n, _ := strconv.Atoi(fs[0])
		if n != cur {
			setThreads(n)
			cur = n
		}
		fmt.Fprintf(w, "%s %s %s\n", fs[0], fs[1], decodeStr(unhx(fs[1])))
	}
}
