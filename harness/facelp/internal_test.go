// Harness for the internal (management) face, receive-path half of C04: the REAL internal face as the daemon registers it
// (face.RegisterInternalTransport: link service with fragmentation and incoming-face indication, MTU = MaxNDNPacketSize, its own
// send goroutine) - packets go in through SendPacket, the management side takes them out with InternalTransport.Receive, which
// dereferences LpPacket.IncomingFaceId of every frame.  Near-MTU management Interests make the link service fragment.
// Trace: IF <id> size=<n> token=<len> inface=<0|1> -> frames=<k> res=<ok|panic|timeout> inface_seen=<list>
package facelp

import (
	"fmt"
	"math/rand"
	"os"
	"strings"
	"testing"
	"time"

	defn "github.com/named-data/ndnd/fw/defn"
	"github.com/named-data/ndnd/fw/dispatch"
	"github.com/named-data/ndnd/fw/face"
	enc "github.com/named-data/ndnd/std/encoding"
	"github.com/named-data/ndnd/std/ndn"
	spec "github.com/named-data/ndnd/std/ndn/spec_2022"
	"github.com/named-data/ndnd/std/utils"
)

// mgmtInterest builds a management-style Interest /localhost/nfd/faces/create/<parameters> of about `target` bytes.
func mgmtInterest(r *rand.Rand, target int) []byte {
	plen := 0
	var wire []byte
	for iter := 0; iter < 8; iter++ {
		p := make([]byte, plen)
		r.Read(p)
		name := enc.Name{
			enc.NewStringComponent(enc.TypeGenericNameComponent, "localhost"), enc.NewStringComponent(enc.TypeGenericNameComponent, "nfd"),
			enc.NewStringComponent(enc.TypeGenericNameComponent, "faces"), enc.NewStringComponent(enc.TypeGenericNameComponent, "create"),
			enc.NewBytesComponent(enc.TypeGenericNameComponent, p),
		}
		lt := 4 * time.Second
		i, err := spec.Spec{}.MakeInterest(name, &ndn.InterestConfig{Nonce: utils.IdPtr(uint64(r.Uint32())), Lifetime: &lt, MustBeFresh: true}, nil, nil)
		if err != nil {
			panic(err)
		}
		wire = i.Wire.Join()
		if len(wire) == target {
			break
		}
		plen += target - len(wire)
		if plen < 0 {
			plen = 0
		}
	}
	return wire
}

func TestInternalTrace(t *testing.T) {
	out := os.Getenv("VERIF_OUT")
	if out == "" {
		t.Skip("VERIF_OUT not set")
	}
	lpSetup()
	face.Configure()
	setThreads(1)
	seed := int64(envInt("VERIF_SEED", 1))
	n := envInt("VERIF_N", 40)
	fo, err := os.Create(out)
	if err != nil {
		t.Fatal(err)
	}
	defer fo.Close()
	r := rand.New(rand.NewSource(seed ^ 0x1f))
	link, tr := face.RegisterInternalTransport()
	time.Sleep(10 * time.Millisecond)
	mtu := tr.MTU()
	sizes := []int{60, 300, mtu - 200}
	for d := 60; d >= 0; d -= 3 { // around the size where the LpPacket stops fitting the MTU, up to the maximum packet size
		sizes = append(sizes, mtu-d)
	}
	for len(sizes) < n {
		sizes = append(sizes, mtu-r.Intn(120))
	}
	for k, size := range sizes {
		if size > defn.MaxNDNPacketSize {
			size = defn.MaxNDNPacketSize
		}
		wire := mgmtInterest(r, size)
		var tok []byte
		if k%3 != 0 {
			tok = []byte{0, 0, byte(k), 1, 2, 3}
		}
		inface := utils.IdPtr(uint64(256 + k)) // the forwarding thread always names the incoming face
		pkt := &defn.Pkt{Raw: wire, L3: &spec.Packet{Interest: &spec.Interest{}}}
		link.SendPacket(dispatch.OutPkt{Pkt: pkt, PitToken: tok, InFace: inface})
		// the management side: Receive until the packet's bytes have all arrived (or nothing more comes)
		type got struct {
			n      int
			inface uint64
			res    string
		}
		var seen []string
		total, frames, res := 0, 0, "ok"
		for total < len(wire) && res == "ok" {
			ch := make(chan got, 1)
			go func() {
				defer func() {
					if p := recover(); p != nil {
						ch <- got{res: "panic"}
					}
				}()
				w, _, in := tr.Receive()
				ch <- got{n: int(w.Length()), inface: in, res: "ok"}
			}()
			select {
			case g := <-ch:
				if g.res != "ok" {
					res = g.res
					break
				}
				frames++
				total += g.n
				seen = append(seen, fmt.Sprint(g.inface))
			case <-time.After(2 * time.Second):
				res = "timeout"
			}
		}
		fmt.Fprintf(fo, "IF %d size=%d token=%d inface=%d -> frames=%d bytes=%d res=%s inface_seen=%s\n", k, len(wire), len(tok), *inface, frames, total, res, strings.Join(seen, ","))
		if res == "panic" {
			break // the management goroutine of the daemon would be gone
		}
	}
}
