// The per-transport glue around readTlvStream / sendFrame, executed on REAL sockets (C11 "sent over a stream face"): a unix-stream
// transport (as the unix listener creates it), an on-demand TCP transport (as the TCP listener creates it) and a unicast UDP
// transport, each under a real link service started with Run().  Receive direction: the harness writes a stream of frames in
// pieces that cut inside frames (datagrams for UDP); the recording forwarding threads must get exactly the packets sent.
// Send direction: SendPacket -> send goroutine -> sendPacket -> transport.sendFrame -> socket; the harness reads the bytes back
// and splits them into blocks.  Also Run(initial frame) (how a UDP listener starts an on-demand face) and the trivial getters.
// Lines: TR <transport> rx_sent=<n> rx_delivered=<n> rx_match=<0|1> tx_sent=<n> tx_got=<n> tx_match=<0|1> counters=<in>/<out>
//
//	RI delivered=<n> match=<0|1>
package facelp

import (
	"bytes"
	"fmt"
	"math/rand"
	"net"
	"os"
	"path/filepath"
	"sort"
	"testing"
	"time"

	defn "github.com/named-data/ndnd/fw/defn"
	"github.com/named-data/ndnd/fw/dispatch"
	"github.com/named-data/ndnd/fw/face"
	enc "github.com/named-data/ndnd/std/encoding"
	spec "github.com/named-data/ndnd/std/ndn/spec_2022"
)

// splitBlocks cuts a byte stream into TLV blocks (T, L, value); nil if it does not end at a block boundary.
func splitBlocks(b []byte) [][]byte {
	var res [][]byte
	for len(b) > 0 {
		rd := enc.NewBufferReader(b)
		if _, err := enc.ReadTLNum(rd); err != nil {
			return nil
		}
		l, err := enc.ReadTLNum(rd)
		if err != nil || rd.Pos()+int(l) > len(b) {
			return nil
		}
		n := rd.Pos() + int(l)
		res = append(res, b[:n])
		b = b[n:]
	}
	return res
}

func sameMultiset(a, b [][]byte) bool {
	if len(a) != len(b) {
		return false
	}
	x := make([]string, len(a))
	y := make([]string, len(b))
	for i := range a {
		x[i], y[i] = string(a[i]), string(b[i])
	}
	sort.Strings(x)
	sort.Strings(y)
	for i := range x {
		if x[i] != y[i] {
			return false
		}
	}
	return true
}

// exercise drives one real transport in both directions. write sends bytes towards the transport (one call = one socket write /
// one datagram), read collects what the transport wrote.
func exercise(fo *os.File, name string, l *face.NDNLPLinkService, r *rand.Rand, datagram bool, write func([]byte) error, read func(want int, d time.Duration) []byte) {
	l.Run(nil)
	time.Sleep(5 * time.Millisecond)
	dlog = dlog[:0]
	// receive direction
	var sent [][]byte
	var stream []byte
	for i := 0; i < 12; i++ {
		w := mkInterest(r)
		if i%3 == 1 {
			w = mkData(r, 150+r.Intn(1200))
		}
		sent = append(sent, w)
		f := w
		if i%2 == 0 {
			f = encodeLp(&spec.LpPacket{Fragment: enc.Wire{w}})
		}
		if datagram {
			write(f)
		} else {
			stream = append(stream, f...)
		}
	}
	for len(stream) > 0 { // pieces that end inside frames, inside T and L
		n := 1 + r.Intn(300)
		if n > len(stream) {
			n = len(stream)
		}
		write(stream[:n])
		stream = stream[n:]
		if r.Intn(3) == 0 {
			time.Sleep(time.Millisecond)
		}
	}
	for i := 0; i < 400 && len(dlog) < len(sent); i++ {
		time.Sleep(2 * time.Millisecond)
	}
	time.Sleep(5 * time.Millisecond)
	var got [][]byte
	for _, d := range dlog {
		got = append(got, d.pkt.Raw)
	}
	rxMatch := sameMultiset(sent, got)
	// send direction
	var out [][]byte
	total := 0
	for i := 0; i < 6; i++ {
		w := mkData(r, 100+r.Intn(2500))
		out = append(out, w)
		total += len(encodeLp(&spec.LpPacket{Fragment: enc.Wire{w}}))
		l.SendPacket(dispatch.OutPkt{Pkt: &defn.Pkt{Raw: w, L3: &spec.Packet{Data: &spec.Data{}}}})
	}
	back := read(total, 2*time.Second)
	var frags [][]byte
	for _, b := range splitBlocks(back) {
		frags = append(frags, lpFragmentOf(b))
	}
	txMatch := sameMultiset(out, frags)
	// the getters a management dataset reads
	_ = l.String() + l.Transport().String() + fmt.Sprint(l.State(), l.Persistency(), l.Scope(), l.LinkType(), l.MTU(), l.ExpirationPeriod(), l.LocalURI(), l.RemoteURI())
	fmt.Fprintf(fo, "TR %s rx_sent=%d rx_delivered=%d rx_match=%s tx_sent=%d tx_got=%d tx_match=%s counters=%d/%d\n", name, len(sent), len(got), b01(rxMatch),
		len(out), len(frags), b01(txMatch), l.NInBytes(), l.NOutBytes())
	l.Close()
	time.Sleep(5 * time.Millisecond)
}

func TestTransports(t *testing.T) {
	out := os.Getenv("VERIF_OUT")
	if out == "" {
		t.Skip("VERIF_OUT not set")
	}
	lpSetup()
	face.Configure()
	setThreads(1)
	fo, err := os.Create(out)
	if err != nil {
		t.Fatal(err)
	}
	defer fo.Close()
	r := rand.New(rand.NewSource(int64(envInt("VERIF_SEED", 1)) ^ 0x77))
	readConn := func(c net.Conn) func(int, time.Duration) []byte {
		return func(want int, d time.Duration) []byte {
			var buf []byte
			tmp := make([]byte, 65536)
			c.SetReadDeadline(time.Now().Add(d))
			for len(buf) < want {
				n, err := c.Read(tmp)
				buf = append(buf, tmp[:n]...)
				if err != nil {
					break
				}
			}
			return buf
		}
	}
	// --- unix stream
	func() {
		dir, _ := os.MkdirTemp("", "vfunix")
		defer os.RemoveAll(dir)
		path := filepath.Join(dir, "nfd.sock")
		ln, err := net.Listen("unix", path)
		if err != nil {
			fmt.Fprintf(fo, "TR unix unavailable %v\n", err)
			return
		}
		defer ln.Close()
		cli, err := net.Dial("unix", path)
		if err != nil {
			fmt.Fprintf(fo, "TR unix unavailable %v\n", err)
			return
		}
		defer cli.Close()
		srv, _ := ln.Accept()
		tr, err := face.MakeUnixStreamTransport(defn.MakeFDFaceURI(9), defn.MakeUnixFaceURI(path), srv)
		if err != nil {
			fmt.Fprintf(fo, "TR unix unavailable %v\n", err)
			return
		}
		opts := face.MakeNDNLPLinkServiceOptions()
		opts.IsFragmentationEnabled = false // reliable stream (as the listener does)
		l := face.MakeNDNLPLinkService(tr, opts)
		exercise(fo, "unix", l, r, false, func(b []byte) error { _, e := cli.Write(b); return e }, readConn(cli))
	}()
	// --- tcp on-demand
	func() {
		ln, err := net.Listen("tcp4", "127.0.0.1:0")
		if err != nil {
			fmt.Fprintf(fo, "TR tcp unavailable %v\n", err)
			return
		}
		defer ln.Close()
		cli, err := net.Dial("tcp4", ln.Addr().String())
		if err != nil {
			fmt.Fprintf(fo, "TR tcp unavailable %v\n", err)
			return
		}
		defer cli.Close()
		srv, _ := ln.Accept()
		tr, err := face.AcceptUnicastTCPTransport(srv, nil, face.PersistencyOnDemand)
		if err != nil {
			fmt.Fprintf(fo, "TR tcp unavailable %v\n", err)
			return
		}
		opts := face.MakeNDNLPLinkServiceOptions()
		opts.IsFragmentationEnabled = false
		l := face.MakeNDNLPLinkService(tr, opts)
		exercise(fo, "tcp", l, r, false, func(b []byte) error { _, e := cli.Write(b); return e }, readConn(cli))
	}()
	// --- udp unicast
	func() {
		pc, err := net.ListenUDP("udp4", &net.UDPAddr{IP: net.IPv4(127, 0, 0, 1)})
		if err != nil {
			fmt.Fprintf(fo, "TR udp unavailable %v\n", err)
			return
		}
		defer pc.Close()
		face.UDPUnicastPort = 0 // an ephemeral local port instead of 6363
		port := uint16(pc.LocalAddr().(*net.UDPAddr).Port)
		tr, err := face.MakeUnicastUDPTransport(defn.MakeUDPFaceURI(4, "127.0.0.1", port), nil, face.PersistencyPersistent)
		if err != nil {
			fmt.Fprintf(fo, "TR udp unavailable %v\n", err)
			return
		}
		l := face.MakeNDNLPLinkService(tr, face.MakeNDNLPLinkServiceOptions())
		local, err := net.ResolveUDPAddr("udp4", fmt.Sprintf("127.0.0.1:%d", tr.LocalURI().Port()))
		if err != nil {
			fmt.Fprintf(fo, "TR udp unavailable %v\n", err)
			return
		}
		exercise(fo, "udp", l, r, true, func(b []byte) error { _, e := pc.WriteToUDP(b, local); return e },
			func(want int, d time.Duration) []byte {
				var buf []byte
				tmp := make([]byte, 65536)
				pc.SetReadDeadline(time.Now().Add(d))
				for len(buf) < want {
					n, _, err := pc.ReadFromUDP(tmp)
					buf = append(buf, tmp[:n]...)
					if err != nil {
						break
					}
				}
				return buf
			})
	}()
	// --- Run(initial frame): how the UDP listener starts an on-demand face
	func() {
		dlog = dlog[:0]
		w := mkInterest(r)
		tv := face.NewVerifTransport(defn.MaxNDNPacketSize, defn.NonLocal)
		l := face.MakeNDNLPLinkService(tv, face.MakeNDNLPLinkServiceOptions())
		l.Run(encodeLp(&spec.LpPacket{Fragment: enc.Wire{w}}))
		ok := len(dlog) == 1 && bytes.Equal(dlog[0].pkt.Raw, w)
		fmt.Fprintf(fo, "RI delivered=%d match=%s\n", len(dlog), b01(ok))
		tv.Close()
	}()
}
