// Receive path down to the forwarding thread (C04 "no byte string panics the forwarder's receive path"): what the real link
// service dispatches is consumed by REAL fw.Threads (processIncomingInterest / processIncomingData through the verif drain hook)
// under recover.  Two faces: 77 (downstream, a real link service) and 88 (upstream: a real link service for receiving, a
// recording dispatch.Face for what the thread sends, so that the PIT tokens the thread hands out are known).  Interests arrive
// on 77 with PIT tokens of every length 0..34, are forwarded to 88; Data arrive on 88 with the thread's own token, truncated /
// extended / foreign tokens of every length 0..34, matching and not matching a pending Interest.
// Lines: TC <k> <what> face=<id> tok=<len> match=<0|1> res=<ok|panic-frame|panic-thread> drained=<n>
package facelp

import (
	"fmt"
	"math/rand"
	"os"
	"testing"
	"time"

	defn "github.com/named-data/ndnd/fw/defn"
	"github.com/named-data/ndnd/fw/dispatch"
	"github.com/named-data/ndnd/fw/face"
	"github.com/named-data/ndnd/fw/fw"
	"github.com/named-data/ndnd/fw/table"
	enc "github.com/named-data/ndnd/std/encoding"
	"github.com/named-data/ndnd/std/ndn"
	spec "github.com/named-data/ndnd/std/ndn/spec_2022"
	"github.com/named-data/ndnd/std/utils"
)

type upFace struct {
	id   uint64
	outs []dispatch.OutPkt
}

func (f *upFace) String() string               { return "upFace" }
func (f *upFace) SetFaceID(id uint64)          { f.id = id }
func (f *upFace) FaceID() uint64               { return f.id }
func (f *upFace) LocalURI() *defn.URI          { return defn.MakeNullFaceURI() }
func (f *upFace) RemoteURI() *defn.URI         { return defn.MakeNullFaceURI() }
func (f *upFace) Scope() defn.Scope            { return defn.NonLocal }
func (f *upFace) LinkType() defn.LinkType      { return defn.PointToPoint }
func (f *upFace) MTU() int                     { return defn.MaxNDNPacketSize }
func (f *upFace) State() defn.State            { return defn.Up }
func (f *upFace) SendPacket(o dispatch.OutPkt) { f.outs = append(f.outs, o) }

// spliceTLV inserts (or appends, if no element of type `before` exists) the bytes of one element into the value of a packet TLV.
func spliceTLV(pkt []byte, before byte, elem []byte) []byte {
	rd := enc.NewBufferReader(pkt)
	typ, _ := enc.ReadTLNum(rd)
	if _, err := enc.ReadTLNum(rd); err != nil {
		return pkt
	}
	val := pkt[rd.Pos():]
	pos, at := 0, len(val)
	for pos < len(val) {
		r2 := enc.NewBufferReader(val[pos:])
		t2, err := enc.ReadTLNum(r2)
		if err != nil {
			break
		}
		l2, err := enc.ReadTLNum(r2)
		if err != nil {
			break
		}
		if byte(t2) == before && t2 < 256 {
			at = pos
			break
		}
		pos += r2.Pos() + int(l2)
	}
	nv := append(append(append([]byte{}, val[:at]...), elem...), val[at:]...)
	res := append([]byte{}, tlnum(uint64(typ))...)
	res = append(res, tlnum(uint64(len(nv)))...)
	return append(res, nv...)
}

type l3variant struct {
	what string
	wire []byte
}

// degenerateInterests: decodable Interests with degenerate optional elements, all for `name`.
func degenerateInterests(r *rand.Rand, name enc.Name) []l3variant {
	mk := func(cfg *ndn.InterestConfig, app enc.Wire) []byte {
		if cfg.Nonce == nil {
			cfg.Nonce = utils.IdPtr(r.Uint64() >> 32)
		}
		i, err := spec.Spec{}.MakeInterest(name, cfg, app, nil)
		if err != nil {
			return nil
		}
		return i.Wire.Join()
	}
	lt := func(ms int) *time.Duration { d := time.Duration(ms) * time.Millisecond; return &d }
	hl := func(v uint) *uint { return &v }
	region := enc.Name{enc.NewStringComponent(enc.TypeGenericNameComponent, "region1")}
	far := func(k int) enc.Name {
		return enc.Name{enc.NewStringComponent(enc.TypeGenericNameComponent, "far"), enc.NewBytesComponent(enc.TypeGenericNameComponent, []byte{byte(k)})}
	}
	plain := mk(&ndn.InterestConfig{Lifetime: lt(4000)}, nil)
	vs := []l3variant{
		{"hint-empty", spliceTLV(plain, 0x0a, []byte{0x1e, 0x00})},
		{"hint-empty-name", spliceTLV(plain, 0x0a, []byte{0x1e, 0x02, 0x07, 0x00})},
		{"hint-1-far", mk(&ndn.InterestConfig{Lifetime: lt(4000), ForwardingHint: []enc.Name{far(1)}}, nil)},
		{"hint-2-far", mk(&ndn.InterestConfig{Lifetime: lt(4000), ForwardingHint: []enc.Name{far(1), far(2)}}, nil)},
		{"hint-3-region-last", mk(&ndn.InterestConfig{Lifetime: lt(4000), ForwardingHint: []enc.Name{far(1), far(2), region}}, nil)},
		{"hint-1-region", mk(&ndn.InterestConfig{Lifetime: lt(4000), ForwardingHint: []enc.Name{region}}, nil)},
		{"appparams-empty", mk(&ndn.InterestConfig{Lifetime: lt(4000)}, enc.Wire{[]byte{}})},
		{"appparams-1", mk(&ndn.InterestConfig{Lifetime: lt(4000)}, enc.Wire{[]byte{0}})},
		{"hoplimit-0", mk(&ndn.InterestConfig{Lifetime: lt(4000), HopLimit: hl(0)}, nil)},
		{"hoplimit-1", mk(&ndn.InterestConfig{Lifetime: lt(4000), HopLimit: hl(1)}, nil)},
		{"hoplimit-255", mk(&ndn.InterestConfig{Lifetime: lt(4000), HopLimit: hl(255)}, nil)},
		{"lifetime-0", mk(&ndn.InterestConfig{Lifetime: lt(0)}, nil)},
		{"lifetime-absent", mk(&ndn.InterestConfig{}, nil)},
		{"lifetime-empty", spliceTLV(mk(&ndn.InterestConfig{}, nil), 0x22, []byte{0x0c, 0x00})},
		{"cbp", mk(&ndn.InterestConfig{Lifetime: lt(4000), CanBePrefix: true}, nil)},
		{"mbf", mk(&ndn.InterestConfig{Lifetime: lt(4000), MustBeFresh: true}, nil)},
		{"cbp-mbf", mk(&ndn.InterestConfig{Lifetime: lt(4000), CanBePrefix: true, MustBeFresh: true}, nil)},
		{"unknown-noncritical", append(append([]byte{}, plain[:1]...), append(tlnum(uint64(len(plain)-2+4)), append(append([]byte{}, plain[2:]...), 0xfc, 0x02, 1, 2)...)...)},
	}
	var res []l3variant
	for _, v := range vs {
		if v.wire != nil {
			res = append(res, v)
		}
	}
	return res
}

// degenerateData: decodable Data with degenerate optional elements, for `name`.
func degenerateData(r *rand.Rand, name enc.Name) []l3variant {
	mk := func(cfg *ndn.DataConfig, content enc.Wire) []byte {
		d, err := spec.Spec{}.MakeData(name, cfg, content, signer)
		if err != nil {
			return nil
		}
		return d.Wire.Join()
	}
	fr := func(ms int) *time.Duration { d := time.Duration(ms) * time.Millisecond; return &d }
	fb := enc.NewBytesComponent(enc.TypeGenericNameComponent, []byte{})
	seg := enc.NewSegmentComponent(0)
	plain := mk(&ndn.DataConfig{}, enc.Wire{[]byte{1}})
	vs := []l3variant{
		{"content-nil", mk(&ndn.DataConfig{ContentType: utils.IdPtr(ndn.ContentTypeBlob)}, nil)},
		{"content-empty", mk(&ndn.DataConfig{ContentType: utils.IdPtr(ndn.ContentTypeBlob)}, enc.Wire{[]byte{}})},
		{"no-metainfo", plain},
		{"metainfo-empty", spliceTLV(plain, 0x15, []byte{0x14, 0x00})},
		{"freshness-0", mk(&ndn.DataConfig{Freshness: fr(0)}, enc.Wire{[]byte{1}})},
		{"freshness-1", mk(&ndn.DataConfig{Freshness: fr(1)}, enc.Wire{[]byte{1}})},
		{"finalblock-empty-comp", mk(&ndn.DataConfig{FinalBlockID: &fb}, enc.Wire{[]byte{1}})},
		{"finalblock-seg0", mk(&ndn.DataConfig{FinalBlockID: &seg, Freshness: fr(0)}, enc.Wire{[]byte{1}})},
		{"finalblock-empty-tlv", spliceTLV(plain, 0x15, []byte{0x14, 0x02, 0x1a, 0x00})},
		{"nack-type", mk(&ndn.DataConfig{ContentType: utils.IdPtr(ndn.ContentTypeNack)}, nil)},
	}
	var res []l3variant
	for _, v := range vs {
		if v.wire != nil {
			res = append(res, v)
		}
	}
	return res
}

func TestThreadConsume(t *testing.T) {
	out := os.Getenv("VERIF_OUT")
	if out == "" {
		t.Skip("VERIF_OUT not set")
	}
	lpSetup()
	face.Configure()
	fo, err := os.Create(out)
	if err != nil {
		t.Fatal(err)
	}
	defer fo.Close()
	r := rand.New(rand.NewSource(int64(envInt("VERIF_SEED", 1)) ^ 0x7c))
	rounds := envInt("VERIF_N", 2)
	k := 0
	for round := 0; round < rounds; round++ {
		nthreads := []int{1, 3, 8}[round%3]
		table.CreateFIBTable("nametree")
		fw.VerifConfigure(1024, nthreads)
		fw.Threads = make([]*fw.Thread, nthreads)
		dts := make([]dispatch.FWThread, nthreads)
		for i := range dts {
			th := fw.NewThread(i)
			fw.Threads[i] = th
			dts[i] = th
		}
		dispatch.InitializeFWThreads(dts)
		down := face.VerifMakeLinkService(face.NewVerifTransport(defn.MaxNDNPacketSize, defn.NonLocal), face.MakeNDNLPLinkServiceOptions(), 77)
		upRx := face.VerifMakeLinkService(face.NewVerifTransport(defn.MaxNDNPacketSize, defn.NonLocal), face.MakeNDNLPLinkServiceOptions(), 88)
		up := &upFace{id: 88}
		dispatch.AddFace(77, down)
		dispatch.AddFace(88, up)
		table.FibStrategyTable.InsertNextHopEnc(enc.Name{}, 88, 1)
		table.NetworkRegion.Add(enc.Name{enc.NewStringComponent(enc.TypeGenericNameComponent, "region1")})

		feed := func(what string, l *face.NDNLPLinkService, frame []byte, tokLen int, match bool) bool {
			res, drained := "ok", 0
			func() {
				defer func() {
					if p := recover(); p != nil {
						res = "panic-frame"
					}
				}()
				face.VerifHandleIncomingFrame(l, frame)
			}()
			if res == "ok" {
				for _, th := range fw.Threads {
					func() {
						defer func() {
							if p := recover(); p != nil {
								res = "panic-thread"
							}
						}()
						drained += th.VerifDrain()
					}()
				}
			}
			fmt.Fprintf(fo, "TC %d %s face=%d tok=%d match=%s res=%s drained=%d frame=%s\n", k, what, l.FaceID(), tokLen, b01(match), res, drained, hx(frame))
			k++
			return res == "ok"
		}
		okAll := true
		for tl := 0; tl <= 34 && okAll; tl++ {
			// an Interest with a PIT token of tl bytes from downstream
			name := append(randName(r), enc.NewBytesComponent(enc.TypeGenericNameComponent, []byte{byte(round), byte(tl)}))
			lt := 4 * time.Second
			iw, err := spec.Spec{}.MakeInterest(name, &ndn.InterestConfig{Nonce: utils.IdPtr(r.Uint64() >> 32), Lifetime: &lt}, nil, nil)
			if err != nil {
				t.Fatal(err)
			}
			itok := make([]byte, tl)
			r.Read(itok)
			lp := &spec.LpPacket{Fragment: enc.Wire{iw.Wire.Join()}}
			if tl > 0 {
				lp.PitToken = itok
			}
			up.outs = up.outs[:0]
			if !feed("interest", down, encodeLp(lp), tl, false) {
				okAll = false
				break
			}
			var own []byte
			if len(up.outs) > 0 {
				own = append([]byte{}, up.outs[0].PitToken...)
			}
			dw, err := spec.Spec{}.MakeData(name, &ndn.DataConfig{ContentType: utils.IdPtr(ndn.ContentTypeBlob)}, enc.Wire{[]byte{byte(tl)}}, signer)
			if err != nil {
				t.Fatal(err)
			}
			other, _ := spec.Spec{}.MakeData(randName(r), &ndn.DataConfig{ContentType: utils.IdPtr(ndn.ContentTypeBlob)}, enc.Wire{[]byte{1}}, signer)
			// Data from upstream: a token of tl bytes that is a prefix / an extension of the thread's own token, or foreign bytes
			for v := 0; v < 3 && okAll; v++ {
				tok := make([]byte, tl)
				switch v {
				case 0: // derived from the thread's own token
					for i := range tok {
						if i < len(own) {
							tok[i] = own[i]
						}
					}
				case 1: // foreign bytes naming an existing thread
					r.Read(tok)
					if tl >= 2 {
						tok[0], tok[1] = 0, byte(r.Intn(nthreads))
					}
				default:
					r.Read(tok)
				}
				w, match := dw.Wire.Join(), true
				if v == 2 {
					w, match = other.Wire.Join(), false
				}
				lpd := &spec.LpPacket{Fragment: enc.Wire{w}}
				if tl > 0 {
					lpd.PitToken = tok
				}
				okAll = feed("data", upRx, encodeLp(lpd), tl, match)
			}
		}
		// degenerate-but-decodable optional elements, Interests and Data, matching and not matching a pending Interest
		for vi := 0; vi < 40 && okAll; vi++ {
			name := append(randName(r), enc.NewBytesComponent(enc.TypeGenericNameComponent, []byte{0xd0, byte(round), byte(vi)}))
			ivs := degenerateInterests(r, name)
			dvs := degenerateData(r, name)
			iv := ivs[vi%len(ivs)]
			var itok []byte
			if vi%3 == 0 {
				itok = []byte{byte(vi), 1, 2, 3}
			}
			lp := &spec.LpPacket{Fragment: enc.Wire{iv.wire}}
			if itok != nil {
				lp.PitToken = itok
			}
			up.outs = up.outs[:0]
			if !feed("interest:"+iv.what, down, encodeLp(lp), len(itok), false) {
				okAll = false
				break
			}
			var own []byte
			if len(up.outs) > 0 {
				own = append([]byte{}, up.outs[0].PitToken...)
			}
			dv := dvs[(vi/2)%len(dvs)]
			lpd := &spec.LpPacket{Fragment: enc.Wire{dv.wire}}
			if len(own) > 0 && vi%4 != 3 {
				lpd.PitToken = own
			}
			if !feed("data:"+dv.what, upRx, encodeLp(lpd), len(lpd.PitToken), true) {
				okAll = false
				break
			}
			// the same kind of Data for a name nobody asked for, and the same Interest again (now possibly answered from the CS)
			od := degenerateData(r, append(randName(r), enc.NewBytesComponent(enc.TypeGenericNameComponent, []byte{0xee, byte(vi)})))
			if !feed("data-unsolicited:"+od[vi%len(od)].what, upRx, encodeLp(&spec.LpPacket{Fragment: enc.Wire{od[vi%len(od)].wire}}), 0, false) ||
				!feed("interest-again:"+iv.what, down, encodeLp(&spec.LpPacket{Fragment: enc.Wire{iv.wire}}), 0, false) {
				okAll = false
			}
		}
		for _, th := range fw.Threads {
			th.VerifStop()
		}
		dispatch.RemoveFace(77)
		dispatch.RemoveFace(88)
		if !okAll {
			break
		}
	}
}
