// Receive path down to the forwarding thread (C04 "no byte string panics the forwarder's receive path"): what the real link
// service dispatches is consumed by REAL fw.Threads (processIncomingInterest / processIncomingData through the verif drain hook)
// under recover.  Two faces: 77 (downstream, a real link service) and 88 (upstream: a real link service for receiving, a
// recording dispatch.Face for what the thread sends, so that the PIT tokens the thread hands out are known).  Interests arrive
// on 77 with PIT tokens of every length 0..34, are forwarded to 88; Data arrive on 88 with the thread's own token, truncated /
// extended / foreign tokens of every length 0..34, matching and not matching a pending Interest.
// Lines: TC <k> <what> face=<id> tok=<len> match=<0|1> res=<ok|panic-frame|panic-thread> drained=<n>
package facelp

import (
	"fmt"
	"math/rand"
	"os"
	"testing"
	"time"

	defn "github.com/named-data/ndnd/fw/defn"
	"github.com/named-data/ndnd/fw/dispatch"
	"github.com/named-data/ndnd/fw/face"
	"github.com/named-data/ndnd/fw/fw"
	"github.com/named-data/ndnd/fw/table"
	enc "github.com/named-data/ndnd/std/encoding"
	"github.com/named-data/ndnd/std/ndn"
	spec "github.com/named-data/ndnd/std/ndn/spec_2022"
	"github.com/named-data/ndnd/std/utils"
)

type upFace struct {
	id   uint64
	outs []dispatch.OutPkt
}

func (f *upFace) String() string               { return "upFace" }
func (f *upFace) SetFaceID(id uint64)          { f.id = id }
func (f *upFace) FaceID() uint64               { return f.id }
func (f *upFace) LocalURI() *defn.URI          { return defn.MakeNullFaceURI() }
func (f *upFace) RemoteURI() *defn.URI         { return defn.MakeNullFaceURI() }
func (f *upFace) Scope() defn.Scope            { return defn.NonLocal }
func (f *upFace) LinkType() defn.LinkType      { return defn.PointToPoint }
func (f *upFace) MTU() int                     { return defn.MaxNDNPacketSize }
func (f *upFace) State() defn.State            { return defn.Up }
func (f *upFace) SendPacket(o dispatch.OutPkt) { f.outs = append(f.outs, o) }

func TestThreadConsume(t *testing.T) {
	out := os.Getenv("VERIF_OUT")
	if out == "" {
		t.Skip("VERIF_OUT not set")
	}
	lpSetup()
	face.Configure()
	fo, err := os.Create(out)
	if err != nil {
		t.Fatal(err)
	}
	defer fo.Close()
	r := rand.New(rand.NewSource(int64(envInt("VERIF_SEED", 1)) ^ 0x7c))
	rounds := envInt("VERIF_N", 2)
	k := 0
	for round := 0; round < rounds; round++ {
		nthreads := []int{1, 3, 8}[round%3]
		table.CreateFIBTable("nametree")
		fw.VerifConfigure(1024, nthreads)
		fw.Threads = make([]*fw.Thread, nthreads)
		dts := make([]dispatch.FWThread, nthreads)
		for i := range dts {
			th := fw.NewThread(i)
			fw.Threads[i] = th
			dts[i] = th
		}
		dispatch.InitializeFWThreads(dts)
		down := face.VerifMakeLinkService(face.NewVerifTransport(defn.MaxNDNPacketSize, defn.NonLocal), face.MakeNDNLPLinkServiceOptions(), 77)
		upRx := face.VerifMakeLinkService(face.NewVerifTransport(defn.MaxNDNPacketSize, defn.NonLocal), face.MakeNDNLPLinkServiceOptions(), 88)
		up := &upFace{id: 88}
		dispatch.AddFace(77, down)
		dispatch.AddFace(88, up)
		table.FibStrategyTable.InsertNextHopEnc(enc.Name{}, 88, 1)

		feed := func(what string, l *face.NDNLPLinkService, frame []byte, tokLen int, match bool) bool {
			res, drained := "ok", 0
			func() {
				defer func() {
					if p := recover(); p != nil {
						res = "panic-frame"
					}
				}()
				face.VerifHandleIncomingFrame(l, frame)
			}()
			if res == "ok" {
				for _, th := range fw.Threads {
					func() {
						defer func() {
							if p := recover(); p != nil {
								res = "panic-thread"
							}
						}()
						drained += th.VerifDrain()
					}()
				}
			}
			fmt.Fprintf(fo, "TC %d %s face=%d tok=%d match=%s res=%s drained=%d frame=%s\n", k, what, l.FaceID(), tokLen, b01(match), res, drained, hx(frame))
			k++
			return res == "ok"
		}
		okAll := true
		for tl := 0; tl <= 34 && okAll; tl++ {
			// an Interest with a PIT token of tl bytes from downstream
			name := append(randName(r), enc.NewBytesComponent(enc.TypeGenericNameComponent, []byte{byte(round), byte(tl)}))
			lt := 4 * time.Second
			iw, err := spec.Spec{}.MakeInterest(name, &ndn.InterestConfig{Nonce: utils.IdPtr(r.Uint64() >> 32), Lifetime: &lt}, nil, nil)
			if err != nil {
				t.Fatal(err)
			}
			itok := make([]byte, tl)
			r.Read(itok)
			lp := &spec.LpPacket{Fragment: enc.Wire{iw.Wire.Join()}}
			if tl > 0 {
				lp.PitToken = itok
			}
			up.outs = up.outs[:0]
			if !feed("interest", down, encodeLp(lp), tl, false) {
				okAll = false
				break
			}
			var own []byte
			if len(up.outs) > 0 {
				own = append([]byte{}, up.outs[0].PitToken...)
			}
			dw, err := spec.Spec{}.MakeData(name, &ndn.DataConfig{ContentType: utils.IdPtr(ndn.ContentTypeBlob)}, enc.Wire{[]byte{byte(tl)}}, signer)
			if err != nil {
				t.Fatal(err)
			}
			other, _ := spec.Spec{}.MakeData(randName(r), &ndn.DataConfig{ContentType: utils.IdPtr(ndn.ContentTypeBlob)}, enc.Wire{[]byte{1}}, signer)
			// Data from upstream: a token of tl bytes that is a prefix / an extension of the thread's own token, or foreign bytes
			for v := 0; v < 3 && okAll; v++ {
				tok := make([]byte, tl)
				switch v {
				case 0: // derived from the thread's own token
					for i := range tok {
						if i < len(own) {
							tok[i] = own[i]
						}
					}
				case 1: // foreign bytes naming an existing thread
					r.Read(tok)
					if tl >= 2 {
						tok[0], tok[1] = 0, byte(r.Intn(nthreads))
					}
				default:
					r.Read(tok)
				}
				w, match := dw.Wire.Join(), true
				if v == 2 {
					w, match = other.Wire.Join(), false
				}
				lpd := &spec.LpPacket{Fragment: enc.Wire{w}}
				if tl > 0 {
					lpd.PitToken = tok
				}
				okAll = feed("data", upRx, encodeLp(lpd), tl, match)
			}
		}
		for _, th := range fw.Threads {
			th.VerifStop()
		}
		dispatch.RemoveFace(77)
		dispatch.RemoveFace(88)
		if !okAll {
			break
		}
	}
}
