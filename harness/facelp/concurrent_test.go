// Two further receive/send-path scenarios with the real goroutines of the face system:
//
// TestConcurrentSend (C10 obligation "frame buffers are per link service"): two real link services started with Run() - each with
// its own send goroutine, as every face has - on in-memory transports; the transport of face A stalls in sendFrame (a socket
// write that blocks) while face B assembles and sends its own frames; what A's transport finally writes must be the frame
// assembled for A.  Lines: CS <round> a_ok=<0|1> b_ok=<0|1> a_has_b=<0|1>
//
// TestTcpLifetime (C11 scenario "stream longer than the face lifetime"): a real on-demand UnicastTCPTransport over a loopback
// socket with faces.tcp.lifetime = 1 s; frames keep arriving for longer than the lifetime with gaps shorter than it; the
// expiry (what Table.ExpirationHandler tests: ExpirationPeriod() < 0) must have been moved by every frame.
// Lines: TL t_ms=<..> frames=<n> period_ms=<..> running=<0|1>
package facelp

import (
	"bytes"
	"fmt"
	"math/rand"
	"net"
	"os"
	"testing"
	"time"

	"github.com/named-data/ndnd/fw/core"
	defn "github.com/named-data/ndnd/fw/defn"
	"github.com/named-data/ndnd/fw/dispatch"
	"github.com/named-data/ndnd/fw/face"
	enc "github.com/named-data/ndnd/std/encoding"
	spec "github.com/named-data/ndnd/std/ndn/spec_2022"
)

func lpFragmentOf(frame []byte) []byte {
	p, _, err := spec.ReadPacket(enc.NewBufferReader(append([]byte{}, frame...)))
	if err != nil || p.LpPacket == nil {
		return nil
	}
	return p.LpPacket.Fragment.Join()
}

func TestConcurrentSend(t *testing.T) {
	out := os.Getenv("VERIF_OUT")
	if out == "" {
		t.Skip("VERIF_OUT not set")
	}
	lpSetup()
	face.Configure()
	setThreads(1)
	fo, err := os.Create(out)
	if err != nil {
		t.Fatal(err)
	}
	defer fo.Close()
	r := rand.New(rand.NewSource(int64(envInt("VERIF_SEED", 1)) ^ 0xc0))
	rounds := envInt("VERIF_N", 6)
	ta := face.NewVerifTransport(defn.MaxNDNPacketSize, defn.NonLocal)
	tb := face.NewVerifTransport(defn.MaxNDNPacketSize, defn.Local)
	ta.Stall, ta.Entered = make(chan struct{}), make(chan struct{}, 1)
	la := face.MakeNDNLPLinkService(ta, face.MakeNDNLPLinkServiceOptions())
	lb := face.MakeNDNLPLinkService(tb, face.MakeNDNLPLinkServiceOptions())
	la.Run(nil)
	lb.Run(nil)
	// the faces are left running: closing them runs FaceTable.Remove -> RIB clean-up, which needs the forwarder's tables
	wait := func(cond func() bool) bool {
		for i := 0; i < 4000; i++ {
			if cond() {
				return true
			}
			time.Sleep(500 * time.Microsecond)
		}
		return false
	}
	for k := 0; k < rounds; k++ {
		wa := mkData(r, 200+r.Intn(3000))
		wb := mkData(r, 200+r.Intn(3000)) // e.g. a /localhost Data for the local face
		ta.Reset()
		tb.Reset()
		la.SendPacket(dispatch.OutPkt{Pkt: &defn.Pkt{Raw: wa, L3: &spec.Packet{Data: &spec.Data{}}}})
		select {
		case <-ta.Entered: // A's send goroutine sits in the blocked write, holding its frame
		case <-time.After(2 * time.Second):
			fmt.Fprintf(fo, "CS %d timeout-a\n", k)
			return
		}
		lb.SendPacket(dispatch.OutPkt{Pkt: &defn.Pkt{Raw: wb, L3: &spec.Packet{Data: &spec.Data{}}}})
		okb := wait(func() bool { return len(tb.Snapshot()) == 1 })
		ta.Stall <- struct{}{} // the write completes
		oka := wait(func() bool { return len(ta.Snapshot()) == 1 })
		fa, fb := ta.Snapshot(), tb.Snapshot()
		aOK, bOK, aHasB := 0, 0, 0
		if oka && bytes.Equal(lpFragmentOf(fa[0]), wa) {
			aOK = 1
		}
		if okb && bytes.Equal(lpFragmentOf(fb[0]), wb) {
			bOK = 1
		}
		if oka && bytes.Equal(lpFragmentOf(fa[0]), wb) {
			aHasB = 1
		}
		fmt.Fprintf(fo, "CS %d a_ok=%d b_ok=%d a_has_b=%d\n", k, aOK, bOK, aHasB)
	}
	// a blocked face: its send queue fills up and SendPacket drops ("Dropped packet due to congestion") instead of blocking the
	// forwarding thread that calls it; once the write completes the queued packets go out in order, each intact
	ta.Reset()
	qs := core.GetConfig().Faces.QueueSize
	var queued [][]byte
	for i := 0; i < qs+8; i++ {
		w := mkData(r, 100+r.Intn(300))
		queued = append(queued, w)
		done := make(chan struct{})
		go func() {
			la.SendPacket(dispatch.OutPkt{Pkt: &defn.Pkt{Raw: w, L3: &spec.Packet{Data: &spec.Data{}}}})
			close(done)
		}()
		select {
		case <-done:
		case <-time.After(2 * time.Second):
			fmt.Fprintf(fo, "QF blocked-at=%d\n", i)
			return
		}
		if i == 0 {
			<-ta.Entered
		}
	}
	go func() { // let everything through
		for {
			select {
			case ta.Stall <- struct{}{}:
			case <-ta.Entered:
			case <-time.After(300 * time.Millisecond):
				return
			}
		}
	}()
	time.Sleep(400 * time.Millisecond)
	intact, inOrder := 0, 1
	written := ta.Snapshot()
	for i, f := range written {
		if i < len(queued) && bytes.Equal(lpFragmentOf(f), queued[i]) {
			intact++
		} else {
			inOrder = 0
		}
	}
	fmt.Fprintf(fo, "QF offered=%d queue=%d written=%d intact=%d in_order=%d\n", len(queued), qs, len(written), intact, inOrder)
}

func TestTcpLifetime(t *testing.T) {
	out := os.Getenv("VERIF_OUT")
	if out == "" {
		t.Skip("VERIF_OUT not set")
	}
	lpSetup()
	core.GetConfig().Faces.Tcp.Lifetime = 1 // second
	face.Configure()
	setThreads(1)
	fo, err := os.Create(out)
	if err != nil {
		t.Fatal(err)
	}
	defer fo.Close()
	ln, err := net.Listen("tcp4", "127.0.0.1:0")
	if err != nil {
		fmt.Fprintf(fo, "TL unavailable %v\n", err)
		return
	}
	defer ln.Close()
	cli, err := net.Dial("tcp4", ln.Addr().String())
	if err != nil {
		fmt.Fprintf(fo, "TL unavailable %v\n", err)
		return
	}
	defer cli.Close()
	srv, err := ln.Accept()
	if err != nil {
		fmt.Fprintf(fo, "TL unavailable %v\n", err)
		return
	}
	tr, err := face.AcceptUnicastTCPTransport(srv, nil, face.PersistencyOnDemand)
	if err != nil {
		fmt.Fprintf(fo, "TL unavailable %v\n", err)
		return
	}
	l := face.MakeNDNLPLinkService(tr, face.MakeNDNLPLinkServiceOptions())
	l.Run(nil)
	r := rand.New(rand.NewSource(7))
	start := time.Now()
	dlog = dlog[:0]
	// a stream of 1.5 lifetimes, one frame every 0.3 lifetime, never a send
	for i := 0; i < 6; i++ {
		if _, err := cli.Write(mkInterest(r)); err != nil {
			fmt.Fprintf(fo, "TL write-error %v\n", err)
			return
		}
		time.Sleep(60 * time.Millisecond)
		fmt.Fprintf(fo, "TL t_ms=%d frames=%d period_ms=%d running=%s\n", time.Since(start).Milliseconds(), l.NInInterests(), tr.ExpirationPeriod().Milliseconds(), b01(tr.IsRunning()))
		time.Sleep(240 * time.Millisecond)
	}
}
