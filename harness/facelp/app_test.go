// Harness for the application-side stream reader std/engine/face/stream_face.go (C11, second half):
// a real StreamFace dials a Unix socket served by the harness, which writes the generated stream in scripted chunks.
// Trace: CASE/S/R/B lines as in stream_test.go, then
//
//	I <eof|ueof|other> <bytes written>      the error handed to onError when the loop stopped
//	F <len>:<md5/8> ...                     packets handed to onPkt
//	END
package facelp

import (
	"bufio"
	"fmt"
	"io"
	"math/rand"
	"net"
	"os"
	"path/filepath"
	"testing"
	"time"

	enc "github.com/named-data/ndnd/std/encoding"
	appface "github.com/named-data/ndnd/std/engine/face"
)

func runAppImpl(t *testing.T, dir string, c *streamCase) streamResult {
	sock := filepath.Join(dir, "s.sock")
	os.Remove(sock)
	ln, err := net.Listen("unix", sock)
	if err != nil {
		t.Fatal(err)
	}
	defer ln.Close()
	var res streamResult
	var heldBlocks [][]byte
	done := make(chan struct{})
	f := appface.NewStreamFace("unix", sock, true)
	f.SetCallback(func(r enc.ParseReader) error {
		w, err := r.ReadWire(r.Length())
		if err != nil {
			res.frames = append(res.frames, "readerr")
			return nil
		}
		// the engine keeps what it is handed (PIT, content store, application callbacks): hold the slice itself, not a copy,
		// and look at it only after the whole stream has been received
		heldBlocks = append(heldBlocks, w.Join())
		return nil
	}, func(e error) error {
		switch e {
		case io.EOF:
			res.res = "eof"
		case io.ErrUnexpectedEOF:
			res.res = "ueof"
		default:
			res.res = "other"
		}
		close(done)
		return e
	})
	if err := f.Open(); err != nil {
		t.Fatal(err)
	}
	conn, err := ln.Accept()
	if err != nil {
		t.Fatal(err)
	}
	pos := 0
	for _, it := range c.sched {
		for i := 0; i < it.n && pos < len(c.stream); i++ {
			n := it.k
			if it.ign || n == 0 {
				continue
			}
			if n > len(c.stream)-pos {
				n = len(c.stream) - pos
			}
			if _, err := conn.Write(c.stream[pos : pos+n]); err != nil {
				t.Fatal(err)
			}
			pos += n
		}
	}
	conn.Close()
	res.consumed = pos
	select {
	case <-done:
	case <-time.After(20 * time.Second):
		res.res = "hang"
	}
	for i := 0; i < 2000 && f.IsRunning(); i++ {
		time.Sleep(time.Millisecond)
	}
	for _, b := range heldBlocks {
		res.frames = append(res.frames, frameSig(b))
	}
	return res
}

func genAppCase(r *rand.Rand, idx int) *streamCase {
	c := &streamCase{id: fmt.Sprintf("app%d", idx)}
	switch idx % 4 {
	case 0:
		c.kind = "app-wf-chunks"
		c.stream, c.blocks = genBlocks(r, 2000+r.Intn(60000), 700, 60)
		c.sched = randSchedule(r, len(c.stream))
	case 1:
		c.kind = "app-wf-small-writes"
		c.stream, c.blocks = genBlocks(r, 200+r.Intn(1500), 60, 10)
		c.sched = []schedItem{{k: 1 + r.Intn(3), n: len(c.stream)}}
	case 2: // the stream stops inside a block (peer closed early)
		c.kind = "app-wf-truncated"
		s, lens := genBlocks(r, 500+r.Intn(20000), 500, 30)
		cut := len(s) - 1 - r.Intn(lens[len(lens)-1])
		c.stream, c.blocks = s[:cut], lens[:len(lens)-1]
		c.sched = randSchedule(r, len(c.stream))
	default: // non-minimal T/L forms: the application reader re-encodes them (frames differ from the bytes sent)
		c.kind = "app-nonminimal"
		c.stream, _ = genBlocks(r, r.Intn(300), 100, 0)
		v := make([]byte, 1+r.Intn(40))
		r.Read(v)
		switch r.Intn(3) {
		case 0:
			c.stream = append(c.stream, 0xfd, 0x00, 0x06, byte(len(v)))
		case 1:
			c.stream = append(c.stream, 0x06, 0xfd, 0x00, byte(len(v)))
		default:
			c.stream = append(c.stream, 0x06, 0xfe, 0x00, 0x00, 0x00, byte(len(v)))
		}
		c.stream = append(c.stream, v...)
		tail, _ := genBlocks(r, 100+r.Intn(2000), 100, 0)
		c.stream = append(c.stream, tail...)
		c.sched = randSchedule(r, len(c.stream))
	}
	return c
}

func TestAppTrace(t *testing.T) {
	out := os.Getenv("VERIF_OUT")
	if out == "" {
		t.Skip("VERIF_OUT not set")
	}
	seed := int64(envInt("VERIF_SEED", 1))
	n := envInt("VERIF_N", 12)
	fo, err := os.Create(out)
	if err != nil {
		t.Fatal(err)
	}
	defer fo.Close()
	w := bufio.NewWriterSize(fo, 1<<20)
	defer w.Flush()
	dir, err := os.MkdirTemp("", "vfapp")
	if err != nil {
		t.Fatal(err)
	}
	defer os.RemoveAll(dir)
	var cases []*streamCase
	if ops := os.Getenv("VERIF_OPS"); ops != "" {
		cases, err = readCases(ops)
		if err != nil {
			t.Fatal(err)
		}
	} else {
		r := rand.New(rand.NewSource(seed ^ 0x5eed))
		for i := 0; i < n; i++ {
			cases = append(cases, genAppCase(r, i))
		}
	}
	for _, c := range cases {
		writeCaseInput(w, c)
		w.Flush()
		res := runAppImpl(t, dir, c)
		writeCaseResult(w, &res)
	}
}
