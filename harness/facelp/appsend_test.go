// Harness for the sender side of the application stream face (C11: "sent over a stream face ... none split or merged"):
// concurrent Send calls on one real StreamFace (multi-segment wires as the encoder produces for packets with a large
// payload, and single-segment wires) over a gated net.Pipe, a second real StreamFace receiving.  The gate gives other
// senders a window after every non-final segment of a multi-segment packet: with Send atomic per packet nobody can use it.
// Trace:
//
//	SCASE <id> <kind>
//	P <segments> <hex of the joined block>        one line per packet handed to Send
//	G <hex>                                       one line per packet the receiving face handed to onPkt ("readerr" possible)
//	I <eof|ueof|other|hang> <sent> <received>
//	END
package facelp

import (
	"bufio"
	"encoding/hex"
	"fmt"
	"io"
	"math/rand"
	"net"
	"os"
	"sync"
	"testing"
	"time"

	enc "github.com/named-data/ndnd/std/encoding"
	appface "github.com/named-data/ndnd/std/engine/face"
)

// gatedConn waits, after a Write of a registered non-final segment, until some other Write has completed (or a short
// timeout: the correct outcome, other senders being kept out by the face's send lock).
type gatedConn struct {
	net.Conn
	mu     sync.Mutex
	gates  map[*byte]bool
	writes int
	window time.Duration
}

func (g *gatedConn) Write(b []byte) (int, error) {
	n, err := g.Conn.Write(b)
	g.mu.Lock()
	g.writes++
	mine := g.writes
	gate := len(b) > 0 && g.gates[&b[0]]
	g.mu.Unlock()
	if gate {
		deadline := time.Now().Add(g.window)
		g.mu.Lock()
		for g.writes == mine && time.Now().Before(deadline) {
			g.mu.Unlock()
			time.Sleep(200 * time.Microsecond)
			g.mu.Lock()
		}
		g.mu.Unlock()
	}
	return n, err
}

type sendPkt struct {
	wire  enc.Wire
	block []byte
}

func runAppSendCase(t *testing.T, w *bufio.Writer, r *rand.Rand, id string, senders, perSender int) {
	cli, srv := net.Pipe()
	var got []string
	var heldBlocks [][]byte
	done := make(chan string, 1)
	rx := appface.VerifNewStreamFaceOnConn(srv, func(rd enc.ParseReader) error {
		b, err := rd.ReadWire(rd.Length())
		if err != nil {
			got = append(got, "readerr")
			return nil
		}
		heldBlocks = append(heldBlocks, b.Join()) // held, not copied: encoded only after the stream has ended
		return nil
	}, func(e error) error {
		switch e {
		case io.EOF:
			done <- "eof"
		case io.ErrUnexpectedEOF:
			done <- "ueof"
		default:
			done <- "other"
		}
		return e
	})
	go rx.Run()

	g := &gatedConn{Conn: cli, gates: map[*byte]bool{}, window: 8 * time.Millisecond}
	tx := appface.VerifNewStreamFaceOnConn(g, func(enc.ParseReader) error { return nil }, func(e error) error { return e })

	// packets: blocks of the generator used for the receive side, cut into 1..3 segments
	all := make([][]sendPkt, senders)
	gated := 0
	for s := 0; s < senders; s++ {
		for k := 0; k < perSender; k++ {
			// value bytes below 100: a receiver that lost the block boundaries reads small lengths (it mis-frames, it does not
			// allocate gigabytes or crash the harness), so the failure shows as blocks that were never sent
			vl := 20 + r.Intn(1500)
			b := append([]byte{byte(5 + r.Intn(2))}, tlnum(uint64(vl))...)
			for i := 0; i < vl; i++ {
				b = append(b, byte(r.Intn(100)))
			}
			p := sendPkt{block: b}
			nseg := 1
			if s%2 == 0 || r.Intn(4) == 0 {
				nseg = 2 + r.Intn(2)
			}
			if nseg == 1 || len(b) < 8 {
				p.wire = enc.Wire{b}
			} else {
				c1 := 1 + r.Intn(len(b)/2)
				if nseg == 2 {
					p.wire = enc.Wire{b[:c1], b[c1:]}
				} else {
					c2 := c1 + 1 + r.Intn(len(b)-c1-1)
					p.wire = enc.Wire{b[:c1], b[c1:c2], b[c2:]}
				}
				if gated < 12 { // a bounded number of gated packets keeps the correct case fast
					for _, seg := range p.wire[:len(p.wire)-1] {
						g.gates[&seg[0]] = true
					}
					gated++
				}
			}
			all[s] = append(all[s], p)
		}
	}
	fmt.Fprintf(w, "SCASE %s app-send-concurrent\n", id)
	sent := 0
	for _, ps := range all {
		for _, p := range ps {
			fmt.Fprintf(w, "P %d %s\n", len(p.wire), hex.EncodeToString(p.block))
			sent++
		}
	}
	w.Flush()
	var wg sync.WaitGroup
	for s := 0; s < senders; s++ {
		wg.Add(1)
		go func(ps []sendPkt) {
			defer wg.Done()
			for _, p := range ps {
				if err := tx.Send(p.wire); err != nil {
					return
				}
			}
		}(all[s])
	}
	wg.Wait()
	cli.Close()
	res := "hang"
	select {
	case res = <-done:
	case <-time.After(10 * time.Second):
	}
	for i := 0; i < 2000 && rx.IsRunning(); i++ {
		time.Sleep(time.Millisecond)
	}
	for _, b := range heldBlocks {
		got = append(got, hex.EncodeToString(b))
	}
	for _, x := range got {
		fmt.Fprintf(w, "G %s\n", x)
	}
	fmt.Fprintf(w, "I %s %d %d\nEND\n", res, sent, len(got))
}

func TestAppSendTrace(t *testing.T) {
	out := os.Getenv("VERIF_OUT")
	if out == "" {
		t.Skip("VERIF_OUT not set")
	}
	seed := int64(envInt("VERIF_SEED", 1))
	n := envInt("VERIF_N", 3)
	fo, err := os.Create(out)
	if err != nil {
		t.Fatal(err)
	}
	defer fo.Close()
	w := bufio.NewWriterSize(fo, 1<<20)
	defer w.Flush()
	r := rand.New(rand.NewSource(seed ^ 0x5e4d))
	for i := 0; i < n; i++ {
		runAppSendCase(t, w, r, fmt.Sprintf("send%d", i), 2+r.Intn(5), 6+r.Intn(10))
	}
}
