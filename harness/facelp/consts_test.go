// Constant translator back end (see docs/ROBUST_TRANSLATORS.md): prints the constants of the face layer for the current
// tree, each obtained from the compiler (through the verif hook fw/face/zz_verif_face.go) or from a behavioural probe of the
// real code - never from identifier names or the shape of the source text:
//
//	hook   MaxNDNPacketSize, congestionMarkOverhead, maxFragCount, headerOverhead_* (the real computeHeaderOverhead)
//	probe  recvBufSize            = len(p) of the first Read the real readTlvStream issues (the whole receive buffer)
//	       congestionMarkOverhead = payload bytes a fragment loses when a congestion mark is attached (real sendPacket)
//	       maxFragCount           = largest FragCount for which the real reassembly opens a store entry
//
// Output lines "name value source"; an item that cannot be obtained is simply absent (translators/face/gen_consts.py
// then keeps the committed reference value and says so).
package facelp

import (
	"fmt"
	"io"
	"os"
	"sort"
	"testing"

	defn "github.com/named-data/ndnd/fw/defn"
	"github.com/named-data/ndnd/fw/dispatch"
	"github.com/named-data/ndnd/fw/face"
	enc "github.com/named-data/ndnd/std/encoding"
	spec "github.com/named-data/ndnd/std/ndn/spec_2022"
	"github.com/named-data/ndnd/std/utils"
)

type firstReadProbe struct{ first int }

func (p *firstReadProbe) Read(b []byte) (int, error) {
	if p.first == 0 {
		p.first = len(b)
	}
	return 0, io.EOF
}

// probeRecvBufSize: the framer reads into the unused part of its buffer; with nothing buffered that is the whole buffer.
func probeRecvBufSize() (n int, ok bool) {
	defer func() {
		if recover() != nil {
			ok = false
		}
	}()
	p := &firstReadProbe{}
	face.VerifReadTlvStream(p, func([]byte) {}, nil)
	return p.first, p.first > 0
}

func fragLen(frame []byte) int {
	p, _, err := spec.ReadPacket(enc.NewBufferReader(append([]byte{}, frame...)))
	if err != nil || p.LpPacket == nil {
		return -1
	}
	return len(p.LpPacket.Fragment.Join())
}

// probeMarkOverhead: same packet, same MTU, with and without a congestion mark: difference of the first fragment's payload.
func probeMarkOverhead() (n int, ok bool) {
	defer func() {
		if recover() != nil {
			ok = false
		}
	}()
	first := func(mark *uint64) int {
		st := face.NewVerifTransport(1500, defn.NonLocal)
		o := face.MakeNDNLPLinkServiceOptions()
		snd := face.VerifMakeLinkService(st, o, 55)
		face.VerifSendPacket(snd, dispatch.OutPkt{Pkt: &defn.Pkt{Raw: patternWire(6000), L3: &spec.Packet{}, CongestionMark: mark}})
		all := append(append([][]byte{}, st.Frames...), st.Dropped...)
		if len(all) < 2 {
			return -1
		}
		return fragLen(all[0])
	}
	a, b := first(nil), first(utils.IdPtr(uint64(1)))
	if a <= 0 || b <= 0 || a < b {
		return 0, false
	}
	return a - b, true
}

// probeMaxFragCount: binary search for the largest FragCount that opens an entry in the partial message store.
func probeMaxFragCount() (n int, ok bool) {
	defer func() {
		if recover() != nil {
			ok = false
		}
	}()
	accepted := func(cnt uint64) bool {
		rt := face.NewVerifTransport(defn.MaxNDNPacketSize, defn.NonLocal)
		rcv := face.VerifMakeLinkService(rt, face.MakeNDNLPLinkServiceOptions(), 77)
		f := encodeLp(&spec.LpPacket{Sequence: utils.IdPtr(uint64(1000)), FragIndex: utils.IdPtr(uint64(1)), FragCount: utils.IdPtr(cnt), Fragment: enc.Wire{[]byte{1}}})
		face.VerifHandleIncomingFrame(rcv, f)
		st := face.VerifPartialStore(rcv)
		return len(st) == 1 && uint64(len(st[0].Slots)) == cnt
	}
	if !accepted(2) || accepted(1<<16) {
		return 0, false
	}
	lo, hi := 2, 1<<16 // accepted(lo), !accepted(hi)
	for hi-lo > 1 {
		mid := (lo + hi) / 2
		if accepted(uint64(mid)) {
			lo = mid
		} else {
			hi = mid
		}
	}
	return lo, true
}

func TestPrintConsts(t *testing.T) {
	out := os.Getenv("VERIF_OUT")
	if out == "" {
		t.Skip("VERIF_OUT not set")
	}
	lpSetup()
	setThreads(1)
	type item struct {
		v   int
		src string
	}
	m := map[string]item{}
	func() {
		defer func() { recover() }()
		for k, v := range face.VerifFaceConsts() {
			m[k] = item{v, "hook"}
		}
	}()
	if v, ok := probeRecvBufSize(); ok {
		m["recvBufSize"] = item{v, "probe"}
	}
	if _, have := m["congestionMarkOverhead"]; !have {
		if v, ok := probeMarkOverhead(); ok {
			m["congestionMarkOverhead"] = item{v, "probe"}
		}
	}
	if _, have := m["maxFragCount"]; !have {
		if v, ok := probeMaxFragCount(); ok {
			m["maxFragCount"] = item{v, "probe"}
		}
	}
	// the probes are also run for cross-checking: reported as separate items, never an alarm by themselves
	if v, ok := probeMarkOverhead(); ok {
		m["probe_congestionMarkOverhead"] = item{v, "probe"}
	}
	if v, ok := probeMaxFragCount(); ok {
		m["probe_maxFragCount"] = item{v, "probe"}
	}
	keys := make([]string, 0, len(m))
	for k := range m {
		keys = append(keys, k)
	}
	sort.Strings(keys)
	f, err := os.Create(out)
	if err != nil {
		t.Fatal(err)
	}
	defer f.Close()
	for _, k := range keys {
		fmt.Fprintf(f, "%s %d %s\n", k, m[k].v, m[k].src)
	}
}
