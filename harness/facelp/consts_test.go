// Constant translator back end: prints the constants of the face layer as evaluated by the Go compiler for the
// current tree (through the verif hook), plus the receive-buffer size expression of readTlvStream evaluated from
// the AST of fw/face/stream-transport.go.  translators/face/gen_consts.py turns the output into coq/Face/GenConsts.v.
package facelp

import (
	"fmt"
	"go/ast"
	"go/parser"
	"go/token"
	"os"
	"path/filepath"
	"sort"
	"strconv"
	"testing"

	"github.com/named-data/ndnd/fw/face"
)

func evalIntExpr(e ast.Expr, consts map[string]int) (int, error) {
	switch x := e.(type) {
	case *ast.BasicLit:
		if x.Kind != token.INT {
			return 0, fmt.Errorf("non-int literal %s", x.Value)
		}
		v, err := strconv.ParseInt(x.Value, 0, 64)
		return int(v), err
	case *ast.ParenExpr:
		return evalIntExpr(x.X, consts)
	case *ast.SelectorExpr:
		if v, ok := consts[x.Sel.Name]; ok {
			return v, nil
		}
		return 0, fmt.Errorf("unknown constant %s", x.Sel.Name)
	case *ast.Ident:
		if v, ok := consts[x.Name]; ok {
			return v, nil
		}
		return 0, fmt.Errorf("unknown identifier %s", x.Name)
	case *ast.BinaryExpr:
		a, err := evalIntExpr(x.X, consts)
		if err != nil {
			return 0, err
		}
		b, err := evalIntExpr(x.Y, consts)
		if err != nil {
			return 0, err
		}
		switch x.Op {
		case token.MUL:
			return a * b, nil
		case token.ADD:
			return a + b, nil
		case token.SUB:
			return a - b, nil
		case token.SHL:
			return a << uint(b), nil
		}
		return 0, fmt.Errorf("unsupported operator %s", x.Op)
	}
	return 0, fmt.Errorf("unsupported expression %T", e)
}

// recvBufSize finds `recvBuf := make([]byte, <expr>)` in readTlvStream and evaluates <expr>.
func recvBufSize(repo string, consts map[string]int) (int, error) {
	fset := token.NewFileSet()
	f, err := parser.ParseFile(fset, filepath.Join(repo, "fw", "face", "stream-transport.go"), nil, 0)
	if err != nil {
		return 0, err
	}
	res, found := 0, false
	var ferr error
	ast.Inspect(f, func(n ast.Node) bool {
		fd, ok := n.(*ast.FuncDecl)
		if !ok || fd.Name.Name != "readTlvStream" {
			return true
		}
		ast.Inspect(fd.Body, func(m ast.Node) bool {
			as, ok := m.(*ast.AssignStmt)
			if !ok || len(as.Lhs) != 1 || len(as.Rhs) != 1 {
				return true
			}
			id, ok := as.Lhs[0].(*ast.Ident)
			if !ok || id.Name != "recvBuf" {
				return true
			}
			call, ok := as.Rhs[0].(*ast.CallExpr)
			if !ok || len(call.Args) != 2 {
				return true
			}
			if fn, ok := call.Fun.(*ast.Ident); !ok || fn.Name != "make" {
				return true
			}
			res, ferr = evalIntExpr(call.Args[1], consts)
			found = true
			return false
		})
		return false
	})
	if ferr != nil {
		return 0, ferr
	}
	if !found {
		return 0, fmt.Errorf("recvBuf := make([]byte, ...) not found in readTlvStream")
	}
	return res, nil
}

func TestPrintConsts(t *testing.T) {
	out := os.Getenv("VERIF_OUT")
	if out == "" {
		t.Skip("VERIF_OUT not set")
	}
	repo := os.Getenv("VERIF_REPO_DIR")
	if repo == "" {
		repo = "/repo"
	}
	m := face.VerifFaceConsts()
	sz, err := recvBufSize(repo, m)
	if err != nil {
		t.Fatalf("recv buffer size: %v", err)
	}
	m["recvBufSize"] = sz
	keys := make([]string, 0, len(m))
	for k := range m {
		keys = append(keys, k)
	}
	sort.Strings(keys)
	f, err := os.Create(out)
	if err != nil {
		t.Fatal(err)
	}
	defer f.Close()
	for _, k := range keys {
		fmt.Fprintf(f, "%s %d\n", k, m[k])
	}
}
