package codec

import (
	"bufio"
	"encoding/hex"
	"fmt"
	"os"
	"reflect"
	"strconv"
	"strings"
	"time"

	enc "github.com/named-data/ndnd/std/encoding"
)

// splitTop splits s at top-level occurrences of sep (outside () and []).
func splitTop(s string, sep byte) []string {
	if s == "" {
		return nil
	}
	var parts []string
	depth, start := 0, 0
	for i := 0; i < len(s); i++ {
		switch s[i] {
		case '(', '[':
			depth++
		case ')', ']':
			depth--
		default:
			if s[i] == sep && depth == 0 {
				parts = append(parts, s[start:i])
				start = i + 1
			}
		}
	}
	return append(parts, s[start:])
}

func unhex(s string) []byte {
	b, err := hex.DecodeString(s)
	if err != nil {
		panic("bad hex " + s)
	}
	if b == nil {
		b = []byte{}
	}
	return b
}

// parseKind builds a Go value of type t from the canonical syntax.
func (e *Entry) parseKind(f *Field, t reflect.Type, s string) reflect.Value {
	v := reflect.New(t).Elem()
	if s == "_" {
		return v
	}
	setPtr := func(set func(reflect.Value)) {
		if t.Kind() == reflect.Ptr {
			p := reflect.New(t.Elem())
			set(p.Elem())
			v.Set(p)
		} else {
			set(v)
		}
	}
	switch f.Kind {
	case "natural", "fixedUint":
		x, _ := strconv.ParseUint(s[1:], 10, 64)
		setPtr(func(r reflect.Value) { r.SetUint(x) })
	case "time":
		x, _ := strconv.ParseUint(s[1:], 10, 64)
		setPtr(func(r reflect.Value) { r.SetInt(int64(time.Duration(x))) })
	case "binary":
		v.SetBytes(unhex(s[1:]))
	case "string":
		setPtr(func(r reflect.Value) { r.SetString(string(unhex(s[1:]))) })
	case "wire", "signature":
		if strings.HasPrefix(s, "W[") { // segmented: every segment followed by a comma
			w := enc.Wire{}
			body := s[2 : len(s)-1]
			for len(body) > 0 {
				i := strings.IndexByte(body, ',')
				if i < 0 {
					break
				}
				w = append(w, unhex(body[:i]))
				body = body[i+1:]
			}
			v.Set(reflect.ValueOf(w))
			break
		}
		b := unhex(s[1:])
		if len(b) == 0 {
			v.Set(reflect.ValueOf(enc.Wire{}))
		} else {
			v.Set(reflect.ValueOf(enc.Wire{b}))
		}
	case "name", "interestName":
		n := enc.Name{}
		for _, c := range splitTop(s[2:len(s)-1], ',') {
			i := strings.IndexByte(c, ':')
			typ, _ := strconv.ParseUint(c[:i], 10, 64)
			n = append(n, enc.Component{Typ: enc.TLNum(typ), Val: unhex(c[i+1:])})
		}
		v.Set(reflect.ValueOf(n))
	case "bool":
		v.SetBool(s == "T")
	case "struct":
		v.Set(e.modelByName(f.Struct).ParseStruct(s))
	case "sequence":
		parts := splitTop(s[2:len(s)-1], ';')
		sl := reflect.MakeSlice(t, len(parts), len(parts))
		for i, p := range parts {
			sl.Index(i).Set(e.parseKind(f.Sub, t.Elem(), p))
		}
		v.Set(sl)
	case "map":
		m := reflect.MakeMap(t)
		for _, p := range splitTop(s[2:len(s)-1], ';') {
			kv := splitTop(p, '=')
			m.SetMapIndex(e.parseKind(f.Key, t.Key(), kv[0]), e.parseKind(f.Val, t.Elem(), kv[1]))
		}
		v.Set(m)
	}
	return v
}

// ParseStruct builds *T from S(f0;f1;...).
func (e *Entry) ParseStruct(s string) reflect.Value {
	p := reflect.New(e.T)
	parts := splitTop(s[2:len(s)-1], ';')
	for i := range e.M.Fields {
		f := &e.M.Fields[i]
		if !isData(f.Kind) || i >= len(parts) {
			continue
		}
		fv := p.Elem().FieldByName(f.Name)
		if fv.IsValid() && fv.CanSet() {
			fv.Set(e.parseKind(f, fv.Type(), parts[i]))
		}
	}
	return p
}

func parseSegs(s string) enc.Wire {
	if s == "-" {
		return enc.Wire{}
	}
	w := enc.Wire{}
	for _, h := range strings.Split(s, "|") {
		if h == "-" {
			h = ""
		}
		w = append(w, unhex(h))
	}
	return w
}

func findEntry(dir, model string) *Entry {
	for _, e := range Reg {
		if e.P.Dir == dir && e.Name == model {
			return e
		}
	}
	return nil
}

// RunOps replays corpus / replay lines:  E <pi> <mi> <value> ...   D <pi> <mi> <ic> <B|W> <segs> <res> <aux> <expect> <tag>
// or the same with "C <dir> <Model>" in front instead of the two indices.
func RunOps(path string, w *bufio.Writer, g *Gen) error {
	f, err := os.Open(path)
	if err != nil {
		return err
	}
	defer f.Close()
	sc := bufio.NewScanner(f)
	sc.Buffer(make([]byte, 1<<20), 1<<28)
	for sc.Scan() {
		line := strings.TrimSpace(sc.Text())
		if line == "" || line[0] == '#' {
			continue
		}
		fs := strings.Split(line, " ")
		var e *Entry
		if fs[0] == "C" {
			e = findEntry(fs[1], fs[2])
			if e == nil {
				fmt.Fprintf(w, "X 0 0 corpus-model-missing %s %s\n", fs[1], fs[2])
				continue
			}
			fs = append([]string{fs[3], strconv.Itoa(e.Pi), strconv.Itoa(e.Mi)}, fs[4:]...)
		} else {
			pi, _ := strconv.Atoi(fs[1])
			mi, _ := strconv.Atoi(fs[2])
			for _, x := range Reg {
				if x.Pi == pi && x.Mi == mi {
					e = x
				}
			}
			if e == nil {
				continue
			}
		}
		switch fs[0] {
		case "E":
			p := e.ParseStruct(fs[3])
			vstr := e.DumpStruct(p)
			vsegs := e.DumpSegs(p)
			er := e.Encode(p)
			if er.Panic != "" {
				fmt.Fprintf(w, "X %d %d encode-panic %s %s\n", e.Pi, e.Mi, vsegs, strconv.Quote(er.Panic)) // value with its wire segmentation
				continue
			}
			b := er.Wire.Join()
			fmt.Fprintf(w, "E %d %d %s %s %d\n", e.Pi, e.Mi, vstr, hexOrDash(b), er.Length)
			e.emitEW(w, vsegs, er)
			e.emitD(w, g, b, false, "rt:"+vstr, "rt")
		case "D":
			ic := fs[3] == "1"
			segs := parseSegs(fs[5])
			var r ParseResult
			if fs[4] == "B" {
				r = e.Parse(enc.NewBufferReader(segs.Join()), ic)
			} else {
				r = e.Parse(enc.NewWireReader(segs), ic)
			}
			expect, tag := "-", "corpus"
			if len(fs) > 8 {
				expect = fs[8]
			}
			if len(fs) > 9 {
				tag = fs[9]
			}
			fmt.Fprintf(w, "D %d %d %s %s %s %s %s %s %s\n", e.Pi, e.Mi, fs[3], fs[4], fs[5], r.Res, r.Aux, expect, tag)
		}
	}
	return sc.Err()
}
