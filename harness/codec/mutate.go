package codec

import (
	"encoding/binary"
	"fmt"

	enc "github.com/named-data/ndnd/std/encoding"
)

// ---- structure-aware mutation of valid encodings (C04) ----

type tlvPos struct {
	tpos, lpos, vpos, vend int
	typ                    uint64
	depth                  int
}

// walk finds the TLV headers of b (recursively where the value itself parses as a TLV sequence).
func walk(b []byte, base, depth int, out *[]tlvPos) bool {
	pos := 0
	var local []tlvPos
	for pos < len(b) {
		r := enc.NewBufferReader(b[pos:])
		t, err := enc.ReadTLNum(r)
		if err != nil {
			return false
		}
		lp := r.Pos()
		l, err := enc.ReadTLNum(r)
		if err != nil || uint64(l) > uint64(len(b)-pos-r.Pos()) {
			return false
		}
		vp := r.Pos()
		local = append(local, tlvPos{base + pos, base + pos + lp, base + pos + vp, base + pos + vp + int(l), uint64(t), depth})
		pos += vp + int(l)
	}
	for _, p := range local {
		*out = append(*out, p)
		if depth < 5 && p.vend-p.vpos >= 2 {
			var sub []tlvPos
			if walk(b[p.vpos-base:p.vend-base], p.vpos, depth+1, &sub) {
				*out = append(*out, sub...)
			}
		}
	}
	return true
}

func tlnum(x uint64) []byte {
	tmp := make([]byte, 9)
	n := enc.TLNum(x).EncodeInto(tmp)
	return tmp[:n]
}

// non-minimal encodings of small numbers are accepted by ReadTLNum too
func tlnumWide(x uint64, w int) []byte {
	switch w {
	case 3:
		b := []byte{0xfd, 0, 0}
		binary.BigEndian.PutUint16(b[1:], uint16(x))
		return b
	case 5:
		b := []byte{0xfe, 0, 0, 0, 0}
		binary.BigEndian.PutUint32(b[1:], uint32(x))
		return b
	default:
		b := []byte{0xff, 0, 0, 0, 0, 0, 0, 0, 0}
		binary.BigEndian.PutUint64(b[1:], x)
		return b
	}
}

var hugeLens = []uint64{0, 1, 2, 127, 252, 253, 255, 256, 65535, 65536, 1<<32 - 1, 1 << 32, 1 << 34, 1 << 40, 1 << 47, 1<<62 - 1, 1 << 62,
	1<<63 - 1, 1 << 63, 1<<63 + 1, 1<<64 - 10, 1<<64 - 2, 1<<64 - 1}

type Mutant struct {
	B   []byte
	Tag string
}

func splice(b []byte, from, to int, repl []byte) []byte {
	out := make([]byte, 0, len(b)+len(repl))
	out = append(out, b[:from]...)
	out = append(out, repl...)
	return append(out, b[to:]...)
}

// Mutants of one valid encoding. full = every length x every value, every truncation offset; otherwise a sample.
func (e *Entry) Mutants(g *Gen, b []byte, full bool) []Mutant {
	var ms []Mutant
	var ps []tlvPos
	walk(b, 0, 0, &ps)
	// 1. every length field replaced by boundary and huge values (also relative to the true length)
	for pi, p := range ps {
		trueLen := uint64(p.vend - p.vpos)
		cands := append([]uint64{}, hugeLens...)
		cands = append(cands, trueLen+1, trueLen+2, trueLen*2+1)
		if trueLen > 0 {
			cands = append(cands, trueLen-1)
		}
		// a length that reaches exactly to the end of the input, and one past it
		cands = append(cands, uint64(len(b)-p.vpos), uint64(len(b)-p.vpos)+1)
		for ci, c := range cands {
			if !full && len(ps)*len(cands) > 120 && g.R.Intn(len(ps)*len(cands)) > 120 {
				continue
			}
			ms = append(ms, Mutant{splice(b, p.lpos, p.vpos, tlnum(c)), fmt.Sprintf("len@%d/%d:d%d=%d", pi, ci, p.depth, c)})
		}
		// non-minimal encodings of the true length
		for _, w := range []int{3, 5, 9} {
			if full || g.R.Intn(6) == 0 {
				ms = append(ms, Mutant{splice(b, p.lpos, p.vpos, tlnumWide(trueLen, w)), fmt.Sprintf("lenwide@%d:w%d", pi, w)})
			}
		}
	}
	// 2. truncation
	if full || len(b) <= 48 {
		for i := 0; i < len(b); i++ {
			ms = append(ms, Mutant{append([]byte{}, b[:i]...), fmt.Sprintf("trunc@%d/%d", i, len(b))})
		}
	} else {
		for k := 0; k < 24; k++ {
			i := g.R.Intn(len(b))
			ms = append(ms, Mutant{append([]byte{}, b[:i]...), fmt.Sprintf("trunc@%d/%d", i, len(b))})
		}
		for _, p := range ps { // right after each header
			if g.R.Intn(3) == 0 {
				ms = append(ms, Mutant{append([]byte{}, b[:p.vpos]...), fmt.Sprintf("trunc@%d/%d", p.vpos, len(b))})
			}
		}
	}
	// 3. type confusion: a type number of another field of this package, 0, or a neighbour's
	var types []uint64
	for _, x := range Reg {
		if x.Pi == e.Pi {
			for i := range x.M.Fields {
				if x.M.Fields[i].Typ != 0 {
					types = append(types, x.M.Fields[i].Typ)
				}
			}
		}
	}
	types = append(types, 0, 7, 8, 0xfd, 0x22, 1<<64-1)
	for pi, p := range ps {
		n := 3
		if full {
			n = 8
		}
		for k := 0; k < n; k++ {
			t := types[g.R.Intn(len(types))]
			ms = append(ms, Mutant{splice(b, p.tpos, p.lpos, tlnum(t)), fmt.Sprintf("type@%d:d%d=%d", pi, p.depth, t)})
		}
	}
	// 4. element duplication / reordering / deletion at the top level
	els := e.Elements(b)
	if len(els) >= 2 {
		for k := 0; k < 4; k++ {
			i, j := g.R.Intn(len(els)), g.R.Intn(len(els))
			parts := append([][]byte{}, els...)
			parts[i], parts[j] = parts[j], parts[i]
			ms = append(ms, Mutant{join(parts), fmt.Sprintf("swap@%d,%d", i, j)})
			parts = append([][]byte{}, els[:i]...)
			parts = append(parts, els[i], els[i])
			parts = append(parts, els[i+1:]...)
			ms = append(ms, Mutant{join(parts), fmt.Sprintf("dup@%d", i)})
		}
	}
	// 5. bit flips and random bytes
	nflip := 8
	if full {
		nflip = 40
	}
	for k := 0; k < nflip && len(b) > 0; k++ {
		c := append([]byte{}, b...)
		i := g.R.Intn(len(c))
		c[i] ^= byte(1 << uint(g.R.Intn(8)))
		ms = append(ms, Mutant{c, fmt.Sprintf("flip@%d", i)})
	}
	for k := 0; k < 4; k++ {
		ms = append(ms, Mutant{g.bytes(g.R.Intn(40)), "random"})
	}
	return ms
}

// SplitAdv cuts b into segments adversarially: empty segments, cuts inside headers, one-byte segments.
func (g *Gen) SplitAdv(b []byte) enc.Wire {
	switch g.R.Intn(6) {
	case 0: // every byte its own segment (short inputs)
		if len(b) <= 64 {
			w := enc.Wire{}
			for i := range b {
				w = append(w, b[i:i+1])
			}
			return w
		}
	case 1: // empty segments around
		w := g.Split(b)
		out := enc.Wire{[]byte{}}
		for _, s := range w {
			out = append(out, s, []byte{})
		}
		return out
	case 2:
		if len(b) >= 2 {
			return enc.Wire{b[:1], b[1:]}
		}
	case 3:
		if len(b) >= 3 {
			return enc.Wire{b[:len(b)-1], b[len(b)-1:]}
		}
	}
	return g.Split(b)
}
