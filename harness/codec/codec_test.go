package codec

import (
	"bufio"
	"fmt"
	"math/rand"
	"os"
	"reflect"
	"strconv"
	"testing"

	enc "github.com/named-data/ndnd/std/encoding"
)

func envInt(name string, def int) int {
	if s := os.Getenv(name); s != "" {
		if n, err := strconv.Atoi(s); err == nil {
			return n
		}
	}
	return def
}

func setup(t *testing.T) (*Gen, *bufio.Writer, func()) {
	if err := LoadSchemas(os.Getenv("VERIF_SCHEMAS")); err != nil {
		t.Fatal(err)
	}
	seed := int64(envInt("VERIF_SEED", 1))
	g := &Gen{R: rand.New(rand.NewSource(seed)), Big: os.Getenv("VERIF_BIG") == "1", Seed: seed}
	out := os.Getenv("VERIF_OUT")
	if out == "" {
		out = "/dev/stdout"
	}
	f, err := os.Create(out)
	if err != nil {
		t.Fatal(err)
	}
	w := bufio.NewWriterSize(f, 1<<20)
	return g, w, func() { w.Flush(); f.Close() }
}

var unknownNonCritical = []uint64{0xF0, 0x20, 0xFC, 0xFE, 1000, 65536, 1 << 32, 1<<64 - 2}
var unknownCritical = []uint64{0, 1, 2, 16, 30, 0x1F, 0x1E, 0xF1, 0xFD, 1001, 65537, 1<<64 - 1}

func (e *Entry) hasType(t uint64) bool {
	for i := range e.M.Fields {
		if e.M.Fields[i].Typ == t && t != 0 {
			return true
		}
	}
	return false
}

func (e *Entry) pickUnknown(g *Gen, critical bool) uint64 {
	pool := unknownNonCritical
	if critical {
		pool = unknownCritical
	}
	for {
		t := pool[g.R.Intn(len(pool))]
		if !e.hasType(t) {
			return t
		}
	}
}

func tlvBytes(t uint64, payload []byte) []byte {
	b := make([]byte, 0, 18+len(payload))
	tmp := make([]byte, 9)
	n := enc.TLNum(t).EncodeInto(tmp)
	b = append(b, tmp[:n]...)
	n = enc.TLNum(len(payload)).EncodeInto(tmp)
	b = append(b, tmp[:n]...)
	return append(b, payload...)
}

func join(parts [][]byte) []byte {
	var b []byte
	for _, p := range parts {
		b = append(b, p...)
	}
	return b
}

// emitD runs the real parser on the bytes with both readers and writes D lines.
func (e *Entry) emitD(w *bufio.Writer, g *Gen, b []byte, ic bool, expect, tag string) {
	icS := "0"
	if ic {
		icS = "1"
	}
	r := e.Parse(enc.NewBufferReader(b), ic)
	fmt.Fprintf(w, "D %d %d %s B %s %s %s %s %s\n", e.Pi, e.Mi, icS, hexOrDash(b), r.Res, r.Aux, expect, tag)
	segs := g.Split(b)
	r2 := e.Parse(enc.NewWireReader(segs), ic)
	fmt.Fprintf(w, "D %d %d %s W %s %s %s %s %s\n", e.Pi, e.Mi, icS, segsStr(segs), r2.Res, r2.Aux, expect, tag)
}

// TestTrace: C13 stream. For every registered model: VERIF_N generated values; encode; parse the encoding back with
// both readers; insert unknown elements at element boundaries (all positions when VERIF_ALLPOS=1, else a few).
func TestTrace(t *testing.T) {
	g, w, done := setup(t)
	defer done()
	n := envInt("VERIF_N", 20)
	allpos := os.Getenv("VERIF_ALLPOS") == "1"
	only := os.Getenv("VERIF_ONLY") // "pi/mi"
	for _, e := range Reg {
		if only != "" && only != fmt.Sprintf("%d/%d", e.Pi, e.Mi) {
			continue
		}
		// systematic values after the n random ones: all fields set together; every data field set alone; every wire
		// field with empty / nil buffers only, first, in the middle, last (the other fields set, so that fields follow)
		type sysv struct {
			full      bool
			alone, ws int
			ns        int
		}
		sys := []sysv{{true, -1, 0, 0}}
		for i := range e.M.Fields {
			if isData(e.M.Fields[i].Kind) {
				sys = append(sys, sysv{true, i, 0, 0})
			}
		}
		if e.HasWire(0) {
			for k := 1; k <= nWireShapes; k++ {
				sys = append(sys, sysv{true, -1, k, 0})
			}
		}
		// every name-typed field (Name, InterestName, names in sequences, at any depth) with every component count of the
		// generic size list and with encoded sizes around 253; around 65536 for every model in the thorough tier, for a
		// few models per run in the quick tier (64 KiB inputs)
		if e.HasName(0) && os.Getenv("VERIF_NONAMESHAPES") != "1" {
			for k := 1; k <= nNameShapes; k++ {
				if k > len(sizeSteps)+3 && !allpos && (e.Pi*31+e.Mi)%6 != int(g.Seed%6) {
					continue
				}
				sys = append(sys, sysv{true, -1, 0, k})
			}
		}
		for k := 0; k < n+len(sys); k++ {
			var p reflect.Value
			big := g.Big && k%16 == 7 && k < n // a few values per model may carry 64 KiB-scale fields
			if k == 0 {
				p = reflect.New(e.T) // zero value: everything nil/0/false
			} else if k >= n {
				sv := sys[k-n]
				save := g.Big
				g.Big = false
				g.Full, g.Alone, g.WireShape, g.NameShape = sv.full, sv.alone+1, sv.ws, sv.ns
				g.NameTarget = -1
				if sv.ns > 7 { // 64 components and more / large encodings: one name position per value, rotating over the positions
					g.nameCnt = 0
					e.GenStruct(g)
					if g.nameCnt > 0 {
						g.NameTarget = (sv.ns + e.Pi + e.Mi + int(g.Seed)) % g.nameCnt
					}
				}
				g.nameCnt = 0
				p = e.GenStruct(g)
				g.Full, g.Alone, g.WireShape, g.NameShape = false, 0, 0, 0
				g.Big = save
			} else {
				save := g.Big
				g.Big = big
				p = e.GenStruct(g)
				g.Big = save
			}
			vstr := e.DumpStruct(p)
			vsegs := e.DumpSegs(p)
			er := e.Encode(p)
			if er.Panic != "" {
				fmt.Fprintf(w, "X %d %d encode-panic %s %s\n", e.Pi, e.Mi, vsegs, strconv.Quote(er.Panic)) // value with its wire segmentation
				continue
			}
			b := er.Wire.Join()
			fmt.Fprintf(w, "E %d %d %s %s %d\n", e.Pi, e.Mi, vstr, hexOrDash(b), er.Length)
			e.emitEW(w, vsegs, er)
			if !er.PlanOK {
				fmt.Fprintf(w, "X %d %d wireplan-mismatch %s plan=%v\n", e.Pi, e.Mi, vstr, er.Plan)
			}
			// round trip, both readers, both ignoreCritical settings
			e.emitD(w, g, b, false, "rt:"+vstr, "rt")
			if k%4 == 1 {
				e.emitD(w, g, b, true, "rt:"+vstr, "rt-ic")
			}
			// unknown elements INSIDE nested models (struct fields, sequence-of-struct elements, map-of-struct values), every
			// depth: non-critical and critical, both ignoreCritical settings, both readers.  The caller's flag has to reach
			// the inner parser: critical + ignore must be skipped there too.  Thorough: every boundary of every nested value;
			// quick: systematic all-fields value every boundary capped, random values a few boundaries.
			if len(b) <= 20000 {
				sites := e.NestedSites(b)
				var pick []int
				switch {
				case allpos || (k == n && len(sites) <= 24):
					for i := range sites {
						pick = append(pick, i)
					}
				case k == n: // the all-fields value: first / last boundary of every nested value + a few more
					for i, st := range sites {
						if st.Pos == 0 || st.Pos == st.N || g.R.Intn(4) == 0 {
							pick = append(pick, i)
						}
					}
					if len(pick) > 40 {
						g.R.Shuffle(len(pick), func(a, b int) { pick[a], pick[b] = pick[b], pick[a] })
						pick = pick[:40]
					}
				case k < n && len(sites) > 0 && k%2 == 1:
					pick = []int{g.R.Intn(len(sites)), g.R.Intn(len(sites))}
				}
				for _, si := range pick {
					st := sites[si]
					payload := g.bytes([]int{0, 1, 3, 10, 252}[g.R.Intn(5)])
					nc := st.E.pickUnknown(g, false)
					cr := st.E.pickUnknown(g, true)
					where := fmt.Sprintf("@d%d%s:%d/%d", st.Depth, st.Path, st.Pos, st.N)
					e.emitD(w, g, st.Make(tlvBytes(nc, payload)), false, "same:"+vstr, fmt.Sprintf("ins-nc%s:t=%d", where, nc))
					e.emitD(w, g, st.Make(tlvBytes(nc, payload)), true, "same:"+vstr, fmt.Sprintf("ins-nc-ic%s:t=%d", where, nc))
					e.emitD(w, g, st.Make(tlvBytes(cr, payload)), false, "err", fmt.Sprintf("ins-crit%s:t=%d", where, cr))
					e.emitD(w, g, st.Make(tlvBytes(cr, payload)), true, "same:"+vstr, fmt.Sprintf("ins-crit-ic%s:t=%d", where, cr))
				}
			}
			if k >= n && !allpos {
				continue // systematic values: top-level insertion only in the thorough tier
			}
			// unknown element insertion
			els := e.Elements(b)
			if els == nil && len(b) > 0 {
				fmt.Fprintf(w, "X %d %d elements-unsplittable %s\n", e.Pi, e.Mi, hexOrDash(b))
				continue
			}
			var positions []int
			if len(b) > 20000 {
				positions = []int{g.R.Intn(len(els) + 1)}
			} else if allpos || len(els) <= 2 {
				for i := 0; i <= len(els); i++ {
					positions = append(positions, i)
				}
			} else {
				positions = []int{0, len(els), 1 + g.R.Intn(len(els)-1)}
			}
			for _, pos := range positions {
				payload := g.bytes([]int{0, 1, 3, 10, 252, 253}[g.R.Intn(6)])
				mk := func(t uint64) []byte {
					parts := append([][]byte{}, els[:pos]...)
					parts = append(parts, tlvBytes(t, payload))
					parts = append(parts, els[pos:]...)
					return join(parts)
				}
				nc := e.pickUnknown(g, false)
				e.emitD(w, g, mk(nc), false, "same:"+vstr, fmt.Sprintf("ins-nc@%d/%d:t=%d", pos, len(els), nc))
				cr := e.pickUnknown(g, true)
				e.emitD(w, g, mk(cr), false, "err", fmt.Sprintf("ins-crit@%d/%d:t=%d", pos, len(els), cr))
				e.emitD(w, g, mk(cr), true, "same:"+vstr, fmt.Sprintf("ins-crit-ic@%d/%d:t=%d", pos, len(els), cr))
			}
		}
	}
}

// TestCorpus replays the lines of VERIF_OPS (corpus files, replay files).
func TestCorpus(t *testing.T) {
	g, w, done := setup(t)
	defer done()
	if err := RunOps(os.Getenv("VERIF_OPS"), w, g); err != nil {
		t.Fatal(err)
	}
}
