// Package codec: harness for C13 / C04 (generated TLV models).
// Everything is driven by the schema dump (JSON written by translators/codec) and by reflection over the generated
// types; the only generated Go here is zz_registry.go (reflect.Types of every model, encoder and parsing context,
// emitted by translators/codec/codecgen.py from the generated sources at check time).
package codec

import (
	"bufio"
	"encoding/hex"
	"encoding/json"
	"fmt"
	"math/rand"
	"os"
	"reflect"
	"sort"
	"strconv"
	"strings"
	"time"

	enc "github.com/named-data/ndnd/std/encoding"
)

// ---- schema (mirror of codegen.VerifModel JSON) ----
type Field struct {
	Name        string `json:"name"`
	Typ         uint64 `json:"typ"`
	Kind        string `json:"kind"`
	Opt         bool   `json:"opt"`
	Width       uint   `json:"width"`
	Struct      string `json:"struct"`
	GoType      string `json:"gotype"`
	InnerNoCopy bool   `json:"inner_nocopy"`
	Sub         *Field `json:"sub"`
	Key         *Field `json:"key"`
	Val         *Field `json:"val"`
	StartPoint  string `json:"start"`
	Covered     string `json:"covered"`
}

type Model struct {
	Name    string  `json:"name"`
	Private bool    `json:"private"`
	NoCopy  bool    `json:"nocopy"`
	Ordered bool    `json:"ordered"`
	Fields  []Field `json:"fields"`
}

type Pkg struct {
	Dir     string  `json:"dir"`
	Import  string  `json:"import"`
	PkgName string  `json:"pkgname"`
	Models  []Model `json:"models"`
}

type Entry struct {
	Pi, Mi  int
	Name    string
	T, E, C reflect.Type
	M       *Model
	P       *Pkg
}

var Pkgs []Pkg
var Reg []*Entry
var pending []*Entry

func register(pi, mi int, name string, t, e, c reflect.Type) {
	pending = append(pending, &Entry{Pi: pi, Mi: mi, Name: name, T: t, E: e, C: c})
}

// LoadSchemas reads the schema dump and ties registry entries to models.
func LoadSchemas(path string) error {
	b, err := os.ReadFile(path)
	if err != nil {
		return err
	}
	if err := json.Unmarshal(b, &Pkgs); err != nil {
		return err
	}
	Reg = nil
	for _, e := range pending {
		if e.Pi >= len(Pkgs) || e.Mi >= len(Pkgs[e.Pi].Models) || Pkgs[e.Pi].Models[e.Mi].Name != e.Name {
			return fmt.Errorf("registry entry %d/%d %s does not match the schema dump", e.Pi, e.Mi, e.Name)
		}
		e.P = &Pkgs[e.Pi]
		e.M = &Pkgs[e.Pi].Models[e.Mi]
		Reg = append(Reg, e)
	}
	n := 0
	for _, p := range Pkgs {
		n += len(p.Models)
	}
	if n != len(Reg) {
		return fmt.Errorf("schema dump has %d models, registry %d", n, len(Reg))
	}
	return nil
}

func (e *Entry) modelByName(name string) *Entry {
	for _, x := range Reg {
		if x.Pi == e.Pi && x.Name == name {
			return x
		}
	}
	return nil
}

func hx(b []byte) string { return hex.EncodeToString(b) }

// ---- canonical value syntax (see runner/Codec/driver.ml) ----

func isData(k string) bool {
	return k != "offsetMarker" && k != "rangeMarker" && k != "procedureArgument"
}

func dumpName(n enc.Name) string {
	parts := make([]string, len(n))
	for i, c := range n {
		parts[i] = strconv.FormatUint(uint64(c.Typ), 10) + ":" + hx(c.Val)
	}
	return "N[" + strings.Join(parts, ",") + "]"
}

// dumpSegs: when set, wire fields are printed with their segmentation, W[hex,hex,...] (for the wire-plan lines)
var dumpSegs bool

// dumpKind prints the Go value v of a field of kind f.
func (e *Entry) dumpKind(f *Field, v reflect.Value) string {
	if dumpSegs && f.Kind == "wire" && !v.IsNil() {
		var sb strings.Builder
		sb.WriteString("W[")
		for i := 0; i < v.Len(); i++ { // every segment is followed by a comma: W[] = no segment, W[,] = one empty segment
			sb.WriteString(hx(v.Index(i).Bytes()))
			sb.WriteString(",")
		}
		sb.WriteString("]")
		return sb.String()
	}
	switch f.Kind {
	case "natural", "fixedUint":
		if v.Kind() == reflect.Ptr {
			if v.IsNil() {
				return "_"
			}
			v = v.Elem()
		}
		return "n" + strconv.FormatUint(v.Uint(), 10)
	case "time":
		if v.Kind() == reflect.Ptr {
			if v.IsNil() {
				return "_"
			}
			v = v.Elem()
		}
		return "n" + strconv.FormatUint(uint64(v.Int()), 10)
	case "binary":
		if v.IsNil() {
			return "_"
		}
		return "b" + hx(v.Bytes())
	case "string":
		if v.Kind() == reflect.Ptr {
			if v.IsNil() {
				return "_"
			}
			v = v.Elem()
		}
		return "b" + hx([]byte(v.String()))
	case "wire", "signature":
		if v.IsNil() {
			return "_"
		}
		var sb strings.Builder
		sb.WriteString("b")
		for i := 0; i < v.Len(); i++ {
			sb.WriteString(hx(v.Index(i).Bytes()))
		}
		return sb.String()
	case "name", "interestName":
		if v.IsNil() {
			return "_"
		}
		return dumpName(v.Interface().(enc.Name))
	case "bool":
		if v.Bool() {
			return "T"
		}
		return "F"
	case "struct":
		if v.IsNil() {
			return "_"
		}
		return e.modelByName(f.Struct).DumpStruct(v)
	case "sequence":
		parts := make([]string, v.Len())
		for i := 0; i < v.Len(); i++ {
			parts[i] = e.dumpKind(f.Sub, v.Index(i))
		}
		return "L[" + strings.Join(parts, ";") + "]"
	case "map":
		var parts []string
		it := v.MapRange()
		for it.Next() {
			parts = append(parts, e.dumpKind(f.Key, it.Key())+"="+e.dumpKind(f.Val, it.Value()))
		}
		sort.Strings(parts)
		return "M[" + strings.Join(parts, ";") + "]"
	}
	return "U"
}

// DumpStruct prints *T as S(f0;f1;...).
func (e *Entry) DumpStruct(p reflect.Value) string {
	s := p.Elem()
	parts := make([]string, len(e.M.Fields))
	for i := range e.M.Fields {
		f := &e.M.Fields[i]
		if !isData(f.Kind) {
			parts[i] = "U"
			continue
		}
		parts[i] = e.dumpKind(f, s.FieldByName(f.Name))
	}
	return "S(" + strings.Join(parts, ";") + ")"
}

// ---- generator ----
type Gen struct {
	R     *rand.Rand
	Big   bool // allow 64 KiB-scale fields
	depth int
	sigOK bool // the struct being generated is the only member of its (nocopy) parent: it may carry a signature
	// systematic values (on top of the random ones):
	Full      bool // no optional field is left nil, sequences and maps have at least one element
	Alone     int  // > 0: at depth 0 only field Alone-1 is set (Full-style), every other field keeps its zero value
	WireShape int  // > 0: every wire field gets this buffer pattern (empty / nil buffers in each position)
	Seed      int64
	LongNameDen int // random names take a component count from sizeSteps with probability 1/LongNameDen (0 = default 8, < 0 = never)
	nameCnt    int // names generated so far in the current value
	NameTarget int // >= 0: only the name with this index gets NameShape (heavy shapes: one position per value, rotating)
	NameShape int  // > 0: every name gets this shape (component count from sizeSteps / encoded size from nameEncSizes)
}

// wireShapes: buffer patterns of a Wire value with empty / nil buffers only, first, in the middle, last.
// What a parser returns for a zero-length element is Wire{[]byte{}} (BufferReader) or Wire{} (WireReader).
const nWireShapes = 7

func (g *Gen) wireShape(k int) enc.Wire {
	a, b := g.bytes(1+g.R.Intn(5)), g.bytes(1+g.R.Intn(5))
	switch k {
	case 1:
		return enc.Wire{[]byte{}}
	case 2:
		return enc.Wire{nil}
	case 3:
		return enc.Wire{}
	case 4:
		return enc.Wire{[]byte{}, a}
	case 5:
		return enc.Wire{a, []byte{}, b}
	case 6:
		return enc.Wire{a, []byte{}}
	default:
		return enc.Wire{nil, a, nil, nil, b, nil}
	}
}

// HasName: the model has a name-typed field (name, interestName, sequence of names), directly or in a nested struct.
func (e *Entry) HasName(depth int) bool {
	if depth > 6 {
		return false
	}
	var has func(f *Field) bool
	has = func(f *Field) bool {
		if f == nil {
			return false
		}
		switch f.Kind {
		case "name", "interestName":
			return true
		case "struct":
			m := e.modelByName(f.Struct)
			return m != nil && m.HasName(depth+1)
		case "sequence":
			return has(f.Sub)
		case "map":
			return has(f.Key) || has(f.Val)
		}
		return false
	}
	for i := range e.M.Fields {
		if has(&e.M.Fields[i]) {
			return true
		}
	}
	return false
}

// HasWire: the model has a wire field, directly or in a nested struct.
func (e *Entry) HasWire(depth int) bool {
	if depth > 6 {
		return false
	}
	for i := range e.M.Fields {
		f := &e.M.Fields[i]
		if f.Kind == "wire" {
			return true
		}
		if f.Kind == "struct" {
			if m := e.modelByName(f.Struct); m != nil && m.HasWire(depth+1) {
				return true
			}
		}
	}
	return false
}

var natVals = []uint64{0, 1, 2, 100, 252, 253, 254, 255, 256, 65535, 65536, 1<<32 - 1, 1 << 32, 1<<63 - 1, 1 << 63, 1<<64 - 1}
var lenVals = []int{0, 0, 1, 1, 2, 3, 5, 8, 30, 100, 250, 251, 252, 253, 254, 255, 256, 257, 300}
var bigLens = []int{65534, 65535, 65536, 65537, 70000}
var typVals = []uint64{8, 8, 8, 8, 1, 2, 32, 50, 54, 252, 253, 255, 256, 65535, 65536, 1<<32 - 1, 1 << 32, 1<<64 - 1}

func (g *Gen) nat() uint64 {
	if g.R.Intn(3) == 0 {
		return g.R.Uint64() >> uint(g.R.Intn(64))
	}
	return natVals[g.R.Intn(len(natVals))]
}

func (g *Gen) length() int {
	if g.Big && g.R.Intn(12) == 0 {
		return bigLens[g.R.Intn(len(bigLens))]
	}
	if g.R.Intn(2) == 0 {
		return g.R.Intn(6)
	}
	return lenVals[g.R.Intn(len(lenVals))]
}

func (g *Gen) bytes(l int) []byte {
	b := make([]byte, l)
	switch g.R.Intn(3) {
	case 0:
		for i := range b {
			b[i] = byte(g.R.Intn(256))
		}
	case 1:
		for i := range b {
			b[i] = byte('a' + i%26)
		}
	default:
		// bytes that look like TLV headers
		for i := range b {
			b[i] = []byte{0x07, 0x08, 0x00, 0xfd, 0xff, 0x01, 0xf0}[g.R.Intn(7)]
		}
	}
	return b
}

// sizeSteps: the generic list of collection sizes (components of a name, ...): small, around powers of two and around the
// one-octet / three-octet length boundary.  No value is special to any implementation detail.
var sizeSteps = []int{0, 1, 2, 31, 32, 33, 64, 255, 256, 300}

// nameEncSizes: encoded sizes (inner bytes of the Name TLV) reached with two components only: around 253 and around 65536
var nameEncSizes = []int{252, 253, 254, 65535, 65536, 65537}

const nNameShapes = 16 // sizeSteps, then nameEncSizes

// nameShape: k in 1..len(sizeSteps): that many short components; then: two components with the given encoded size.
func (g *Gen) nameShape(k int, noDigestTail bool) enc.Name {
	if k <= len(sizeSteps) {
		n := make(enc.Name, sizeSteps[k-1])
		for i := range n {
			n[i] = enc.Component{Typ: 8, Val: g.bytes(g.R.Intn(2))}
		}
		if len(n) > 2 && !noDigestTail {
			n[len(n)/2].Typ = enc.TLNum(typVals[g.R.Intn(len(typVals))])
		}
		return n
	}
	size := nameEncSizes[k-1-len(sizeSteps)]
	// first component 08 01 xx (3 bytes); second 08 <len> <val>
	hdr := 2
	if size-3-2 >= 253 {
		hdr = 4
	}
	return enc.Name{
		enc.Component{Typ: 8, Val: g.bytes(1)},
		enc.Component{Typ: 8, Val: g.bytes(size - 3 - hdr)},
	}
}

func longDen(d int) int {
	if d <= 0 {
		return 8
	}
	return d
}

func (g *Gen) name(noDigestTail bool) enc.Name {
	if g.NameShape > 0 {
		idx := g.nameCnt
		g.nameCnt++
		if g.NameTarget < 0 || idx == g.NameTarget {
			return g.nameShape(g.NameShape, noDigestTail)
		}
	} else if g.LongNameDen >= 0 && g.R.Intn(longDen(g.LongNameDen)) == 0 { // random values too: a component count from the generic size list, short components
		return g.nameShape(1+g.R.Intn(len(sizeSteps)), noDigestTail)
	}
	l := g.R.Intn(5)
	n := make(enc.Name, l)
	for i := range n {
		t := typVals[g.R.Intn(len(typVals))]
		vl := g.R.Intn(4)
		if g.R.Intn(8) == 0 {
			vl = g.length()
		}
		n[i] = enc.Component{Typ: enc.TLNum(t), Val: g.bytes(vl)}
	}
	if noDigestTail && l > 0 && n[l-1].Typ == 2 {
		n[l-1].Typ = 8
	}
	return n
}

// genKind makes a Go value of type t for a field of kind f. elem = the value is an element of a sequence / map
// (must not be nil).
func (e *Entry) genKind(g *Gen, f *Field, t reflect.Type, elem bool) reflect.Value {
	v := reflect.New(t).Elem()
	setU := func(x uint64) {
		tt := t
		if t.Kind() == reflect.Ptr {
			tt = t.Elem()
		}
		bits := uint(tt.Bits())
		if bits < 64 {
			x &= (1 << bits) - 1
		}
		if t.Kind() == reflect.Ptr {
			p := reflect.New(tt)
			p.Elem().SetUint(x)
			v.Set(p)
		} else {
			v.SetUint(x)
		}
	}
	nilp := !elem && g.R.Intn(4) == 0
	if g.Full {
		nilp = false
	}
	switch f.Kind {
	case "natural", "fixedUint":
		if t.Kind() == reflect.Ptr && nilp {
			return v
		}
		setU(g.nat())
	case "time":
		ms := []int64{0, 1, 255, 256, 4000, 65535, 65536, 1<<32 - 1, 1 << 32, 9223372036854, g.R.Int63n(9223372036854)}[g.R.Intn(11)]
		d := time.Duration(ms) * time.Millisecond
		if t.Kind() == reflect.Ptr {
			if nilp {
				return v
			}
			p := reflect.New(t.Elem())
			p.Elem().SetInt(int64(d))
			v.Set(p)
		} else {
			v.SetInt(int64(d))
		}
	case "binary":
		if nilp {
			return v
		}
		v.SetBytes(g.bytes(g.length()))
	case "string":
		s := string(g.bytes(g.length()))
		if t.Kind() == reflect.Ptr {
			if nilp {
				return v
			}
			p := reflect.New(t.Elem())
			p.Elem().SetString(s)
			v.Set(p)
		} else {
			v.SetString(s)
		}
	case "wire":
		if nilp {
			return v
		}
		if g.WireShape > 0 {
			v.Set(reflect.ValueOf(g.wireShape(g.WireShape)))
			return v
		}
		nseg := g.R.Intn(4)
		if g.Full && nseg == 0 {
			nseg = 1
		}
		w := make(enc.Wire, nseg)
		for i := range w {
			w[i] = g.bytes(g.length())
		}
		v.Set(reflect.ValueOf(w))
	case "signature":
		// the signature length is an input of the encoder (X_estLen), which only the caller of the top-level
		// encoder can provide: nested models are generated unsigned
		if (g.depth > 0 && !(g.depth == 1 && g.sigOK)) || (!g.Full && g.R.Intn(3) == 0) {
			return v
		}
		l := []int{1, 2, 32, 64, 72, 100, 250, 252, 253, 256, 300}[g.R.Intn(11)]
		v.Set(reflect.ValueOf(enc.Wire{g.bytes(l)}))
	case "name":
		if nilp {
			return v
		}
		v.Set(reflect.ValueOf(g.name(false)))
	case "interestName":
		if nilp {
			return v
		}
		v.Set(reflect.ValueOf(g.name(g.R.Intn(10) != 0)))
	case "bool":
		v.SetBool(g.R.Intn(2) == 0)
	case "struct":
		if !elem && (nilp || g.depth > 6 || (g.Full && g.depth > 3)) {
			return v
		}
		g.depth++
		v.Set(e.modelByName(f.Struct).GenStruct(g))
		g.depth--
	case "sequence":
		n := g.R.Intn(4)
		if g.depth > 4 {
			n = g.R.Intn(2)
		}
		if g.Full && n == 0 {
			n = 1
		}
		if n == 0 && g.R.Intn(2) == 0 {
			return v // nil slice
		}
		s := reflect.MakeSlice(t, n, n)
		for i := 0; i < n; i++ {
			s.Index(i).Set(e.genKind(g, f.Sub, t.Elem(), true))
		}
		v.Set(s)
	case "map":
		n := g.R.Intn(4)
		if g.Full && n == 0 {
			n = 1
		}
		if n == 0 && g.R.Intn(2) == 0 {
			return v
		}
		m := reflect.MakeMap(t)
		for i := 0; i < n; i++ {
			m.SetMapIndex(e.genKind(g, f.Key, t.Key(), true), e.genKind(g, f.Val, t.Elem(), true))
		}
		v.Set(m)
	}
	return v
}

// GenStruct makes a *T.
func (e *Entry) GenStruct(g *Gen) reflect.Value {
	p := reflect.New(e.T)
	s := p.Elem()
	// a top-level model whose members are nocopy structs (spec_2022.Packet): half of the time exactly one member,
	// which may then be signed — its encoder's X_wireIdx stays valid in the outer wire, as spec.go relies on
	var nocopyMembers []int
	if g.depth == 0 {
		for i := range e.M.Fields {
			if e.M.Fields[i].Kind == "struct" && e.M.Fields[i].InnerNoCopy {
				nocopyMembers = append(nocopyMembers, i)
			}
		}
	}
	only := -1
	if len(nocopyMembers) > 0 && g.R.Intn(2) == 0 && !g.Full {
		only = nocopyMembers[g.R.Intn(len(nocopyMembers))]
	}
	alone := -1
	if g.depth == 0 && g.Alone > 0 {
		alone = g.Alone - 1
		only = -1
		for _, m := range nocopyMembers {
			if m == alone {
				only = alone // the single member of a Packet: may be signed
			}
		}
	}
	for i := range e.M.Fields {
		f := &e.M.Fields[i]
		if !isData(f.Kind) {
			continue
		}
		if alone >= 0 && i != alone {
			continue
		}
		fv := s.FieldByName(f.Name)
		if !fv.IsValid() || !fv.CanSet() {
			continue
		}
		if only >= 0 {
			if i != only {
				continue
			}
			g.sigOK = true
			g.depth++
			fv.Set(e.modelByName(f.Struct).GenStruct(g))
			g.depth--
			g.sigOK = false
			continue
		}
		fv.Set(e.genKind(g, f, fv.Type(), false))
	}
	return p
}

// ---- encode / parse through the generated code ----

type EncResult struct {
	Wire   enc.Wire
	Length uint64
	Plan   []uint64
	PlanOK bool
	Panic  string
}

// Encode runs XEncoder.Init + Encode on *T; signature fields get estLen = len(signature) and the value placed in
// the reserved wire slot, as spec.go / the gen_signature tests do.
func (e *Entry) Encode(p reflect.Value) (res EncResult) {
	defer func() {
		if r := recover(); r != nil {
			res.Panic = fmt.Sprint(r)
		}
	}()
	encp := reflect.New(e.E)
	type sigslot struct {
		enc  reflect.Value // the (possibly nested) encoder struct holding X_estLen / X_wireIdx
		name string
		val  []byte
	}
	var sigs []sigslot
	var setSig func(x *Entry, val reflect.Value, encoder reflect.Value, nested bool)
	setSig = func(x *Entry, val reflect.Value, encoder reflect.Value, nested bool) {
		for i := range x.M.Fields {
			f := &x.M.Fields[i]
			switch {
			case f.Kind == "signature":
				w := val.FieldByName(f.Name)
				if !w.IsNil() {
					b := w.Interface().(enc.Wire).Join()
					fe := encoder.FieldByName(f.Name + "_estLen")
					if fe.IsValid() && fe.CanSet() {
						fe.SetUint(uint64(len(b)))
						sigs = append(sigs, sigslot{encoder, f.Name, b})
					}
				}
			case f.Kind == "struct" && f.InnerNoCopy && !nested:
				w := val.FieldByName(f.Name)
				ne := encoder.FieldByName(f.Name + "_encoder")
				if !w.IsNil() && ne.IsValid() {
					setSig(x.modelByName(f.Struct), w.Elem(), ne, true)
				}
			}
		}
	}
	setSig(e, p.Elem(), encp.Elem(), false)
	encp.MethodByName("Init").Call([]reflect.Value{p})
	out := encp.MethodByName("Encode").Call([]reflect.Value{p})
	wire := out[0].Interface().(enc.Wire)
	res.Length = encp.Elem().FieldByName("length").Uint()
	res.PlanOK = true
	if wp := encp.Elem().FieldByName("wirePlan"); wp.IsValid() {
		// every planned buffer (plan > 0) was allocated with exactly that size; slots with plan 0 carry
		// user-supplied wire segments or the signature
		for i := 0; i < wp.Len(); i++ {
			x := wp.Index(i).Uint()
			res.Plan = append(res.Plan, x)
			if i >= len(wire) || (x > 0 && uint64(len(wire[i])) != x) {
				res.PlanOK = false
			}
		}
		if wp.Len() != len(wire) {
			res.PlanOK = false
		}
	}
	for _, s := range sigs {
		idx := int(s.enc.FieldByName(s.name + "_wireIdx").Int())
		if idx >= 0 && idx < len(wire) {
			wire[idx] = s.val
		}
	}
	res.Wire = wire
	return
}

type ParseResult struct {
	Res string // ok:<value> | err | panic
	Aux string
	Err string
}

// RawResult is the outcome of a parser call before it is rendered (rendering allocates; C04 measures the call only).
type RawResult struct {
	Panic string
	Err   string
	Val   reflect.Value
	Ctx   reflect.Value
}

// ParseRaw runs XParsingContext.Init + Parse under recover.
func (e *Entry) ParseRaw(reader enc.ParseReader, ic bool) (res RawResult) {
	defer func() {
		if r := recover(); r != nil {
			res = RawResult{Panic: fmt.Sprint(r)}
		}
	}()
	ctx := reflect.New(e.C)
	ctx.MethodByName("Init").Call(nil)
	out := ctx.MethodByName("Parse").Call([]reflect.Value{reflect.ValueOf(reader), reflect.ValueOf(ic)})
	if !out[1].IsNil() {
		return RawResult{Err: out[1].Interface().(error).Error()}
	}
	if out[0].IsNil() {
		return RawResult{Err: "nil value without error"}
	}
	return RawResult{Val: out[0], Ctx: ctx}
}

// Parse = ParseRaw + Render.
func (e *Entry) Parse(reader enc.ParseReader, ic bool) ParseResult {
	return e.Render(e.ParseRaw(reader, ic))
}

// Render prints a raw result in the canonical syntax.
func (e *Entry) Render(raw RawResult) (res ParseResult) {
	if raw.Panic != "" {
		return ParseResult{Res: "panic", Aux: "-", Err: raw.Panic}
	}
	if raw.Err != "" {
		return ParseResult{Res: "err", Aux: "-", Err: raw.Err}
	}
	ctx := raw.Ctx
	out := []reflect.Value{raw.Val}
	// parsing context: marker offsets and covered ranges, by field position
	ints := make([]string, len(e.M.Fields))
	covs := make([]string, len(e.M.Fields))
	for i := range e.M.Fields {
		f := &e.M.Fields[i]
		ints[i] = "0"
		covs[i] = "-"
		cf := ctx.Elem().FieldByName(f.Name)
		if !cf.IsValid() {
			continue
		}
		switch f.Kind {
		case "offsetMarker", "rangeMarker":
			ints[i] = strconv.FormatInt(cf.Int(), 10)
		case "procedureArgument":
			if f.GoType == "enc.Wire" {
				var sb strings.Builder
				for j := 0; j < cf.Len(); j++ {
					sb.WriteString(hx(cf.Index(j).Bytes()))
				}
				if sb.Len() > 0 {
					covs[i] = sb.String()
				}
			}
		}
	}
	return ParseResult{Res: "ok:" + e.DumpStruct(out[0]), Aux: strings.Join(ints, ",") + "/" + strings.Join(covs, ",")}
}

// Elements splits a top-level encoding into elements (one TLV, or key TLV + value TLV for map fields).
func (e *Entry) Elements(b []byte) [][]byte {
	mapKeys := map[uint64]bool{}
	for i := range e.M.Fields {
		if e.M.Fields[i].Kind == "map" {
			mapKeys[e.M.Fields[i].Typ] = true
		}
	}
	var out [][]byte
	pos := 0
	one := func(p int) (typ uint64, end int, ok bool) {
		r := enc.NewBufferReader(b[p:])
		t, err := enc.ReadTLNum(r)
		if err != nil {
			return 0, 0, false
		}
		l, err := enc.ReadTLNum(r)
		if err != nil || uint64(l) > uint64(len(b)-p-r.Pos()) {
			return 0, 0, false
		}
		return uint64(t), p + r.Pos() + int(l), true
	}
	for pos < len(b) {
		t, end, ok := one(pos)
		if !ok {
			return nil
		}
		if mapKeys[t] {
			_, end2, ok2 := one(end)
			if !ok2 {
				return nil
			}
			end = end2
		}
		out = append(out, b[pos:end])
		pos = end
	}
	return out
}

func segsStr(w enc.Wire) string {
	if len(w) == 0 {
		return "-"
	}
	parts := make([]string, len(w))
	for i, s := range w {
		parts[i] = hx(s)
	}
	r := strings.Join(parts, "|")
	if r == "" { // one empty segment: printed as two (fields of a trace line must not be empty)
		return "|"
	}
	return r
}

func hexOrDash(b []byte) string {
	if len(b) == 0 {
		return "-"
	}
	return hx(b)
}

// Split cuts b into random segments (possibly empty ones, cuts inside T/L headers included).
func (g *Gen) Split(b []byte) enc.Wire {
	n := 1 + g.R.Intn(4)
	if len(b) == 0 || g.R.Intn(6) == 0 {
		n = 1
	}
	cuts := make([]int, 0, n+1)
	for i := 0; i < n-1; i++ {
		cuts = append(cuts, g.R.Intn(len(b)+1))
	}
	sort.Ints(cuts)
	w := enc.Wire{}
	prev := 0
	for _, c := range cuts {
		w = append(w, append([]byte{}, b[prev:c]...))
		prev = c
	}
	w = append(w, append([]byte{}, b[prev:]...))
	return w
}

// DumpSegs prints the value with the segmentation of its wire fields (W[..]); to be taken BEFORE Encode, whose Init
// rewrites an Interest name (digest component).
func (e *Entry) DumpSegs(p reflect.Value) string {
	dumpSegs = true
	defer func() { dumpSegs = false }()
	return e.DumpStruct(p)
}

// emitEW: for a nocopy model, the wire as returned by Encode (buffer boundaries) and Init's wirePlan.
func (e *Entry) emitEW(w *bufio.Writer, vsegs string, er EncResult) {
	if !e.M.NoCopy {
		return
	}
	plan := make([]string, len(er.Plan))
	for i, x := range er.Plan {
		plan[i] = strconv.FormatUint(x, 10)
	}
	ps := "-"
	if len(plan) > 0 {
		ps = strings.Join(plan, ",")
	}
	fmt.Fprintf(w, "EW %d %d %s %s %s\n", e.Pi, e.Mi, vsegs, segsStr(er.Wire), ps)
}

// ---- insertion sites at every nesting depth ----

// Site is one element boundary inside a nested model of an encoding: Make(ins) returns the whole top-level encoding with
// ins inserted at that boundary and the length of every enclosing TLV rewritten.
type Site struct {
	E     *Entry // the (nested) model the boundary belongs to: the inserted type number must be unknown to it
	Depth int
	Pos   int // boundary index among the elements of that nested value
	N     int // number of elements of that nested value
	Path  string
	Make  func(ins []byte) []byte
}

// splitTLV returns type number, header length and value of the TLV at the start of b.
func splitTLV(b []byte) (typ uint64, hdr int, val []byte, ok bool) {
	r := enc.NewBufferReader(b)
	t, err := enc.ReadTLNum(r)
	if err != nil {
		return 0, 0, nil, false
	}
	l, err := enc.ReadTLNum(r)
	if err != nil || uint64(l) > uint64(len(b)-r.Pos()) {
		return 0, 0, nil, false
	}
	return uint64(t), r.Pos(), b[r.Pos() : r.Pos()+int(l)], true
}

// NestedSites lists every element boundary of every nested model value (struct fields, sequence-of-struct elements,
// map-of-struct values), at every depth >= 1, of the encoding b of model e.
func (e *Entry) NestedSites(b []byte) []Site {
	var out []Site
	e.sites(b, 0, "", func(x []byte) []byte { return x }, &out)
	return out
}

func (e *Entry) sites(b []byte, depth int, path string, wrap func([]byte) []byte, out *[]Site) {
	els := e.Elements(b)
	if els == nil || depth > 8 {
		return
	}
	if depth > 0 {
		for i := 0; i <= len(els); i++ {
			i := i
			*out = append(*out, Site{E: e, Depth: depth, Pos: i, N: len(els), Path: path, Make: func(ins []byte) []byte {
				parts := append([][]byte{}, els[:i]...)
				parts = append(parts, ins)
				parts = append(parts, els[i:]...)
				return wrap(join(parts))
			}})
		}
	}
	for j, el := range els {
		j := j
		typ, _, val, ok := splitTLV(el)
		if !ok {
			continue
		}
		var f *Field
		for k := range e.M.Fields {
			if e.M.Fields[k].Typ == typ && typ != 0 {
				f = &e.M.Fields[k]
				break
			}
		}
		if f == nil {
			continue
		}
		rebuild := func(newEl []byte) []byte {
			parts := append([][]byte{}, els[:j]...)
			parts = append(parts, newEl)
			parts = append(parts, els[j+1:]...)
			return wrap(join(parts))
		}
		var inner *Entry
		var mk func(x []byte) []byte
		var innerBytes []byte
		switch {
		case f.Kind == "struct":
			inner, innerBytes = e.modelByName(f.Struct), val
			mk = func(x []byte) []byte { return rebuild(tlvBytes(typ, x)) }
		case f.Kind == "sequence" && f.Sub != nil && f.Sub.Kind == "struct":
			inner, innerBytes = e.modelByName(f.Sub.Struct), val
			mk = func(x []byte) []byte { return rebuild(tlvBytes(typ, x)) }
		case f.Kind == "map" && f.Val != nil && f.Val.Kind == "struct":
			// element = key TLV followed by value TLV
			_, h, kv, ok1 := splitTLV(el)
			if !ok1 {
				continue
			}
			keyTLV := el[:h+len(kv)]
			vt, _, vv, ok2 := splitTLV(el[len(keyTLV):])
			if !ok2 {
				continue
			}
			inner, innerBytes = e.modelByName(f.Val.Struct), vv
			mk = func(x []byte) []byte { return rebuild(append(append([]byte{}, keyTLV...), tlvBytes(vt, x)...)) }
		}
		if inner == nil {
			continue
		}
		inner.sites(innerBytes, depth+1, fmt.Sprintf("%s/%s[%d]", path, f.Name, j), mk, out)
	}
}
