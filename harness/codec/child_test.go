package codec

import (
	"bufio"
	"fmt"
	"os"
	"reflect"
	"runtime"
	"strconv"
	"strings"
	"sync/atomic"
	"syscall"
	"testing"
	"time"

	enc "github.com/named-data/ndnd/std/encoding"
	"github.com/named-data/ndnd/std/ndn"
	spec "github.com/named-data/ndnd/std/ndn/spec_2022"
	sec "github.com/named-data/ndnd/std/security"
)

// TestMutGen writes the C04 case file: one line per case
//
//	P <pi> <mi> <ic> <B|W> <segs> <tag>        generated parser of model pi/mi
//	H <func> <B|W> <segs> <tag>               hand-written decoder (ReadPacket, NameFromBytes, ...)
func TestMutGen(t *testing.T) {
	g, w, done := setup(t)
	g.LongNameDen = 96 // every mutant of a 300-component name is a case: keep long names rare in the mutation stream
	defer done()
	n := envInt("VERIF_N", 2)
	full := os.Getenv("VERIF_FULL") == "1"
	emit := func(e *Entry, b []byte, tag string) {
		ic := g.R.Intn(2)
		fmt.Fprintf(w, "P %d %d %d B %s %s\n", e.Pi, e.Mi, ic, hexOrDash(b), tag)
		fmt.Fprintf(w, "P %d %d %d W %s %s\n", e.Pi, e.Mi, ic, segsStr(g.SplitAdv(b)), tag)
	}
	for _, e := range Reg {
		for k := 0; k < n; k++ {
			p := e.GenStruct(g)
			er := e.Encode(p)
			if er.Panic != "" {
				continue
			}
			b := er.Wire.Join()
			if len(b) > 4000 {
				b = b[:4000]
			}
			emit(e, b, "valid")
			for _, m := range e.Mutants(g, b, full) {
				emit(e, m.B, m.Tag)
			}
		}
	}
	// hand-written decoders on packets: wrap Interest / Data / LpPacket encodings and mutate
	for _, e := range Reg {
		if e.P.PkgName != "spec_2022" || (e.Name != "Packet" && e.Name != "Interest" && e.Name != "Data" && e.Name != "LpPacket") {
			continue
		}
		for k := 0; k < 2*n; k++ {
			p := e.GenStruct(g)
			er := e.Encode(p)
			if er.Panic != "" {
				continue
			}
			b := er.Wire.Join()
			switch e.Name {
			case "Interest":
				b = tlvBytes(5, b)
			case "Data":
				b = tlvBytes(6, b)
			case "LpPacket":
				b = tlvBytes(100, b)
			}
			if len(b) > 4000 {
				continue
			}
			ms := append([]Mutant{{b, "valid"}}, e.Mutants(g, b, full)...)
			for _, m := range ms {
				fn := []string{"ReadPacket", "ReadPacket", "ReadData", "ReadInterest"}[g.R.Intn(4)]
				fmt.Fprintf(w, "H %s B %s %s\n", fn, hexOrDash(m.B), m.Tag)
				fmt.Fprintf(w, "H %s W %s %s\n", fn, segsStr(g.SplitAdv(m.B)), m.Tag)
			}
		}
	}
	// packets made through the spec API (valid parameters digest, optionally signed), and their mutants
	for k := 0; k < 12*n; k++ {
		nm := g.name(true)
		var b []byte
		var signer ndn.Signer
		if k%3 == 0 {
			signer = sec.NewSha256Signer()
		}
		if k%2 == 0 {
			cfg := &ndn.InterestConfig{CanBePrefix: k%4 == 0, MustBeFresh: k%8 == 0}
			if k%5 == 0 {
				nonce := uint64(g.R.Uint32())
				cfg.Nonce = &nonce
			}
			var app enc.Wire
			if k%4 != 2 || signer != nil {
				a := make([]byte, g.R.Intn(6))
				g.R.Read(a)
				app = enc.Wire{a}
			}
			ei, err := spec.Spec{}.MakeInterest(nm, cfg, app, signer)
			if err != nil {
				fmt.Fprintf(w, "# MakeInterest: %v\n", err)
				continue
			}
			b = ei.Wire.Join()
		} else {
			c := make([]byte, g.R.Intn(6))
			g.R.Read(c)
			ed, err := spec.Spec{}.MakeData(nm, &ndn.DataConfig{}, enc.Wire{c}, signer)
			if err != nil {
				continue
			}
			b = ed.Wire.Join()
		}
		if k%7 == 0 {
			b = tlvBytes(100, tlvBytes(0x50, b)) // LpPacket{Fragment}
		}
		ms := append([]Mutant{{b, "valid"}}, Reg[0].Mutants(g, b, full)...)
		for mi, m := range ms {
			if mi > 0 && mi%6 != k%6 { // many bases, a sixth of the mutants of each
				continue
			}
			for _, fn := range []string{"ReadPacket", "ReadData", "ReadInterest"} {
				fmt.Fprintf(w, "H %s B %s api-%s\n", fn, hexOrDash(m.B), m.Tag)
				fmt.Fprintf(w, "H %s W %s api-%s\n", fn, segsStr(g.SplitAdv(m.B)), m.Tag)
			}
		}
	}
	// names and numbers
	for k := 0; k < 20*n; k++ {
		nm := g.name(false)
		b := nm.Bytes()
		ms := append([]Mutant{{b, "valid"}}, Reg[0].Mutants(g, b, full)...)
		for _, m := range ms {
			for _, fn := range []string{"NameFromBytes", "ReadName", "ComponentFromBytes", "ParseNat"} {
				fmt.Fprintf(w, "H %s B %s %s\n", fn, hexOrDash(m.B), m.Tag)
			}
			fmt.Fprintf(w, "H ReadName W %s %s\n", segsStr(g.SplitAdv(m.B)), m.Tag)
		}
	}
}

func runHand(fn string, rd string, segs enc.Wire) (res string) {
	defer func() {
		if r := recover(); r != nil {
			res = "panic:" + strings.ReplaceAll(fmt.Sprint(r), " ", "_")
		}
	}()
	var reader enc.ParseReader
	if rd == "B" {
		reader = enc.NewBufferReader(segs.Join())
	} else {
		reader = enc.NewWireReader(segs)
	}
	var err error
	switch fn {
	case "ReadPacket":
		_, _, err = spec.ReadPacket(reader)
	case "ReadData":
		_, _, err = spec.Spec{}.ReadData(reader)
	case "ReadInterest":
		_, _, err = spec.Spec{}.ReadInterest(reader)
	case "NameFromBytes":
		_, err = enc.NameFromBytes(segs.Join())
	case "ReadName":
		_, err = enc.ReadName(reader)
	case "ComponentFromBytes":
		_, err = enc.ComponentFromBytes(segs.Join())
	case "ParseNat":
		_, _, err = enc.ParseNat(segs.Join())
	default:
		return "err"
	}
	if err != nil {
		return "err"
	}
	return "ok"
}

// TestChild executes the cases of VERIF_CASES from line VERIF_START on. Before every call it writes "S <line>" and
// flushes, after it the result line, so a hard crash (fatal error, exit) or a hang (exit 3 once one call has consumed the CPU-time
// budget) leaves the failing case identified on disk.

// cpuMillis: user + system CPU time of this process so far.
func cpuMillis() int64 {
	var ru syscall.Rusage
	if err := syscall.Getrusage(syscall.RUSAGE_SELF, &ru); err != nil {
		return 0
	}
	return (ru.Utime.Sec+ru.Stime.Sec)*1000 + int64(ru.Utime.Usec+ru.Stime.Usec)/1000
}

func TestChild(t *testing.T) {
	if err := LoadSchemas(os.Getenv("VERIF_SCHEMAS")); err != nil {
		t.Fatal(err)
	}
	start := envInt("VERIF_START", 0)
	wdms := envInt("VERIF_WATCHDOG_MS", 5000)
	f, err := os.Open(os.Getenv("VERIF_CASES"))
	if err != nil {
		t.Fatal(err)
	}
	defer f.Close()
	of, err := os.OpenFile(os.Getenv("VERIF_OUT"), os.O_APPEND|os.O_CREATE|os.O_WRONLY, 0644)
	if err != nil {
		t.Fatal(err)
	}
	defer of.Close()
	var cur int64 = -1
	var curStart int64  // wall clock (ms) at the start of the current call: only ever produces a note
	var curCPU0 int64   // CPU time (ms) of this process at the start of the current call
	// A hang is decided by CPU TIME consumed inside one decoder call, never by the wall clock: a decoder that spins burns
	// CPU whatever the machine load, a decoder that is merely slow because the machine is oversubscribed does not.  The
	// budget is VERIF_CPU_BUDGET_MS (10 s; ordinary calls take micro- to milliseconds), scaled up on a slow machine by a
	// calibration loop measured in this same process (CPU time of a fixed amount of work against its nominal 40 ms).
	budget := int64(envInt("VERIF_CPU_BUDGET_MS", 10000))
	{
		c0 := cpuMillis()
		x := uint64(1)
		for i := 0; i < 60000000; i++ {
			x = x*6364136223846793005 + 1442695040888963407
		}
		calib := cpuMillis() - c0
		if x == 42 {
			fmt.Fprintln(of, "# calibration", x)
		}
		if calib > 40 {
			budget = budget * calib / 40
		}
		fmt.Fprintf(of, "# cpu budget per call %d ms (calibration loop %d ms CPU)\n", budget, calib)
	}
	wallNote := int64(envInt("VERIF_WALL_NOTE_MS", 1800000)) // 30 min in one call without the CPU budget being used up: a note
	_ = wdms
	go func() {
		for {
			time.Sleep(200 * time.Millisecond)
			c := atomic.LoadInt64(&cur)
			if c < 0 {
				continue
			}
			if cpuMillis()-atomic.LoadInt64(&curCPU0) > budget {
				fmt.Fprintf(of, "T %d cpu-budget-exhausted\n", c)
				of.Sync()
				os.Exit(3)
			}
			if time.Now().UnixMilli()-atomic.LoadInt64(&curStart) > wallNote {
				fmt.Fprintf(of, "W %d wall-clock-only\n", c) // no verdict from the clock: the supervisor notes it and goes on
				of.Sync()
				os.Exit(4)
			}
		}
	}()
	byKey := map[[2]int]*Entry{}
	for _, e := range Reg {
		byKey[[2]int{e.Pi, e.Mi}] = e
	}
	sc := bufio.NewScanner(f)
	sc.Buffer(make([]byte, 1<<20), 1<<28)
	var ms runtime.MemStats
	ln := -1
	for sc.Scan() {
		ln++
		if ln < start {
			continue
		}
		fs := strings.Split(strings.TrimSpace(sc.Text()), " ")
		if len(fs) < 4 || fs[0] == "#" {
			continue
		}
		if fs[0] == "PC" {
			e := findEntry(fs[1], fs[2])
			if e == nil {
				fmt.Fprintf(of, "X 0 0 corpus-model-missing %s %s\n", fs[1], fs[2])
				continue
			}
			fs = append([]string{"P", strconv.Itoa(e.Pi), strconv.Itoa(e.Mi)}, fs[3:]...)
		}
		fmt.Fprintf(of, "S %d\n", ln)
		atomic.StoreInt64(&curStart, time.Now().UnixMilli())
		atomic.StoreInt64(&curCPU0, cpuMillis())
		atomic.StoreInt64(&cur, int64(ln))
		switch fs[0] {
		case "P":
			pi, _ := strconv.Atoi(fs[1])
			mi, _ := strconv.Atoi(fs[2])
			e := byKey[[2]int{pi, mi}]
			segs := parseSegs(fs[5])
			total := 0
			for _, s := range segs {
				total += len(s)
			}
			var reader enc.ParseReader
			if fs[4] == "B" {
				reader = enc.NewBufferReader(segs.Join())
			} else {
				reader = enc.NewWireReader(segs)
			}
			runtime.ReadMemStats(&ms)
			a0 := ms.TotalAlloc
			t0 := time.Now()
			r := e.ParseRaw(reader, fs[3] == "1")
			dt := time.Since(t0)
			runtime.ReadMemStats(&ms)
			alloc := ms.TotalAlloc - a0
			res := e.Render(r)
			fmt.Fprintf(of, "D %d %d %s %s %s %s %s - %s;alloc=%d;len=%d;us=%d\n", pi, mi, fs[3], fs[4], fs[5], res.Res, res.Aux, fs[6], alloc, total, dt.Microseconds())
		case "H":
			segs := parseSegs(fs[3])
			total := 0
			for _, s := range segs {
				total += len(s)
			}
			runtime.ReadMemStats(&ms)
			a0 := ms.TotalAlloc
			res := runHand(fs[1], fs[2], segs)
			runtime.ReadMemStats(&ms)
			fmt.Fprintf(of, "HR %s %s %s %s %s;alloc=%d;len=%d\n", fs[1], fs[2], fs[3], res, fs[4], ms.TotalAlloc-a0, total)
		}
		atomic.StoreInt64(&cur, -1)
	}
	fmt.Fprintf(of, "END %d\n", ln)
	_ = reflect.TypeOf
}
