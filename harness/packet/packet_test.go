// Harness for C03/C12: drives spec_2022.MakeData/MakeInterest/ReadData/ReadInterest/ReadPacket, the standalone name
// encoders and the shipped signers/validators on generated inputs, and writes the trace replayed by runner/Packet.
//
// Environment: VERIF_SEED (PRNG seed), VERIF_N (number of generated cases), VERIF_OUT (trace path),
// VERIF_TIER (quick|thorough), VERIF_OPS (file with trace lines of one case to replay instead of generating).
package packet

import (
	"bufio"
	"bytes"
	"crypto/ecdsa"
	"crypto/elliptic"
	"crypto/hmac"
	crand "crypto/rand"
	"crypto/rsa"
	"crypto/sha256"
	"encoding/hex"
	"fmt"
	"math/rand"
	"os"
	"strconv"
	"strings"
	"testing"
	"time"

	enc "github.com/named-data/ndnd/std/encoding"
	"github.com/named-data/ndnd/std/ndn"
	spec "github.com/named-data/ndnd/std/ndn/spec_2022"
	sec "github.com/named-data/ndnd/std/security"
)

// ---------------------------------------------------------------------------------------------- formatting
func hx(b []byte) string {
	if len(b) == 0 {
		return "-"
	}
	return hex.EncodeToString(b)
}
func hxOpt(b []byte) string {
	if b == nil {
		return "nil"
	}
	return hx(b)
}
func nameStr(n enc.Name) string {
	if len(n) == 0 {
		return "-"
	}
	parts := make([]string, len(n))
	for i, c := range n {
		parts[i] = strconv.FormatUint(uint64(c.Typ), 10) + ":" + hex.EncodeToString(c.Val)
	}
	return strings.Join(parts, ",")
}
func nameOpt(n enc.Name) string {
	if n == nil {
		return "nil"
	}
	return nameStr(n)
}
func wireStr(w enc.Wire) string {
	if w == nil {
		return "nil"
	}
	if len(w) == 0 {
		return "e"
	}
	parts := make([]string, len(w))
	for i, b := range w {
		parts[i] = hx(b)
	}
	return strings.Join(parts, ",")
}
func join(w enc.Wire) []byte {
	var out []byte
	for _, b := range w {
		out = append(out, b...)
	}
	return out
}
func wireJoinOpt(w enc.Wire) string {
	if w == nil {
		return "nil"
	}
	return hx(join(w))
}
func u64Opt(p *uint64) string {
	if p == nil {
		return "nil"
	}
	return strconv.FormatUint(*p, 10)
}
func durOpt(p *time.Duration) string {
	if p == nil {
		return "nil"
	}
	return strconv.FormatInt(int64(*p), 10)
}
func siStr(s *spec.SignatureInfo) string {
	if s == nil {
		return "nil"
	}
	kl := "nil"
	if s.KeyLocator != nil {
		kl = "K(" + nameOpt(s.KeyLocator.Name) + "^" + hxOpt(s.KeyLocator.KeyDigest) + ")"
	}
	vp := "nil"
	if s.ValidityPeriod != nil {
		vp = "V(" + hx([]byte(s.ValidityPeriod.NotBefore)) + "^" + hx([]byte(s.ValidityPeriod.NotAfter)) + ")"
	}
	return strings.Join([]string{strconv.FormatUint(s.SignatureType, 10), kl, hxOpt(s.SignatureNonce), durOpt(s.SignatureTime),
		u64Opt(s.SignatureSeqNum), vp}, ";")
}
func dataObs(d *spec.Data, cov enc.Wire) string {
	meta := "nil"
	if d.MetaInfo != nil {
		meta = u64Opt(d.MetaInfo.ContentType) + ";" + durOpt(d.MetaInfo.FreshnessPeriod) + ";" + hxOpt(d.MetaInfo.FinalBlockID)
	}
	return fmt.Sprintf("ok name=%s meta=%s content=%s si=%s sv=%s cov=%s", nameStr(d.NameV), meta, wireJoinOpt(d.ContentV),
		siStr(d.SignatureInfo), wireJoinOpt(d.SignatureValue), hx(join(cov)))
}
func intObs(i *spec.Interest, cov enc.Wire) string {
	fh := "nil"
	if i.ForwardingHintV != nil {
		if len(i.ForwardingHintV.Names) == 0 {
			fh = "e"
		} else {
			parts := make([]string, len(i.ForwardingHintV.Names))
			for k, n := range i.ForwardingHintV.Names {
				parts[k] = nameStr(n)
			}
			fh = strings.Join(parts, "+")
		}
	}
	nonce := "nil"
	if i.NonceV != nil {
		nonce = strconv.FormatUint(uint64(*i.NonceV), 10)
	}
	hop := "nil"
	if i.HopLimitV != nil {
		hop = strconv.FormatUint(uint64(*i.HopLimitV), 10)
	}
	b01 := func(b bool) string {
		if b {
			return "1"
		}
		return "0"
	}
	return fmt.Sprintf("ok name=%s cbp=%s mbf=%s fh=%s nonce=%s life=%s hop=%s app=%s si=%s sv=%s cov=%s", nameStr(i.NameV), b01(i.CanBePrefixV),
		b01(i.MustBeFreshV), fh, nonce, durOpt(i.InterestLifetimeV), hop, wireJoinOpt(i.ApplicationParameters), siStr(i.SignatureInfo),
		wireJoinOpt(i.SignatureValue), hx(join(cov)))
}

// ---------------------------------------------------------------------------------------------- signers
type fakeTimer struct{ g *gen }

func (t fakeTimer) Now() time.Time                              { return time.UnixMilli(1700000000000 + int64(t.g.r.Intn(1<<30))) }
func (fakeTimer) Sleep(time.Duration)                           {}
func (fakeTimer) Schedule(time.Duration, func()) func() error   { return nil }
func (t fakeTimer) Nonce() []byte                               { return t.g.rbytes(8) }

// customSigner: abstract signer with chosen type code, estimate and signature length; the signature is an HMAC expanded/truncated
// to the chosen length, so it has a validator too.
type customSigner struct {
	cfg     ndn.SigConfig
	est     uint
	siglen  int
	key     []byte
	failCfg bool
	failSig bool
}

func expandMac(key []byte, covered enc.Wire, n int) []byte {
	mac := hmac.New(sha256.New, key)
	for _, b := range covered {
		mac.Write(b)
	}
	sum := mac.Sum(nil)
	out := make([]byte, 0, n)
	for len(out) < n {
		out = append(out, sum...)
	}
	return out[:n]
}
func (c *customSigner) SigInfo() (*ndn.SigConfig, error) {
	if c.failCfg {
		return nil, fmt.Errorf("custom signer: SigInfo fails")
	}
	cp := c.cfg
	return &cp, nil
}
func (c *customSigner) EstimateSize() uint { return c.est }
func (c *customSigner) ComputeSigValue(w enc.Wire) ([]byte, error) {
	if c.failSig {
		return nil, fmt.Errorf("custom signer: ComputeSigValue fails")
	}
	return expandMac(c.key, w, c.siglen), nil
}

// recSigner records what the packet API asked and got
type recSigner struct {
	inner   ndn.Signer
	cfg     *ndn.SigConfig
	cfgErr  error
	handed  []byte
	sig     []byte
	sigErr  error
	signed  bool
	cfgSeen bool
}

func (r *recSigner) SigInfo() (*ndn.SigConfig, error) {
	r.cfg, r.cfgErr = r.inner.SigInfo()
	r.cfgSeen = true
	return r.cfg, r.cfgErr
}
func (r *recSigner) EstimateSize() uint { return r.inner.EstimateSize() }
func (r *recSigner) ComputeSigValue(w enc.Wire) ([]byte, error) {
	r.handed = append([]byte{}, join(w)...)
	r.sig, r.sigErr = r.inner.ComputeSigValue(w)
	r.signed = true
	return r.sig, r.sigErr
}

// signer description for the model: type;key;nonce;time;seq;nb;na;est   (nil when SigInfo failed or no signer)
func signerSpec(r *recSigner) string {
	if r != nil && r.cfgSeen && r.cfgErr != nil {
		return "fail" // SigInfo() returned an error: MakeData/MakeInterest pass it on
	}
	if r == nil || r.cfg == nil {
		return "nil"
	}
	c := r.cfg
	tm := "nil"
	if c.SigTime != nil {
		tm = strconv.FormatInt(c.SigTime.UnixMilli(), 10)
	}
	nb, na := "nil", "nil"
	if c.NotBefore != nil {
		nb = hx([]byte(c.NotBefore.UTC().Format(spec.TimeFmt)))
	}
	if c.NotAfter != nil {
		na = hx([]byte(c.NotAfter.UTC().Format(spec.TimeFmt)))
	}
	return strings.Join([]string{strconv.FormatInt(int64(c.Type), 10), nameOpt(c.KeyName), hxOpt(c.Nonce), tm, u64Opt(c.SeqNum), nb, na,
		strconv.FormatUint(uint64(r.inner.EstimateSize()), 10)}, ";")
}

type signerKind struct {
	kind   string // sha256 hmac ecc rsa custom empty none (+int)
	signer ndn.Signer
	key    []byte            // hmac / custom key
	ecPub  *ecdsa.PublicKey
	rsaPub *rsa.PublicKey
	typ    int
}

// validator of the implementation matching a signer kind
func (k *signerKind) validate(cov enc.Wire, sig ndn.Signature) (bool, bool) {
	switch k.kind {
	case "sha256", "sha256int":
		return sec.Sha256Validate(cov, sig), true
	case "hmac", "hmacint":
		return sec.HmacValidate(cov, sig, k.key), true
	case "ecc":
		return sec.EcdsaValidate(cov, sig, k.ecPub), true
	case "rsa":
		return sec.RsaValidate(cov, sig, k.rsaPub), true
	case "custom":
		sv := sig.SigValue()
		if len(sv) < 16 { // a shorter abstract signature cannot be expected to detect tampering
			return false, false
		}
		return int(sig.SigType()) == k.typ && bytes.Equal(expandMac(k.key, cov, len(sv)), sv), true
	}
	return false, false
}

var (
	ecKeys  []*ecdsa.PrivateKey
	rsaKey  *rsa.PrivateKey   // 2048 bits
	rsaKeys []*rsa.PrivateKey // 1024 and 2048 bits
	keyInit bool
)

func initKeys() {
	if keyInit {
		return
	}
	keyInit = true
	for _, c := range []elliptic.Curve{elliptic.P256(), elliptic.P384(), elliptic.P521()} {
		k, err := ecdsa.GenerateKey(c, crand.Reader)
		if err != nil {
			panic(err)
		}
		ecKeys = append(ecKeys, k)
	}
	var err error
	rsaKey, err = rsa.GenerateKey(crand.Reader, 2048)
	if err != nil {
		panic(err)
	}
	small, err := rsa.GenerateKey(crand.Reader, 1024)
	if err != nil {
		panic(err)
	}
	rsaKeys = []*rsa.PrivateKey{small, rsaKey}
}

// ---------------------------------------------------------------------------------------------- generators
type gen struct {
	r   *rand.Rand
	big bool // allow 64 KiB values in this case
	bigLeft int
	forced  *forcedCase // directed inputs for the next dataCase / intCase
}

// inputs chosen by a directed generator; the case then runs through the same trace lines as a random one
type forcedCase struct {
	nm      enc.Name
	dcfg    *ndn.DataConfig
	icfg    *ndn.InterestConfig
	payload enc.Wire
	sk      *signerKind
}

// exactSigner announces what its inner signer announces and returns a signature of exactly the estimated size: a Data or
// Interest built with it has the length the encoder ESTIMATES for the inner signer.
type exactSigner struct{ inner ndn.Signer }

func (e exactSigner) SigInfo() (*ndn.SigConfig, error) { return e.inner.SigInfo() }
func (e exactSigner) EstimateSize() uint              { return e.inner.EstimateSize() }
func (e exactSigner) ComputeSigValue(enc.Wire) ([]byte, error) {
	return make([]byte, e.inner.EstimateSize()), nil
}

// estimatedLen: length of the outermost value of the packet as estimated before signing, for a payload of c octets
func estimatedLen(forInt bool, nm enc.Name, sg ndn.Signer, c int) int {
	sp := spec.Spec{}
	var w enc.Wire
	func() {
		defer func() { recover() }()
		if forInt {
			if res, err := sp.MakeInterest(nm, &ndn.InterestConfig{}, enc.Wire{make([]byte, c)}, exactSigner{sg}); err == nil {
				w = res.Wire
			}
		} else {
			if res, err := sp.MakeData(nm, &ndn.DataConfig{}, enc.Wire{make([]byte, c)}, exactSigner{sg}); err == nil {
				w = res.Wire
			}
		}
	}()
	if w == nil {
		return -1
	}
	b := join(w)
	_, n1, _ := readVar(b)
	_, n2, _ := readVar(b[n1:])
	return len(b) - n1 - n2
}

// boundaryCases: for a signer whose signatures can be shorter than its estimate, Data and Interests whose ESTIMATED outer
// length is exactly 253, 254, 255, 256 (and 65536..65538): attaching the real, shorter signature moves the outer length
// across the point where its own encoding changes size (ShrinkLength re-slices the first buffer).  Payload sizes are
// solved from the implementation's own estimate; several signatures per size.
func (t *tracer) boundaryCases(g *gen, round int) {
	initKeys()
	kn := enc.Name{enc.NewStringComponent(8, "KEY"), enc.NewStringComponent(8, "1")}
	mkCustom := func(est uint, short int, forInt bool) *signerKind {
		c := &customSigner{est: est, siglen: int(est) - short, key: []byte("boundary")}
		c.cfg.Type = ndn.SigType(200)
		c.cfg.KeyName = kn
		return &signerKind{kind: "custom", signer: c, key: c.key, typ: 200}
	}
	type variant struct {
		forInt bool
		mk     func() *signerKind
	}
	ecc := func(forInt bool) func() *signerKind {
		return func() *signerKind {
			return &signerKind{kind: "ecc", signer: sec.NewEccSigner(false, forInt, time.Hour, ecKeys[0], kn), ecPub: &ecKeys[0].PublicKey}
		}
	}
	variants := []variant{
		{false, ecc(false)}, {true, ecc(true)},
		{false, func() *signerKind { return mkCustom(40, 1, false) }}, {false, func() *signerKind { return mkCustom(40, 2, false) }},
		{false, func() *signerKind { return mkCustom(40, 3, false) }}, {true, func() *signerKind { return mkCustom(40, 1, true) }},
		{true, func() *signerKind { return mkCustom(40, 3, true) }}, {false, func() *signerKind { return mkCustom(300, 2, false) }},
	}
	v := variants[round%len(variants)]
	targets := []int{253, 254, 255, 256}
	if !v.forInt && !t.quick { // 64 KiB boundary: every Data variant in thorough,
		targets = append(targets, 65536, 65537, 65538)
	} else if round%len(variants) == 2 { // one case per quick run (a 64 KiB packet costs the model replay about a second per read)
		targets = append(targets, 65536)
	}
	nm := enc.Name{enc.NewStringComponent(8, "c12"), enc.NewStringComponent(8, "boundary")}
	for _, target := range targets {
		probe := v.mk()
		l0 := estimatedLen(v.forInt, nm, probe.signer, 1)
		if l0 < 0 || l0 > target {
			continue
		}
		c := -1
		for cand := target - l0 - 3; cand <= target-l0+2; cand++ {
			if cand >= 1 && estimatedLen(v.forInt, nm, probe.signer, cand) == target {
				c = cand
				break
			}
		}
		if c < 0 {
			continue
		}
		reps := 1 // the test signers are deterministic; real ECDSA signatures vary in length (70..72 of 72)
		if probe.kind == "ecc" {
			reps = 3
		}
		for k := 0; k < reps; k++ {
			payload := enc.Wire{g.rbytes(c / 2), g.rbytes(c - c/2)}
			g.forced = &forcedCase{nm: nm, dcfg: &ndn.DataConfig{}, icfg: &ndn.InterestConfig{}, payload: payload, sk: v.mk()}
			t.line("# boundary case: estimated outer length %d, payload %d", target, c)
			if v.forInt {
				t.intCase(g, 1000000+round)
			} else {
				t.dataCase(g, 1000000+round)
			}
			g.forced = nil
			t.stats["boundary"]++
		}
	}
}


func (g *gen) rbytes(n int) []byte {
	b := make([]byte, n)
	for i := range b {
		b[i] = byte(g.r.Intn(256))
	}
	return b
}

var boundarySizes = []int{252, 253, 254, 255, 256, 300}
var compTypes = []uint64{8, 8, 8, 8, 8, 1, 2, 7, 32, 50, 54, 252, 253, 255, 256, 65535, 65536, 1 << 32, 1<<64 - 1}

func (g *gen) size() int {
	switch g.r.Intn(20) {
	case 0:
		return 0
	case 1:
		return boundarySizes[g.r.Intn(len(boundarySizes))]
	case 2:
		if g.big && g.bigLeft > 0 { // at most one 64 KiB value per case: keeps the replay time of one case bounded
			g.bigLeft--
			return []int{65535, 65536, 70000}[g.r.Intn(3)]
		}
		return 1
	default:
		return g.r.Intn(9)
	}
}
func (g *gen) comp() enc.Component {
	t := compTypes[g.r.Intn(len(compTypes))]
	if t == 2 { // ParametersSha256Digest is managed by the API; placed deliberately by name()
		t = 8
	}
	return enc.Component{Typ: enc.TLNum(t), Val: g.rbytes(g.size())}
}
func (g *gen) name() enc.Name {
	n := g.r.Intn(5)
	if g.r.Intn(12) == 0 {
		n = 0
	}
	if g.r.Intn(25) == 0 {
		n = 40 + g.r.Intn(40) // whole name >= 253 bytes from many short components
	}
	nm := make(enc.Name, 0, n)
	for i := 0; i < n; i++ {
		nm = append(nm, g.comp())
	}
	if g.r.Intn(10) == 0 { // mostly empty components: the densest encoding a name can have (2 octets per component)
		k := 4 + g.r.Intn(6)
		nm = make(enc.Name, 0, k+2)
		for i := 0; i < k; i++ {
			nm = append(nm, enc.Component{Typ: enc.TLNum(compTypes[g.r.Intn(len(compTypes))]), Val: []byte{}})
			if nm[i].Typ == 2 {
				nm[i].Typ = 8
			}
		}
		for i := g.r.Intn(3); i > 0; i-- {
			nm = append(nm, enc.Component{Typ: 8, Val: g.rbytes(1 + g.r.Intn(2))})
		}
		g.r.Shuffle(len(nm), func(a, b int) { nm[a], nm[b] = nm[b], nm[a] })
		return nm
	}
	if n > 0 && g.r.Intn(12) == 0 { // a stale digest component in last position: MakeInterest must strip / replace it
		nm[n-1] = enc.Component{Typ: enc.TypeParametersSha256DigestComponent, Val: g.rbytes(32)}
	}
	if n > 1 && g.r.Intn(15) == 0 { // a digest-typed component elsewhere: MakeInterest without parameters must refuse it
		v := g.rbytes(32)
		if g.r.Intn(3) == 0 {
			v = g.rbytes(g.r.Intn(9))
		}
		nm[g.r.Intn(n-1)] = enc.Component{Typ: enc.TypeParametersSha256DigestComponent, Val: v}
	}
	return nm
}
func (g *gen) wire() enc.Wire {
	switch g.r.Intn(8) {
	case 0:
		return nil
	case 1:
		return enc.Wire{}
	}
	n := 1 + g.r.Intn(4)
	w := make(enc.Wire, n)
	for i := range w {
		w[i] = g.rbytes(g.size())
		if g.r.Intn(15) == 0 {
			w[i] = nil // a nil buffer inside a wire
		}
	}
	return w
}

// HMAC key lengths around the SHA-256 block size (keys longer than a block are hashed first), and ordinary ones
var hmacKeyLens = []int{0, 1, 31, 32, 33, 63, 64, 65, 127, 128, 129}

func (g *gen) hmacKey() []byte {
	if g.r.Intn(2) == 0 {
		return g.rbytes(hmacKeyLens[g.r.Intn(len(hmacKeyLens))])
	}
	return g.rbytes(1 + g.r.Intn(40))
}

// time zones the validity period of a signer may be expressed in (the wire carries the instant in UTC)
var zones = []*time.Location{time.UTC, time.FixedZone("p9", 9*3600), time.FixedZone("m7", -7*3600), time.FixedZone("p0545", 5*3600+45*60)}

var natBoundaries = []uint64{0, 1, 2, 3, 255, 256, 65535, 65536, 1<<32 - 1, 1 << 32, 1<<63 - 1, 1 << 63, 1<<64 - 1}
var msBoundaries = []int64{0, 1, 255, 256, 4000, 65535, 65536, 1<<32 - 1, 1 << 32, 9223372036854}

func (g *gen) duration(wf *bool) *time.Duration {
	if g.r.Intn(3) == 0 {
		return nil
	}
	d := time.Duration(msBoundaries[g.r.Intn(len(msBoundaries))]) * time.Millisecond
	if g.r.Intn(12) == 0 { // negative whole milliseconds: wraps through uint64 and back (still in the theorem's domain)
		d = -d
	}
	if g.r.Intn(25) == 0 { // outside the domain of the wire format: a fraction of a millisecond
		*wf = false
		if g.r.Intn(2) == 0 {
			d = d/2 + 1
		} else {
			d = -d - 1
		}
	}
	return &d
}

func (g *gen) customSigner(forInterest bool) *signerKind {
	ests := []uint{0, 1, 16, 32, 64, 140, 252, 253, 256, 300}
	est := ests[g.r.Intn(len(ests))]
	siglen := int(est)
	if est > 0 && g.r.Intn(3) == 0 {
		siglen = g.r.Intn(int(est) + 1)
	}
	if g.r.Intn(30) == 0 {
		siglen = int(est) + 1 // longer than announced
	}
	typs := []int{200, 201, 1000, 0, 4, 70000}
	typ := typs[g.r.Intn(len(typs))]
	c := &customSigner{est: est, siglen: siglen, key: g.rbytes(8)}
	c.cfg.Type = ndn.SigType(typ)
	if g.r.Intn(3) != 0 {
		c.cfg.KeyName = g.name()
	}
	if forInterest || g.r.Intn(15) == 0 {
		if g.r.Intn(2) == 0 {
			c.cfg.Nonce = g.rbytes(g.r.Intn(9))
		}
		if g.r.Intn(2) == 0 {
			t := time.UnixMilli(int64(g.r.Intn(1 << 40)))
			c.cfg.SigTime = &t
		}
		if g.r.Intn(2) == 0 {
			s := natBoundaries[g.r.Intn(len(natBoundaries))]
			c.cfg.SeqNum = &s
		}
	}
	if g.r.Intn(12) == 0 {
		t := time.Unix(int64(g.r.Intn(1<<31)), 0).In(zones[g.r.Intn(len(zones))])
		c.cfg.NotBefore = &t
		if g.r.Intn(4) != 0 {
			t2 := t.Add(time.Hour)
			c.cfg.NotAfter = &t2
		}
	}
	if g.r.Intn(40) == 0 {
		c.cfg.Type = ndn.SignatureNone
	}
	c.failCfg = g.r.Intn(60) == 0
	c.failSig = g.r.Intn(60) == 0
	return &signerKind{kind: "custom", signer: c, key: c.key, typ: typ}
}

func (g *gen) signer(forInterest bool) *signerKind {
	initKeys()
	kn := g.name()
	if len(kn) == 0 {
		kn = enc.Name{enc.NewStringComponent(8, "k")}
	}
	switch g.r.Intn(9) {
	case 0:
		return &signerKind{kind: "none"}
	case 1:
		if forInterest {
			return &signerKind{kind: "sha256int", signer: sec.NewSha256IntSigner(fakeTimer{g})}
		}
		return &signerKind{kind: "sha256", signer: sec.NewSha256Signer()}
	case 2:
		key := g.hmacKey()
		if forInterest {
			return &signerKind{kind: "hmacint", signer: sec.NewHmacIntSigner(key, fakeTimer{g}), key: key}
		}
		forCert := g.r.Intn(3) == 0
		return &signerKind{kind: "hmac", signer: sec.NewHmacSigner(kn, key, forCert, time.Hour), key: key}
	case 3, 4:
		k := ecKeys[g.r.Intn(len(ecKeys))]
		forCert := !forInterest && g.r.Intn(3) == 0
		return &signerKind{kind: "ecc", signer: sec.NewEccSigner(forCert, forInterest, time.Hour, k, kn), ecPub: &k.PublicKey}
	case 5:
		forCert := !forInterest && g.r.Intn(3) == 0
		rk := rsaKeys[g.r.Intn(len(rsaKeys))]
		return &signerKind{kind: "rsa", signer: sec.NewRsaSigner(forCert, forInterest, time.Hour, rk, kn), rsaPub: &rk.PublicKey}
	case 6:
		if g.r.Intn(4) == 0 {
			return &signerKind{kind: "empty", signer: sec.NewEmptySigner()}
		}
		if forInterest { // Data-style signers on an Interest
			return &signerKind{kind: "sha256", signer: sec.NewSha256Signer()}
		}
		return g.customSigner(forInterest)
	default:
		return g.customSigner(forInterest)
	}
}

// ---------------------------------------------------------------------------------------------- independent TLV walker
// readVar reads a T or L number; it accepts only the shortest form (NDN packet format)
func readVar(b []byte) (uint64, int, bool) {
	if len(b) == 0 {
		return 0, 0, false
	}
	switch x := b[0]; {
	case x <= 0xfc:
		return uint64(x), 1, true
	case x == 0xfd:
		if len(b) < 3 {
			return 0, 0, false
		}
		v := uint64(b[1])<<8 | uint64(b[2])
		return v, 3, v > 0xfc
	case x == 0xfe:
		if len(b) < 5 {
			return 0, 0, false
		}
		v := uint64(b[1])<<24 | uint64(b[2])<<16 | uint64(b[3])<<8 | uint64(b[4])
		return v, 5, v > 0xffff
	default:
		if len(b) < 9 {
			return 0, 0, false
		}
		v := uint64(0)
		for i := 1; i < 9; i++ {
			v = v<<8 | uint64(b[i])
		}
		return v, 9, v > 0xffffffff
	}
}

var nestedTab = map[[2]uint64]uint64{{0, 5}: 5, {0, 6}: 6, {6, 7}: 7, {6, 20}: 20, {6, 22}: 22, {5, 7}: 7, {5, 30}: 30, {5, 44}: 22,
	{20, 26}: 7, {22, 28}: 28, {22, 253}: 253, {28, 7}: 7, {30, 7}: 7}

func walk(ctx uint64, b []byte) bool {
	for len(b) > 0 {
		t, n1, ok := readVar(b)
		if !ok {
			return false
		}
		l, n2, ok := readVar(b[n1:])
		if !ok {
			return false
		}
		rest := b[n1+n2:]
		if uint64(len(rest)) < l {
			return false
		}
		if c, ok := nestedTab[[2]uint64{ctx, t}]; ok {
			if !walk(c, rest[:l]) {
				return false
			}
		}
		b = rest[l:]
	}
	return true
}
func walkPacket(b []byte) bool {
	_, n1, ok := readVar(b)
	if !ok {
		return false
	}
	l, n2, ok := readVar(b[n1:])
	if !ok || uint64(len(b)-n1-n2) != l {
		return false
	}
	return walk(0, b)
}

func parseWire(s string, mode string) enc.Wire {
	if s == "nil" || s == "e" {
		return enc.Wire{}
	}
	w := enc.Wire{}
	for _, p := range strings.Split(s, ",") {
		if p == "-" {
			w = append(w, []byte{})
			continue
		}
		b, _ := hex.DecodeString(p)
		w = append(w, b)
	}
	return w
}

// ---------------------------------------------------------------------------------------------- driving the implementation
type tracer struct {
	w      *bufio.Writer
	quick  bool
	stats  map[string]int
	tamper map[string]int
}

func (t *tracer) line(format string, a ...any) { fmt.Fprintf(t.w, format+"\n", a...) }

func splitAt(b []byte, cuts []int) enc.Wire {
	w := enc.Wire{}
	prev := 0
	for _, c := range cuts {
		w = append(w, b[prev:c])
		prev = c
	}
	return append(w, b[prev:])
}

// one decode through the chosen entry point; returns the observation string, the signature view and covered bytes
func decode(what string, r enc.ParseReader) (obs string, sig ndn.Signature, cov enc.Wire, pktKind string) {
	defer func() {
		if e := recover(); e != nil {
			obs, sig, cov = "panic", nil, nil
		}
	}()
	sp := spec.Spec{}
	switch what {
	case "data":
		d, c, err := sp.ReadData(r)
		if err != nil {
			return "err", nil, nil, ""
		}
		dd := d.(*spec.Data)
		return dataObs(dd, c), dd, c, "D"
	case "int":
		i, c, err := sp.ReadInterest(r)
		if err != nil {
			return "err", nil, nil, ""
		}
		ii := i.(*spec.Interest)
		return intObs(ii, c), ii, c, "I"
	default:
		p, ctx, err := spec.ReadPacket(r)
		if err != nil {
			return "err", nil, nil, ""
		}
		if p.Data != nil {
			c := ctx.Data_context.SigCovered()
			return "D" + dataObs(p.Data, c), p.Data, c, "D"
		}
		if p.Interest != nil {
			c := ctx.Interest_context.SigCovered()
			return "I" + intObs(p.Interest, c), p.Interest, c, "I"
		}
		return "L", nil, nil, "L"
	}
}

func (t *tracer) rd(what, mode string, segs enc.Wire, rt bool) {
	var r enc.ParseReader
	if mode == "B" {
		r = enc.NewBufferReader(join(segs))
	} else {
		r = enc.NewWireReader(segs)
	}
	obs, _, _, _ := decode(what, r)
	rts := "0"
	if rt {
		rts = "1"
	}
	ws := wireStr(segs)
	if mode == "B" {
		ws = hx(join(segs))
	}
	t.line("RD %s %s %s %s => %s", what, mode, ws, rts, obs)
	t.stats["rd-"+mode]++
}

// re-segmentations of an encoded packet
func (t *tracer) resegment(g *gen, what string, wire enc.Wire, rt bool) {
	b := join(wire)
	n := len(b)
	pick := func() string {
		if g.r.Intn(2) == 0 {
			return what
		}
		return "pkt"
	}
	t.rd(what, "B", enc.Wire{b}, rt)
	t.rd("pkt", "B", enc.Wire{b}, rt)
	t.rd(pick(), "W", wire, rt) // the wire exactly as the encoder produced it
	if n == 0 {
		return
	}
	// every single cut for short packets; otherwise cuts inside the first T/L octets and a few random ones
	if n <= 48 {
		for c := 0; c <= n; c++ {
			t.rd(pick(), "W", splitAt(b, []int{c}), rt)
		}
	} else {
		for c := 1; c <= 6 && c < n; c++ {
			t.rd(pick(), "W", splitAt(b, []int{c}), rt)
		}
	}
	k := 6
	if !t.quick {
		k = 20
	}
	if n > 20000 {
		k = 2
	}
	for i := 0; i < k; i++ {
		nc := 1 + g.r.Intn(5)
		cuts := make([]int, nc)
		for j := range cuts {
			if g.r.Intn(3) == 0 {
				cuts[j] = g.r.Intn(min(n, 12) + 1) // near the outer header
			} else {
				cuts[j] = g.r.Intn(n + 1)
			}
		}
		// sort, keep duplicates (empty segments)
		for a := 1; a < len(cuts); a++ {
			for c := a; c > 0 && cuts[c-1] > cuts[c]; c-- {
				cuts[c-1], cuts[c] = cuts[c], cuts[c-1]
			}
		}
		t.rd(pick(), "W", splitAt(b, cuts), rt)
	}
	// first segment = the outer TL only, then >= 3 more (the shape that broke WireReader.Range)
	_, n1, ok1 := readVar(b)
	if ok1 {
		_, n2, ok2 := readVar(b[n1:])
		if ok2 && n1+n2+3 < n {
			h := n1 + n2
			c2 := h + 1 + g.r.Intn(n-h-2)
			c3 := c2 + g.r.Intn(n-c2)
			t.rd(pick(), "W", splitAt(b, []int{h, c2, c3}), rt)
			t.rd(pick(), "W", splitAt(b, []int{1, h, c2, c3}), rt)
		}
	}
}

// single-bit tampering of an encoded, signed packet against the real validators
func (t *tracer) tamperSweep(g *gen, id int, what string, b []byte, sk *signerKind, regions func(off int) string) {
	limit := 220
	if !t.quick {
		limit = 500
	}
	if len(b) > limit {
		return
	}
	sample := map[int]bool{}
	for i := 0; i < 24; i++ {
		sample[g.r.Intn(len(b)*8)] = true
	}
	for bit := 0; bit < len(b)*8; bit++ {
		reg := regions(bit / 8)
		if reg == "" {
			continue
		}
		m := append([]byte{}, b...)
		m[bit/8] ^= 1 << uint(bit%8)
		obs, sig, cov, _ := decode(what, enc.NewBufferReader(m))
		outcome := ""
		switch {
		case obs == "panic":
			outcome = "panic"
		case obs == "err" || sig == nil:
			outcome = "rejected-decode"
		default:
			ok, have := sk.validate(cov, sig)
			if !have {
				outcome = "unsigned-accepted"
				if reg == "params" || reg == "digest" {
					outcome = "accepted" // an unsigned Interest is protected by its parameters digest alone
				}
			} else if ok {
				outcome = "accepted"
			} else {
				outcome = "rejected-validator"
			}
		}
		t.tamper[reg+":"+outcome]++
		if outcome == "accepted" || outcome == "panic" {
			t.line("TAMPER %s-%d-%s %d %s %s", what, id, hx(b), bit, reg, outcome)
		}
		if sample[bit] {
			t.rd(what, "B", enc.Wire{m}, false)
		}
	}
	t.line("TAMPER %s-%d %d all swept", what, id, len(b)*8)
}

func (t *tracer) names(nm enc.Name) {
	func() {
		defer func() {
			if e := recover(); e != nil {
				t.line("NAMEB %s panic 0", nameStr(nm))
			}
		}()
		nb := nm.Bytes()
		back, err := enc.NameFromBytes(nb)
		rt := "0"
		if err == nil && back.Equal(nm) && len(back) == len(nm) {
			rt = "1"
		}
		t.line("NAMEB %s %s %s", nameStr(nm), hx(nb), rt)
		if len(nm) > 0 {
			c := nm[len(nm)-1]
			cb := c.Bytes()
			back, err := enc.ComponentFromBytes(cb)
			rt := "0"
			if err == nil && back.Typ == c.Typ && bytes.Equal(back.Val, c.Val) {
				rt = "1"
			}
			t.line("COMPB %s:%s %s %s", strconv.FormatUint(uint64(c.Typ), 10), hex.EncodeToString(c.Val), hx(cb), rt)
		}
	}()
}

func (t *tracer) dataCase(g *gen, id int) {
	sp := spec.Spec{}
	nm := g.name()
	wf := true
	cfg := &ndn.DataConfig{}
	if g.r.Intn(2) == 0 {
		ct := ndn.ContentType(natBoundaries[g.r.Intn(len(natBoundaries))])
		cfg.ContentType = &ct
	}
	cfg.Freshness = g.duration(&wf)
	if g.r.Intn(3) == 0 {
		c := g.comp()
		cfg.FinalBlockID = &c
	}
	content := g.wire()
	sk := g.signer(false)
	// one case in five: pad the content so that the outer Data length computed with the signer's ESTIMATE lands on 253..256
	// (or 65536..), where attaching a shorter signature changes the size of the length field itself (ShrinkLength boundary)
	if sk.signer != nil && g.r.Intn(5) == 0 {
		func() {
			defer func() { recover() }()
			probe, err := sp.MakeData(nm, cfg, enc.Wire{[]byte{}}, sk.signer)
			if err != nil || probe == nil {
				return
			}
			est := int(sk.signer.EstimateSize())
			cur := len(join(probe.Wire)) - 2 // value length with an empty content (outer header of a short packet is 2 bytes)
			if sig := probe.Wire[len(probe.Wire)-1]; est > 0 {
				cur += est - len(sig)
			}
			target := 253 + g.r.Intn(4)
			if g.r.Intn(6) == 0 && g.big {
				target = 65536 + g.r.Intn(4)
			}
			if pad := target - cur; pad >= 0 && pad < 70000 {
				if pad >= 253 {
					pad -= 2 // the content length field itself grows
				}
				content = enc.Wire{g.rbytes(pad / 2), g.rbytes(pad - pad/2)}
			}
		}()
	}
	if f := g.forced; f != nil {
		nm, cfg, content, sk, wf = f.nm, f.dcfg, f.payload, f.sk, true
	}
	var rec *recSigner
	var signer ndn.Signer
	if sk.signer != nil {
		rec = &recSigner{inner: sk.signer}
		signer = rec
	}
	t.names(nm)
	// inputs
	ct, fb := "nil", "nil"
	if cfg.ContentType != nil {
		ct = strconv.FormatUint(uint64(*cfg.ContentType), 10)
	}
	if cfg.FinalBlockID != nil {
		fb = strconv.FormatUint(uint64(cfg.FinalBlockID.Typ), 10) + ":" + hex.EncodeToString(cfg.FinalBlockID.Val)
	}
	var res *ndn.EncodedData
	var err error
	impl := ""
	func() {
		defer func() {
			if e := recover(); e != nil {
				impl = "panic"
			}
		}()
		res, err = sp.MakeData(nm, cfg, content, signer)
	}()
	pick := "nil"
	if rec != nil && rec.signed && rec.sigErr == nil {
		pick = hx(rec.sig)
	}
	if impl == "" {
		if err != nil {
			impl = "err"
		} else {
			impl = fmt.Sprintf("ok segs=%s cov=%s", wireStr(res.Wire), hx(join(res.SigCovered)))
		}
	}
	t.line("MKDATA %s %s %s %s %s %s %s => %s", nameStr(nm), ct, durOpt(cfg.Freshness), fb, wireStr(content), signerSpec(rec), pick, impl)
	t.stats["mkdata-"+sk.kind]++
	if impl == "err" || impl == "panic" {
		t.stats["mkdata-"+impl]++
		return
	}
	b := join(res.Wire)
	t.apiData(nm, cfg, content, rec, wf, b)
	wv := "0"
	if walkPacket(b) {
		wv = "1"
	}
	t.line("WALK %s %s", hx(b), wv)
	if rec != nil && rec.signed {
		t.line("SAME handed-to-signer=SigCovered %s %s", hx(rec.handed), hx(join(res.SigCovered)))
	}
	// the name inside the packet is Name.Bytes()
	_, n1, _ := readVar(b)
	_, n2, _ := readVar(b[n1:])
	nb := nm.Bytes()
	if len(b) >= n1+n2+len(nb) {
		t.line("SAME name-in-packet=Name.Bytes %s %s", hx(b[n1+n2:n1+n2+len(nb)]), hx(nb))
	}
	t.resegment(g, "data", res.Wire, wf)
	// validators on the untampered packet, then the bit sweep
	if rec != nil && rec.signed {
		obs, sig, cov, _ := decode("data", enc.NewBufferReader(b))
		if obs != "err" && obs != "panic" && sig != nil {
			if ok, have := sk.validate(cov, sig); have {
				v := "0"
				if ok {
					v = "1"
				}
				t.line("VALID %s %s %s %d %s %s", sk.kind, hx(sk.key), hx(join(cov)), int(sig.SigType()), hx(sig.SigValue()), v)
				t.stats["valid-"+sk.kind]++
				covStart := n1 + n2
				sv := sig.SigValue()
				sigStart := len(b) - len(sv)
				covEnd := covStart + len(join(cov))
				t.tamperSweep(g, id, "data", b, sk, func(off int) string {
					switch {
					case off < covStart:
						return ""
					case off < covEnd:
						return "signed"
					case off < sigStart:
						return ""
					default:
						return "sigvalue"
					}
				})
			}
		}
	}
}

// A nil name among the forwarding hints is a value the Go type admits but the encoder skips: either every given entry
// comes back from the decoder or MakeInterest refuses the configuration.
func (t *tracer) nilHint(g *gen, nm enc.Name) {
	sp := spec.Spec{}
	hints := []enc.Name{g.name(), nil, g.name()}[g.r.Intn(2):]
	given := fmt.Sprint(len(hints))
	got := "refused"
	func() {
		defer func() {
			if r := recover(); r != nil {
				got = "panic"
			}
		}()
		res, err := sp.MakeInterest(nm, &ndn.InterestConfig{ForwardingHint: hints}, nil, nil)
		if err != nil {
			given = "refused"
			return
		}
		i, _, err := sp.ReadInterest(enc.NewBufferReader(join(res.Wire)))
		if err != nil {
			got = "undecodable"
			return
		}
		got = fmt.Sprint(len(i.ForwardingHint()))
	}()
	t.line("SAME hint-entries-roundtrip %s %s", got, given)
}

// One signer object signs several packets; every packet built earlier must stay what it was (its wire may alias nothing
// the signer reuses) and must still decode and validate after each later signing.
func (t *tracer) reuseCase(g *gen, round int) {
	initKeys()
	sp := spec.Spec{}
	forInt := round%2 == 1
	kn := enc.Name{enc.NewStringComponent(8, "k")}
	key := g.hmacKey()
	var sk *signerKind
	switch (round / 2) % 5 {
	case 4: // no signer: the encoders' own scratch buffers must not be shared between packets either
		sk = &signerKind{kind: "none"}
	case 0:
		if forInt {
			sk = &signerKind{kind: "sha256int", signer: sec.NewSha256IntSigner(fakeTimer{g})}
		} else {
			sk = &signerKind{kind: "sha256", signer: sec.NewSha256Signer()}
		}
	case 1:
		if forInt {
			sk = &signerKind{kind: "hmacint", signer: sec.NewHmacIntSigner(key, fakeTimer{g}), key: key}
		} else {
			sk = &signerKind{kind: "hmac", signer: sec.NewHmacSigner(kn, key, false, time.Hour), key: key}
		}
	case 2:
		k := ecKeys[g.r.Intn(len(ecKeys))]
		sk = &signerKind{kind: "ecc", signer: sec.NewEccSigner(false, forInt, time.Hour, k, kn), ecPub: &k.PublicKey}
	default:
		if forInt { // MakeInterest refuses signatures of 253 octets or more: no RSA-2048 Interests
			k := ecKeys[g.r.Intn(len(ecKeys))]
			sk = &signerKind{kind: "ecc", signer: sec.NewEccSigner(false, true, time.Hour, k, kn), ecPub: &k.PublicKey}
		} else {
			sk = &signerKind{kind: "rsa", signer: sec.NewRsaSigner(false, false, time.Hour, rsaKey, kn), rsaPub: &rsaKey.PublicKey}
		}
	}
	what := "data"
	if forInt {
		what = "int"
	}
	type kept struct {
		wire    enc.Wire
		snap    []byte
		obsThen string
	}
	var keep []kept
	for k := 0; k < 4; k++ {
		nm := enc.Name{enc.NewStringComponent(8, "reuse"), enc.Component{Typ: 8, Val: g.rbytes(1 + g.r.Intn(6))}}
		var w enc.Wire
		func() {
			defer func() {
				if r := recover(); r != nil {
					w = nil
				}
			}()
			if forInt {
				if res, err := sp.MakeInterest(nm, &ndn.InterestConfig{}, enc.Wire{g.rbytes(1 + g.r.Intn(8))}, sk.signer); err == nil {
					w = res.Wire
				}
			} else {
				if res, err := sp.MakeData(nm, &ndn.DataConfig{}, enc.Wire{g.rbytes(g.r.Intn(8))}, sk.signer); err == nil {
					w = res.Wire
				}
			}
		}()
		if w == nil {
			t.line("SAME reuse-%s-builds failed ok", sk.kind)
			return
		}
		obs0, _, _, _ := decode(what, enc.NewBufferReader(join(w)))
		keep = append(keep, kept{w, join(w), obs0})
		for j, p := range keep {
			now := join(p.wire)
			t.line("SAME reuse-%s-wire-of-packet-%d-unchanged-after-signing-%d %s %s", sk.kind, j, k, hx(now), hx(p.snap))
			obs, sig, cov, _ := decode(what, enc.NewBufferReader(now))
			t.line("SAME reuse-%s-packet-%d-decodes-to-the-same-fields-after-building-%d %s %s", sk.kind, j, k, strings.ReplaceAll(obs, " ", "_"), strings.ReplaceAll(p.obsThen, " ", "_"))
			if obs == "err" || obs == "panic" || sig == nil {
				continue
			}
			if ok, have := sk.validate(cov, sig); have {
				v := "0"
				if ok {
					v = "1"
				}
				t.line("VALID %s %s %s %d %s %s", sk.kind, hx(sk.key), hx(join(cov)), int(sig.SigType()), hx(sig.SigValue()), v)
			}
		}
	}
	t.stats["reuse-"+sk.kind]++
}

// Several packets are decoded one after the other — tampered and genuine, Data and Interest, through ReadData /
// ReadInterest / ReadPacket — and every returned object and SigCovered wire is KEPT; only after the last decode are the
// covered bytes compared with what the signer was given (snapshot taken at signing time) and the validators run.
// What a decode returned must not depend on later decodes (no sharing with a reused parsing context).
func (t *tracer) seqCase(g *gen, round int) {
	initKeys()
	sp := spec.Spec{}
	kn := enc.Name{enc.NewStringComponent(8, "k")}
	type item struct {
		j        int
		tampered bool
		bit      int
		sk       *signerKind
		handed   []byte // what the signer was given
		sig      ndn.Signature
		cov      enc.Wire
		covThen  []byte // the covered bytes as returned, copied at once
		obs      string
	}
	var items []*item
	k := 3 + g.r.Intn(2)
	for j := 0; j < k; j++ {
		forInt := (round+j)%2 == 1
		key := g.hmacKey()
		var sk *signerKind
		switch (round + j) % 4 {
		case 0:
			if forInt {
				sk = &signerKind{kind: "sha256int", signer: sec.NewSha256IntSigner(fakeTimer{g})}
			} else {
				sk = &signerKind{kind: "sha256", signer: sec.NewSha256Signer()}
			}
		case 1:
			if forInt {
				sk = &signerKind{kind: "hmacint", signer: sec.NewHmacIntSigner(key, fakeTimer{g}), key: key}
			} else {
				sk = &signerKind{kind: "hmac", signer: sec.NewHmacSigner(kn, key, false, time.Hour), key: key}
			}
		case 2:
			ek := ecKeys[g.r.Intn(len(ecKeys))]
			sk = &signerKind{kind: "ecc", signer: sec.NewEccSigner(false, forInt, time.Hour, ek, kn), ecPub: &ek.PublicKey}
		default:
			if forInt {
				ek := ecKeys[g.r.Intn(len(ecKeys))]
				sk = &signerKind{kind: "ecc", signer: sec.NewEccSigner(false, true, time.Hour, ek, kn), ecPub: &ek.PublicKey}
			} else {
				sk = &signerKind{kind: "rsa", signer: sec.NewRsaSigner(false, false, time.Hour, rsaKey, kn), rsaPub: &rsaKey.PublicKey}
			}
		}
		rec := &recSigner{inner: sk.signer}
		nm := enc.Name{enc.NewStringComponent(8, "seq"), enc.Component{Typ: 8, Val: g.rbytes(1 + g.r.Intn(6))}}
		var b []byte
		if forInt {
			res, err := sp.MakeInterest(nm, &ndn.InterestConfig{}, enc.Wire{g.rbytes(1 + g.r.Intn(8))}, rec)
			if err != nil {
				t.line("SAME seq-%s-builds failed ok", sk.kind)
				return
			}
			b = join(res.Wire)
		} else {
			res, err := sp.MakeData(nm, &ndn.DataConfig{}, enc.Wire{g.rbytes(g.r.Intn(8))}, rec)
			if err != nil {
				t.line("SAME seq-%s-builds failed ok", sk.kind)
				return
			}
			b = join(res.Wire)
		}
		handed := append([]byte{}, rec.handed...)
		// a tampered twin: one bit of the first name component's value (signed in both packet kinds), or of the signature
		_, n1, _ := readVar(b)
		_, n2, _ := readVar(b[n1:])
		bit := (n1+n2+4)*8 + g.r.Intn(8)
		if g.r.Intn(2) == 0 {
			bit = (len(b)-1)*8 + g.r.Intn(8)
		}
		m := append([]byte{}, b...)
		m[bit/8] ^= 1 << uint(bit%8)
		what := []string{"data", "int"}[map[bool]int{false: 0, true: 1}[forInt]]
		if g.r.Intn(3) == 0 {
			what = "pkt"
		}
		for _, tw := range []bool{true, false} {
			in := b
			if tw {
				in = m
			}
			it := &item{j: j, tampered: tw, bit: bit, sk: sk, handed: handed}
			it.obs, it.sig, it.cov, _ = decode(what, enc.NewBufferReader(append([]byte{}, in...)))
			if it.cov != nil {
				it.covThen = join(it.cov)
			}
			items = append(items, it)
		}
	}
	// only now: compare and validate
	for n, it := range items {
		later := len(items) - 1 - n
		if it.obs == "err" || it.obs == "panic" || it.sig == nil {
			if !it.tampered {
				t.line("SAME seq-%s-genuine-packet-%d-decodes %s ok", it.sk.kind, it.j, it.obs)
			}
			continue
		}
		now := join(it.cov)
		t.line("SAME seq-%s-sigcovered-of-decode-%d-unchanged-by-%d-later-decodes %s %s", it.sk.kind, n, later, hx(now), hx(it.covThen))
		ok, have := it.sk.validate(it.cov, it.sig)
		if !have {
			continue
		}
		if it.tampered {
			outcome := "rejected-validator"
			if ok {
				outcome = "accepted"
			}
			t.line("TAMPER seq%d.%d %d seq-%s %s", round, it.j, it.bit, it.sk.kind, outcome)
		} else {
			t.line("SAME seq-%s-sigcovered-of-decode-%d=handed-to-signer %s %s", it.sk.kind, n, hx(now), hx(it.handed))
			v := "0"
			if ok {
				v = "1"
			}
			t.line("VALID %s %s %s %d %s %s", it.sk.kind, hx(it.sk.key), hx(now), int(it.sig.SigType()), hx(it.sig.SigValue()), v)
		}
	}
	t.stats["seq"]++
}

// The name MakeInterest reports (FinalName) is fed back into MakeInterest: with parameters the stale digest is replaced,
// without parameters it is dropped; the packet decodes to the name MakeInterest reports in both cases.
func (t *tracer) finalNameReuse(g *gen, final enc.Name) {
	sp := spec.Spec{}
	for step, app := range []enc.Wire{nil, {g.rbytes(1 + g.r.Intn(4))}} {
		nm := make(enc.Name, len(final))
		copy(nm, final)
		got, want := "", ""
		func() {
			defer func() {
				if r := recover(); r != nil {
					got = "panic"
				}
			}()
			res, err := sp.MakeInterest(nm, &ndn.InterestConfig{}, app, nil)
			if err != nil {
				got, want = "refused", "built"
				if app == nil { // a digest-typed component elsewhere in the name is refused when there are no parameters
					for _, c := range nm[:len(nm)-1] {
						if c.Typ == enc.TypeParametersSha256DigestComponent {
							want = "refused"
						}
					}
				}
				return
			}
			want = hx(res.FinalName.Bytes())
			i, _, err := sp.ReadInterest(enc.NewBufferReader(join(res.Wire)))
			if err != nil {
				got = "undecodable:" + hx(join(res.Wire))
				return
			}
			got = hx(i.Name().Bytes())
		}()
		t.line("SAME finalname-reuse-step%d-roundtrip %s %s", step, got, want)
	}
}

// typed wraps a decoded signature and announces another signature type: used to find out, by behaviour, which type a
// validator insists on.
type typedSig struct {
	ndn.Signature
	t ndn.SigType
}

func (s typedSig) SigType() ndn.SigType { return s.t }

// signerFacts observes every shipped signer as a live object — no source text is read: SigInfo() (announced type, key
// locator, Interest fields, validity period), EstimateSize(), the length of a signature it produces, and — by signing a
// packet, decoding it and offering it to the validator that takes this kind of key under every signature type code —
// the type code that validator insists on.
//   SFACT <name> <type> <est> <keyloc> <intfields> <validity> <validator> <vtype|none> <fits: signatures <= estimate>
func signerFacts(g *gen, line func(string, ...any)) {
	initKeys()
	sp := spec.Spec{}
	kn := enc.Name{enc.NewStringComponent(8, "k")}
	key := []byte("0123456789abcdef")
	for _, sf := range []struct {
		name   string
		forInt bool
		sk     *signerKind
		vname  string
	}{
		{"sha256Signer", false, &signerKind{kind: "sha256", signer: sec.NewSha256Signer()}, "Sha256Validate"},
		{"sha256IntSigner", true, &signerKind{kind: "sha256int", signer: sec.NewSha256IntSigner(fakeTimer{g})}, "Sha256Validate"},
		{"hmacSigner", false, &signerKind{kind: "hmac", signer: sec.NewHmacSigner(kn, key, true, time.Hour), key: key}, "HmacValidate"},
		{"hmacIntSigner", true, &signerKind{kind: "hmacint", signer: sec.NewHmacIntSigner(key, fakeTimer{g}), key: key}, "HmacValidate"},
		{"eccSigner", false, &signerKind{kind: "ecc", signer: sec.NewEccSigner(true, false, time.Hour, ecKeys[0], kn), ecPub: &ecKeys[0].PublicKey}, "EcdsaValidate"},
		{"eccSigner/interest/P-256", true, &signerKind{kind: "ecc", signer: sec.NewEccSigner(false, true, time.Hour, ecKeys[0], kn), ecPub: &ecKeys[0].PublicKey}, "EcdsaValidate"},
		{"eccSigner/interest/P-384", true, &signerKind{kind: "ecc", signer: sec.NewEccSigner(false, true, time.Hour, ecKeys[1], kn), ecPub: &ecKeys[1].PublicKey}, "EcdsaValidate"},
		{"eccSigner/interest/P-521", true, &signerKind{kind: "ecc", signer: sec.NewEccSigner(false, true, time.Hour, ecKeys[2], kn), ecPub: &ecKeys[2].PublicKey}, "EcdsaValidate"},
		{"rsaSigner", false, &signerKind{kind: "rsa", signer: sec.NewRsaSigner(true, false, time.Hour, rsaKey, kn), rsaPub: &rsaKey.PublicKey}, "RsaValidate"},
	} {
		func() {
			defer func() {
				if r := recover(); r != nil {
					line("SFACT %s err panic", sf.name)
				}
			}()
			c, err := sf.sk.signer.SigInfo()
			if err != nil || c == nil {
				line("SFACT %s err siginfo", sf.name)
				return
			}
			b01 := func(x bool) int {
				if x {
					return 1
				}
				return 0
			}
			est := sf.sk.signer.EstimateSize()
			// do the signatures it produces fit its estimate?  (17 signings: ECDSA lengths vary)
			fits := true
			for k := 0; k < 17; k++ {
				if sv, err := sf.sk.signer.ComputeSigValue(enc.Wire{[]byte("facts"), {byte(k)}}); err != nil || uint(len(sv)) > est {
					fits = false
				}
			}
			// a packet signed by it, decoded, offered to the validator of this key kind under every type code: which one is accepted?
			vtype := "none"
			func() {
				nm := enc.Name{enc.NewStringComponent(8, "facts")}
				var wire enc.Wire
				what := "data"
				if sf.forInt {
					what = "int"
					res, err := sp.MakeInterest(nm, &ndn.InterestConfig{}, enc.Wire{[]byte{1, 2, 3}}, sf.sk.signer)
					if err != nil {
						return
					}
					wire = res.Wire
				} else {
					res, err := sp.MakeData(nm, &ndn.DataConfig{}, enc.Wire{[]byte{1, 2, 3}}, sf.sk.signer)
					if err != nil {
						return
					}
					wire = res.Wire
				}
				obs, sig, cov, _ := decode(what, enc.NewBufferReader(join(wire)))
				if obs == "err" || obs == "panic" || sig == nil {
					return
				}
				for t := 0; t <= 8; t++ {
					if ok, have := sf.sk.validate(cov, typedSig{sig, ndn.SigType(t)}); have && ok {
						if vtype != "none" {
							vtype = "several"
							break
						}
						vtype = strconv.Itoa(t)
					}
				}
			}()
			line("SFACT %s %d %d %d %d %d %s %s %d", sf.name, int(c.Type), est, b01(c.KeyName != nil),
				b01(c.Nonce != nil || c.SeqNum != nil || c.SigTime != nil), b01(c.NotBefore != nil || c.NotAfter != nil), sf.vname, vtype, b01(fits))
		}()
	}
}

// TestSignerFacts writes the observations alone (used by the C12 check to regenerate coq/Packet/GenSigners.v before the proofs run).
func TestSignerFacts(t *testing.T) {
	out := os.Getenv("VERIF_OUT")
	if out == "" {
		t.Skip("VERIF_OUT not set")
	}
	f, err := os.Create(out)
	if err != nil {
		t.Fatal(err)
	}
	defer f.Close()
	g := &gen{r: rand.New(rand.NewSource(1))}
	signerFacts(g, func(format string, a ...any) { fmt.Fprintf(f, format+"\n", a...) })
}

// Public-API round trip: what went into MakeData / MakeInterest comes out of the accessors of ndn.Data / ndn.Interest /
// ndn.Signature of the decoded packet (the raw decoded fields are compared with the model elsewhere; the accessors are
// what applications call: Name(), FinalBlockID(), Validity(), ...).
func optStr[T any](p *T, f func(T) string) string {
	if p == nil {
		return "nil"
	}
	return f(*p)
}

func (t *tracer) apiData(nm enc.Name, cfg *ndn.DataConfig, content enc.Wire, rec *recSigner, wf bool, b []byte) {
	d, _, err := spec.Spec{}.ReadData(enc.NewBufferReader(append([]byte{}, b...)))
	if err != nil {
		return // reported by the round-trip lines
	}
	t.line("SAME api-data-Name %s %s", nameStr(d.Name()), nameStr(nm))
	t.line("SAME api-data-ContentType %s %s", optStr(d.ContentType(), func(x ndn.ContentType) string { return strconv.FormatUint(uint64(x), 10) }),
		optStr(cfg.ContentType, func(x ndn.ContentType) string { return strconv.FormatUint(uint64(x), 10) }))
	if wf {
		t.line("SAME api-data-Freshness %s %s", durOpt(d.Freshness()), durOpt(cfg.Freshness))
	}
	cs := func(c enc.Component) string { return strconv.FormatUint(uint64(c.Typ), 10) + ":" + hex.EncodeToString(c.Val) }
	t.line("SAME api-data-FinalBlockID %s %s", optStr(d.FinalBlockID(), cs), optStr(cfg.FinalBlockID, cs))
	t.line("SAME api-data-Content %s %s", hx(join(d.Content())), hx(join(content)))
	if rec == nil || !rec.signed || rec.cfg == nil {
		return
	}
	sig := d.Signature()
	t.line("SAME api-data-SigType %d %d", int(sig.SigType()), int(rec.cfg.Type))
	t.line("SAME api-data-KeyName %s %s", nameOpt(sig.KeyName()), nameOpt(rec.cfg.KeyName))
	t.line("SAME api-data-SigValue %s %s", hx(sig.SigValue()), hx(rec.sig))
	if rec.cfg.NotBefore != nil && rec.cfg.NotAfter != nil {
		nb, na := sig.Validity()
		us := func(x time.Time) string { return strconv.FormatInt(x.Unix(), 10) }
		t.line("SAME api-data-Validity %s/%s %s/%s", optStr(nb, us), optStr(na, us), us(*rec.cfg.NotBefore), us(*rec.cfg.NotAfter))
	}
}

func (t *tracer) apiInt(final enc.Name, cfg *ndn.InterestConfig, app enc.Wire, rec *recSigner, wf bool, b []byte) {
	i, _, err := spec.Spec{}.ReadInterest(enc.NewBufferReader(append([]byte{}, b...)))
	if err != nil {
		return
	}
	u := func(x uint64) string { return strconv.FormatUint(x, 10) }
	t.line("SAME api-int-Name %s %s", nameStr(i.Name()), nameStr(final))
	t.line("SAME api-int-CanBePrefix/MustBeFresh %v/%v %v/%v", i.CanBePrefix(), i.MustBeFresh(), cfg.CanBePrefix, cfg.MustBeFresh)
	hs := func(ns []enc.Name) string {
		if len(ns) == 0 { // the accessor cannot tell an empty ForwardingHint element from an absent one (nil and empty slice)
			return "[]"
		}
		parts := make([]string, len(ns))
		for k, n := range ns {
			parts[k] = nameStr(n)
		}
		return "[" + strings.Join(parts, "+") + "]"
	}
	t.line("SAME api-int-ForwardingHint %s %s", hs(i.ForwardingHint()), hs(cfg.ForwardingHint))
	t.line("SAME api-int-Nonce %s %s", optStr(i.Nonce(), u), optStr(cfg.Nonce, func(x uint64) string { return u(x & 0xffffffff) }))
	if wf {
		t.line("SAME api-int-Lifetime %s %s", durOpt(i.Lifetime()), durOpt(cfg.Lifetime))
	}
	t.line("SAME api-int-HopLimit %s %s", optStr(i.HopLimit(), func(x uint) string { return u(uint64(x)) }), optStr(cfg.HopLimit, func(x uint) string { return u(uint64(x & 0xff)) }))
	ap := func(w enc.Wire) string {
		if w == nil {
			return "nil"
		}
		return hx(join(w))
	}
	t.line("SAME api-int-AppParam %s %s", ap(i.AppParam()), ap(app))
	if rec == nil || !rec.signed || rec.cfg == nil {
		return
	}
	sig := i.Signature()
	c := rec.cfg
	t.line("SAME api-int-SigType %d %d", int(sig.SigType()), int(c.Type))
	if c.Type != ndn.SignatureDigestSha256 {
		t.line("SAME api-int-KeyName %s %s", nameOpt(sig.KeyName()), nameOpt(c.KeyName))
	}
	t.line("SAME api-int-SigNonce %s %s", hxOpt(sig.SigNonce()), hxOpt(c.Nonce))
	t.line("SAME api-int-SigSeqNum %s %s", optStr(sig.SigSeqNum(), u), optStr(c.SeqNum, u))
	ms := func(x time.Time) string { return strconv.FormatInt(x.UnixMilli(), 10) }
	t.line("SAME api-int-SigTime %s %s", optStr(sig.SigTime(), ms), optStr(c.SigTime, ms))
	t.line("SAME api-int-SigValue %s %s", hx(sig.SigValue()), hx(rec.sig))
}

func (t *tracer) intCase(g *gen, id int) {
	sp := spec.Spec{}
	nm := g.name()
	wf := true
	cfg := &ndn.InterestConfig{CanBePrefix: g.r.Intn(2) == 0, MustBeFresh: g.r.Intn(2) == 0}
	switch g.r.Intn(5) {
	case 0:
		cfg.ForwardingHint = []enc.Name{}
	case 1, 2:
		k := 1 + g.r.Intn(3)
		for i := 0; i < k; i++ {
			n := g.name()
			if n == nil {
				n = enc.Name{}
			}
			cfg.ForwardingHint = append(cfg.ForwardingHint, n)
		}
	}
	if g.r.Intn(2) == 0 {
		v := natBoundaries[g.r.Intn(len(natBoundaries))]
		if g.r.Intn(4) != 0 {
			v &= 0xffffffff
		}
		cfg.Nonce = &v
	}
	cfg.Lifetime = g.duration(&wf)
	if g.r.Intn(2) == 0 {
		v := uint([]uint64{0, 1, 32, 255, 256, 1000}[g.r.Intn(6)])
		if g.r.Intn(4) != 0 {
			v &= 0xff
		}
		cfg.HopLimit = &v
	}
	app := g.wire()
	if id%24 == 7 { // directed: a digest-typed component inside a name that gets no parameters (MakeInterest refuses it)
		app = nil
		nm = enc.Name{g.comp(), enc.Component{Typ: enc.TypeParametersSha256DigestComponent, Val: g.rbytes(32)}, g.comp()}
		if g.r.Intn(2) == 0 {
			nm = append(nm, g.comp())
		}
	}
	sk := g.signer(true)
	if app == nil && g.r.Intn(3) != 0 {
		sk = &signerKind{kind: "none"}
	}
	if f := g.forced; f != nil {
		nm, cfg, app, sk, wf = f.nm, f.icfg, f.payload, f.sk, true
	}
	var rec *recSigner
	var signer ndn.Signer
	if sk.signer != nil {
		rec = &recSigner{inner: sk.signer}
		signer = rec
	}
	t.names(nm)
	fh := "nil"
	if cfg.ForwardingHint != nil {
		if len(cfg.ForwardingHint) == 0 {
			fh = "e"
		} else {
			parts := make([]string, len(cfg.ForwardingHint))
			for k, n := range cfg.ForwardingHint {
				parts[k] = nameStr(n)
			}
			fh = strings.Join(parts, "+")
		}
	}
	hop := "nil"
	if cfg.HopLimit != nil {
		hop = strconv.FormatUint(uint64(*cfg.HopLimit), 10)
	}
	b01 := func(b bool) string {
		if b {
			return "1"
		}
		return "0"
	}
	inName := nameStr(nm) // MakeInterest may append to the caller's slice: print the input first
	nmArg := append(enc.Name{}, nm...)
	var res *ndn.EncodedInterest
	var err error
	impl := ""
	func() {
		defer func() {
			if e := recover(); e != nil {
				impl = "panic"
			}
		}()
		res, err = sp.MakeInterest(nmArg, cfg, app, signer)
	}()
	pick := "nil"
	if rec != nil && rec.signed && rec.sigErr == nil {
		pick = hx(rec.sig)
	}
	if impl == "" {
		if err != nil {
			impl = "err"
		} else {
			impl = fmt.Sprintf("ok segs=%s cov=%s final=%s", wireStr(res.Wire), hx(join(res.SigCovered)), nameStr(res.FinalName))
		}
	}
	t.line("MKINT %s %s %s %s %s %s %s %s %s %s => %s", inName, b01(cfg.CanBePrefix), b01(cfg.MustBeFresh), fh, u64Opt(cfg.Nonce),
		durOpt(cfg.Lifetime), hop, wireStr(app), signerSpec(rec), pick, impl)
	t.stats["mkint-"+sk.kind]++
	if impl == "err" || impl == "panic" {
		t.stats["mkint-"+impl]++
		return
	}
	b := join(res.Wire)
	t.apiInt(res.FinalName, cfg, app, rec, wf, b)
	wv := "0"
	if walkPacket(b) {
		wv = "1"
	}
	t.line("WALK %s %s", hx(b), wv)
	if rec != nil && rec.signed {
		t.line("SAME handed-to-signer=SigCovered %s %s", hx(rec.handed), hx(join(res.SigCovered)))
	}
	if app != nil && len(res.FinalName) > 0 {
		t.line("DIGEST %s %s", hx(b), hx(res.FinalName[len(res.FinalName)-1].Val))
	}
	t.resegment(g, "int", res.Wire, wf)
	if id%24 == 19 || id%24 == 7 {
		t.nilHint(g, nm)
	}
	if app != nil && id%6 == 3 && len(res.FinalName) > 0 {
		t.finalNameReuse(g, res.FinalName)
	}
	// regions of the encoded Interest: name (signed part), digest component, parameters .. end
	obs, sig, cov, _ := decode("int", enc.NewBufferReader(b))
	if obs == "err" || obs == "panic" || sig == nil || app == nil {
		return
	}
	_, n1, _ := readVar(b)
	_, n2, _ := readVar(b[n1:])
	_, m1, _ := readVar(b[n1+n2:])
	nl, m2, _ := readVar(b[n1+n2+m1:])
	nameStart := n1 + n2 + m1 + m2
	nameEnd := nameStart + int(nl)
	digestStart := nameEnd - 34
	// parameters start: first element of type 36 after the name
	off := nameEnd
	for off < len(b) {
		ty, a1, ok := readVar(b[off:])
		if !ok {
			return
		}
		if ty == 36 {
			break
		}
		l, a2, ok := readVar(b[off+a1:])
		if !ok {
			return
		}
		off += a1 + a2 + int(l)
	}
	paramStart := off
	signed := rec != nil && rec.signed
	if signed {
		if ok, have := sk.validate(cov, sig); have {
			v := "0"
			if ok {
				v = "1"
			}
			t.line("VALID %s %s %s %d %s %s", sk.kind, hx(sk.key), hx(join(cov)), int(sig.SigType()), hx(sig.SigValue()), v)
			t.stats["valid-"+sk.kind]++
		} else {
			signed = false
		}
	}
	sv := sig.SigValue()
	sigTL := 0
	if signed {
		sigTL = len(sv) + 2
	}
	t.tamperSweep(g, id, "int", b, sk, func(o int) string {
		switch {
		case o < nameStart:
			return ""
		case o < digestStart:
			if signed {
				return "signed"
			}
			return ""
		case o < nameEnd:
			return "digest"
		case o < paramStart:
			return ""
		case signed && o >= len(b)-sigTL && o < len(b)-len(sv):
			return "" // T and L octets of SignatureValue: inside the digest, outside the signed portion
		default:
			return "params"
		}
	})
}

func TestTrace(t *testing.T) {
	seed, _ := strconv.ParseInt(os.Getenv("VERIF_SEED"), 10, 64)
	if seed == 0 {
		seed = 1
	}
	n, _ := strconv.Atoi(os.Getenv("VERIF_N"))
	if n == 0 {
		n = 50
	}
	out := os.Getenv("VERIF_OUT")
	if out == "" {
		out = "/dev/stdout"
	}
	f, err := os.Create(out)
	if err != nil {
		t.Fatal(err)
	}
	defer f.Close()
	w := bufio.NewWriterSize(f, 1<<20)
	defer w.Flush()
	tr := &tracer{w: w, quick: os.Getenv("VERIF_TIER") != "thorough", stats: map[string]int{}, tamper: map[string]int{}}
	g := &gen{r: rand.New(rand.NewSource(seed))}
	// facts of the shipped signers, observed on the live objects (also produced alone by TestSignerFacts)
	signerFacts(g, tr.line)
	// corpus first: "RD <what> <B|W> <segs> ..." lines are re-executed as they are, "SEED <seed> <n>" re-generates n cases
	if dir := os.Getenv("VERIF_CORPUS"); dir != "" {
		ents, _ := os.ReadDir(dir)
		for _, e := range ents {
			data, err := os.ReadFile(dir + "/" + e.Name())
			if err != nil {
				continue
			}
			tr.line("# corpus %s", e.Name())
			for _, l := range strings.Split(string(data), "\n") {
				f := strings.Fields(l)
				if len(f) >= 4 && f[0] == "RD" {
					tr.rd(f[1], f[2], parseWire(f[3], f[2]), false)
				} else if len(f) == 3 && f[0] == "SEED" {
					s2, _ := strconv.ParseInt(f[1], 10, 64)
					k, _ := strconv.Atoi(f[2])
					g2 := &gen{r: rand.New(rand.NewSource(s2))}
					for i := 0; i < k; i++ {
						tr.line("# case c%d", i)
						if i%2 == 0 {
							tr.dataCase(g2, 100000+i)
						} else {
							tr.intCase(g2, 100000+i)
						}
					}
				}
			}
		}
	}
	for i := 0; i < n; i++ {
		g.big = i%97 == 13
		g.bigLeft = 1
		tr.line("# case %d", i)
		time.Local = zones[(i/2)%len(zones)] // the shipped signers call time.Now(): the process zone must not matter
		if i%2 == 0 {
			tr.dataCase(g, i)
		} else {
			tr.intCase(g, i)
		}
		if i%30 == 17 {
			tr.line("# case %d reuse", i)
			tr.reuseCase(g, i/30)
		}
		if i%30 == 5 {
			tr.boundaryCases(g, i/30)
		}
		if i%40 == 23 {
			tr.line("# case %d engine receive path", i)
			tr.engineCase(g, i/40)
		}
		if i%20 == 9 {
			tr.line("# case %d decode sequence", i)
			tr.seqCase(g, i/20)
		}
	}
	for k, v := range tr.stats {
		tr.line("# stat %s %d", k, v)
	}
	for k, v := range tr.tamper {
		tr.line("# tamper %s %d", k, v)
	}
}
