// Engine-level part of C12: the receive path of the real basic.Engine is where applications obtain SigCovered.
// Signed Data and Interests are delivered to an engine — bare and LP-wrapped (PIT token / congestion mark / incoming
// face id) — over the dummy face (synchronous) and over a real StreamFace on a unix socket; the Express callback and the
// Interest handler only RECORD what they are given.  After the last packet has arrived, every recorded SigCovered is
// compared with the bytes the signer was asked to sign (snapshot taken at signing time) and the matching validator is run
// on the recorded objects.  Nothing is read or validated while later packets are still arriving.
package packet

import (
	"net"
	"os"
	"path/filepath"
	"sync"
	"time"

	enc "github.com/named-data/ndnd/std/encoding"
	"github.com/named-data/ndnd/std/engine/basic"
	"github.com/named-data/ndnd/std/engine/dummy"
	"github.com/named-data/ndnd/std/engine/face"
	"github.com/named-data/ndnd/std/ndn"
	spec "github.com/named-data/ndnd/std/ndn/spec_2022"
	sec "github.com/named-data/ndnd/std/security"
)

type engItem struct {
	kind   string // data | int
	wrap   string // bare | lp-token | lp-full
	sk     *signerKind
	handed []byte
	bytes  []byte // what is put on the face
	got    bool
	cov    enc.Wire
	sig    ndn.Signature
}

func lpWrap(inner enc.Wire, mode string, g *gen) []byte {
	if mode == "bare" {
		return join(inner)
	}
	lp := &spec.LpPacket{PitToken: g.rbytes(4 + g.r.Intn(5)), Fragment: inner}
	if mode == "lp-full" {
		cm, fid := uint64(1), uint64(300+g.r.Intn(1000))
		lp.CongestionMark, lp.IncomingFaceId = &cm, &fid
	}
	pkt := &spec.Packet{LpPacket: lp}
	e := spec.PacketEncoder{}
	e.Init(pkt)
	return join(e.Encode(pkt))
}

func (t *tracer) engineCase(g *gen, round int) {
	initKeys()
	sp := spec.Spec{}
	faceKind := []string{"dummy", "stream"}[round%2]
	kn := enc.Name{enc.NewStringComponent(8, "k")}
	passAll := func(enc.Name, enc.Wire, ndn.Signature) bool { return true }

	var mu sync.Mutex
	var items []*engItem
	byName := map[string]*engItem{}

	// the engine and its face
	var sentMu sync.Mutex
	var sentBytes []byte // everything the engine's stream face wrote, in order
	var streamFace *face.StreamFace
	awaitDelivery := func() {} // dummy face: FeedPacket delivers synchronously
	var eng *basic.Engine
	var feed func([]byte) error
	var cleanup func()
	switch faceKind {
	case "dummy":
		df := dummy.NewDummyFace()
		tm := dummy.NewTimer()
		eng = basic.NewEngine(df, tm, sec.NewSha256IntSigner(tm), passAll)
		if eng == nil || eng.Start() != nil {
			t.line("SAME engine-dummy-starts failed ok")
			return
		}
		feed = func(b []byte) error { return df.FeedPacket(append([]byte{}, b...)) }
		cleanup = func() { _ = eng.Stop() }
	default:
		dir, err := os.MkdirTemp("", "packet-eng-")
		if err != nil {
			return
		}
		path := filepath.Join(dir, "s")
		ln, err := net.Listen("unix", path)
		if err != nil {
			os.RemoveAll(dir)
			return
		}
		sf := face.NewStreamFace("unix", path, true)
		tm := dummy.NewTimer() // no real timers: nothing of this case runs after it returns
		eng = basic.NewEngine(sf, tm, sec.NewSha256IntSigner(tm), passAll)
		var conn net.Conn
		acc := make(chan net.Conn, 1)
		go func() {
			c, err := ln.Accept()
			if err == nil {
				acc <- c
			}
		}()
		if eng == nil || eng.Start() != nil {
			ln.Close()
			os.RemoveAll(dir)
			t.line("SAME engine-stream-starts failed ok")
			return
		}
		conn = <-acc // Start() returned: the dial succeeded, so Accept returns; no wall-clock limit (the test timeout is the watchdog)
		collectorDone := make(chan struct{})
		go func() { // collect what the engine's face sends (the expressed Interests, then the concurrent senders' packets)
			defer close(collectorDone)
			buf := make([]byte, 65536)
			for {
				n, err := conn.Read(buf)
				sentMu.Lock()
				sentBytes = append(sentBytes, buf[:n]...)
				sentMu.Unlock()
				if err != nil {
					return
				}
			}
		}()
		feed = func(b []byte) error { _, err := conn.Write(b); return err }
		streamFace = sf
		// event-driven end of delivery: close our write side; the face's receive loop reads to EOF (every packet before it has
		// been handed to the engine synchronously) and stops — only then is anything called missing
		awaitDelivery = func() {
			if uc, ok := conn.(*net.UnixConn); ok {
				_ = uc.CloseWrite()
			}
			for sf.IsRunning() {
				time.Sleep(time.Millisecond) // yields; the loop ends on a state change, not on a clock
			}
		}
		cleanup = func() { _ = eng.Stop(); conn.Close(); <-collectorDone; ln.Close(); os.RemoveAll(dir) }
	}
	defer cleanup()

	if streamFace != nil {
		t.concurrentSend(g, streamFace, func() []byte {
			sentMu.Lock()
			defer sentMu.Unlock()
			return append([]byte{}, sentBytes...)
		})
	}

	// Interest handler: record only
	intPrefix := enc.Name{enc.NewStringComponent(8, "eng"), enc.NewStringComponent(8, "int")}
	_ = eng.AttachHandler(intPrefix, func(a ndn.InterestHandlerArgs) {
		mu.Lock()
		defer mu.Unlock()
		nm := a.Interest.Name()
		if len(nm) < 3 {
			return
		}
		if it := byName[string(nm[:3].Bytes())]; it != nil {
			it.got, it.cov, it.sig = true, a.SigCovered, a.Interest.Signature()
		}
	})

	mkSigner := func(j int, forInt bool) *signerKind {
		key := g.hmacKey()
		switch j % 4 {
		case 0:
			if forInt {
				return &signerKind{kind: "sha256int", signer: sec.NewSha256IntSigner(fakeTimer{g})}
			}
			return &signerKind{kind: "sha256", signer: sec.NewSha256Signer()}
		case 1:
			if forInt {
				return &signerKind{kind: "hmacint", signer: sec.NewHmacIntSigner(key, fakeTimer{g}), key: key}
			}
			return &signerKind{kind: "hmac", signer: sec.NewHmacSigner(kn, key, false, time.Hour), key: key}
		case 2:
			ek := ecKeys[g.r.Intn(len(ecKeys))]
			return &signerKind{kind: "ecc", signer: sec.NewEccSigner(false, forInt, time.Hour, ek, kn), ecPub: &ek.PublicKey}
		default:
			if forInt {
				ek := ecKeys[0]
				return &signerKind{kind: "ecc", signer: sec.NewEccSigner(false, true, time.Hour, ek, kn), ecPub: &ek.PublicKey}
			}
			return &signerKind{kind: "rsa", signer: sec.NewRsaSigner(false, false, time.Hour, rsaKey, kn), rsaPub: &rsaKey.PublicKey}
		}
	}
	wraps := []string{"lp-token", "bare", "lp-full"}
	k := 3
	// signed Data, each awaited by an expressed Interest whose callback records only
	for j := 0; j < k; j++ {
		sk := mkSigner(round+j, false)
		rec := &recSigner{inner: sk.signer}
		nm := enc.Name{enc.NewStringComponent(8, "eng"), enc.NewStringComponent(8, "data"), enc.Component{Typ: 8, Val: []byte{byte('a' + j)}}}
		res, err := sp.MakeData(nm, &ndn.DataConfig{}, enc.Wire{g.rbytes(1 + g.r.Intn(20))}, rec)
		if err != nil {
			t.line("SAME engine-%s-builds failed ok", sk.kind)
			return
		}
		it := &engItem{kind: "data", wrap: wraps[(round+j)%3], sk: sk, handed: append([]byte{}, rec.handed...)}
		it.bytes = lpWrap(res.Wire, it.wrap, g)
		items = append(items, it)
		lt := 4 * time.Second
		enci, err := sp.MakeInterest(nm, &ndn.InterestConfig{Lifetime: &lt}, nil, nil)
		if err != nil {
			return
		}
		item := it
		if err := eng.Express(enci, func(a ndn.ExpressCallbackArgs) {
			mu.Lock()
			defer mu.Unlock()
			if a.Result == ndn.InterestResultData && a.Data != nil {
				item.got, item.cov, item.sig = true, a.SigCovered, a.Data.Signature()
			}
		}); err != nil {
			t.line("SAME engine-%s-express failed ok", faceKind)
			return
		}
	}
	// signed Interests for the handler
	for j := 0; j < k; j++ {
		sk := mkSigner(round+j+1, true)
		rec := &recSigner{inner: sk.signer}
		nm := append(enc.Name{}, intPrefix...)
		nm = append(nm, enc.Component{Typ: 8, Val: []byte{byte('a' + j)}})
		res, err := sp.MakeInterest(nm, &ndn.InterestConfig{}, enc.Wire{g.rbytes(1 + g.r.Intn(20))}, rec)
		if err != nil {
			t.line("SAME engine-%s-builds failed ok", sk.kind)
			return
		}
		it := &engItem{kind: "int", wrap: wraps[(round+j+1)%3], sk: sk, handed: append([]byte{}, rec.handed...)}
		it.bytes = lpWrap(res.Wire, it.wrap, g)
		items = append(items, it)
		mu.Lock()
		byName[string(nm[:3].Bytes())] = it
		mu.Unlock()
	}
	// deliver everything back to back
	for _, it := range items {
		if err := feed(it.bytes); err != nil {
			t.line("SAME engine-%s-feed failed ok", faceKind)
			return
		}
	}
	// all bytes are written; wait for the face to have consumed them all (EOF), without a clock deciding anything
	awaitDelivery()
	// only now: look at what was recorded
	mu.Lock()
	defer mu.Unlock()
	for n, it := range items {
		tag := "engine-" + faceKind + "-" + it.wrap + "-" + it.kind + "-" + it.sk.kind
		if !it.got {
			t.line("SAME %s-packet-%d-delivered missing delivered", tag, n)
			continue
		}
		t.line("SAME %s-packet-%d-sigcovered=handed-to-signer %s %s", tag, n, hx(join(it.cov)), hx(it.handed))
		if it.sig == nil {
			t.line("SAME %s-packet-%d-signature missing present", tag, n)
			continue
		}
		if ok, have := it.sk.validate(it.cov, it.sig); have {
			v := "0"
			if ok {
				v = "1"
			}
			t.line("VALID %s %s %s %d %s %s", it.sk.kind, hx(it.sk.key), hx(join(it.cov)), int(it.sig.SigType()), hx(it.sig.SigValue()), v)
		}
	}
	t.stats["engine-"+faceKind]++
}

// Several goroutines send signed Data (multi-buffer wires) through ONE StreamFace at the same time; the peer frames the
// byte stream into TLV blocks.  Every packet sent must arrive as one intact block that decodes and validates, and nothing
// else of type Data may arrive.  The wait ends when the number of octets sent has been received (no wall-clock limit).
func (t *tracer) concurrentSend(g *gen, sf *face.StreamFace, received func() []byte) {
	sp := spec.Spec{}
	kn := enc.Name{enc.NewStringComponent(8, "k")}
	const senders, each = 3, 12
	type sent struct {
		wire  enc.Wire
		bytes []byte
		sk    *signerKind
	}
	var all [senders][]sent
	total := 0
	for sIdx := 0; sIdx < senders; sIdx++ {
		for k := 0; k < each; k++ {
			key := g.hmacKey()
			var sk *signerKind
			switch (sIdx + k) % 3 {
			case 0:
				sk = &signerKind{kind: "sha256", signer: sec.NewSha256Signer()}
			case 1:
				sk = &signerKind{kind: "hmac", signer: sec.NewHmacSigner(kn, key, false, time.Hour), key: key}
			default:
				ek := ecKeys[0]
				sk = &signerKind{kind: "ecc", signer: sec.NewEccSigner(false, false, time.Hour, ek, kn), ecPub: &ek.PublicKey}
			}
			nm := enc.Name{enc.NewStringComponent(8, "eng"), enc.NewStringComponent(8, "send"), enc.Component{Typ: 8, Val: []byte{byte('a' + sIdx), byte('a' + k)}}}
			res, err := sp.MakeData(nm, &ndn.DataConfig{}, enc.Wire{g.rbytes(1 + g.r.Intn(30)), g.rbytes(1 + g.r.Intn(30))}, sk.signer)
			if err != nil {
				t.line("SAME engine-stream-concurrent-send-builds failed ok")
				return
			}
			all[sIdx] = append(all[sIdx], sent{res.Wire, join(res.Wire), sk})
			total += len(join(res.Wire))
		}
	}
	before := len(received())
	var wg sync.WaitGroup
	start := make(chan struct{})
	errs := make(chan error, senders*each)
	for sIdx := 0; sIdx < senders; sIdx++ {
		wg.Add(1)
		go func(list []sent) {
			defer wg.Done()
			<-start
			for _, p := range list {
				if err := sf.Send(p.wire); err != nil {
					errs <- err
				}
			}
		}(all[sIdx])
	}
	close(start)
	wg.Wait()
	close(errs)
	for range errs {
		t.line("SAME engine-stream-concurrent-send-accepted refused accepted")
		return
	}
	// every Send has returned: all octets are in the socket; wait for the collector to have read them all (a count of
	// octets, not a clock, ends the wait — octets cannot get lost on a unix socket, only mixed up)
	for len(received())-before < total {
		time.Sleep(time.Millisecond)
	}
	// frame what arrived after `before`
	stream := received()[before:]
	blocks := map[string]int{}
	var order [][]byte
	for off := 0; off < len(stream); {
		_, n1, ok1 := readVar(stream[off:])
		if !ok1 {
			break
		}
		l, n2, ok2 := readVar(stream[off+n1:])
		if !ok2 || off+n1+n2+int(l) > len(stream) || l > 1<<20 {
			break
		}
		blk := stream[off : off+n1+n2+int(l)]
		blocks[string(blk)]++
		order = append(order, blk)
		off += n1 + n2 + int(l)
	}
	for sIdx := range all {
		for k, p := range all[sIdx] {
			got := "missing-or-damaged"
			if blocks[string(p.bytes)] > 0 {
				blocks[string(p.bytes)]--
				got = "intact"
			}
			t.line("SAME engine-stream-concurrent-send-sender-%d-packet-%d-%s-arrives %s intact", sIdx, k, p.sk.kind, got)
			if got != "intact" {
				continue
			}
			obs, sig, cov, _ := decode("data", enc.NewBufferReader(append([]byte{}, p.bytes...)))
			if obs == "err" || obs == "panic" || sig == nil {
				continue
			}
			if ok, have := p.sk.validate(cov, sig); have {
				v := "0"
				if ok {
					v = "1"
				}
				t.line("VALID %s %s %s %d %s %s", p.sk.kind, hx(p.sk.key), hx(join(cov)), int(sig.SigType()), hx(sig.SigValue()), v)
			}
		}
	}
	extra := 0
	for _, n := range blocks {
		extra += n
	}
	t.line("SAME engine-stream-concurrent-send-blocks-never-sent %d 0", extra)
	t.line("SAME engine-stream-concurrent-send-octets-received %d %d", len(stream), total)
	t.stats["engine-concurrent-send"]++
}
